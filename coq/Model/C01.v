(* C01 — Dialing by public key authenticates the remote endpoint.
   Executable model, definitions only.

   iroh/src/tls/name.rs        encode / decode                       (name_encode, name_decode)
   iroh/src/tls/verifier.rs    ServerCertificateVerifier,            (verify_server_cert, tls13_sig,
                               ClientCertificateVerifier,             verify_client_cert, tls12_sig)
                               Ed25519Dalek::verify_signature         (ed25519_verify_signature)
   iroh/src/tls/resolver.rs    ResolveRawPublicKeyCert::new           (own_certs)
   iroh/src/endpoint/connection.rs  remote_id_from_noq_conn           (remote_id_of_certs)
   iroh/src/endpoint.rs:1150   server name = name::encode(endpoint_id)  (client_accepts)
   rustls 0.23 webpki/verify.rs  verify_tls13_signature_with_raw_key,
   rustls-webpki 0.103 der.rs / signed_data.rs / rpk_entity.rs        (read_tlv, spki_inner, raw_public_key_entity)
   rustls crypto/signer.rs     public_key_to_spki                     (spki_of_key)

   The two cryptographic primitives are Section variables:
     is_point k      = CompressedEdwardsY(k).decompress().is_some()   (k : 32 bytes)
     verify k m s    = VerifyingKey::verify_strict(m, s).is_ok()      (k a point, s : 64 bytes)
   For the correspondence check they are instantiated by finite tables that the
   harness fills with the answers of the real ed25519-dalek for the keys /
   (key, message, signature) triples occurring in the case. *)
From V Require Import Lib.Base Lib.BaseN.
Open Scope N_scope.

Module C01.

(* ------------------------------------------------------------------ *)
(* data_encoding::BASE32_DNSSEC: symbols 0-9a-v, translate A-V -> a-v, no padding,
   most significant bit first, trailing bits checked. *)
Definition BASE32_DNSSEC : codec :=
  mkCodec 5 (str_bytes "0123456789abcdefghijklmnopqrstuv") true.

(* the decoder's translation table: 'A'..'V' (65..86) are read as 'a'..'v' *)
Definition fold_sym (ch : N) : N := if (65 <=? ch) && (ch <=? 86) then ch + 32 else ch.

Definition b32_encode (bs : bytes) : bytes := encode BASE32_DNSSEC bs.
Definition b32_decode (s : bytes) : res bytes := decode BASE32_DNSSEC (map fold_sym s).

Definition DOT : N := 46.
Definition IROH : bytes := str_bytes "iroh".
Definition INVALID : bytes := str_bytes "invalid".
Definition SUFFIX : bytes := str_bytes ".iroh.invalid".

(* str::split("."): the pieces between dots; never the empty list *)
Fixpoint split_dot (s : bytes) : list bytes :=
  match s with
  | [] => [[]]
  | c :: r =>
      if c =? DOT then [] :: split_dot r
      else match split_dot r with
           | h :: t => (c :: h) :: t
           | [] => [[c]]
           end
  end.

(* ------------------------------------------------------------------ *)
(* DER as rustls / webpki write and read it *)

(* rustls x509::asn1_wrap (short form up to 127, else 0x80|n length bytes) *)
Definition der_wrap (tag : N) (body : bytes) : bytes :=
  let n := len body in
  if n <=? 127 then tag :: n :: body
  else if n <=? 255 then tag :: 129 :: n :: body
  else tag :: 130 :: (n / 256) mod 256 :: n mod 256 :: body.

(* webpki_types::alg_id::ED25519 : OID 1.3.101.112, no parameters *)
Definition ED25519_ALG_ID : bytes := [6; 3; 43; 101; 112].

(* rustls::sign::public_key_to_spki(&alg_id::ED25519, key) *)
Definition spki_of_key (k : bytes) : bytes :=
  der_wrap 48 (der_wrap 48 ED25519_ALG_ID ++ der_wrap 3 (0 :: k)).

(* what that is for a 32-byte key: a constant 12-byte prefix, then the key *)
Definition SPKI_PREFIX : bytes := [48; 42; 48; 5; 6; 3; 43; 101; 112; 3; 33; 0].

(* webpki der::read_tag_and_get_value_limited(input, TWO_BYTE_DER_SIZE = 0xffff):
   (tag, value, rest) *)
Definition take_value (tag length : N) (r : bytes) : option (N * bytes * bytes) :=
  if 65535 <=? length then None
  else if len r <? length then None
  else Some (tag, firstn (N.to_nat length) r, skipn (N.to_nat length) r).

Definition read_tlv (l : bytes) : option (N * bytes * bytes) :=
  match l with
  | tag :: n :: r =>
      if N.land tag 31 =? 31 then None                       (* high tag number form *)
      else if N.land n 128 =? 0 then take_value tag n r      (* short form *)
      else if n =? 129 then
        match r with
        | b :: r' => if b <? 128 then None else take_value tag b r'
        | _ => None
        end
      else if n =? 130 then
        match r with
        | b1 :: b2 :: r' =>
            let c := b1 * 256 + b2 in if c <=? 255 then None else take_value tag c r'
        | _ => None
        end
      else if n =? 131 then
        match r with
        | b1 :: b2 :: b3 :: r' =>
            let c := b1 * 65536 + b2 * 256 + b3 in
            if c <=? 65535 then None else take_value tag c r'
        | _ => None
        end
      else if n =? 132 then
        match r with
        | b1 :: b2 :: b3 :: b4 :: r' =>
            let c := b1 * 16777216 + b2 * 65536 + b3 * 256 + b4 in
            if c <=? 16777215 then None else take_value tag c r'
        | _ => None
        end
      else None
  | _ => None
  end.

(* der::expect_tag *)
Definition expect_tag (t : N) (l : bytes) : option (bytes * bytes) :=
  match read_tlv l with
  | Some (tag, v, r) => if tag =? t then Some (v, r) else None
  | None => None
  end.

(* der::read_all::<SubjectPublicKeyInfo>: SEQUENCE algorithm, BIT STRING with no
   unused bits, nothing after: (algorithm id value, key value) *)
Definition spki_inner (v : bytes) : option (bytes * bytes) :=
  match expect_tag 48 v with
  | Some (alg, r) =>
      match expect_tag 3 r with
      | Some (0 :: key, []) => Some (alg, key)
      | _ => None
      end
  | None => None
  end.

(* webpki RawPublicKeyEntity::try_from: outer SEQUENCE, nothing after, inner parses *)
Definition raw_public_key_entity (cert : bytes) : option bytes :=
  match expect_tag 48 cert with
  | Some (v, []) => match spki_inner v with Some _ => Some v | None => None end
  | _ => None
  end.

(* ------------------------------------------------------------------ *)
(* verdict codes (rustls::Error values the verifiers can return) *)
Definition V_OK : N := 0.
Definition V_NAME_TYPE : N := 1.      (* UnsupportedNameType *)
Definition V_NOT_FOR_NAME : N := 2.   (* InvalidCertificate(NotValidForName) *)
Definition V_UNKNOWN_ISSUER : N := 3. (* InvalidCertificate(UnknownIssuer) *)
Definition V_TLS12 : N := 4.          (* PeerIncompatible(Tls12NotOffered) *)
Definition V_SCHEME : N := 5.         (* PeerMisbehaved(SignedHandshakeWithUnadvertisedSigScheme) *)
Definition V_ENCODING : N := 6.       (* InvalidCertificate(BadEncoding) *)
Definition V_ALG : N := 7.            (* InvalidCertificate(UnsupportedSignatureAlgorithmForPublicKeyContext) *)
Definition V_SIGNATURE : N := 8.      (* InvalidCertificate(BadSignature) *)
Definition V_NO_NAME : N := 9.        (* the string is no rustls ServerName: verifier not reached *)

Definition SCHEME_ED25519 : N := 2055.  (* 0x0807 *)

(* rustls SignatureScheme::supported_in_tls13: hash byte not NONE/MD5/SHA1/SHA224,
   signature byte not Anonymous/RSA/DSA *)
Definition scheme_tls13 (s : N) : bool :=
  let hash := s / 256 in
  let sign := s mod 256 in
  negb (hash <=? 3) && negb (sign <=? 2).

(* the name handed to the verifier: rustls ServerName *)
Inductive sname :=
| SnDns (s : bytes)   (* ServerName::DnsName, the string as written *)
| SnIp                (* ServerName::IpAddress *)
| SnNone.             (* not a ServerName (rejected by ServerName::try_from) *)

(* what one side presents in the handshake: Certificate + CertificateVerify *)
Record hs := mkHs {
  ee : bytes;             (* end-entity "certificate" bytes *)
  inters : list bytes;    (* further certificates of the chain *)
  scheme : N;             (* CertificateVerify.algorithm *)
  msg : bytes;            (* the transcript message rustls built *)
  sg : bytes             (* CertificateVerify.signature *)
}.

Section Crypto.
Variable is_point : bytes -> bool.
Variable verify : bytes -> bytes -> bytes -> bool.

(* tls::name::encode *)
Definition name_encode (k : bytes) : bytes := b32_encode k ++ SUFFIX.

(* tls::name::decode: exactly [label; "iroh"; "invalid"], label decodes to 32 bytes,
   EndpointId::from_bytes (a curve point; the bytes are kept as given) *)
Definition name_decode (s : bytes) : option bytes :=
  match split_dot s with
  | [l; a; b] =>
      if bytes_eqb a IROH && bytes_eqb b INVALID then
        match b32_decode l with
        | Ok k => if (len k =? 32) && is_point k then Some k else None
        | _ => None
        end
      else None
  | _ => None
  end.

(* ServerCertificateVerifier::verify_server_cert (verifier.rs:33-78) *)
Definition verify_server_cert (e : bytes) (ins : list bytes) (sn : sname) : N :=
  match sn with
  | SnNone => V_NO_NAME
  | SnIp => V_NAME_TYPE
  | SnDns s =>
      match name_decode s with
      | None => V_NOT_FOR_NAME
      | Some k =>
          match ins with
          | _ :: _ => V_UNKNOWN_ISSUER
          | [] => if bytes_eqb (spki_of_key k) e then V_OK else V_UNKNOWN_ISSUER
          end
      end
  end.

(* ClientCertificateVerifier::verify_client_cert (verifier.rs:131-146) *)
Definition verify_client_cert (e : bytes) (ins : list bytes) : N :=
  match ins with
  | _ :: _ => V_UNKNOWN_ISSUER
  | [] => V_OK
  end.

(* both verify_tls12_signature *)
Definition tls12_sig (cert : bytes) (sch : N) (m s : bytes) : N := V_TLS12.

(* Ed25519Dalek::verify_signature (verifier.rs:188-201):
   PublicKey::try_from(&[u8]), Signature::try_from(&[u8]), verify_strict *)
Definition ed25519_verify_signature (key m s : bytes) : bool :=
  (len key =? 32) && is_point key && (len s =? 64) && verify key m s.

(* both verify_tls13_signature = rustls verify_tls13_signature_with_raw_key
   with SUPPORTED_SIG_ALGS = { ED25519 -> Ed25519Dalek } *)
Definition tls13_sig (cert : bytes) (sch : N) (m s : bytes) : N :=
  if negb (scheme_tls13 sch) then V_SCHEME
  else
    match raw_public_key_entity cert with
    | None => V_ENCODING
    | Some v =>
        if negb (sch =? SCHEME_ED25519) then V_SCHEME       (* convert_scheme *)
        else
          match spki_inner v with                          (* signed_data::verify_signature *)
          | None => V_ENCODING
          | Some (alg, key) =>
              if negb (bytes_eqb alg ED25519_ALG_ID) then V_ALG
              else if ed25519_verify_signature key m s then V_OK else V_SIGNATURE
          end
    end.

(* ed25519-dalek VerifyingKey::from_public_key_der: a DER SubjectPublicKeyInfo with
   the Ed25519 OID, no parameters, a 32-byte bit string that is a point.  DER is
   canonical, so that is the 12 prefix bytes followed by the key. *)
Definition key_of_spki_der (c : bytes) : option bytes :=
  if (len c =? 44) && bytes_eqb (firstn 12 c) SPKI_PREFIX then
    let k := skipn 12 c in
    if is_point k then Some k else None
  else None.

(* remote_id_from_noq_conn (connection.rs:377-407) on the peer certificates *)
Definition remote_id_of_certs (cs : list bytes) : option bytes :=
  match cs with
  | [c] => key_of_spki_der c
  | _ => None
  end.

(* ResolveRawPublicKeyCert::new: the chain an endpoint with public key k presents *)
Definition own_certs (k : bytes) : list bytes := [spki_of_key k].

(* How rustls uses the callbacks (assumed, see notes): the client completes the
   handshake only if verify_server_cert and verify_tls13_signature both return Ok
   on the certificate chain and CertificateVerify it received, with the server
   name connect_with_opts passed: name::encode(endpoint_id). *)
Definition client_verdicts (K : bytes) (h : hs) : N * N :=
  (verify_server_cert (ee h) (inters h) (SnDns (name_encode K)),
   tls13_sig (ee h) (scheme h) (msg h) (sg h)).

Definition client_accepts (K : bytes) (h : hs) : bool :=
  (fst (client_verdicts K h) =? V_OK) && (snd (client_verdicts K h) =? V_OK).

Definition server_verdicts (h : hs) : N * N :=
  (verify_client_cert (ee h) (inters h),
   tls13_sig (ee h) (scheme h) (msg h) (sg h)).

Definition server_accepts (h : hs) : bool :=
  (fst (server_verdicts h) =? V_OK) && (snd (server_verdicts h) =? V_OK).

(* An honest endpoint holding Kp listens; A (holding KA) dials id K at its address.
   Honest endpoints present own_certs and a signature that verifies (assumed):
   the outcome is decided by the certificate checks. *)
Definition dial_outcome (K Kp KA : bytes) : bool * option bytes * option bytes :=
  match own_certs Kp, own_certs KA with
  | [cp], [ca] =>
      if (verify_server_cert cp [] (SnDns (name_encode K)) =? V_OK) &&
         (verify_client_cert ca [] =? V_OK)
      then (true, remote_id_of_certs [cp], remote_id_of_certs [ca])
      else (false, None, None)
  | _, _ => (false, None, None)
  end.

(* ---- operations of the correspondence check ---- *)
Inductive op :=
| OpEncode (k : bytes)
| OpDecode (s : bytes)
| OpServerCert (e : bytes) (ins : list bytes) (sn : sname)
| OpClientCert (e : bytes) (ins : list bytes)
| OpSig (checks_server tls12 : bool) (cert : bytes) (sch : N) (m s : bytes)
| OpRemoteId (cs : list bytes)
| OpOwnCerts (k : bytes)
| OpClientHs (K : bytes) (h : hs)
| OpServerHs (h : hs)
| OpDial (K Kp KA : bytes).

Inductive out :=
| OBytes (b : bytes)
| OOpt (o : option bytes)
| OCode (c : N)
| OList (l : list bytes)
| OHs (c s : N) (rid : option bytes)
| ODial (ok : bool) (ra rb : option bytes).

Definition run (o : op) : out :=
  match o with
  | OpEncode k => OBytes (name_encode k)
  | OpDecode s => OOpt (name_decode s)
  | OpServerCert e ins sn => OCode (verify_server_cert e ins sn)
  | OpClientCert e ins => OCode (verify_client_cert e ins)
  | OpSig _ true cert sch m s => OCode (tls12_sig cert sch m s)
  | OpSig _ false cert sch m s => OCode (tls13_sig cert sch m s)
  | OpRemoteId cs => OOpt (remote_id_of_certs cs)
  | OpOwnCerts k => OList (own_certs k)
  | OpClientHs K h =>
      let '(c, s) := client_verdicts K h in OHs c s (remote_id_of_certs [ee h])
  | OpServerHs h =>
      let '(c, s) := server_verdicts h in OHs c s (remote_id_of_certs [ee h])
  | OpDial K Kp KA => let '(ok, ra, rb) := dial_outcome K Kp KA in ODial ok ra rb
  end.

(* a key as the API has it: 32 bytes *)
Definition key_ok (k : bytes) : bool := (len k =? 32) && bytes_ok k.

Definition obytes_eqb (x y : option bytes) : bool := opt_eqb bytes_eqb x y.

(* The property as a boolean function of an observed output. *)
Definition monitor_op (o : op) (r : out) : bool :=
  match o, r with
  | OpEncode k, OBytes s =>
      (* the locally derived name decodes back to exactly that id *)
      if key_ok k && is_point k then obytes_eqb (name_decode s) (Some k) else true
  | OpDecode s, OOpt (Some k) =>
      (* only names <52 symbols>.iroh.invalid whose label, case-folded, is the base32 of k *)
      let l := firstn (length s - length SUFFIX) s in
      bytes_eqb s (l ++ SUFFIX) && (len l =? 52) &&
      bytes_eqb (map fold_sym l) (b32_encode k) && (len k =? 32) && is_point k
  | OpDecode _, OOpt None => true
  | OpServerCert e ins sn, OCode c =>
      if c =? V_OK then
        match sn with
        | SnDns s =>
            match name_decode s with
            | Some k => match ins with [] => bytes_eqb (spki_of_key k) e | _ => false end
            | None => false
            end
        | _ => false
        end
      else true
  | OpClientCert e ins, OCode c =>
      if c =? V_OK then match ins with [] => true | _ => false end else true
  | OpSig _ true _ _ _ _, OCode c => negb (c =? V_OK)            (* TLS 1.2 refused *)
  | OpSig _ false cert sch m s, OCode c =>
      if c =? V_OK then
        (len cert =? 44) && bytes_eqb (firstn 12 cert) SPKI_PREFIX &&
        is_point (skipn 12 cert) && verify (skipn 12 cert) m s && (sch =? SCHEME_ED25519)
      else true
  | OpRemoteId cs, OOpt (Some k) =>
      match cs with [c] => bytes_eqb c (SPKI_PREFIX ++ k) && is_point k | _ => false end
  | OpRemoteId _, OOpt None => true
  | OpOwnCerts k, OList l =>
      if key_ok k && is_point k then obytes_eqb (remote_id_of_certs l) (Some k) else true
  | OpClientHs K h, OHs c s rid =>
      if key_ok K && (c =? V_OK) && (s =? V_OK) then
        verify K (msg h) (sg h) && match inters h with [] => true | _ => false end &&
        bytes_eqb (spki_of_key K) (ee h) && obytes_eqb rid (Some K)
      else true
  | OpServerHs h, OHs c s rid =>
      if (c =? V_OK) && (s =? V_OK) then
        match rid with
        | Some k =>
            verify k (msg h) (sg h) && match inters h with [] => true | _ => false end &&
            bytes_eqb (spki_of_key k) (ee h) && (len k =? 32) && is_point k
        | None => false
        end
      else true
  | OpDial K Kp KA, ODial ok ra rb =>
      if key_ok K && key_ok Kp && key_ok KA && is_point Kp && is_point KA && ok then
        bytes_eqb K Kp && obytes_eqb ra (Some Kp) && obytes_eqb rb (Some KA)
      else true
  | _, _ => false
  end.

End Crypto.

(* ------------------------------------------------------------------ *)
(* Correspondence interface: the answers of the real primitives, as tables. *)
Record oracle := mkOracle {
  pts : list bytes;                       (* the 32-byte strings of the case that are points *)
  sigs : list (bytes * bytes * bytes)     (* the (key, message, signature) triples that verify *)
}.

Definition o_is_point (o : oracle) (k : bytes) : bool := existsb (bytes_eqb k) (pts o).
Definition o_verify (o : oracle) (k m s : bytes) : bool :=
  existsb (fun t => bytes_eqb k (fst (fst t)) && bytes_eqb m (snd (fst t)) && bytes_eqb s (snd t))
          (sigs o).

Definition input := (oracle * op)%type.
Definition output := res out.

Definition model (i : input) : output :=
  Ok (run (o_is_point (fst i)) (o_verify (fst i)) (snd i)).

Definition out_eqb (x y : out) : bool :=
  match x, y with
  | OBytes a, OBytes b => bytes_eqb a b
  | OOpt a, OOpt b => obytes_eqb a b
  | OCode a, OCode b => a =? b
  | OList a, OList b => list_eqb bytes_eqb a b
  | OHs c s r, OHs c' s' r' => (c =? c') && (s =? s') && obytes_eqb r r'
  | ODial k a b, ODial k' a' b' => Bool.eqb k k' && obytes_eqb a a' && obytes_eqb b b'
  | _, _ => false
  end.

Definition agree (i : input) (o : output) : bool := res_eqb out_eqb (model i) o.

Definition monitor (i : input) (o : output) : bool :=
  match o with
  | Ok r => monitor_op (o_is_point (fst i)) (o_verify (fst i)) (snd i) r
  | _ => false
  end.

Definition known (i : input) : N := 0.

(* Branch tags.  0 = trivial (string that is no ServerName).
   encode 1 | decode: 2 ok, 3 not three labels, 4 wrong suffix labels, 5 label not base32,
   6 decoded length <> 32, 7 not a point | server cert: 10 ok, 11 ip, 12 name undecodable,
   13 intermediates, 14 end entity differs | client cert: 15 ok, 16 intermediates |
   tls12 17 | tls13: 20 + verdict code | remote id: 30 ok, 31 not one cert, 32 rejected |
   own certs 33 | client handshake: 40 accepted, 41 cert rejected, 42 signature rejected |
   server handshake: 45 accepted, 46 cert rejected, 47 signature rejected |
   dial: 50 connected, 51 refused *)
Definition tag_decode (ip : bytes -> bool) (s : bytes) : N :=
  match split_dot s with
  | [l; a; b] =>
      if bytes_eqb a IROH && bytes_eqb b INVALID then
        match b32_decode l with
        | Ok k => if negb (len k =? 32) then 6 else if ip k then 2 else 7
        | _ => 5
        end
      else 4
  | _ => 3
  end.

Definition tag (i : input) : N :=
  let ip := o_is_point (fst i) in
  let vf := o_verify (fst i) in
  match snd i with
  | OpEncode _ => 1
  | OpDecode s => tag_decode ip s
  | OpServerCert e ins sn =>
      match sn with
      | SnNone => 0
      | SnIp => 11
      | SnDns s =>
          match name_decode ip s with
          | None => 12
          | Some k => match ins with
                      | _ :: _ => 13
                      | [] => if bytes_eqb (spki_of_key k) e then 10 else 14
                      end
          end
      end
  | OpClientCert _ ins => match ins with [] => 15 | _ => 16 end
  | OpSig _ true _ _ _ _ => 17
  | OpSig _ false cert sch m s => 20 + tls13_sig ip vf cert sch m s
  | OpRemoteId cs =>
      match cs with
      | [c] => match key_of_spki_der ip c with Some _ => 30 | None => 32 end
      | _ => 31
      end
  | OpOwnCerts _ => 33
  | OpClientHs K h =>
      let '(c, s) := client_verdicts ip vf K h in
      if negb (c =? V_OK) then 41 else if negb (s =? V_OK) then 42 else 40
  | OpServerHs h =>
      let '(c, s) := server_verdicts ip vf h in
      if negb (c =? V_OK) then 46 else if negb (s =? V_OK) then 47 else 45
  | OpDial K Kp KA => if fst (fst (dial_outcome ip K Kp KA)) then 50 else 51
  end.

Definition judge (i : input) (o : output) : bool * bool * N * N :=
  (agree i o, monitor i o, known i, tag i).

End C01.
