(* C23 — prune_non_relay_paths
   (iroh/src/socket/remote_map/remote_state/path_state.rs:254-310).
   Executable model, definitions only.

   The FxHashMap<transports::Addr, PathState> is a list of paths in the map's
   iteration order (the order `paths.iter()` yields, which fixes the order of
   `failed`, the pre-sort order of `inactive`, and hence which entries
   `truncate` and the stable sort's ties select).  The address is abstracted to
   an id (distinct per entry: keys of a map) and the `is_relay()` bit. *)
From V Require Import Lib.Base Lib.Sorting Gen.Consts.
Open Scope N_scope.

Module C23.

Inductive status : Type :=
| Open                 (* PathStatus::Open *)
| Inactive (t : N)     (* PathStatus::Inactive(closed at base + t ns) *)
| Unusable             (* PathStatus::Unusable *)
| Unknown.             (* PathStatus::Unknown *)

Record path := mkPath { pid : N; relay : bool; st : status }.

Definition mem (x : N) (l : list N) : bool := existsb (N.eqb x) l.

(* let primary_paths = paths.iter().filter(|(addr, _)| !addr.is_relay()).collect()   (l.260) *)
Definition primary (l : list path) : list path := filter (fun p => negb (relay p)) l.

(* the loop l.272-286: `inactive.push((addr, t))` / `failed.push(addr)` in iteration order *)
Definition inactive_of (l : list path) : list (N * N) :=
  flat_map (fun p => match st p with Inactive t => [(pid p, t)] | _ => [] end) l.
Definition failed_of (l : list path) : list N :=
  flat_map (fun p => match st p with Unusable => [pid p] | _ => [] end) l.

(* inactive.sort_by_key(|b| Reverse(b.1)): stable, most recently closed first.
   a is placed before b when Reverse(t a) <= Reverse(t b), i.e. t b <= t a. *)
Definition newer_first (a b : N * N) : bool := snd b <=? snd a.

(* The set `must_prune` (l.268-307), computed once pruning is triggered. *)
Definition must_prune_with (maxp maxi : N) (l : list path) : list N :=
  let prim := primary l in
  let inactive := inactive_of prim in
  let failed := failed_of prim in
  (* if failed.len() == paths.len() { failed.truncate(paths.len().saturating_sub(MAX)) }   l.291-294 *)
  let failed' := if len failed =? len l
                 then firstn (N.to_nat (len l - maxp)) failed else failed in
  (* l.297 *)
  let sorted := sort newer_first inactive in
  (* let old_inactive = inactive.split_off(inactive.len().saturating_sub(MAX_INACTIVE))   l.300-301 *)
  let old := skipn (N.to_nat (len sorted - maxi)) sorted in
  failed' ++ map fst old.

Definition prune_with (maxp maxi : N) (l : list path) : list path :=
  (* if paths.len() < MAX_NON_RELAY_PATHS { return }   l.256 *)
  if len l <? maxp then l else
  (* if primary_paths.len() < MAX_NON_RELAY_PATHS { return }   l.263 *)
  if len (primary l) <? maxp then l else
  (* paths.retain(|addr, _| !must_prune.contains(addr))   l.309 *)
  let must := must_prune_with maxp maxi l in
  filter (fun p => negb (mem (pid p) must)) l.

Definition MAXP : N := C23_MAX_NON_RELAY_PATHS.
Definition MAXI : N := C23_MAX_INACTIVE_NON_RELAY_PATHS.
Definition prune : list path -> list path := prune_with MAXP MAXI.

(* ---------------- interface ---------------- *)
Definition input := list path.            (* the map, in iteration order *)
Definition output := res (list N).        (* ids of the surviving paths, ascending *)

Definition sort_ids (l : list N) : list N := sort N.leb l.
Definition model (l : input) : output := Ok (sort_ids (map pid (prune l))).

Definition agree (i : input) (o : output) : bool := res_eqb (list_eqb N.eqb) (model i) o.

(* --- vocabulary of the property --- *)
Fixpoint nodupb (l : list N) : bool :=
  match l with [] => true | x :: r => negb (mem x r) && nodupb r end.

Definition is_unusable (p : path) : bool := match st p with Unusable => true | _ => false end.
Definition is_inactive (p : path) : bool := match st p with Inactive _ => true | _ => false end.
Definition closed_at (p : path) : N := match st p with Inactive t => t | _ => 0 end.
(* open, unknown status, or relay: must never be removed *)
Definition protected (p : path) : bool :=
  relay p || match st p with Open | Unknown => true | _ => false end.
Definition failed_nr (p : path) : bool := negb (relay p) && is_unusable p.
Definition inactive_nr (p : path) : bool := negb (relay p) && is_inactive p.

(* pruning happens: at least MAX non-relay paths *)
Definition triggered_with (maxp : N) (l : list path) : bool := maxp <=? len (primary l).
Definition triggered := triggered_with MAXP.
(* every path (relay or not) failed hole punching *)
Definition all_failed (l : list path) : bool := forallb failed_nr l.
Definition n_inactive (l : list path) : N := len (filter inactive_nr l).

(* The property's conclusion on an observed surviving id set. *)
Definition monitor_with (maxp maxi : N) (l : input) (o : output) : bool :=
  if negb (nodupb (map pid l)) then true else
  match o with
  | Ok ids =>
      let kept p := mem (pid p) ids in
      (* the survivors are paths of the input *)
      forallb (fun x => mem x (map pid l)) ids && nodupb ids &&
      (* never removes an open path, a path of unknown status, or a relay path *)
      forallb (fun p => implb (protected p) (kept p)) l &&
      (if triggered_with maxp l then
         (* every failed path goes, unless all failed: then exactly MAX stay *)
         (if all_failed l then len ids =? maxp
          else forallb (fun p => implb (failed_nr p) (negb (kept p))) l) &&
         (* of the closed paths exactly the MAX_INACTIVE most recently closed stay (all, if fewer) *)
         (len (filter kept (filter inactive_nr l)) =? N.min (n_inactive l) maxi) &&
         forallb (fun a => forallb (fun b =>
            implb (kept a && negb (kept b)) (closed_at b <=? closed_at a))
            (filter inactive_nr l)) (filter inactive_nr l)
       else
         (* below MAX non-relay paths nothing is removed *)
         forallb kept l) &&
      (* a non-empty path set is never emptied *)
      (match l with [] => true | _ => match ids with [] => false | _ => true end end)
  | _ => false
  end.
Definition monitor := monitor_with MAXP MAXI.

(* Known findings (root cause: `split_off(len - MAX_INACTIVE)` keeps len - MAX_INACTIVE closed
   paths instead of min(len, MAX_INACTIVE)).
   class 2: the path set is pruned to empty (nothing protected, not all failed, at most MAX_INACTIVE closed);
   class 1: otherwise, the number of closed paths is neither 0 nor 2*MAX_INACTIVE, so the
            wrong number of closed paths is kept. *)
Definition emptied_with (maxp maxi : N) (l : list path) : bool :=
  triggered_with maxp l && forallb (fun p => failed_nr p || inactive_nr p) l &&
  (1 <=? n_inactive l) && (n_inactive l <=? maxi).
Definition known_with (maxp maxi : N) (l : input) : N :=
  if nodupb (map pid l) && triggered_with maxp l &&
     negb (n_inactive l =? 0) && negb (n_inactive l =? 2 * maxi)
  then (if emptied_with maxp maxi l then 2 else 1) else 0.
Definition known := known_with MAXP MAXI.

(* Branch tags: 0 empty set / 1 fewer than MAX paths / 2 fewer than MAX non-relay paths /
   3 all failed / 4 no closed path / 5 closed <= MAX_INACTIVE / 6 MAX_INACTIVE < closed < 2*MAX_INACTIVE /
   7 closed = 2*MAX_INACTIVE / 8 closed > 2*MAX_INACTIVE *)
Definition tag (l : input) : N :=
  match l with
  | [] => 0
  | _ =>
    if len l <? MAXP then 1
    else if len (primary l) <? MAXP then 2
    else if all_failed l then 3
    else let k := n_inactive l in
      if k =? 0 then 4 else if k <=? MAXI then 5
      else if k <? 2 * MAXI then 6 else if k =? 2 * MAXI then 7 else 8
  end.

Definition judge (i : input) (o : output) : bool * bool * N * N :=
  (agree i o, monitor i o, known i, tag i).

End C23.
