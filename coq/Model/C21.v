(* C21 — RemoteMap / RemoteStateActor: requests across idle shutdown and restart
   (iroh/src/socket/remote_map.rs, iroh/src/socket/remote_map/remote_state.rs).
   An interleaving transition system; definitions only.

   Threads and their atomic steps (source lines of the pinned files):
   - the owner of the RemoteMap (the socket actor, sequential, `&mut self`):
       EBegin r n started   send_to_actor(r, msg n) begins (remote_map.rs:292-296):
                            `senders.get_or_insert_with(r, || start_remote_state_actor(r, vec![]))`
       EReserve ok          `sender.send(message).await` (297), first half: tokio's
                            `Sender::send` = `reserve().await` (a permit: fails iff the channel is
                            closed, waits while inbox + reserved = 16) ...
       EPush                ... second half: `permit.send(value)` pushes the message.
       EJoin r l l'         `poll_join_next` yields the finished task of r with leftover l, followed
                            (same synchronous stretch) by `remove_or_restart_actor(r, l')` (231-252):
                            l' = [] -> `senders.remove(r)`; otherwise a new actor is started with
                            initial messages l' and its sender inserted.  From `cleanup` (209-216)
                            l' = l; from the SendError loop of send_to_actor (304-314) l' = l for
                            another remote and l' = l ++ [message] for the remote being sent to.
   - one task per RemoteStateActor (remote_state.rs:239-360), named by its remote:
       EHandle r m          `handle_message`: initial_msgs first (246-248), then `inbox.recv()` (282-287)
       EBreak r             the loop is left (shutdown 277-280, watcher gone 299-303, idle 331-335)
       EClose r             `inbox.close()` (348)
       EReturn r l          `recv_many(&mut leftover, inbox.len())` and return (351-355): l = what
                            has been pushed; a reserved-but-unpushed message is not in it
   - others: EForeign r res   `try_send` through the read-only sender map
                              (Socket::try_send_remote_state_msg, socket.rs:435-444), atomic.
   - observations of the harness: EAnswered n (the oneshot of request n got Ok), EEnd.

   [mode]: AtomicSend forbids any step between EReserve true and EPush (the send is one atomic
   step — the assumption about tokio's mpsc under which the property is proved); SplitSend
   allows them (what tokio's implementation admits on a multi-thread runtime). *)
From V Require Import Lib.Base.
Open Scope N_scope.

Module C21.

Inductive msg := MReq (n : N) | MNet.

Inductive aphase := ARun | ABroke | AClosed | ADone (lf : list msg).

Record actor := mkActor { initm : list msg; inbox : list msg; ph : aphase; resv : N }.

Record rstate := mkR {
  sender : bool;          (* senders contains an entry for the remote *)
  acts   : list actor;    (* tasks of this remote in the JoinSet, oldest first *)
  hist   : list N;        (* requests handled, in order *)
  issued : list N         (* requests made, in order *)
}.

Inductive opc := OIdle | OSending (r : N) (m : msg) | OReserved (r : N) (m : msg) | OJoining (r : N) (m : msg).

Record st := mkSt {
  rs : N -> rstate;
  pc : opc;
  nextn : N;
  handled : list N;
  answered : list N
}.

Inductive ev :=
| EBegin (r n : N) (started : bool)
| EReserve (ok : bool)
| EPush
| EJoin (r : N) (l l' : list msg)
| EForeign (r res : N)
| EHandle (r : N) (m : msg)
| EBreak (r : N)
| EClose (r : N)
| EReturn (r : N) (l : list msg)
| EAnswered (n : N)
| EEnd.

Inductive mode := AtomicSend | SplitSend.

Definition CAP : N := 16.   (* mpsc::channel(16), remote_state.rs:218 *)

Definition r0 : rstate := mkR false [] [] [].
Definition init : st := mkSt (fun _ => r0) OIdle 1 [] [].

(* ---- helpers ---- *)

Definition msg_eqb (a b : msg) : bool :=
  match a, b with
  | MReq x, MReq y => x =? y
  | MNet, MNet => true
  | _, _ => false
  end.
Definition msgs_eqb : list msg -> list msg -> bool := list_eqb msg_eqb.

Definition reqs (l : list msg) : list N :=
  flat_map (fun m => match m with MReq n => [n] | MNet => [] end) l.

Definition closed (a : actor) : bool :=
  match ph a with AClosed | ADone _ => true | _ => false end.
Definition is_done (a : actor) : bool :=
  match ph a with ADone _ => true | _ => false end.

Fixpoint last_opt {A} (l : list A) : option A :=
  match l with
  | [] => None
  | [a] => Some a
  | _ :: l' => last_opt l'
  end.

Fixpoint upd_last {A} (f : A -> A) (l : list A) : list A :=
  match l with
  | [] => []
  | [a] => [f a]
  | a :: l' => a :: upd_last f l'
  end.

(* the first finished task and the rest *)
Fixpoint take_done (l : list actor) : option (list msg * list actor) :=
  match l with
  | [] => None
  | a :: l' =>
      match ph a with
      | ADone lf => Some (lf, l')
      | _ => match take_done l' with
             | Some (lf, l'') => Some (lf, a :: l'')
             | None => None
             end
      end
  end.

Definition set_r (s : st) (r : N) (x : rstate) : st :=
  mkSt (fun r' => if r' =? r then x else rs s r') (pc s) (nextn s) (handled s) (answered s).
Definition set_pc (s : st) (p : opc) : st :=
  mkSt (rs s) p (nextn s) (handled s) (answered s).
Definition set_acts (x : rstate) (l : list actor) : rstate :=
  mkR (sender x) l (hist x) (issued x).

Definition new_actor (l : list msg) : actor := mkActor l [] ARun 0.

(* start_remote_state_actor + senders.insert *)
Definition start (x : rstate) (l : list msg) : rstate :=
  mkR true (acts x ++ [new_actor l]) (hist x) (issued x).

Definition pop_msg (a : actor) : actor :=
  match initm a with
  | _ :: i' => mkActor i' (inbox a) (ph a) (resv a)
  | [] => mkActor [] (tl (inbox a)) (ph a) (resv a)
  end.
Definition next_msg (a : actor) : option msg :=
  match initm a with
  | m :: _ => Some m
  | [] => hd_error (inbox a)
  end.
Definition set_ph (p : aphase) (a : actor) : actor := mkActor (initm a) (inbox a) p (resv a).

(* ---- effects of an observed event ---- *)

Definition apply (s : st) (e : ev) : st :=
  match e with
  | EBegin r n started =>
      let x := rs s r in
      let x1 := if started then start x [] else x in
      let x2 := mkR (sender x1) (acts x1) (hist x1) (issued x1 ++ [n]) in
      mkSt (fun r' => if r' =? r then x2 else rs s r') (OSending r (MReq n)) (n + 1) (handled s) (answered s)
  | EReserve ok =>
      match pc s with
      | OSending r m =>
          if ok then
            let x := rs s r in
            set_pc (set_r s r (set_acts x (upd_last (fun a => mkActor (initm a) (inbox a) (ph a) (resv a + 1)) (acts x))))
                   (OReserved r m)
          else set_pc s (OJoining r m)
      | _ => s
      end
  | EPush =>
      match pc s with
      | OReserved r m =>
          let x := rs s r in
          set_pc (set_r s r (set_acts x (upd_last (fun a => mkActor (initm a) (inbox a ++ [m]) (ph a) (resv a - 1)) (acts x))))
                 OIdle
      | _ => s
      end
  | EJoin r l l' =>
      let x := rs s r in
      let rest := match take_done (acts x) with Some (_, rest) => rest | None => acts x end in
      let x1 := set_acts x rest in
      let x2 := match l' with
                | [] => mkR false (acts x1) (hist x1) (issued x1)
                | _ => start x1 l'
                end in
      let p := match pc s with
               | OJoining r' m => if r' =? r then OIdle else pc s
               | p => p
               end in
      set_pc (set_r s r x2) p
  | EForeign r res =>
      if res =? 0 then
        let x := rs s r in
        set_r s r (set_acts x (upd_last (fun a => mkActor (initm a) (inbox a ++ [MNet]) (ph a) (resv a)) (acts x)))
      else s
  | EHandle r m =>
      let x := rs s r in
      let x1 := set_acts x (upd_last pop_msg (acts x)) in
      match m with
      | MReq n =>
          let s1 := set_r s r (mkR (sender x1) (acts x1) (hist x1 ++ [n]) (issued x1)) in
          mkSt (rs s1) (pc s1) (nextn s1) (handled s1 ++ [n]) (answered s1)
      | MNet => set_r s r x1
      end
  | EBreak r => let x := rs s r in set_r s r (set_acts x (upd_last (set_ph ABroke) (acts x)))
  | EClose r => let x := rs s r in set_r s r (set_acts x (upd_last (set_ph AClosed) (acts x)))
  | EReturn r l =>
      let x := rs s r in
      set_r s r (set_acts x (upd_last (fun a => mkActor (initm a) [] (ADone l) (resv a)) (acts x)))
  | EAnswered n => mkSt (rs s) (pc s) (nextn s) (handled s) (answered s ++ [n])
  | EEnd => s
  end.

(* ---- enabledness ---- *)

Definition mem (n : N) (l : list N) : bool := existsb (N.eqb n) l.

Fixpoint range (from : N) (k : nat) : list N :=
  match k with O => [] | S k' => from :: range (from + 1) k' end.
(* every request made so far has been answered *)
Definition all_answered (s : st) : bool :=
  forallb (fun n => mem n (answered s)) (range 1 (N.to_nat (nextn s - 1))).

Definition live_is (s : st) (r : N) (p : actor -> bool) : bool :=
  match last_opt (acts (rs s r)) with Some a => p a | None => false end.

Definition foreign_result (s : st) (r : N) : N :=
  if negb (sender (rs s r)) then 3 else
  match last_opt (acts (rs s r)) with
  | None => 3
  | Some a => if closed a then 2 else if CAP <=? len (inbox a) + resv a then 1 else 0
  end.

Definition is_run (a : actor) : bool := match ph a with ARun => true | _ => false end.
Definition is_broke (a : actor) : bool := match ph a with ABroke => true | _ => false end.
Definition is_closed_ph (a : actor) : bool := match ph a with AClosed => true | _ => false end.

Definition enabled_ev (s : st) (e : ev) : bool :=
  match e with
  | EBegin r n started =>
      match pc s with OIdle => (n =? nextn s) && Bool.eqb started (negb (sender (rs s r))) | _ => false end
  | EReserve ok =>
      match pc s with
      | OSending r m =>
          live_is s r (fun a => Bool.eqb ok (negb (closed a)) &&
                                (negb ok || (len (inbox a) + resv a <? CAP)))
      | _ => false
      end
  | EPush =>
      match pc s with
      | OReserved r m => match acts (rs s r) with [] => false | _ => true end
      | _ => false
      end
  | EJoin r l l' =>
      match take_done (acts (rs s r)) with
      | None => false
      | Some (lf, _) =>
          msgs_eqb lf l &&
          match pc s with
          | OIdle => msgs_eqb l' l
          | OJoining r' m => msgs_eqb l' (if r' =? r then l ++ [m] else l)
          | _ => false
          end
      end
  | EForeign r res => res =? foreign_result s r
  | EHandle r m =>
      live_is s r (fun a => is_run a &&
                            match next_msg a with Some m' => msg_eqb m m' | None => false end)
  | EBreak r => live_is s r (fun a => is_run a && match initm a with [] => true | _ => false end)
  | EClose r => live_is s r is_broke
  | EReturn r l => live_is s r (fun a => is_closed_ph a && msgs_eqb l (inbox a))
  | EAnswered n => mem n (handled s) && negb (mem n (answered s))
  | EEnd => all_answered s
  end.

Definition enabled (md : mode) (s : st) (e : ev) : bool :=
  match md, pc s, e with
  | AtomicSend, OReserved _ _, EPush => enabled_ev s e
  | AtomicSend, OReserved _ _, _ => false
  | _, _, _ => enabled_ev s e
  end.

Definition step (md : mode) (s : st) (e : ev) : option st :=
  if enabled md s e then Some (apply s e) else None.

Fixpoint steps (md : mode) (s : st) (tr : list ev) : option st :=
  match tr with
  | [] => Some s
  | e :: tr' => match step md s e with Some s' => steps md s' tr' | None => None end
  end.

(* ---- the property as a function of a state ---- *)

Definition amsgs (a : actor) : list msg :=
  match ph a with ADone l => l | _ => initm a ++ inbox a end.

Definition inflight (s : st) (r : N) : list msg :=
  match pc s with
  | OSending r' m | OReserved r' m | OJoining r' m => if r' =? r then [m] else []
  | OIdle => []
  end.

(* where the unhandled requests of remote r are, in order *)
Definition pending (s : st) (r : N) : list N :=
  reqs (flat_map amsgs (acts (rs s r)) ++ inflight s r).

Definition nlist_eqb : list N -> list N -> bool := list_eqb N.eqb.

(* no request lost or duplicated, in the order made; at most one task per remote *)
Definition good_r (s : st) (r : N) : bool :=
  nlist_eqb (hist (rs s r) ++ pending s r) (issued (rs s r)) &&
  (length (acts (rs s r)) <=? 1)%nat.

Definition remotes : list N := [0; 1; 2; 3].
Definition good_b (s : st) : bool := forallb (good_r s) remotes.

Fixpoint all_states (s : st) (tr : list ev) : bool :=
  good_b s &&
  match tr with
  | [] => true
  | e :: tr' => (match e with EEnd => all_answered s | _ => true end) && all_states (apply s e) tr'
  end.

(* ---- harness commands (only used for the canonical trace [model]) ---- *)

Inductive cmd := CQ (r : N) | CF (r : N) | CC | CT | CX (r : N) | CY (r : N) | CD | CS | CU | CW.

Fixpoint keep_enabled (md : mode) (s : st) (l : list ev) : list ev * st :=
  match l with
  | [] => ([], s)
  | e :: l' =>
      match step md s e with
      | Some s' => let (r, s'') := keep_enabled md s' l' in (e :: r, s'')
      | None => ([], s)
      end
  end.

Definition live_inbox (s : st) (r : N) : list msg :=
  match last_opt (acts (rs s r)) with Some a => initm a ++ inbox a | None => [] end.
Definition done_left (s : st) (r : N) : list msg :=
  match take_done (acts (rs s r)) with Some (l, _) => l | None => [] end.

(* a simple schedule for a command: the events it would produce if nothing else ran *)
Definition exec (s : st) (c : cmd) : list ev :=
  match c with
  | CQ r => [EBegin r (nextn s) (negb (sender (rs s r))); EReserve true; EPush]
  | CF r => [EForeign r (foreign_result s r)]
  | CC => flat_map (fun r => match take_done (acts (rs s r)) with
                             | Some (l, _) => [EJoin r l l]
                             | None => []
                             end) remotes
  | CT => flat_map (fun r => map (EHandle r) (live_inbox s r) ++ [EBreak r]) remotes
  | CX r => [EClose r]
  | CY r => [EReturn r (live_inbox s r)]
  | CW => flat_map (fun r => map (EHandle r) (live_inbox s r)) remotes
  | CD | CS | CU => []
  end.

Fixpoint exec_all (md : mode) (s : st) (cs : list cmd) : list ev :=
  match cs with
  | [] => []
  | c :: cs' => let (l, s') := keep_enabled md s (exec s c) in l ++ exec_all md s' cs'
  end.

(* ---- interface ---- *)

Definition code_mode : mode := AtomicSend.

Definition input := list cmd.
Definition output := res (list ev).

Definition model_trace (i : input) : list ev := exec_all code_mode init i.
Definition model (i : input) : output := Ok (model_trace i).

(* the observed trace is a run of the transition system *)
Definition agree (i : input) (o : output) : bool :=
  match o with
  | Ok tr => match steps code_mode init tr with Some _ => true | None => false end
  | _ => false
  end.

Definition monitor (i : input) (o : output) : bool :=
  match o with
  | Ok tr => all_states init tr
  | _ => false
  end.

Definition known (i : input) : N := 0.

(* coverage (from the script): 0 no idle/stop command; otherwise
   1 + 2*[a request after a stop command] + 4*[two remotes] + 8*[inbox burst >= 14 foreign] *)
Definition is_stop (c : cmd) : bool := match c with CT | CD | CS => true | _ => false end.
Fixpoint req_after_stop (seen : bool) (l : list cmd) : bool :=
  match l with
  | [] => false
  | CQ _ :: l' => seen || req_after_stop seen l'
  | c :: l' => req_after_stop (seen || is_stop c) l'
  end.
Definition tag (i : input) : N :=
  if existsb is_stop i then
    1 + 2 * (if req_after_stop false i then 1 else 0)
      + 4 * (if existsb (fun c => match c with CQ 1 | CF 1 | CX 1 | CY 1 => true | _ => false end) i then 1 else 0)
      + 8 * (if (14 <=? length (filter (fun c => match c with CF _ => true | _ => false end) i))%nat then 1 else 0)
  else 0.

Definition judge (i : input) (o : output) : bool * bool * N * N :=
  (agree i o, monitor i o, known i, tag i).

End C21.
