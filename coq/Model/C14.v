(* C14 — relay keep-alive ping tracker (iroh-relay/src/ping_tracker.rs).
   Executable model, definitions only.
   Time: an Instant is its offset in nanoseconds from the start of the
   paused-clock runtime (Z); a Duration is its total nanoseconds.
   Ping payloads ([u8; 8], from rand::random) are N (big-endian value).
   Not modelled: overflow of Instant + Duration. *)
From V Require Import Lib.Base Lib.MachineInt Gen.Consts.

Module C14.
Local Open Scope Z_scope.

Definition NS_PER_MS : Z := 1000000.
Definition DUR_MAX : Z := 18446744073709551616 * 1000000000 - 1.
Definition MIN_TO : Z := C14_MIN_HEALTH_CHECK_TIMEOUT.   (* 500 ms *)
Definition DEFAULT_MAX : Z := C14_PING_TIMEOUT.          (* 5 s *)

(* PingInner { data, deadline, sent_at } *)
Record ping := mkP { pdata : N; deadline : Z; sent_at : Z }.

Record st := mkS {
  inner : option ping;
  max_timeout : Z;
  last_rtt : option Z
}.

Definition new (mx : Z) : st := mkS None mx None.

(* ping_timeout (86-90): (rtt * 3).clamp(MIN, max) or max.
   `rtt * 3` panics on Duration overflow; Ord::clamp asserts min <= max. *)
Definition ping_timeout (s : st) : res Z :=
  match last_rtt s with
  | None => Ok (max_timeout s)
  | Some rtt =>
      let t := rtt * 3 in
      if DUR_MAX <? t then Panic else
      if max_timeout s <? MIN_TO then Panic else
      Ok (if t <? MIN_TO then MIN_TO else if max_timeout s <? t then max_timeout s else t)
  end.

(* new_ping_with_timeout (57-67) *)
Definition new_ping_with (s : st) (now timeout : Z) (data : N) : st :=
  mkS (Some (mkP data (now + timeout) now)) (max_timeout s) (last_rtt s).

(* new_ping (51-54) *)
Definition new_ping (s : st) (now : Z) (data : N) : res st :=
  match ping_timeout s with
  | Ok t => Ok (new_ping_with s now t data)
  | Err e => Err e
  | Panic => Panic
  end.

(* pong_received (73-82) *)
Definition pong (s : st) (now : Z) (data : N) : st :=
  match inner s with
  | Some p =>
      if N.eqb (pdata p) data
      then mkS None (max_timeout s) (Some (now - sent_at p))     (* sent_at.elapsed() *)
      else s
  | None => s
  end.

(* tokio timer granularity, as in C09 *)
Definition fired (d now : Z) : bool := (d + 999999) / NS_PER_MS <=? now / NS_PER_MS.

(* one poll of the future returned by timeout() (96-105), then dropped:
   true = completed (the connection is declared dead; inner cleared) *)
Definition timeout_poll (s : st) (now : Z) : st * bool :=
  match inner s with
  | Some p => if fired (deadline p) now
              then (mkS None (max_timeout s) (last_rtt s), true)
              else (s, false)
  | None => (s, false)
  end.

Inductive ev :=
| Advance (dt : Z)
| NewPing (data : N)                 (* new_ping(); data = what it returned *)
| NewPingT (timeout : Z) (data : N)  (* new_ping_with_timeout(timeout) *)
| Pong (data : N)
| Timeout.                           (* one poll of timeout() *)

(* per event: did the timeout() poll complete (false for other events), and
   ping_timeout() after the event (None = it panics) *)
Definition obs := (bool * option Z)%type.

Definition pt_obs (s : st) : option Z :=
  match ping_timeout s with Ok t => Some t | _ => None end.

Definition step (s : st) (now : Z) (e : ev) : res (st * Z * bool) :=
  match e with
  | Advance dt => Ok (s, now + dt, false)
  | NewPing d => match new_ping s now d with
                 | Ok s' => Ok (s', now, false) | Err x => Err x | Panic => Panic end
  | NewPingT t d => Ok (new_ping_with s now t d, now, false)
  | Pong d => Ok (pong s now d, now, false)
  | Timeout => let '(s', r) := timeout_poll s now in Ok (s', now, r)
  end.

Fixpoint run (s : st) (now : Z) (es : list ev) : res (list obs) :=
  match es with
  | [] => Ok []
  | e :: es' =>
      match step s now e with
      | Ok (s', now', r) =>
          match run s' now' es' with
          | Ok l => Ok ((r, pt_obs s') :: l)
          | x => x
          end
      | Err x => Err x
      | Panic => Panic
      end
  end.

Definition input := (Z * list ev)%type.      (* max_timeout, history *)
Definition output := res (list obs).

Definition model (i : input) : output := run (new (fst i)) 0 (snd i).

Definition obs_eqb (a b : obs) : bool :=
  Bool.eqb (fst a) (fst b) && opt_eqb Z.eqb (snd a) (snd b).
Definition agree (i : input) (o : output) : bool := res_eqb (list_eqb obs_eqb) (model i) o.

(* ---- the property, as a declarative scan of the history ----
   hist = events so far, MOST RECENT FIRST, each with the time at which it
   happened and (for Timeout) whether the poll completed. *)
Definition hev := (ev * Z * bool)%type.

Definition spec_timeout (mx : Z) (rtt : option Z) : Z :=
  match rtt with
  | None => mx
  | Some r => Z.max MIN_TO (Z.min mx (3 * r))
  end.

(* (the latest ping if it is still outstanding: (data, sent_at, deadline),
    the measured round trip: from the most recent pong that matched the ping
    outstanding at that moment) *)
Fixpoint scan (mx : Z) (h : list hev) : option (N * Z * Z) * option Z :=
  match h with
  | [] => (None, None)
  | (e, at_, fired_) :: h' =>
      let '(o, r) := scan mx h' in
      match e with
      | NewPingT t d => (Some (d, at_, at_ + t), r)
      | NewPing d => (Some (d, at_, at_ + spec_timeout mx r), r)
      | Pong d' =>
          match o with
          | Some (d, sa, dl) => if N.eqb d d' then (None, Some (at_ - sa)) else (o, r)
          | None => (o, r)
          end
      | Timeout => if fired_ then (None, r) else (o, r)
      | Advance _ => (o, r)
      end
  end.

(* Monitor: walk the history; h = what happened so far (most recent first).
   - a completed timeout() poll requires an outstanding latest ping whose
     deadline has passed (timer granularity 1 ms);
   - ping_timeout() after every event is spec_timeout of the measured RTT. *)
Fixpoint mon (mx : Z) (h : list hev) (now : Z) (es : list ev) (os : list obs) : bool :=
  match es, os with
  | e :: es', (r, pt) :: os' =>
      let now' := match e with Advance dt => now + dt | _ => now end in
      let h' := (e, now, r) :: h in
      (match e with
       | Timeout => if r then match fst (scan mx h) with
                              | Some (_, _, dl) => fired dl now
                              | None => false
                              end
                    else true
       | _ => negb r
       end)
      && opt_eqb Z.eqb pt (Some (spec_timeout mx (snd (scan mx h'))))
      && mon mx h' now' es' os'
  | _, _ => true
  end.

Definition wf_ev (e : ev) : bool :=
  match e with
  | Advance dt => 0 <=? dt
  | NewPingT t _ => (0 <=? t) && (t <=? DUR_MAX)
  | _ => true
  end.

(* The quantifier: histories; the tracker is constructed within its
   precondition MIN <= max_timeout (<= 2^63 ns so that 3 * rtt cannot
   overflow a Duration within the lifetime of the clock: see notes). *)
Definition wf_input (i : input) : bool :=
  (MIN_TO <=? fst i) && (fst i <=? DUR_MAX) && forallb wf_ev (snd i).

Definition TIME_MAX : Z := DUR_MAX / 3.
Fixpoint total_time (es : list ev) : Z :=
  match es with
  | [] => 0
  | Advance dt :: es' => dt + total_time es'
  | _ :: es' => total_time es'
  end.

Definition monitor (i : input) (o : output) : bool :=
  if negb (wf_input i && (total_time (snd i) <=? TIME_MAX)) then true else
  match o with
  | Ok os => mon (fst i) [] 0 (snd i) os
  | _ => false
  end.

Definition known (i : input) : N := 0%N.

(* tag: 1 no timeout completed / 2 a timeout completed / 3 a stale or forged pong
   arrived while a ping was outstanding / 4 both / 5 max < MIN and the run panicked /
   0 empty history *)
Fixpoint stale_seen (s : st) (now : Z) (es : list ev) : bool :=
  match es with
  | [] => false
  | e :: es' =>
      (match e, inner s with
       | Pong d, Some p => negb (N.eqb (pdata p) d)
       | _, _ => false
       end) ||
      match step s now e with
      | Ok (s', now', _) => stale_seen s' now' es'
      | _ => false
      end
  end.

Definition tag (i : input) : N :=
  match snd i with
  | [] => 0%N
  | _ =>
    match model i with
    | Ok os =>
        let dead := existsb (fun o : obs => fst o) os in
        let stale := stale_seen (new (fst i)) 0 (snd i) in
        if dead && stale then 4%N else if stale then 3%N else if dead then 2%N else 1%N
    | _ => 5%N
    end
  end.

Definition judge (i : input) (o : output) : bool * bool * N * N :=
  (agree i o, monitor i o, known i, tag i).

End C14.
