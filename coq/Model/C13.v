(* C13 — captive-portal challenge echo: serve_no_content_handler / is_challenge_char
   (iroh-relay/src/server.rs:1053-1085).  Executable model, definitions only.

     let check = |c: &HeaderValue| !c.is_empty() && c.len() < 64
                   && c.as_bytes().iter().all(|c| is_challenge_char(deref c as char));
     if let Some(challenge) = r.headers().get("X-Iroh-Challenge") && check(challenge) {
         response = response.header("X-Iroh-Response", format!("response {}", challenge.to_str()?));
     }
     response.status(204).body(empty)

   The input is what goes over the wire: the value bytes of every
   `X-Iroh-Challenge:` header line of a GET /generate_204 request. *)
From V Require Import Lib.Base.
Open Scope N_scope.

Module C13.

(* is_challenge_char on `byte as char` (Latin-1): the ASCII predicates are false above 127 *)
Definition is_lower (b : N) : bool := (97 <=? b) && (b <=? 122).
Definition is_upper (b : N) : bool := (65 <=? b) && (b <=? 90).
Definition is_digit (b : N) : bool := (48 <=? b) && (b <=? 57).
Definition allowed (b : N) : bool :=
  is_lower b || is_upper b || is_digit b || (b =? 46) || (b =? 45) || (b =? 95).

Definition is_nil (l : bytes) : bool := match l with [] => true | _ => false end.

Definition check (c : bytes) : bool := negb (is_nil c) && (len c <? 64) && forallb allowed c.

Definition RESPONSE_PREFIX : bytes := str_bytes "response ".

(* HeaderValue::to_str *)
Definition visible (b : N) : bool := ((32 <=? b) && (b <? 127)) || (b =? 9).

(* the handler on the parsed request: `get` returns the FIRST X-Iroh-Challenge value.
   Err 1 = `challenge.to_str()?` failed (the service future resolves to an error). *)
Definition handler (vals : list bytes) : res (N * option bytes) :=
  match vals with
  | c :: _ =>
      if check c then
        (if forallb visible c then Ok (204, Some (RESPONSE_PREFIX ++ c)) else Err 1)
      else Ok (204, None)
  | [] => Ok (204, None)
  end.

(* ---- transport (hyper/httparse): header values may hold tab, 0x20-0x7e and 0x80-0xff;
   any other byte makes the request malformed (400, handler not reached); optional
   whitespace around the value is not part of it. ---- *)
Definition wire_legal (b : N) : bool := (b =? 9) || ((32 <=? b) && negb (b =? 127) && (b <? 256)).
Definition is_ows (b : N) : bool := (b =? 32) || (b =? 9).
Fixpoint trim_left (l : bytes) : bytes :=
  match l with
  | b :: r => if is_ows b then trim_left r else l
  | [] => []
  end.
Definition trim (l : bytes) : bytes := rev (trim_left (rev (trim_left l))).

Definition wire_ok (vals : list bytes) : bool := forallb (forallb wire_legal) vals.

Definition serve (vals : list bytes) : N * option bytes :=
  if wire_ok vals then
    match handler (map trim vals) with
    | Ok r => r
    | _ => (0, None)            (* unreachable: C13_to_str_never_fails *)
    end
  else (400, None).

(* ---- interface ---- *)
Definition input := list bytes.
Definition output := (N * option bytes)%type.
Definition model (i : input) : output := serve i.

Definition out_eqb (a b : output) : bool :=
  N.eqb (fst a) (fst b) && opt_eqb bytes_eqb (snd a) (snd b).
Definition agree (i : input) (o : output) : bool := out_eqb (model i) o.

(* The property on an observed response: status 204, and the response header is
   `response <challenge>` exactly when the challenge (first header value, outer
   whitespace removed by HTTP) is 1..63 allowed characters; no header otherwise.
   Malformed requests (illegal bytes on the wire) are outside the quantifier.
   Written independently of [handler]/[check]: length window and character class
   by explicit enumeration. *)
Definition ALPHABET : bytes :=
  str_bytes "abcdefghijklmnopqrstuvwxyzABCDEFGHIJKLMNOPQRSTUVWXYZ0123456789.-_".
Definition well_formed (c : bytes) : bool :=
  (1 <=? len c) && (len c <=? 63) && forallb (fun b => existsb (N.eqb b) ALPHABET) c.
Definition monitor (i : input) (o : output) : bool :=
  if negb (wire_ok i) then true else
  N.eqb (fst o) 204 &&
  match map trim i with
  | c :: _ =>
      if well_formed c then opt_eqb bytes_eqb (snd o) (Some (RESPONSE_PREFIX ++ c))
      else match snd o with None => true | Some _ => false end
  | [] => match snd o with None => true | Some _ => false end
  end.

Definition known (i : input) : N := 0.

(* Branch tag: 0 no challenge header / 1 echoed / 2 rejected: empty / 3 rejected: too long /
   4 rejected: bad character / 5 malformed request (400). *)
Definition tag (i : input) : N :=
  if negb (wire_ok i) then 5 else
  match map trim i with
  | [] => 0
  | c :: _ =>
      if check c then 1
      else if is_nil c then 2
      else if negb (len c <? 64) then 3
      else 4
  end.

Definition judge (i : input) (o : output) : bool * bool * N * N :=
  (agree i o, monitor i o, known i, tag i).

End C13.
