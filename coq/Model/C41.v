(* C41 — Router::shutdown and the router's run loop (iroh/src/protocol.rs).
   Executable model, definitions only.

   Interleaving transition system over the atomic steps the code has.  Callers
   (Router::shutdown, :433-457) and the run loop (:535-630; line numbers of the fixed tree) share: the cancel token, the
   task slot (Arc<Mutex<Option<AbortOnDropHandle>>>), the completion token `done` (fixed
   code only) and — through the handlers and the endpoint — "handlers' shutdown completed"
   and "endpoint closed".

   `step fx` is the semantics of the code BEFORE the fix (fx = false: an already cancelled
   token or an already taken task make shutdown() return at once) and AFTER it (fx = true:
   such a caller waits for the run loop's completion token instead). *)
From V Require Import Lib.Base.
Open Scope N_scope.

Module C41.

(* program counter of one shutdown() call *)
Inductive cpc :=
| CNew                         (* not called yet *)
| CChecked                     (* is_shutdown() was false                      (:434) *)
| CCancelled                   (* cancel_token.cancel() done                   (:443) *)
| CAwaiting                    (* took the task, in `task.await`               (:448-450) *)
| CWaiting                     (* fixed code: in `done_token.cancelled().await` (:436, :453) *)
| CRet (ok hd ec : bool).      (* returned; what was true at that instant: result is Ok,
                                  all handlers' shutdown completed, endpoint closed *)

(* program counter of the run loop *)
Inductive lpc :=
| LRun            (* in the select! loop                                        (:544-612) *)
| LBroken         (* left the loop                                               *)
| LHWait          (* in protocols.shutdown().await                              (:615) *)
| LHDone          (* handlers' shutdown completed                                *)
| LHCancelled     (* handler_cancel_token.cancel()                              (:617) *)
| LEpClosed       (* endpoint.close().await completed                           (:619) *)
| LExited.        (* join_set drained, future finished, guards dropped          (:623-630) *)

Record st := mkSt {
  nh : N;                 (* number of registered handlers *)
  cancelled : bool;       (* cancel_token *)
  task_present : bool;    (* task slot still holds the JoinHandle *)
  done : bool;            (* completion token (fixed code) *)
  gate : bool;            (* environment: handlers' shutdown futures may complete *)
  ep_closed : bool;
  hdone : bool;           (* protocols.shutdown() completed *)
  loop : lpc;
  callers : list cpc
}.

Inductive ev :=
| CCheck (i : nat) | CCancel (i : nat) | CTake (i : nat) | CAwait (i : nat) | CWaitDone (i : nat)
| LBreak | LHStart | LHFinish | LCancelH | LEpClose | LExit
| XClose      (* someone else closes the endpoint *)
| Gate.       (* handlers' shutdown may now complete *)

Definition init (h : N) (n : nat) : st :=
  mkSt h false true false false false false LRun (repeat CNew n).

(* "every handler's shutdown has completed" as an observer sees it *)
Definition hdone_obs (s : st) : bool := hdone s || (nh s =? 0).

Definition ret_now (s : st) : cpc := CRet true (hdone_obs s) (ep_closed s).

Fixpoint set_nth {A} (i : nat) (x : A) (l : list A) : list A :=
  match l, i with
  | [], _ => []
  | _ :: r, O => x :: r
  | a :: r, S j => a :: set_nth j x r
  end.

Definition set_caller (s : st) (i : nat) (c : cpc) : st :=
  mkSt (nh s) (cancelled s) (task_present s) (done s) (gate s) (ep_closed s) (hdone s) (loop s)
       (set_nth i c (callers s)).

Definition set_loop (s : st) (l : lpc) : st :=
  mkSt (nh s) (cancelled s) (task_present s) (done s) (gate s) (ep_closed s) (hdone s) l (callers s).

Definition pc_eqb (a b : cpc) : bool :=
  match a, b with
  | CNew, CNew | CChecked, CChecked | CCancelled, CCancelled
  | CAwaiting, CAwaiting | CWaiting, CWaiting => true
  | _, _ => false
  end.

Definition at_pc (s : st) (i : nat) (c : cpc) : bool := pc_eqb (nth i (callers s) (CRet true true true)) c.

Definition step (fx : bool) (s : st) (e : ev) : option st :=
  match e with
  | CCheck i =>                                             (* :434-438 *)
      if at_pc s i CNew then
        if cancelled s
        then Some (set_caller s i (if fx then CWaiting else ret_now s))
        else Some (set_caller s i CChecked)
      else None
  | CCancel i =>                                            (* :443 *)
      if at_pc s i CChecked then
        Some (set_caller (mkSt (nh s) true (task_present s) (done s) (gate s) (ep_closed s)
                               (hdone s) (loop s) (callers s)) i CCancelled)
      else None
  | CTake i =>                                              (* :448-449 *)
      if at_pc s i CCancelled then
        if task_present s
        then Some (set_caller (mkSt (nh s) (cancelled s) false (done s) (gate s) (ep_closed s)
                                    (hdone s) (loop s) (callers s)) i CAwaiting)
        else Some (set_caller s i (if fx then CWaiting else ret_now s))
      else None
  | CAwait i =>                                             (* :450: the JoinHandle resolves *)
      if at_pc s i CAwaiting then
        match loop s with LExited => Some (set_caller s i (ret_now s)) | _ => None end
      else None
  | CWaitDone i =>                                          (* fixed code: done.cancelled() *)
      if at_pc s i CWaiting && done s then Some (set_caller s i (ret_now s)) else None
  | LBreak =>                                               (* :547-549 cancelled; :575-577 accept() = None *)
      match loop s with
      | LRun => if cancelled s || ep_closed s then Some (set_loop s LBroken) else None
      | _ => None
      end
  | LHStart => match loop s with LBroken => Some (set_loop s LHWait) | _ => None end
  | LHFinish =>                                             (* :615 completes *)
      match loop s with
      | LHWait =>
          if gate s || (nh s =? 0)
          then Some (mkSt (nh s) (cancelled s) (task_present s) (done s) (gate s) (ep_closed s)
                          true LHDone (callers s))
          else None
      | _ => None
      end
  | LCancelH => match loop s with LHDone => Some (set_loop s LHCancelled) | _ => None end
  | LEpClose =>                                             (* :619 *)
      match loop s with
      | LHCancelled =>
          Some (mkSt (nh s) (cancelled s) (task_present s) (done s) (gate s) true
                     (hdone s) LEpClosed (callers s))
      | _ => None
      end
  | LExit =>                                                (* :623-630; drop guards: cancel, done *)
      match loop s with
      | LEpClosed =>
          Some (mkSt (nh s) true (task_present s) true (gate s) (ep_closed s)
                     (hdone s) LExited (callers s))
      | _ => None
      end
  | XClose =>
      Some (mkSt (nh s) (cancelled s) (task_present s) (done s) (gate s) true
                 (hdone s) (loop s) (callers s))
  | Gate =>
      Some (mkSt (nh s) (cancelled s) (task_present s) (done s) true (ep_closed s)
                 (hdone s) (loop s) (callers s))
  end.

Fixpoint run (fx : bool) (s : st) (tr : list ev) : option st :=
  match tr with
  | [] => Some s
  | e :: r => match step fx s e with Some s' => run fx s' r | None => None end
  end.

(* ---- the harness script: actions of the environment, each followed by quiescence ---- *)

Inductive action :=
| AStart (i : N)          (* caller i calls shutdown() and runs until it blocks or returns *)
| AStartPaused (i : N)    (* same, but parked right after the is_shutdown() check *)
| ARelease (i : N)        (* parked caller i continues *)
| AGate
| AExtClose.

Definition try_ev (fx : bool) (s : st) (e : ev) : st :=
  match step fx s e with Some s' => s' | None => s end.

Definition ncallers : nat := 3.

(* everything that can happen without a further action *)
Definition eager_events : list ev :=
  [LBreak; LHStart; LHFinish; LCancelH; LEpClose; LExit] ++
  flat_map (fun i => [CAwait i; CWaitDone i]) (seq 0 ncallers).

Definition eager (fx : bool) (s : st) : st :=
  fold_left (try_ev fx) (eager_events ++ eager_events) s.

Definition act_events (s : st) (a : action) : list ev :=
  match a with
  | AStart i =>
      let i := N.to_nat i in
      if at_pc s i CNew then [CCheck i; CCancel i; CTake i] else []
  | AStartPaused i =>
      let i := N.to_nat i in
      if at_pc s i CNew then [CCheck i] else []
  | ARelease i =>
      let i := N.to_nat i in
      if at_pc s i CChecked then [CCancel i; CTake i] else []
  | AGate => [Gate]
  | AExtClose => [XClose]
  end.

Definition do_action (fx : bool) (s : st) (a : action) : st :=
  eager fx (fold_left (try_ev fx) (act_events s a) s).

Inductive status := NotStarted | Running | Returned (ok hd ec : bool).

Definition status_of (c : cpc) : status :=
  match c with
  | CNew => NotStarted
  | CRet ok hd ec => Returned ok hd ec
  | _ => Running
  end.

Definition snap := (bool * bool * bool * list status)%type.

Definition snapshot (s : st) : snap :=
  (cancelled s, ep_closed s, hdone_obs s, map status_of (callers s)).

Fixpoint interp (fx : bool) (s : st) (acts : list action) : list snap :=
  match acts with
  | [] => []
  | a :: r => let s' := do_action fx s a in snapshot s' :: interp fx s' r
  end.

(* which semantics the code in /repo has *)
Definition code_is_fixed : bool := true.

Definition input := (N * list action)%type.
Definition output := res (list snap).

Definition model (i : input) : output :=
  let '(h, acts) := i in Ok (interp code_is_fixed (init h ncallers) acts).

Definition status_eqb (a b : status) : bool :=
  match a, b with
  | NotStarted, NotStarted | Running, Running => true
  | Returned a1 a2 a3, Returned b1 b2 b3 => Bool.eqb a1 b1 && Bool.eqb a2 b2 && Bool.eqb a3 b3
  | _, _ => false
  end.

Definition snap_eqb (x y : snap) : bool :=
  let '(a1, a2, a3, a4) := x in
  let '(b1, b2, b3, b4) := y in
  Bool.eqb a1 b1 && Bool.eqb a2 b2 && Bool.eqb a3 b3 && list_eqb status_eqb a4 b4.

Definition agree (i : input) (o : output) : bool := res_eqb (list_eqb snap_eqb) (model i) o.

(* the property: whenever a call has returned, it returned Ok and, at that instant, every
   handler's shutdown had completed and the endpoint had been closed *)
Definition status_ok (x : status) : bool :=
  match x with Returned ok hd ec => ok && hd && ec | _ => true end.

Definition monitor (i : input) (o : output) : bool :=
  match o with
  | Ok snaps => forallb (fun sn => forallb status_ok (snd sn)) snaps
  | _ => false
  end.

Definition known (i : input) : N := 0.

(* 0 nothing called / 1 one caller / 2 several callers, none parked at the check /
   3 several callers, some parked at the check / +4 when the endpoint is closed from outside *)
Definition tag (i : input) : N :=
  let '(_, acts) := i in
  let starts := length (filter (fun a => match a with AStart _ | AStartPaused _ => true | _ => false end) acts) in
  let paused := existsb (fun a => match a with AStartPaused _ => true | _ => false end) acts in
  let ext := existsb (fun a => match a with AExtClose => true | _ => false end) acts in
  (match starts with
   | O => 0
   | S O => 1
   | _ => if paused then 3 else 2
   end) + (if ext then 4 else 0).

Definition judge (i : input) (o : output) : bool * bool * N * N :=
  (agree i o, monitor i o, known i, tag i).

End C41.
