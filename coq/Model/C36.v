(* C36 — DNS server serves a zone only from packets signed by its key.
   Executable model, definitions only.

   Modelled code (pinned tree):
     iroh-dns-server/src/http/pkarr.rs:14-36      put  (PublicKey::from_z32, from_relay_payload, store.insert)
     iroh-dns-server/src/http/pkarr.rs:38-53      get
     iroh-dns/src/pkarr.rs:91-127                 SignedPacket::from_bytes / from_relay_payload
                                                  (length checks, signature, simple_dns parse — in this order)
     iroh-dns-server/src/util.rs:102-152          signed_packet_to_hickory_records_without_origin
     iroh-dns-server/src/util.rs:154-170          record_set_append_origin
     hickory-proto rr_set.rs RecordSet::insert    (same rdata: first one kept, ttl included; CNAME/ANAME: last one only)
     iroh-dns-server/src/dns/node_zone_handler.rs:66-96,113-186   resolve_pkarr, lookup, search
     iroh-dns-server/src/dns/node_zone_handler.rs:197-224         parse_name_as_pkarr_with_origin
     iroh-dns-server/src/store.rs                 ZoneStore::{insert, get_signed_packet, resolve},
                                                  ZoneCache, CachedZone (shared with Model/C37.v)

   The store/cache part is C37's model: a stored packet is C37.packet {key; ts; sig; payload}.
   Keys, signatures and payloads are only compared (payloads also ordered), so the harness renames
   them to numbers (payload n is the n-th payload of the case in byte-lexicographic order, carried
   as the one-element byte list [n], which C37.more_recent_than orders the same way).
   ed25519, z-base-32, simple_dns and hickory parsing are oracles (record [oracles]); for the
   correspondence runs they are tables supplied by the harness (record [env]). *)
From V Require Import Lib.Base Model.C37.
Open Scope N_scope.

Module C36.

Definition label := bytes.
Definition name := list label.          (* leftmost label first, root not represented *)

Record rr := mkRR { rname : name; rtype : N; rttl : N; rdata : bytes }.

(* ASCII lower-casing (hickory Label / LowerName comparison) *)
Definition lower_b (b : N) : N := if (65 <=? b) && (b <=? 90) then b + 32 else b.
Definition lower (l : label) : label := map lower_b l.
Definition lower_name (n : name) : name := map lower n.
Definition label_eqb_ci (a b : label) : bool := bytes_eqb (lower a) (lower b).
Definition name_eqb_ci (a b : name) : bool := list_eqb label_eqb_ci a b.

Definition T_A := 1.    Definition T_NS := 2.    Definition T_CNAME := 5.  Definition T_SOA := 6.
Definition T_AXFR := 252.  Definition T_ANAME := 65305.

Record oracles := mkO {
  verify : N -> N -> N -> N -> bool;      (* key, timestamp, payload, signature: ed25519 verification of the BEP44 signable *)
  z32 : N -> option label;                (* z-base-32 text of a key; None: the id is not a key (invalid path) *)
  unz32 : label -> option N;              (* PublicKeyBytes::from_z32 on a (lower-case) label *)
  parse_s : N -> bool;                    (* simple_dns::Packet::parse succeeds on the payload *)
  parse_h : N -> option (list rr)         (* hickory Message::from_bytes: the answer section *)
}.

(* ---------- util.rs: zone of a packet, one (name, type) bucket at a time ---------- *)

Fixpoint last_label (n : name) : option label :=
  match n with
  | [] => None
  | [l] => Some l
  | _ :: r => last_label r
  end.

(* records the server keeps from a packet of key k with zone label zl, zone label stripped:
     skip SOA / NS; skip names without labels; skip names whose last label is not zl (case-insensitive) *)
Definition keep (zl : label) (r : rr) : bool :=
  negb ((rtype r =? T_SOA) || (rtype r =? T_NS)) &&
  match last_label (rname r) with
  | None => false
  | Some l => label_eqb_ci l zl
  end.

Definition strip (r : rr) : rr := mkRR (removelast (rname r)) (rtype r) (rttl r) (rdata r).

Definition zone_records (zl : label) (recs : list rr) : list rr := map strip (filter (keep zl) recs).

(* RecordSet: name of the first record, records as (ttl, rdata) in RecordSet order *)
Definition rrset := (name * list (N * bytes))%type.

Fixpoint replace_rdata (l : list (N * bytes)) (ttl : N) (rd : bytes) : option (list (N * bytes)) :=
  match l with
  | [] => None
  | (t, d) :: r =>
      if bytes_eqb d rd then Some ((t, d) :: r)   (* hickory Record equality ignores the ttl: "identical", set unchanged *)
      else match replace_rdata r ttl rd with
           | Some r' => Some ((t, d) :: r')
           | None => None
           end
  end.

Definition rrset_insert (ty : N) (s : list (N * bytes)) (ttl : N) (rd : bytes) : list (N * bytes) :=
  let s := if (ty =? T_CNAME) || (ty =? T_ANAME) then [] else s in
  match replace_rdata s ttl rd with
  | Some s' => s'
  | None => s ++ [(ttl, rd)]
  end.

(* the bucket RrKey(lower qname, qtype) of BTreeMap built by the loop in util.rs *)
Fixpoint bucket (zrecs : list rr) (qname : name) (qtype : N) (acc : option rrset) : option rrset :=
  match zrecs with
  | [] => acc
  | r :: rest =>
      if name_eqb_ci (rname r) qname && (rtype r =? qtype) then
        bucket rest qname qtype
          (match acc with
           | None => Some (rname r, [(rttl r, rdata r)])
           | Some (n, s) => Some (n, rrset_insert qtype s (rttl r) (rdata r))
           end)
      else bucket rest qname qtype acc
  end.

Definition zone_lookup (zl : label) (recs : list rr) (qname : name) (qtype : N) : option rrset :=
  bucket (zone_records zl recs) qname qtype None.

(* ---------- store.rs: resolve through cache and store ---------- *)
Definition pay_id (p : C37.packet) : N := match C37.payload p with [n] => n | _ => 0 end.

(* CachedZone::resolve for the cached packet z of key k *)
Definition cached_lookup (O : oracles) (z : C37.packet) (qname : name) (qtype : N) : option rrset :=
  match z32 O (C37.key z), parse_h O (pay_id z) with
  | Some zl, Some recs => zone_lookup zl recs qname qtype
  | _, _ => None
  end.

Definition cache_resolve (O : oracles) (ca : C37.table) (k : N) (qname : name) (qtype : N) : option rrset :=
  match C37.tget ca k with
  | Some z => cached_lookup O z qname qtype
  | None => None
  end.

(* ZoneStore::resolve: Ok (Some set) / Ok None / Err (hickory cannot parse the stored packet) *)
Definition resolve (O : oracles) (s : C37.state) (k : N) (qname : name) (qtype : N)
  : C37.state * res (option rrset) :=
  match cache_resolve O (C37.cache s) k qname qtype with
  | Some r => (s, Ok (Some r))
  | None =>
      match C37.tget (C37.store s) k with
      | Some p =>
          (* ZoneCache::insert: skip if the cached zone is newer, else parse and put *)
          let skip := match C37.tget (C37.cache s) (C37.key p) with
                      | Some old => C37.ts p <? C37.ts old
                      | None => false
                      end in
          if skip then (s, Ok (cache_resolve O (C37.cache s) (C37.key p) qname qtype))
          else match parse_h O (pay_id p) with
               | None => (s, Err 1)
               | Some _ =>
                   let ca' := C37.tset (C37.cache s) (C37.key p) p in
                   (C37.mkS (C37.store s) ca', Ok (cache_resolve O ca' (C37.key p) qname qtype))
               end
      | None => (s, Ok None)        (* no DHT fallback *)
      end
  end.

(* ---------- node_zone_handler.rs ---------- *)
Fixpoint is_suffix_ci (suf n : name) : bool :=
  (* origin.zone_of(name) *)
  name_eqb_ci suf n ||
  match n with
  | [] => false
  | _ :: r => is_suffix_ci suf r
  end.

(* parse_name_as_pkarr_with_origin: first origin that is a zone of the name decides *)
Fixpoint parse_name (O : oracles) (origins : list name) (n : name) : option (name * N * name) :=
  match origins with
  | [] => None
  | o :: rest =>
      if negb (is_suffix_ci o n) then parse_name O rest n
      else if (len n) <? (len o) + 1 then None
      else
        let pre := firstn (length n - length o) n in       (* labels without the origin *)
        match last_label pre with
        | None => None
        | Some pk =>
            match unz32 O pk with
            | None => None
            | Some k => Some (removelast pre, k, o)
            end
        end
  end.

Definition RC_NOERROR := 0.  Definition RC_NXDOMAIN := 3.  Definition RC_REFUSED := 5.
Definition RC_ANY := 99.      (* model does not predict the response code (static zone / no zone) *)
Definition RC_SUBSET := 98.   (* ... nor which of the listed records hickory's in-memory zone picks (type ANY) *)
Definition T_ANY := 255.

(* exact (name, type) match in the static zone (SOA and apex records of the origins) *)
Definition static_lookup (static : list rr) (n : name) (t : N) : list rr :=
  map (fun r => mkRR (lower_name (rname r)) (rtype r) (rttl r) (rdata r))
      (filter (fun r => name_eqb_ci (rname r) n && ((rtype r =? t) || (t =? T_ANY))) static).

Definition in_catalog (origins : list name) (n : name) : bool :=
  existsb (fun o => is_suffix_ci o n) origins.

(* DoH -> DnsHandler -> Catalog -> NodeZoneHandler::search/lookup -> answers *)
Definition query (O : oracles) (origins : list name) (static : list rr)
           (s : C37.state) (n : name) (t : N) : C37.state * (N * list rr) :=
  let n := lower_name n in
  if negb (in_catalog origins n) then (s, (RC_REFUSED, []))
  else if t =? T_SOA then
    (s, (RC_ANY, static_lookup static (match origins with o :: _ => o | [] => [] end) T_SOA))
  else if t =? T_AXFR then (s, (RC_ANY, []))   (* search() refuses; hickory's catalog turns the zone transfer
                                                  into an empty response over DoH: code not modelled *)
  else if t =? T_NS then (s, (RC_ANY, static_lookup static n t))
  else
    match parse_name O origins n with
    | None => (s, (if t =? T_ANY then RC_SUBSET else RC_ANY, static_lookup static n t))
    | Some (rest, k, o) =>
        match resolve O s k rest t with
        | (s', Ok (Some (setname, recs))) =>
            match z32 O k with
            | Some zl =>
                let owner := lower_name (setname ++ [zl] ++ o) in
                (s', (RC_NOERROR, map (fun tr => mkRR owner t (fst tr) (snd tr)) recs))
            | None => (s', (RC_REFUSED, []))
            end
        | (s', Ok None) => (s', (RC_NXDOMAIN, []))
        | (s', _) => (s', (RC_REFUSED, []))
        end
    end.

(* ---------- http/pkarr.rs ---------- *)
Inductive body :=
| Short (n : N)                          (* fewer than 72 bytes: cannot hold signature + timestamp *)
| Full (sig ts pay : N) (paylen : N).    (* <64 sig><8 ts><payload>, payload of paylen bytes *)

Definition E_SHORT := 1.  Definition E_LARGE := 2.  Definition E_SIG := 4.  Definition E_DNS := 5.
Definition E_KEY := 6.
Definition MAX_DNS_PACKET_SIZE := 1000.

Definition put (O : oracles) (s : C37.state) (k : N) (b : body) : C37.state * N :=
  match z32 O k with
  | None => (s, E_KEY)                                   (* PublicKey::from_z32(path) *)
  | Some _ =>
      match b with
      | Short _ => (s, E_SHORT)                          (* 32 + len < HEADER_SIZE *)
      | Full sig ts pay paylen =>
          if MAX_DNS_PACKET_SIZE <? paylen then (s, E_LARGE)
          else if negb (verify O k ts pay sig) then (s, E_SIG)
          else if negb (parse_s O pay) then (s, E_DNS)
          else (fst (C37.insert s (C37.mkP k ts sig [pay])), 0)
      end
  end.

Definition getpk (O : oracles) (s : C37.state) (k : N) : res (option (N * N * N)) :=
  match z32 O k with
  | None => Err E_KEY
  | Some _ =>
      Ok (match C37.tget (C37.store s) k with
          | Some p => Some (C37.ts p, C37.sig p, pay_id p)
          | None => None
          end)
  end.

Inductive op :=
| Put (k : N) (b : body)
| GetPk (k : N)
| Query (n : name) (t : N)
| Resolve (k : N) (n : name) (t : N).    (* ZoneStore::resolve(k, n, t) called directly (what resolve_pkarr calls):
                                            the DNS front end never asks the store for SOA / NS, this does *)

Inductive obs :=
| OPut (code : N)
| OGetPk (r : option (N * N * N))
| OCode (c : N)
| OAns (rcode : N) (ans : list rr)
| ORes (code : N) (recs : list rr).      (* 0 = Ok(Some set) with its records (names without zone label and
                                            origin, lower case), 1 = Ok(None), 2 = Err *)

Definition resolve_obs (O : oracles) (s : C37.state) (k : N) (n : name) (t : N) : C37.state * obs :=
  match resolve O s k n t with
  | (s', Ok (Some (setname, recs))) =>
      (s', ORes 0 (map (fun tr => mkRR (lower_name setname) t (fst tr) (snd tr)) recs))
  | (s', Ok None) => (s', ORes 1 [])
  | (s', _) => (s', ORes 2 [])
  end.

Definition step (O : oracles) (origins : list name) (static : list rr)
           (s : C37.state) (o : op) : C37.state * obs :=
  match o with
  | Put k b => let '(s', c) := put O s k b in (s', OPut c)
  | GetPk k => (s, match getpk O s k with Ok r => OGetPk r | Err e => OCode e | Panic => OCode 999 end)
  | Query n t => let '(s', (rc, ans)) := query O origins static s n t in (s', OAns rc ans)
  | Resolve k n t => resolve_obs O s k n t
  end.

Fixpoint run_from (O : oracles) (origins : list name) (static : list rr)
         (s : C37.state) (ops : list op) : C37.state * list obs :=
  match ops with
  | [] => (s, [])
  | o :: r =>
      let '(s1, ob) := step O origins static s o in
      let '(s2, obr) := run_from O origins static s1 r in
      (s2, ob :: obr)
  end.

(* ---------- the oracles as tables (correspondence runs) ---------- *)
Record env := mkEnv {
  e_origins : list name;
  e_keys : list (N * label);                            (* key id -> z32 label (lower case) *)
  e_ptab : list (N * (bool * option (list rr)));        (* payload -> (simple_dns ok, hickory answers) *)
  e_sigs : list (N * (N * N * N));                      (* signature -> (key, ts, payload) it verifies for *)
  e_static : list rr
}.

Fixpoint nlookup {A} (l : list (N * A)) (k : N) : option A :=
  match l with
  | [] => None
  | (k', a) :: r => if k' =? k then Some a else nlookup r k
  end.

Fixpoint rev_lookup (l : list (N * label)) (x : label) : option N :=
  match l with
  | [] => None
  | (k, z) :: r => if bytes_eqb z x then Some k else rev_lookup r x
  end.

Definition oracles_of (e : env) : oracles :=
  mkO (fun k ts pay sig =>
         match nlookup (e_sigs e) sig with
         | Some (k', ts', pay') => (k' =? k) && (ts' =? ts) && (pay' =? pay)
         | None => false
         end)
      (nlookup (e_keys e))
      (rev_lookup (e_keys e))
      (fun pay => match nlookup (e_ptab e) pay with Some (b, _) => b | None => false end)
      (fun pay => match nlookup (e_ptab e) pay with Some (_, h) => h | None => None end).

Definition input := (env * list op)%type.
Definition output := res (list obs).

Definition model (i : input) : output :=
  let '(e, ops) := i in
  Ok (snd (run_from (oracles_of e) (e_origins e) (e_static e) C37.init ops)).

Definition rr_eqb (a b : rr) : bool :=
  list_eqb bytes_eqb (rname a) (rname b) && (rtype a =? rtype b) && (rttl a =? rttl b) &&
  bytes_eqb (rdata a) (rdata b).

Definition triple_eqb (a b : N * N * N) : bool :=
  let '(a1, a2, a3) := a in let '(b1, b2, b3) := b in (a1 =? b1) && (a2 =? b2) && (a3 =? b3).

(* the first argument is the model's observation: response code RC_ANY is a wildcard *)
Definition obs_eqb (m o : obs) : bool :=
  match m, o with
  | OPut x, OPut y => x =? y
  | OGetPk x, OGetPk y => opt_eqb triple_eqb x y
  | OCode x, OCode y => x =? y
  | OAns rc a, OAns rc' a' =>
      if rc =? RC_SUBSET then forallb (fun r => existsb (rr_eqb r) a) a'
      else ((rc =? RC_ANY) || (rc =? rc')) && list_eqb rr_eqb a a'
  | ORes c a, ORes c' a' => (c =? c') && list_eqb rr_eqb a a'
  | _, _ => false
  end.

Definition agree (i : input) (o : output) : bool := res_eqb (list_eqb obs_eqb) (model i) o.

(* ---------- the property as a boolean function of an observed output ----------
   [hist] = the PUT requests seen so far (key, body), oldest first.  A record r may appear in the
   answer to a query whose name parses to (rest, K, origin) only if some earlier PUT under path
   key K carried a signature that verifies for K over (ts, payload) and the payload holds a record
   rr kept for K's zone (not SOA/NS, last label = z32 K) with the same name (modulo the zone
   label), type, ttl and data.  (That the owner is the query name is part of [agree].) *)
Definition justified (O : oracles) (hist : list (N * body)) (K : N) (zl : label) (o : name)
           (qn : name) (qt : N) (r : rr) : bool :=
  (rtype r =? qt) &&
  existsb (fun kb =>
    let '(k, b) := kb in
    (k =? K) &&
    match b with
    | Short _ => false
    | Full sig ts pay paylen =>
        verify O K ts pay sig &&
        match parse_h O pay with
        | None => false
        | Some recs =>
            existsb (fun x =>
              keep zl x && (rtype x =? rtype r) && (rttl x =? rttl r) && bytes_eqb (rdata x) (rdata r) &&
              name_eqb_ci (removelast (rname x) ++ [zl] ++ o) (rname r)) recs
        end
    end) hist.

Definition put_accepted (O : oracles) (k : N) (b : body) : bool :=
  match z32 O k, b with
  | Some _, Full sig ts pay paylen =>
      (paylen <=? MAX_DNS_PACKET_SIZE) && verify O k ts pay sig && parse_s O pay
  | _, _ => false
  end.

Definition obs_ok (O : oracles) (origins : list name) (static : list rr)
           (hist : list (N * body)) (o : op) (ob : obs) : bool :=
  match o, ob with
  | Put k b, OPut c => Bool.eqb (c =? 0) (put_accepted O k b)   (* accepted iff well-formed and verified *)
  | GetPk k, OGetPk None => true
  | GetPk k, OGetPk (Some (ts, sig, pay)) =>
      (* the packet handed out was put under k with a verifying signature *)
      existsb (fun kb => let '(k', b) := kb in
                 (k' =? k) && match b with
                              | Full sig' ts' pay' _ => (sig' =? sig) && (ts' =? ts) && (pay' =? pay) &&
                                                        verify O k ts pay sig
                              | Short _ => false
                              end) hist
  | GetPk k, OCode c => true
  | Query n t, OAns rc ans =>
      let n := lower_name n in
      if (t =? T_SOA) || (t =? T_NS) || (t =? T_AXFR) || negb (in_catalog origins n) then
        forallb (fun r => existsb (fun x => rr_eqb (mkRR (lower_name (rname x)) (rtype x) (rttl x) (rdata x)) r) static) ans
      else
        match parse_name O origins n with
        | Some (rest, K, orig) =>
            match z32 O K with
            | Some zl => forallb (justified O hist K zl orig n t) ans
            | None => match ans with [] => true | _ => false end
            end
        | None =>
            forallb (fun r => existsb (fun x => rr_eqb (mkRR (lower_name (rname x)) (rtype x) (rttl x) (rdata x)) r) static) ans
        end
  | Resolve k n t, ORes c ans =>
      (* whatever the store hands out for key k -- for ANY name and ANY type, SOA and NS included --
         is a record of a packet PUT under k with a verifying signature, kept by the zone filter
         (so: never of type SOA / NS), of the asked type.  The observed names carry neither zone label
         nor origin: the zone label is put back and the origin is empty. *)
      match z32 O k with
      | Some zl =>
          forallb (fun r => justified O hist k zl [] (n ++ [zl]) t
                              (mkRR (rname r ++ [lower zl]) (rtype r) (rttl r) (rdata r))) ans
      | None => match ans with [] => true | _ => false end
      end
  | _, _ => false
  end.

Fixpoint monitor_from (O : oracles) (origins : list name) (static : list rr)
         (hist : list (N * body)) (ops : list op) (obl : list obs) : bool :=
  match ops, obl with
  | [], [] => true
  | o :: r, ob :: obr =>
      obs_ok O origins static hist o ob &&
      monitor_from O origins static (match o with Put k b => hist ++ [(k, b)] | _ => hist end) r obr
  | _, _ => false
  end.

Definition monitor (i : input) (o : output) : bool :=
  let '(e, ops) := i in
  match o with
  | Ok obl => monitor_from (oracles_of e) (e_origins e) (e_static e) [] ops obl
  | _ => false
  end.

Definition known (i : input) : N := 0.

(* coverage tag: bit set of
     1 put accepted      2 put rejected: signature    4 put rejected: other reason
     8 query answered from a pkarr zone (records)     16 pkarr name, NXDOMAIN
    32 query on the static path / outside the catalog 64 a packet record was filtered out of its zone
   128 answer bucket with several records
   256 direct store resolve of type SOA / NS for a key whose stored packet holds such a record under the
       asked name and the key's zone label (the filter is what keeps it out)
   512 direct store resolve, any other
  1024 accepted packet with exactly one record       2048 ... whose only record is SOA / NS *)
Definition op_tag (O : oracles) (origins : list name) (static : list rr) (s : C37.state) (o : op) : N :=
  match o with
  | Put k b =>
      let c := snd (put O s k b) in
      (if c =? 0 then 1 else if c =? E_SIG then 2 else 4) +
      match b, z32 O k with
      | Full _ _ pay _, Some zl =>
          match parse_h O pay with
          | Some recs =>
              (if (c =? 0) && negb (forallb (keep zl) recs) then 64 else 0) +
              (if c =? 0 then
                 match recs with
                 | [r] => if (rtype r =? T_SOA) || (rtype r =? T_NS) then 3072 else 1024
                 | _ => 0
                 end
               else 0)
          | None => 0
          end
      | _, _ => 0
      end
  | GetPk _ => 0
  | Query n t =>
      let '(rc, ans) := snd (query O origins static s n t) in
      if rc =? RC_NOERROR then (if 1 <? len ans then 136 else 8)
      else if rc =? RC_NXDOMAIN then 16 else 32
  | Resolve k n t =>
      if ((t =? T_SOA) || (t =? T_NS)) &&
         match C37.tget (C37.store s) k, z32 O k with
         | Some p, Some zl =>
             match parse_h O (pay_id p) with
             | Some recs => existsb (fun r => (rtype r =? t) && name_eqb_ci (rname r) (n ++ [zl])) recs
             | None => false
             end
         | _, _ => false
         end
      then 256 else 512
  end.

Fixpoint tags_from (O : oracles) (origins : list name) (static : list rr)
         (s : C37.state) (ops : list op) (acc : N) : N :=
  match ops with
  | [] => acc
  | o :: r => tags_from O origins static (fst (step O origins static s o)) r
                        (N.lor acc (op_tag O origins static s o))
  end.

Definition tag (i : input) : N :=
  let '(e, ops) := i in tags_from (oracles_of e) (e_origins e) (e_static e) C37.init ops 0.

Definition judge (i : input) (o : output) : bool * bool * N * N :=
  (agree i o, monitor i o, known i, tag i).

End C36.
