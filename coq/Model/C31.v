(* C31 — publishing and resolving endpoint info (iroh-dns/src/endpoint_info.rs,
   attrs.rs, pkarr.rs).  Executable model, definitions only.

   Url / SocketAddr values, their printers (Display) and parsers (Url::parse,
   SocketAddr::from_str) are Section variables; custom addresses use their
   concrete text form `{id:x}_{HEXLOWER(data)}` (iroh-base/src/endpoint_addr.rs:193-214). *)
From V Require Import Lib.Base Lib.Dec Gen.Consts.
Open Scope N_scope.

Module C31.

(* generic helpers *)
Fixpoint filter_map {A B} (f : A -> option B) (l : list A) : list B :=
  match l with
  | [] => []
  | a :: r => match f a with Some b => b :: filter_map f r | None => filter_map f r end
  end.

(* str::split_once(c): (before, Some after) at the first c, or (s, None) *)
Fixpoint split_once (c : N) (s : bytes) : bytes * option bytes :=
  match s with
  | [] => ([], None)
  | x :: r => if x =? c then ([], Some r)
              else let '(k, v) := split_once c r in (x :: k, v)
  end.

Definition EQ : N := 61.      (* '=' *)
Definition USCORE : N := 95.  (* '_' *)
Definition COLON : N := 58.   (* ':' *)

(* simple-dns 0.12 MAX_CHARACTER_STRING_LENGTH (not an iroh constant; the
   correspondence check exercises 254/255/256-byte strings against the real crate) *)
Definition TXT_MAX : N := 255.

Inductive attr := ARelay | AAddr | AUserData.   (* IrohAttr, in Ord order (attrs.rs:82-89) *)

(* strum kebab-case Display / EnumString (case sensitive) *)
Definition attr_name (k : attr) : bytes :=
  match k with
  | ARelay => str_bytes "relay"
  | AAddr => str_bytes "addr"
  | AUserData => str_bytes "user-data"
  end.
Definition attr_of_name (s : bytes) : option attr :=
  if bytes_eqb s (str_bytes "relay") then Some ARelay
  else if bytes_eqb s (str_bytes "addr") then Some AAddr
  else if bytes_eqb s (str_bytes "user-data") then Some AUserData
  else None.

(* TxtAttrs<IrohAttr>: BTreeMap<IrohAttr, Vec<String>>, as one list per key in key order *)
Record txtattrs := mkAttrs { t_id : bytes; t_relay : list bytes; t_addr : list bytes; t_ud : list bytes }.

(* attrs.entry(k).or_default().push(v) *)
Definition push (a : txtattrs) (k : attr) (v : bytes) : txtattrs :=
  match k with
  | ARelay => mkAttrs (t_id a) (t_relay a ++ [v]) (t_addr a) (t_ud a)
  | AAddr => mkAttrs (t_id a) (t_relay a) (t_addr a ++ [v]) (t_ud a)
  | AUserData => mkAttrs (t_id a) (t_relay a) (t_addr a) (t_ud a ++ [v])
  end.

(* TxtAttrs::from_parts (attrs.rs:104-113) *)
Definition from_parts (id : bytes) (pairs : list (attr * bytes)) : txtattrs :=
  fold_left (fun a kv => push a (fst kv) (snd kv)) pairs (mkAttrs id [] [] []).

(* TxtAttrs::to_txt_strings (attrs.rs:170-174): map iteration in key order, format!("{k}={v}") *)
Definition kv_string (k : attr) (v : bytes) : bytes := attr_name k ++ EQ :: v.
Definition to_txt_strings (a : txtattrs) : list bytes :=
  map (kv_string ARelay) (t_relay a) ++ map (kv_string AAddr) (t_addr a) ++ map (kv_string AUserData) (t_ud a).

(* key/value split of one "{key}={value}" string.
   key_value_old — the code before the fix (attrs.rs:122-125):
       let mut parts = s.split('=');  (parts.next(), parts.next())
     the value is only the segment up to the SECOND '='.
   key_value — the fixed code: s.split_once('='). *)
Definition key_value_old (s : bytes) : option (bytes * bytes) :=
  match split_once EQ s with
  | (k, Some v) => Some (k, fst (split_once EQ v))
  | (_, None) => None
  end.
Definition key_value (s : bytes) : option (bytes * bytes) :=
  match split_once EQ s with
  | (k, Some v) => Some (k, v)
  | (_, None) => None
  end.

(* TxtAttrs::from_strings (attrs.rs:116-134): Err 1 = UnexpectedFormat, Err 2 = AttrFromString;
   the first failing string aborts. *)
Fixpoint from_strings_go (kv : bytes -> option (bytes * bytes)) (acc : txtattrs) (ss : list bytes) : res txtattrs :=
  match ss with
  | [] => Ok acc
  | s :: r =>
      match kv s with
      | None => Err 1
      | Some (k, v) =>
          match attr_of_name k with
          | None => Err 2
          | Some a => from_strings_go kv (push acc a v) r
          end
      end
  end.
Definition from_strings_with kv (id : bytes) (ss : list bytes) : res txtattrs :=
  from_strings_go kv (mkAttrs id [] [] []) ss.
Definition from_strings := from_strings_with key_value.
Definition from_strings_old := from_strings_with key_value_old.

(* CustomAddr Display / FromStr (iroh-base/src/endpoint_addr.rs:193-214) *)
Definition print_custom (id : N) (data : bytes) : bytes := hexnum id ++ USCORE :: hexlow data.
Definition parse_custom (s : bytes) : option (N * bytes) :=
  match split_once USCORE s with
  | (i, Some d) =>
      match parse_hex_u64 i with
      | Some id => match unhexlow d with Some data => Some (id, data) | None => None end
      | None => None
      end
  | (_, None) => None
  end.

(* UserData::from_str (endpoint_info.rs:332-339); Err 9 = MaxLengthExceeded *)
Definition mk_user_data (u : option bytes) : res (option bytes) :=
  match u with
  | None => Ok None
  | Some s => if len s <=? C31_USER_DATA_MAX_LENGTH then Ok (Some s) else Err 9
  end.

(* SignedPacket::from_txt_strings, size side only (pkarr.rs:44-88): every value
   becomes one TXT record with one character string under the name
   `_iroh.<z32 key>` (60 bytes on the wire the first time, a 2-byte compression
   pointer afterwards); 12-byte header; per record type+class+ttl+rdlength = 10, +1 length byte.
   Err 1 = DnsError (character string too long), Err 2 = PacketTooLarge. *)
Definition NAME_WIRE_LEN : N := 60.
Definition record_len (first : bool) (s : bytes) : N :=
  (if first then NAME_WIRE_LEN else 2) + 10 + 1 + len s.
Definition packet_len (ss : list bytes) : N :=
  12 + match ss with
       | [] => 0
       | s :: r => record_len true s + fold_right (fun x a => record_len false x + a) 0 r
       end.
Definition encode_packet (ss : list bytes) : res unit :=
  if existsb (fun s => TXT_MAX <? len s) ss then Err 1
  else if PKARR_MAX_DNS_PACKET_SIZE <? packet_len ss then Err 2
  else Ok tt.

Section Model.
  Variables Url Sock : Type.
  Variable url_eqb : Url -> Url -> bool.
  Variable sock_eqb : Sock -> Sock -> bool.
  Variable print_url : Url -> bytes.            (* RelayUrl Display *)
  Variable parse_url : bytes -> option Url.     (* Url::parse(s).ok() then RelayUrl::from *)
  Variable print_sock : Sock -> bytes.          (* SocketAddr Display *)
  Variable parse_sock : bytes -> option Sock.   (* SocketAddr::from_str(s).ok() *)

  Inductive addr := Relay (u : Url) | Ip (a : Sock) | Custom (id : N) (data : bytes).

  Definition addr_eqb (x y : addr) : bool :=
    match x, y with
    | Relay u, Relay v => url_eqb u v
    | Ip a, Ip b => sock_eqb a b
    | Custom i d, Custom j e => N.eqb i j && bytes_eqb d e
    | _, _ => false
    end.

  Record info := mkInfo { eid : bytes; addrs : list addr; udata : option bytes }.

  (* endpoint_info_to_attrs (endpoint_info.rs:486-501) *)
  Definition print_addr (a : addr) : attr * bytes :=
    match a with
    | Relay u => (ARelay, print_url u)
    | Ip s => (AAddr, print_sock s)
    | Custom i d => (AAddr, print_custom i d)
    end.
  Definition to_attrs (i : info) : txtattrs :=
    from_parts (eid i)
      (map print_addr (addrs i) ++ match udata i with Some u => [(AUserData, u)] | None => [] end).

  (* endpoint_info_from_attrs (endpoint_info.rs:504-540) *)
  Definition parse_addr_value (s : bytes) : option addr :=
    match parse_sock s with
    | Some a => Some (Ip a)
    | None => match parse_custom s with
              | Some (i, d) => Some (Custom i d)
              | None => None
              end
    end.
  Definition parse_relay_value (s : bytes) : option addr :=
    match parse_url s with Some u => Some (Relay u) | None => None end.

  (* EndpointData::add_addrs (endpoint_info.rs:124-132) *)
  Definition add_addrs (cur new : list addr) : list addr :=
    fold_left (fun acc a => if existsb (addr_eqb a) acc then acc else acc ++ [a]) new cur.

  Definition from_attrs (a : txtattrs) : info :=
    let relays := filter_map parse_relay_value (t_relay a) in
    let others := filter_map parse_addr_value (t_addr a) in
    let ud := match t_ud a with
              | [] => None
              | s :: _ => if len s <=? C31_USER_DATA_MAX_LENGTH then Some s else None
              end in
    mkInfo (t_id a) (add_addrs [] (relays ++ others)) ud.

  (* to_txt_strings, then from_txt_lookup with the same endpoint id *)
  Definition resolve_with kv (i : info) : res info :=
    match from_strings_with kv (eid i) (to_txt_strings (to_attrs i)) with
    | Ok a => Ok (from_attrs a)
    | Err e => Err e
    | Panic => Panic
    end.
  Definition resolve_txt := resolve_with key_value.
  Definition resolve_txt_old := resolve_with key_value_old.

  (* to_pkarr_signed_packet, then from_pkarr_signed_packet: the DNS layer hands
     back exactly the strings it was given (txt_records (from_txt_strings vs) = vs,
     assumed of simple-dns and exercised by the correspondence check). *)
  Definition resolve_pkt_with kv (i : info) : res info :=
    match encode_packet (to_txt_strings (to_attrs i)) with
    | Ok _ => resolve_with kv i
    | Err e => Err e
    | Panic => Panic
    end.
  Definition resolve_pkt := resolve_pkt_with key_value.

  Definition info_eqb (x y : info) : bool :=
    bytes_eqb (eid x) (eid y) && list_eqb addr_eqb (addrs x) (addrs y) && opt_eqb bytes_eqb (udata x) (udata y).

  (* same id, same address SET, same user data *)
  Definition subset (l1 l2 : list addr) : bool := forallb (fun a => existsb (addr_eqb a) l2) l1.
  Definition same_info (orig : info) (r : res info) : bool :=
    match r with
    | Ok i' => bytes_eqb (eid i') (eid orig) && subset (addrs i') (addrs orig) && subset (addrs orig) (addrs i')
               && opt_eqb bytes_eqb (udata i') (udata orig)
    | _ => false
    end.

  (* the hypotheses of the round-trip theorem, per address (boolean form) *)
  Definition opt_is {A} (eqb : A -> A -> bool) (o : option A) (a : A) : bool :=
    match o with Some b => eqb b a | None => false end.
  Definition addr_okb (a : addr) : bool :=
    match a with
    | Relay u => opt_is url_eqb (parse_url (print_url u)) u
    | Ip s => opt_is sock_eqb (parse_sock (print_sock s)) s
    | Custom i d => (i <=? 18446744073709551615) && forallb (fun b => b <? 256) d &&
                    match parse_sock (print_custom i d) with None => true | Some _ => false end
    end.
End Model.

Arguments Relay {Url Sock} u.
Arguments Ip {Url Sock} a.
Arguments Custom {Url Sock} id data.
Arguments mkInfo {Url Sock} eid addrs udata.
Arguments eid {Url Sock} i.
Arguments addrs {Url Sock} i.
Arguments udata {Url Sock} i.

(* ---- the instance evaluated by the correspondence check ----
   A Url / SocketAddr is represented by its canonical text; the parsers are the
   real ones, tabulated by the harness for every string the resolver can see
   (the full value and the part before its first '='). *)
Definition oracle := list (bytes * option bytes * option bytes).
Fixpoint lookup (o : oracle) (s : bytes) : option (option bytes * option bytes) :=
  match o with
  | [] => None
  | (k, u, a) :: r => if bytes_eqb k s then Some (u, a) else lookup r s
  end.
Definition oe (s : bytes) (u a : option bytes) : bytes * option bytes * option bytes := (s, u, a).
Definition o_parse_url (o : oracle) (s : bytes) : option bytes :=
  match lookup o s with Some (u, _) => u | None => None end.
Definition o_parse_sock (o : oracle) (s : bytes) : option bytes :=
  match lookup o s with Some (_, a) => a | None => None end.

Definition caddr := addr bytes bytes.
Definition cinfo := info bytes bytes.

Record input := mkIn {
  in_id : bytes; in_addrs : list caddr; in_ud : option bytes;
  in_oracle : oracle;
  in_rt_ok : bool     (* harness: parse (print a) == a at the Rust level for every address *)
}.
Record out := mkOut { o_strings : list bytes; o_txt : res cinfo; o_pkt : res cinfo }.
Definition output := res out.

Definition id_fn (b : bytes) : bytes := b.

Definition c_resolve_txt (o : oracle) : cinfo -> res cinfo :=
  resolve_txt bytes bytes bytes_eqb bytes_eqb id_fn (o_parse_url o) id_fn (o_parse_sock o).
Definition c_resolve_pkt (o : oracle) : cinfo -> res cinfo :=
  resolve_pkt bytes bytes bytes_eqb bytes_eqb id_fn (o_parse_url o) id_fn (o_parse_sock o).
Definition c_to_attrs : cinfo -> txtattrs := to_attrs bytes bytes id_fn id_fn.

Definition model (i : input) : output :=
  match mk_user_data (in_ud i) with
  | Ok ud =>
      let inf := mkInfo (in_id i) (in_addrs i) ud in
      Ok (mkOut (to_txt_strings (c_to_attrs inf)) (c_resolve_txt (in_oracle i) inf) (c_resolve_pkt (in_oracle i) inf))
  | Err e => Err e
  | Panic => Panic
  end.

Definition c_info_eqb : cinfo -> cinfo -> bool := info_eqb bytes bytes bytes_eqb bytes_eqb.
Definition out_eqb (x y : out) : bool :=
  list_eqb bytes_eqb (o_strings x) (o_strings y) &&
  res_eqb c_info_eqb (o_txt x) (o_txt y) && res_eqb c_info_eqb (o_pkt x) (o_pkt y).
Definition agree (i : input) (o : output) : bool := res_eqb out_eqb (model i) o.

(* Inside the property's quantifier: the printer/parser hypotheses hold for the
   addresses of this case (and the harness confirmed them on the Rust values). *)
Definition hyp_holds (i : input) : bool :=
  in_rt_ok i &&
  forallb (addr_okb bytes bytes bytes_eqb bytes_eqb id_fn (o_parse_url (in_oracle i)) id_fn (o_parse_sock (in_oracle i)))
          (in_addrs i).

Definition c_same : cinfo -> res cinfo -> bool := same_info bytes bytes bytes_eqb bytes_eqb.

(* The property on an observed output: the TXT route returns the same id, address
   set and user data; so does the packet route unless the packet does not encode
   (Err 1 string too long / Err 2 packet too large). *)
Definition monitor (i : input) (o : output) : bool :=
  if negb (hyp_holds i) then true else
  match mk_user_data (in_ud i) with
  | Ok ud =>
      let inf := mkInfo (in_id i) (in_addrs i) ud in
      match o with
      | Ok r =>
          c_same inf (o_txt r) &&
          match o_pkt r with
          | Err 1 | Err 2 => true
          | p => c_same inf p
          end
      | _ => false
      end
  | _ => true      (* not a UserData value: nothing was published *)
  end.

Definition known (i : input) : N := 0.

Definition has_eq (s : bytes) : bool := existsb (N.eqb EQ) s.
Definition is_custom (a : caddr) : bool := match a with Custom _ _ => true | _ => false end.

(* 9 outside the quantifier / 8 user data rejected at construction / 7 packet: string too long /
   6 packet too large / 5 some value contains '=' / 3 has a custom address / 2 has user data /
   1 addresses only / 0 empty info *)
Definition tag (i : input) : N :=
  match mk_user_data (in_ud i) with
  | Ok ud =>
      if negb (hyp_holds i) then 9 else
      let inf := mkInfo (in_id i) (in_addrs i) ud in
      let a := c_to_attrs inf in
      match encode_packet (to_txt_strings a) with
      | Err 1 => 7
      | Err _ => 6
      | _ =>
          if existsb has_eq (t_relay a ++ t_addr a ++ t_ud a) then 5
          else if existsb is_custom (in_addrs i) then 3
          else match ud with
               | Some _ => 2
               | None => match in_addrs i with [] => 0 | _ => 1 end
               end
      end
  | _ => 8
  end.

Definition judge (i : input) (o : output) : bool * bool * N * N :=
  (agree i o, monitor i o, known i, tag i).

End C31.
