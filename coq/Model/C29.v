(* C29 — AddressLookupServices::resolve / AddressLookupStream::poll_next
   (iroh/src/address_lookup.rs:553-649).  Executable model, definitions only.

   The merged inner stream (futures-buffered MergeBounded over the per-service
   streams) is modelled as a LIST: the sequence in which the inner elements become
   available, which may be ANY interleaving of the per-service lists.  `Pending` is
   not modelled: a poll in the model is a poll that returns `Ready`. *)
From V Require Import Lib.Base.
Open Scope N_scope.

Module C29.

Inductive kind := KOk | KErr.

(* An element of a per-service stream, identified by (service index, position). *)
Inductive inner :=
| IOk (s q : N)
| IErr (s q : N).

(* What one `poll_next` of the AddressLookupStream yields (when Ready):
   Some(Ok(Ok item)) | Some(Ok(Err error)) | Some(Err NoServiceConfigured) |
   Some(Err NoResults{errors}) | None.  OUnknown: something the harness could not
   attribute to a scripted service (never produced by the model). *)
Inductive oev :=
| OItem (s q : N)
| OErr (s q : N)
| ONoService
| ONoResults (errs : list (N * N))
| OUnknown
| OEnd.

(* struct AddressLookupStream { streams, errors, did_emit, closed }   (:582-587) *)
Record st := mkSt {
  streams : option (list inner);   (* None = AddressLookupStream::empty() *)
  errors : list (N * N);
  did_emit : bool;
  closed : bool
}.

Definition empty : st := mkSt None [] false false.                   (* :590-597 *)
Definition new (l : list inner) : st := mkSt (Some l) [] false false. (* :599-606 *)

(* poll_next  (:612-648), same branch order. *)
Definition poll_next (s : st) : oev * st :=
  if closed s then (OEnd, s)                                                   (* :617-619 *)
  else match streams s with
  | None => (ONoService, mkSt None (errors s) (did_emit s) true)              (* :622-625 *)
  | Some l =>
      match l with
      | IOk a q :: r => (OItem a q, mkSt (Some r) (errors s) true false)       (* :628-631 *)
      | IErr a q :: r => (OErr a q, mkSt (Some r) (errors s ++ [(a, q)]) (did_emit s) false)  (* :632-636 *)
      | [] =>                                                                  (* :637-645 *)
          if negb (did_emit s)
          then (ONoResults (errors s), mkSt (Some []) [] (did_emit s) true)
          else (OEnd, mkSt (Some []) (errors s) (did_emit s) true)
      end
  end.

Fixpoint polls (n : nat) (s : st) : list oev :=
  match n with
  | O => []
  | S n' => let '(e, s') := poll_next s in e :: polls n' s'
  end.

(* ---- resolve (:553-566): no service -> empty(); otherwise new(filter_map resolve) ---- *)

(* A scripted service: None = its `resolve` declines; Some (items, end_delay), every item
   with the delay (ms) after the previous one. *)
Definition svc := option (list (N * kind) * N).

Definition mk_inner (s q : N) (k : kind) : inner :=
  match k with KOk => IOk s q | KErr => IErr s q end.

(* per-service cursor: (service index, next position, current time, remaining items, end delay) *)
Record cur := mkCur { c_idx : N; c_pos : N; c_time : N; c_rest : list (N * kind); c_end : N }.

Fixpoint cursors (i : N) (ss : list svc) : list cur :=
  match ss with
  | [] => []
  | None :: r => cursors (i + 1) r
  | Some (items, e) :: r => mkCur i 0 0 items e :: cursors (i + 1) r
  end.

(* take the next element of service `s`: (time, element, cursors') *)
Fixpoint pop (s : N) (cs : list cur) : option (N * inner * list cur) :=
  match cs with
  | [] => None
  | c :: r =>
      if N.eqb (c_idx c) s then
        match c_rest c with
        | [] => None
        | (d, k) :: items =>
            let t := c_time c + d in
            Some (t, mk_inner s (c_pos c) k, mkCur s (c_pos c + 1) t items (c_end c) :: r)
        end
      else match pop s r with
           | Some (t, x, r') => Some (t, x, c :: r')
           | None => None
           end
  end.

(* follow the schedule; None if it asks for an exhausted/declining/unknown service *)
Fixpoint merge (cs : list cur) (sched : list N) : option (list (N * inner) * list cur) :=
  match sched with
  | [] => Some ([], cs)
  | s :: r =>
      match pop s cs with
      | None => None
      | Some (t, x, cs') =>
          match merge cs' r with
          | None => None
          | Some (l, cs'') => Some ((t, x) :: l, cs'')
          end
      end
  end.

Definition all_done (cs : list cur) : bool :=
  forallb (fun c => match c_rest c with [] => true | _ => false end) cs.

(* the time at which the last per-service stream ends *)
Definition end_time (cs : list cur) : N :=
  fold_right (fun c m => N.max (c_time c + c_end c) m) 0 cs.

(* times of the polls: the k-th element at its scripted time, everything after the
   last element at the time the last stream ends *)
Fixpoint stamp (ts : list N) (tend : N) (evs : list oev) : list (N * oev) :=
  match evs with
  | [] => []
  | e :: r =>
      match ts with
      | t :: ts' => (t, e) :: stamp ts' tend r
      | [] => (tend, e) :: stamp [] tend r
      end
  end.

Definition resolve (ss : list svc) (l : list inner) : st :=
  match ss with
  | [] => empty
  | _ => new l
  end.

(* number of polls the harness makes: until the first None, then `extra` more *)
Definition has_ok (l : list inner) : bool :=
  existsb (fun x => match x with IOk _ _ => true | _ => false end) l.

Definition npolls (ss : list svc) (l : list inner) (extra : N) : nat :=
  match ss with
  | [] => 2 + N.to_nat extra
  | _ => length l + (if has_ok l then 1 else 2) + N.to_nat extra
  end.

Definition input := (list svc * list N * N)%type.     (* services, schedule, extra polls *)
Definition output := res (list (N * oev)).

Definition model (i : input) : output :=
  let '(ss, sched, extra) := i in
  match merge (cursors 0 ss) sched with
  | None => Err 1                                  (* not a schedule of these services *)
  | Some (tl, cs) =>
      if negb (all_done cs) then Err 2             (* incomplete schedule *)
      else
        let l := map snd tl in
        Ok (stamp (map fst tl) (end_time cs) (polls (npolls ss l extra) (resolve ss l)))
  end.

(* the schedule is a complete schedule of these services *)
Definition valid (i : input) : bool := match model i with Ok _ => true | _ => false end.

Definition pairNN_eqb (x y : N * N) : bool := N.eqb (fst x) (fst y) && N.eqb (snd x) (snd y).

Definition oev_eqb (a b : oev) : bool :=
  match a, b with
  | OItem s q, OItem s' q' => N.eqb s s' && N.eqb q q'
  | OErr s q, OErr s' q' => N.eqb s s' && N.eqb q q'
  | ONoService, ONoService => true
  | ONoResults e, ONoResults e' => list_eqb pairNN_eqb e e'
  | OUnknown, OUnknown => true
  | OEnd, OEnd => true
  | _, _ => false
  end.

Definition tev_eqb (x y : N * oev) : bool := N.eqb (fst x) (fst y) && oev_eqb (snd x) (snd y).

Definition agree (i : input) (o : output) : bool := res_eqb (list_eqb tev_eqb) (model i) o.

(* ---- the property as a boolean function of an observed output ---- *)

Definition is_inner (e : oev) : bool :=
  match e with OItem _ _ | OErr _ _ => true | _ => false end.

Fixpoint span_inner (evs : list oev) : list oev * list oev :=
  match evs with
  | e :: r => if is_inner e then let '(a, b) := span_inner r in (e :: a, b) else ([], evs)
  | [] => ([], [])
  end.

(* what service `s` produced, as output events *)
Fixpoint expect_svc (s q : N) (items : list (N * kind)) : list oev :=
  match items with
  | [] => []
  | (_, KOk) :: r => OItem s q :: expect_svc s (q + 1) r
  | (_, KErr) :: r => OErr s q :: expect_svc s (q + 1) r
  end.

Definition of_svc (s : N) (e : oev) : bool :=
  match e with OItem a _ | OErr a _ => N.eqb a s | _ => false end.

Definition oev_list_eqb := list_eqb oev_eqb.

(* every service's elements appear, in that service's order, and nothing else *)
Fixpoint svcs_ok (i : N) (ss : list svc) (body : list oev) : bool :=
  match ss with
  | [] => true
  | None :: r => negb (existsb (of_svc i) body) && svcs_ok (i + 1) r body
  | Some (items, _) :: r =>
      oev_list_eqb (filter (of_svc i) body) (expect_svc i 0 items) && svcs_ok (i + 1) r body
  end.

Definition in_range (n : N) (e : oev) : bool :=
  match e with OItem a _ | OErr a _ => a <? n | _ => false end.

Definition body_has_ok (body : list oev) : bool :=
  existsb (fun e => match e with OItem _ _ => true | _ => false end) body.

Fixpoint body_errs (body : list oev) : list (N * N) :=
  match body with
  | OErr s q :: r => (s, q) :: body_errs r
  | _ :: r => body_errs r
  | [] => []
  end.

Definition all_end (l : list oev) : bool :=
  forallb (fun e => match e with OEnd => true | _ => false end) l.

Definition monitor (i : input) (o : output) : bool :=
  let '(ss, _, _) := i in
  match o with
  | Ok tevs =>
      let evs := map snd tevs in
      match ss with
      | [] =>
          match evs with
          | ONoService :: OEnd :: r => all_end r
          | _ => false
          end
      | _ =>
          let '(body, tail) := span_inner evs in
          forallb (in_range (len ss)) body && svcs_ok 0 ss body &&
          match tail with
          | OEnd :: r => body_has_ok body && all_end r
          | ONoResults errs :: OEnd :: r =>
              negb (body_has_ok body) && list_eqb pairNN_eqb errs (body_errs body) && all_end r
          | _ => false
          end
      end
  | _ => false
  end.

Definition known (i : input) : N := 0.

(* 1 no service configured / 2 services but all decline / 3 streams without elements /
   4 only errors / 5 only items / 6 items and errors *)
Definition tag (i : input) : N :=
  let '(ss, _, _) := i in
  match ss with
  | [] => 1
  | _ =>
      let live := flat_map (fun s => match s with Some (items, _) => [items] | None => [] end) ss in
      match live with
      | [] => 2
      | _ =>
          let ks := map snd (concat live) in
          let o := existsb (fun k => match k with KOk => true | _ => false end) ks in
          let e := existsb (fun k => match k with KErr => true | _ => false end) ks in
          match o, e with
          | false, false => 3
          | false, true => 4
          | true, false => 5
          | true, true => 6
          end
      end
  end.

Definition judge (i : input) (o : output) : bool * bool * N * N :=
  (agree i o, monitor i o, known i, tag i).

End C29.
