(* C39 — the signed-packet store (iroh-dns-server/src/store/signed_packets.rs):
   two tables, batched write transactions, the storage format, CheckExpired and
   the eviction scan.  Executable model, definitions only.

     tables                               signed_packets.rs
       signed-packets-1 : key -> value    :20-21    value = <8 bytes last_seen><packet bytes>
       update-time-1    : multimap timestamp -> key  :22-23   (the expiry index)
     Actor::run0       one write transaction per batch, committed after
                       max_batch_size messages / max_batch_time / cancel   :116-147
     handle_message    Upsert :161-195  Get :151-160  CheckExpired :217-251
     serialize / deserialize (with the pre-v0.35 fallback)                 :394-416
     evict_task_inner  snapshot, range(..cutoff) of the index, one
                       CheckExpired per row                                :446-498

   Packets are the abstract packets of C38 (key, timestamp, encoded bytes for the
   tie-break; `pval` serves as the packet's identity).  The storage format is
   modelled on bytes separately (section Format).  redb's atomic commit is the
   model's `ECommit` step; it is assumed here and tested by the crash replay. *)
From V Require Import Lib.Base Model.C38.
Open Scope N_scope.

Module C39.
Import C38.

(* ---------- storage format (bytes) ---------- *)
Section Format.
  (* the 32 key bytes are a curve point; simple-dns accepts the DNS part of a packet *)
  Variable key_ok : bytes -> bool.
  Variable dns_ok : bytes -> bool.

  (* SignedPacket::from_bytes_unchecked (iroh-dns/src/pkarr.rs:134-148, with the key check of the
     C32 fix): Err 1 too short, 2 too large, 4 invalid key, 3 DNS *)
  Definition from_bytes_unchecked (b : bytes) : res bytes :=
    if len b <? 104 then Err 1
    else if 1104 <? len b then Err 2
    else if negb (key_ok (firstn 32 b)) then Err 4
    else if dns_ok (skipn 104 b) then Ok b else Err 3.

  (* big-endian u64 *)
  Fixpoint be_bytes (n : nat) (x : N) : bytes :=
    match n with
    | O => []
    | S n' => (be_bytes n' (x / 256) ++ [x mod 256])%list
    end.
  Definition serialize (now : N) (packet : bytes) : bytes := (be_bytes 8 now ++ packet)%list.

  Definition deserialize (data : bytes) : res bytes :=
    match (if 8 <=? len data then from_bytes_unchecked (skipn 8 data) else Err 0) with
    | Ok p => Ok p
    | _ => from_bytes_unchecked data
    end.
End Format.

(* ---------- tables ---------- *)
Definition row := (N * N)%type.                 (* (timestamp, key) *)
Definition row_eqb (a b : row) : bool := (fst a =? fst b) && (snd a =? snd b).

Record db := mkDb {
  pk : N -> option (N * pkt);                   (* key -> (last_seen, packet) *)
  ix : list row }.                              (* the expiry index, a set *)

Definition ix_remove (r : row) (l : list row) : list row := filter (fun x => negb (row_eqb x r)) l.
Definition ix_mem (r : row) (l : list row) : bool := existsb (row_eqb r) l.
Definition ix_insert (r : row) (l : list row) : list row := if ix_mem r l then l else r :: l.

Definition empty : db := mkDb (fun _ => None) [].

Inductive msg :=
| Upsert (now : N) (p : pkt)            (* now: the actor's clock when it serializes *)
| Get (k : N)
| CheckExpired (now time k : N).        (* now: the actor's clock when it handles the message *)

Inductive obs :=
| OUpsert (updated : bool)
| OGet (r : option (N * N))             (* (timestamp, identity) *)
| ONone.

(* retention R (Options::eviction, microseconds) *)
Definition handle (R : N) (d : db) (m : msg) : db * obs :=
  match m with
  | Get k => (d, OGet (option_map (fun v => (pts (snd v), pval (snd v))) (pk d k)))
  | Upsert now p =>
      let k := pkey p in
      match pk d k with
      | Some (_, e) =>
          if more_recent e p then (d, OUpsert false)
          else (mkDb (upd (pk d) k (Some (now, p)))
                     (ix_insert (pts p, k) (ix_remove (pts e, k) (ix d))), OUpsert true)
      | None =>
          (mkDb (upd (pk d) k (Some (now, p))) (ix_insert (pts p, k) (ix d)), OUpsert true)
      end
  | CheckExpired now time k =>
      match pk d k with
      | Some (_, q) =>
          if pts q <? now - R                      (* saturating_sub = truncated subtraction *)
          then (mkDb (upd (pk d) k None) (ix_remove (time, k) (ix d)), ONone)
          else (mkDb (pk d) (ix_remove (time, k) (ix d)), ONone)
      | None => (mkDb (pk d) (ix_remove (time, k) (ix d)), ONone)
      end
  end.

Fixpoint apply (R : N) (d : db) (ms : list msg) : db :=
  match ms with
  | [] => d
  | m :: r => apply R (fst (handle R d m)) r
  end.

Fixpoint observe (R : N) (d : db) (ms : list msg) : list obs :=
  match ms with
  | [] => []
  | m :: r => let '(d', o) := handle R d m in o :: observe R d' r
  end.

(* ---------- transactions and crashes ---------- *)
Inductive event := EMsg (m : msg) | ECommit | ECrash.

(* (durable, working) *)
Definition ev_step (R : N) (s : db * db) (e : event) : db * db :=
  match e with
  | EMsg m => (fst s, fst (handle R (snd s) m))
  | ECommit => (snd s, snd s)
  | ECrash => (fst s, fst s)
  end.
Definition ev_run (R : N) (s : db * db) (es : list event) : db * db := fold_left (ev_step R) es s.

(* messages whose effects are durable / still only in the open transaction *)
Fixpoint survived_aux (es : list event) (done pending : list msg) : list msg * list msg :=
  match es with
  | [] => (done, pending)
  | EMsg m :: r => survived_aux r done (pending ++ [m])
  | ECommit :: r => survived_aux r (done ++ pending) []
  | ECrash :: r => survived_aux r done []
  end.
Definition survived (es : list event) : list msg * list msg := survived_aux es [] [].

Fixpoint msgs_of (es : list event) : list msg :=
  match es with
  | [] => []
  | EMsg m :: r => m :: msgs_of r
  | _ :: r => msgs_of r
  end.

(* ---------- the eviction scan (evict_task_inner) ---------- *)
(* one CheckExpired per index row older than the cut-off of the scan; `now` is the
   actor's clock when it handles them (not before the scan) *)
Definition scan (cutoff now : N) (d : db) : list msg :=
  map (fun r => CheckExpired now (fst r) (snd r)) (filter (fun r => fst r <? cutoff) (ix d)).

(* ---------- correspondence interface ---------- *)
(* chunks of at most b messages: the batches of a store with max_batch_size = b,
   an unbounded max_batch_time and no other sender *)
Fixpoint chunks_aux (fuel : nat) (b : nat) (ms : list msg) : list (list msg) :=
  match fuel, ms with
  | O, _ => []
  | _, [] => []
  | S f, _ => firstn b ms :: chunks_aux f b (skipn b ms)
  end.
Definition chunks (b : nat) (ms : list msg) : list (list msg) :=
  chunks_aux (length ms) (Nat.max 1 b) ms.

Definition dump := (list (N * option (N * N * N)) * list row)%type.  (* per key: (last_seen, timestamp, identity); index *)

Definition dump_of (nkeys : nat) (d : db) : dump :=
  (map (fun k => (N.of_nat k,
          option_map (fun v => (fst v, pts (snd v), pval (snd v))) (pk d (N.of_nat k)))) (seq 0 nkeys),
   ix d).

Definition cell_eqb (a b : N * option (N * N * N)) : bool :=
  (fst a =? fst b) && opt_eqb triple_eqb (snd a) (snd b).
Definition subset (a b : list row) : bool := forallb (fun r => ix_mem r b) a.
Definition dump_eqb (a b : dump) : bool :=
  list_eqb cell_eqb (fst a) (fst b) && subset (snd a) (snd b) && subset (snd b) (snd a).

(* state after the first j batches *)
Definition after_batches (R : N) (d0 : db) (bs : list (list msg)) (j : nat) : db :=
  apply R d0 (concat (firstn j bs)).

Inductive input :=
| IOps (R : N) (nkeys : nat) (batch : nat) (pre : list (N * pkt)) (ms : list msg)
       (crashes : list (nat * nat))
  (* pre: rows present before the store is opened (last_seen, packet), with their index rows;
     crashes: per crash point, the numbers lo <= hi of batches that may have become durable *)
| IFormat (data : bytes) (key8 key0 ok8 ok0 : bool) (now : N)
  (* deserialize data; if data is a packet (from_bytes_unchecked accepts it): serialize at clock
     `now`, and deserialize that.  key8 / key0: is data[8..40] / data[0..32] a valid key;
     ok8 / ok0: simple-dns verdicts on data[112..] / data[104..] *)
| IEvict (R now : N) (nkeys : nat) (pubs : list pkt).
  (* end to end: publish, let the real evict task run (real clock about `now`), read back *)

Inductive output :=
| OOps (os : list obs) (final : dump) (recovered : list dump)
| OFormat (d : res bytes) (s : option (bytes * res bytes))
| OEvict (present : list (N * option (N * N))).

Definition preload (pre : list (N * pkt)) : db :=
  fold_left (fun d v => mkDb (upd (pk d) (pkey (snd v)) (Some v))
                             (ix_insert (pts (snd v), pkey (snd v)) (ix d))) pre empty.

Definition dns_oracle (n8 n0 : N) (ok8 ok0 : bool) (b : bytes) : bool :=
  if len b =? n0 then ok0 else if len b =? n8 then ok8 else false.
Definition key_oracle (k0 : bytes) (key8 key0 : bool) (b : bytes) : bool :=
  if bytes_eqb b k0 then key0 else key8.

Definition model (i : input) : output :=
  match i with
  | IOps R nkeys batch pre ms crashes =>
      let d0 := preload pre in
      OOps (observe R d0 ms) (dump_of nkeys (apply R d0 ms))
           (map (fun c => dump_of nkeys (after_batches R d0 (chunks batch ms) (fst c))) crashes)
  | IFormat data key8 key0 ok8 ok0 now =>
      let o := dns_oracle (len data - 112) (len data - 104) ok8 ok0 in
      let ko := key_oracle (firstn 32 data) key8 key0 in
      OFormat (deserialize ko o data)
        (match from_bytes_unchecked ko o data with
         | Ok p => let s := serialize now p in
                   (* the only key and DNS part consulted when reading s back are again those of data *)
                   Some (s, deserialize (fun _ => key0) (fun _ => ok0) s)
         | _ => None
         end)
  | IEvict R now nkeys pubs =>
      let d := apply R empty (map (Upsert 0) pubs) in
      let d' := apply R d (scan (now - R) now d) in
      OEvict (map (fun k => (N.of_nat k,
                 option_map (fun v => (pts (snd v), pval (snd v))) (pk d' (N.of_nat k)))) (seq 0 nkeys))
  end.

Definition obs_eqb (a b : obs) : bool :=
  match a, b with
  | OUpsert x, OUpsert y => Bool.eqb x y
  | OGet x, OGet y => opt_eqb (fun u v => (fst u =? fst v) && (snd u =? snd v)) x y
  | ONone, ONone => true
  | _, _ => false
  end.

(* is the recovered state one of the admissible ones? *)
Fixpoint admissible (R : N) (nkeys : nat) (d0 : db) (bs : list (list msg)) (lo n : nat) (got : dump) : bool :=
  dump_eqb (dump_of nkeys (after_batches R d0 bs lo)) got ||
  match n with
  | O => false
  | S n' => admissible R nkeys d0 bs (S lo) n' got
  end.

Definition agree (i : input) (o : output) : bool :=
  match i, o with
  | IOps R nkeys batch pre ms crashes, OOps os final recovered =>
      let d0 := preload pre in
      list_eqb obs_eqb (observe R d0 ms) os &&
      dump_eqb (dump_of nkeys (apply R d0 ms)) final &&
      (length crashes =? length recovered)%nat &&
      forallb (fun cr => admissible R nkeys d0 (chunks batch ms) (fst (fst cr)) (snd (fst cr) - fst (fst cr)) (snd cr))
              (combine crashes recovered)
  | IFormat _ _ _ _ _ _, OFormat d s =>
      match model i with
      | OFormat d' s' =>
          res_eqb bytes_eqb d' d &&
          opt_eqb (fun a b => bytes_eqb (fst a) (fst b) && res_eqb bytes_eqb (snd a) (snd b)) s' s
      | _ => false
      end
  | IEvict _ _ _ _, OEvict present =>
      match model i with
      | OEvict p' => list_eqb (fun a b => (fst a =? fst b) &&
                         opt_eqb (fun u v => (fst u =? fst v) && (snd u =? snd v)) (snd a) (snd b)) p' present
      | _ => false
      end
  | _, _ => false
  end.

(* ---------- the property on an observed output ---------- *)
Definition upserts (ms : list msg) : list pkt :=
  flat_map (fun m => match m with Upsert _ p => [p] | _ => [] end) ms.
Definition evicts_key (k : N) (ms : list msg) : bool :=
  existsb (fun m => match m with CheckExpired _ _ k' => k' =? k | _ => false end) ms.

(* a dump is consistent: every stored packet was published (or preloaded) for its
   key and has its index row *)
Definition dump_ok (known : list pkt) (d : dump) : bool :=
  forallb (fun c =>
    match snd c with
    | None => true
    | Some (_, ts, id) =>
        ix_mem (ts, fst c) (snd d) &&
        existsb (fun p => (pkey p =? fst c) && (pts p =? ts) && (pval p =? id)) known
    end) (fst d).

(* key k holds a packet not older than p *)
Definition holds_ge (known : list pkt) (d : dump) (p : pkt) : bool :=
  existsb (fun c => (fst c =? pkey p) &&
    match snd c with
    | None => false
    | Some (_, ts, id) =>
        existsb (fun q => (pkey q =? pkey p) && (pts q =? ts) && (pval q =? id) && ge q p) known
    end) (fst d).

(* the quantifier of the property: CheckExpired messages are those the evict task can
   send (a row older than the cut-off the actor computes, the clock being monotone);
   the rows present before the store is opened have distinct keys; every key is read back *)
Fixpoint nodup_keys (l : list N) : bool :=
  match l with
  | [] => true
  | k :: r => negb (existsb (N.eqb k) r) && nodup_keys r
  end.
Definition wf_ops (R : N) (nkeys : nat) (pre : list (N * pkt)) (ms : list msg) : bool :=
  forallb (fun m => match m with CheckExpired now time _ => time <? now - R | _ => true end) ms &&
  nodup_keys (map (fun v => pkey (snd v)) pre) &&
  forallb (fun p => pkey p <? N.of_nat nkeys) (map snd pre ++ upserts ms).

Definition monitor (i : input) (o : output) : bool :=
  match i, o with
  | IOps R nkeys batch pre ms crashes, OOps os final recovered =>
      let known := (map snd pre ++ upserts ms)%list in
      let bs := chunks batch ms in
      negb (wf_ops R nkeys pre ms) ||
      dump_ok known final &&
      forallb (dump_ok known) recovered &&
      (* every packet of a batch that is durable at the crash point, or a newer one
         (keys that the workload evicts are judged by evict_only_old instead) *)
      forallb (fun cr =>
         forallb (fun p => evicts_key (pkey p) ms || holds_ge known (snd cr) p)
                 (map snd pre ++ upserts (concat (firstn (fst (fst cr)) bs)))%list)
        (combine crashes recovered) &&
      forallb (fun p => evicts_key (pkey p) ms || holds_ge known final p) known &&
      (* eviction removes only packets older than the retention period *)
      forallb (fun p =>
         holds_ge known final p ||
         existsb (fun m => match m with
                           | CheckExpired now _ k => (k =? pkey p) && (pts p <? now - R)
                           | _ => false end) ms) known
  | IFormat data key8 key0 ok8 ok0 now, OFormat d s =>
      (* a value written by serialize reads back as the packet; a valid raw packet reads
         back as itself unless its tail also parses as a packet *)
      let is_packet := key0 && ok0 && (104 <=? len data) && (len data <=? 1104) in
      (* (verdicts that contradict each other are outside the quantifier) *)
      (bytes_eqb (firstn 32 (skipn 8 data)) (firstn 32 data) && negb (Bool.eqb key8 key0)) ||
      (negb is_packet || (key8 && ok8) || res_eqb bytes_eqb d (Ok data)) &&
      match s with
      | Some (sb, d2) => is_packet && res_eqb bytes_eqb d2 (Ok data) && (len sb =? len data + 8)
      | None => negb is_packet
      end
  | IEvict R now nkeys pubs, OEvict present =>
      (* with every timestamp at least 10 s away from the cut-off: a key is gone
         iff its newest packet is older than the retention period *)
      forallb (fun c =>
        let mine := filter (fun p => pkey p =? fst c) pubs in
        match snd c with
        | Some (ts, id) => existsb (fun p => (pts p =? ts) && (pval p =? id) && (now - R <=? pts p)) mine
        | None => forallb (fun p => pts p <? now - R) mine
        end) present
  | _, _ => false
  end.

Definition known (i : input) : N := 0.

(* tag: 0 trivial (no message) / 1 only inserts and reads / 2 a replace / 3 a refused upsert /
   4 CheckExpired evicts / 5 CheckExpired on a no-longer-expired or missing packet /
   6 crash points / 7 format, new / 8 format, legacy fallback or error / 9 end-to-end eviction *)
Fixpoint ops_tag (R : N) (d : db) (ms : list msg) : N :=
  match ms with
  | [] => 0
  | m :: r =>
      let t := match m with
               | Get _ => 1
               | Upsert _ p => match pk d (pkey p) with
                               | Some (_, e) => if more_recent e p then 3 else 2
                               | None => 1 end
               | CheckExpired now _ k => match pk d k with
                               | Some (_, q) => if pts q <? now - R then 4 else 5
                               | None => 5 end
               end in
      N.max t (ops_tag R (fst (handle R d m)) r)
  end.

Definition tag (i : input) : N :=
  match i with
  | IOps R nkeys batch pre ms crashes =>
      match crashes with [] => ops_tag R (preload pre) ms | _ => 6 end
  | IFormat data key8 key0 ok8 ok0 now =>
      if key8 && ok8 && (112 <=? len data) && (len data <=? 1112) then 7 else 8
  | IEvict _ _ _ _ => 9
  end.

Definition judge (i : input) (o : output) : bool * bool * N * N :=
  (agree i o, monitor i o, known i, tag i).

End C39.
