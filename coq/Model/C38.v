(* C38 — ZoneStore::resolve / ZoneStore::insert / ZoneCache::insert
   (iroh-dns-server/src/store.rs): the answer cache in front of the packet store,
   as an interleaving transition system.  Executable model, definitions only.

   Atomic steps (one per critical section / store-actor round trip; the pause
   points of the verif-hooks build sit exactly between them):

     resolve(k, name)                                              store.rs
       R1  lock cache; cache.resolve -> hit: answer, done          :117-127, :265-280
           miss (no zone, or no such record in the zone):
           remember the invalidation count; unlock                 :128-129
           -- pause zonestore.resolve.after_check --               :131
       R2  store.get(k)  (one message to the store actor)          :134
           None: answer None, done (no DHT configured)             :169-185
           -- pause signedpacketstore.get.after_read --   signed_packets.rs, end of `get`
              (inside store.get, taken only when a packet came back; the older pause
               zonestore.resolve.after_get :137 is separated from it by pure code and is
               left unarmed by the harness)
       R3  lock cache; if no invalidation since R1:                :138-142
             ZoneCache::insert (skip if cached timestamp is newer) :309-328
             answer from the cache                                 :282-291
           else answer from the packet, do not cache it; unlock    :143-149
     insert(p)
       P1  store.upsert(p) (one message to the store actor;
           replaces unless the stored packet is more recent)       :209, signed_packets.rs:163-197
           not an update: acknowledge false, done                  :215-218
           -- pause zonestore.insert.after_upsert --               :212
       P2  lock cache; remove(k); count the invalidation; unlock;
           acknowledge true                                        :213-214, :328-337
     get_signed_packet(k)
       G1  store.get(k)                                            :194

   Lock layer (holder / waiters below): the two cache lock scopes of resolve carry a
   further pause point INSIDE the scope, right after the lock is taken
   (zonestore.resolve.in_cache_check :119-120, zonestore.resolve.in_cache_fill :139-140).
   A schedule entry (i, true) lets resolve i take the cache lock and parks it there
   (OPark 4 / OPark 5); its next entry runs the body of the scope and unlocks.  While a
   task is parked inside a scope, R1, R3 and P2 of every other task are DISABLED
   (tokio::sync::Mutex: `lock().await` does not return): the entry is observed as OBlocked
   and the task joins the FIFO queue of the mutex; R2, P1, G1 stay enabled.  When the
   holder leaves its scope the queued tasks run their locked step in queue order
   (tokio's mutex is fair), each giving one more event.

   [fx = false] is the code before the fix (no invalidation count: R3 always
   inserts).  The LRU bound (2^20 zones) and the DHT cache are not modelled; the
   invalidation count is a u64 in the code (wrapping) and unbounded here. *)
From V Require Import Lib.Base.
Open Scope N_scope.

Module C38.

(* key id, timestamp, the single TXT name the packet carries, its value,
   encoded DNS packet bytes (only used to break timestamp ties) *)
Record pkt := mkPkt { pkey : N; pts : N; pname : N; pval : N; penc : bytes }.

(* Rust slice order `a <= b` (lexicographic, a proper prefix is smaller) *)
Fixpoint ble (a b : bytes) : bool :=
  match a, b with
  | [], _ => true
  | _ :: _, [] => false
  | x :: a', y :: b' => if x <? y then true else if x =? y then ble a' b' else false
  end.

(* SignedPacket::more_recent_than (iroh-dns/src/pkarr.rs:270) *)
Definition more_recent (a b : pkt) : bool :=
  if pts a =? pts b then negb (ble (penc a) (penc b)) else pts b <? pts a.

(* a is not older than b *)
Definition ge (a b : pkt) : bool := negb (more_recent b a).

(* CachedZone::resolve of a zone built from packet p *)
Definition ans (p : pkt) (name : N) : option N :=
  if pname p =? name then Some (pval p) else None.

Inductive task :=
| TResolve (k name : N)
| TPublish (p : pkt)
| TGet (k : N).

Inductive pc :=
| Start
| RChecked (seen : N)
| RGot (seen : N) (g : pkt)
| PUpserted
| Finished.

Inductive obs :=
| OSkip                          (* schedule entry for a finished / non-existent task *)
| OPark (pt : N)                 (* ran up to pause point pt: 1 after_check, 2 after_get, 3 after_upsert,
                                    4 in_cache_check, 5 in_cache_fill (parked holding the cache lock) *)
| OBlocked                       (* did not complete: waits for the cache lock held by a parked task *)
| ODoneR (a : option N)          (* resolve returned: TXT value *)
| ODoneP (u : bool)              (* insert returned: was an update *)
| ODoneG (r : option (N * N * N))  (* get_signed_packet returned: (timestamp, name, value) *)
| OErr.                          (* harness failure; never produced by the model *)

Record st := mkSt {
  store : N -> option pkt;
  cache : N -> option pkt;
  inval : N;
  pcs : nat -> pc }.

Definition upd {A} (f : N -> option A) (k : N) (v : option A) : N -> option A :=
  fun k' => if k' =? k then v else f k'.
Definition updn {A} (f : nat -> A) (i : nat) (v : A) : nat -> A :=
  fun j => if Nat.eqb j i then v else f j.

Definition set_pc (s : st) (i : nat) (p : pc) : st :=
  mkSt (store s) (cache s) (inval s) (updn (pcs s) i p).

Definition triple (p : pkt) : N * N * N := (pts p, pname p, pval p).

(* ZoneCache::insert: keep the cached zone iff its timestamp is strictly newer *)
Definition cache_insert (c : N -> option pkt) (g : pkt) : N -> option pkt :=
  match c (pkey g) with
  | Some old => if pts g <? pts old then c else upd c (pkey g) (Some g)
  | None => upd c (pkey g) (Some g)
  end.

Definition cache_resolve (c : N -> option pkt) (k name : N) : option N :=
  match c k with Some z => ans z name | None => None end.

Definition step (fx : bool) (tasks : list task) (s : st) (i : nat) : st * obs :=
  match nth_error tasks i with
  | None => (s, OSkip)
  | Some t =>
    match t, pcs s i with
    | _, Finished => (s, OSkip)
    | TResolve k nm, Start =>
        match cache_resolve (cache s) k nm with
        | Some v => (set_pc s i Finished, ODoneR (Some v))
        | None => (set_pc s i (RChecked (inval s)), OPark 1)
        end
    | TResolve k nm, RChecked seen =>
        match store s k with
        | None => (set_pc s i Finished, ODoneR None)
        | Some g => (set_pc s i (RGot seen g), OPark 2)
        end
    | TResolve k nm, RGot seen g =>
        if fx && negb (seen =? inval s) then
          (set_pc s i Finished, ODoneR (ans g nm))
        else
          let c' := cache_insert (cache s) g in
          (mkSt (store s) c' (inval s) (updn (pcs s) i Finished),
           ODoneR (cache_resolve c' (pkey g) nm))
    | TPublish p, Start =>
        let replace :=
          match store s (pkey p) with
          | Some e => negb (more_recent e p)
          | None => true
          end in
        if replace then
          (mkSt (upd (store s) (pkey p) (Some p)) (cache s) (inval s) (updn (pcs s) i PUpserted),
           OPark 3)
        else (set_pc s i Finished, ODoneP false)
    | TPublish p, PUpserted =>
        (mkSt (store s) (upd (cache s) (pkey p) None) (inval s + 1) (updn (pcs s) i Finished),
         ODoneP true)
    | TGet k, Start =>
        (set_pc s i Finished, ODoneG (option_map triple (store s k)))
    | _, _ => (s, OSkip)
    end
  end.

Definition init : st := mkSt (fun _ => None) (fun _ => None) 0 (fun _ => Start).

(* ---------- the cache mutex: a task parked inside a lock scope, and the queue behind it ---------- *)
Record xst := mkX {
  base : st;
  holder : option nat;        (* resolve parked at in_cache_check / in_cache_fill, holding the lock *)
  waiters : list nat }.       (* tasks whose `cache.lock().await` is pending, oldest first *)

Definition live (tasks : list task) (s : st) (i : nat) : bool :=
  match nth_error tasks i with
  | None => false
  | Some _ => match pcs s i with Finished => false | _ => true end
  end.

(* the next step of task i takes the cache lock *)
Definition needs_lock (tasks : list task) (s : st) (i : nat) : bool :=
  match nth_error tasks i, pcs s i with
  | Some (TResolve _ _), Start => true
  | Some (TResolve _ _), RGot _ _ => true
  | Some (TPublish _), PUpserted => true
  | _, _ => false
  end.

(* ... and has a pause point inside its lock scope (only resolve's two scopes do) *)
Definition hold_point (tasks : list task) (s : st) (i : nat) : option N :=
  match nth_error tasks i, pcs s i with
  | Some (TResolve _ _), Start => Some 4
  | Some (TResolve _ _), RGot _ _ => Some 5
  | _, _ => None
  end.

Definition event := (nat * obs)%type.

(* the queued tasks get the lock one after the other and run their locked step *)
Fixpoint wake (fx : bool) (tasks : list task) (s : st) (ws : list nat) : st * list event :=
  match ws with
  | [] => (s, [])
  | w :: r =>
      let '(s1, o) := step fx tasks s w in
      let '(s2, evs) := wake fx tasks s1 r in
      (s2, (w, o) :: evs)
  end.

(* one schedule entry (task, park inside the lock scope if the step has one) *)
Definition xstep (fx : bool) (tasks : list task) (x : xst) (e : nat * bool) : xst * list event :=
  let '(i, hold) := e in
  let s := base x in
  if negb (live tasks s i) then (x, [(i, OSkip)])
  else if existsb (Nat.eqb i) (waiters x) then (x, [(i, OBlocked)])       (* still queued *)
  else
    match holder x with
    | Some j =>
        if Nat.eqb i j then
          (* body of the lock scope, unlock, hand the lock down the queue *)
          let '(s1, o) := step fx tasks s i in
          let '(s2, evs) := wake fx tasks s1 (waiters x) in
          (mkX s2 None [], (i, o) :: evs)
        else if needs_lock tasks s i then
          (mkX s (Some j) (waiters x ++ [i]), [(i, OBlocked)])             (* DISABLED: lock is held *)
        else
          let '(s1, o) := step fx tasks s i in (mkX s1 (Some j) (waiters x), [(i, o)])
    | None =>
        match (if hold then hold_point tasks s i else None) with
        | Some pt => (mkX s (Some i) (waiters x), [(i, OPark pt)])         (* lock taken, parked inside *)
        | None => let '(s1, o) := step fx tasks s i in (mkX s1 None (waiters x), [(i, o)])
        end
    end.

Fixpoint xrun (fx : bool) (tasks : list task) (x : xst) (sched : list (nat * bool)) : list event :=
  match sched with
  | [] => []
  | e :: r => let '(x', evs) := xstep fx tasks x e in (evs ++ xrun fx tasks x' r)%list
  end.

Definition xinit : xst := mkX init None [].

(* after the given schedule every task is run to completion, in index order; two passes, because
   in the first one a task may queue behind a holder with a larger index *)
Definition drain (n : nat) : list (nat * bool) :=
  concat (map (fun i => [(i, false); (i, false); (i, false)]%list) (seq 0 n)).
Definition full_sched (tasks : list task) (sched : list (nat * bool)) : list (nat * bool) :=
  (sched ++ drain (length tasks) ++ drain (length tasks))%list.

Definition input := (list task * list (nat * bool))%type.
Definition output := list event.

(* the code as it is now (with the fix) *)
Definition FIXED := true.

Definition model_fx (fx : bool) (i : input) : output :=
  let '(tasks, sched) := i in xrun fx tasks xinit (full_sched tasks sched).
Definition model : input -> output := model_fx FIXED.

Definition triple_eqb (x y : N * N * N) : bool :=
  let '(a, b, c) := x in let '(d, e, f) := y in (a =? d) && (b =? e) && (c =? f).

Definition obs_eqb (x y : obs) : bool :=
  match x, y with
  | OSkip, OSkip => true
  | OPark a, OPark b => a =? b
  | OBlocked, OBlocked => true
  | ODoneR a, ODoneR b => opt_eqb N.eqb a b
  | ODoneP a, ODoneP b => Bool.eqb a b
  | ODoneG a, ODoneG b => opt_eqb triple_eqb a b
  | OErr, OErr => true
  | _, _ => false
  end.

Definition event_eqb (x y : event) : bool := Nat.eqb (fst x) (fst y) && obs_eqb (snd x) (snd y).

(* the implementation went through the same steps, blocked exactly where the model's step is
   disabled, and the queued steps completed when (and in the order in which) the model says *)
Definition agree (i : input) (o : output) : bool := list_eqb event_eqb (model i) o.

(* ---- the property as a function of an observed run ----
   A lookup is *after* a publish when its first step comes after the step in
   which the publish was acknowledged as an update.  Its answer must then be
   the answer of a published packet for that key that is not older. *)
Fixpoint pubs (tasks : list task) : list pkt :=
  match tasks with
  | [] => []
  | TPublish p :: r => p :: pubs r
  | _ :: r => pubs r
  end.

Record mst := mkMst {
  acked : list pkt;                       (* publishes acknowledged as updates so far *)
  needs : nat -> option (list pkt) }.     (* per lookup: what was acknowledged when it started *)

Definition minit : mst := mkMst [] (fun _ => None).

Definition fresh_R (ps : list pkt) (k nm : N) (a : option N) (need : list pkt) : bool :=
  forallb (fun p => negb (pkey p =? k) ||
     existsb (fun q => (pkey q =? k) && ge q p && opt_eqb N.eqb (ans q nm) a) ps) need.

Definition fresh_G (ps : list pkt) (k : N) (r : option (N * N * N)) (need : list pkt) : bool :=
  forallb (fun p => negb (pkey p =? k) ||
     existsb (fun q => (pkey q =? k) && ge q p && opt_eqb triple_eqb (Some (triple q)) r) ps) need.

Definition mon_step (tasks : list task) (m : mst) (i : nat) (o : obs) : option mst :=
  match o, nth_error tasks i with
  | OSkip, _ => Some m
  | _, None => Some m
  | _, Some t =>
      let need := match needs m i with Some n => n | None => acked m end in
      let m1 := mkMst (acked m) (updn (needs m) i (Some need)) in
      match t, o with
      | TResolve k nm, ODoneR a => if fresh_R (pubs tasks) k nm a need then Some m1 else None
      | TGet k, ODoneG r => if fresh_G (pubs tasks) k r need then Some m1 else None
      | TPublish p, ODoneP true => Some (mkMst (p :: acked m) (needs m1))
      | _, _ => Some m1
      end
  end.

Fixpoint mon_run (tasks : list task) (m : mst) (l : list event) : bool :=
  match l with
  | [] => true
  | (i, o) :: r =>
      match mon_step tasks m i o with
      | Some m' => mon_run tasks m' r
      | None => false
      end
  end.

(* the observed run is a list of (task, observation) events in real-time order *)
Definition monitor (i : input) (o : output) : bool :=
  let '(tasks, _) := i in mon_run tasks minit o.

(* Known-finding classes: none after the fix. *)
Definition known (i : input) : N := 0.

(* Branch tag (max over the model run):
   0 every task runs alone (no step of another task between its first and last step)
   1 interleaved
   2 a cache fill was skipped because the cached zone had a newer timestamp
   3 an upsert was refused (stored packet more recent) while another task was in flight
   4 a lookup found the cache invalidated between its check and its fill (the C38 race) *)
Definition in_flight (tasks : list task) (s : st) (i : nat) : bool :=
  existsb (fun j => negb (Nat.eqb j i) &&
     match pcs s j with Start | Finished => false | _ => true end) (seq 0 (length tasks)).

Definition step_tag (tasks : list task) (s : st) (i : nat) : N :=
  match nth_error tasks i with
  | None => 0
  | Some t =>
    match t, pcs s i with
    | TResolve _ _, RGot seen g =>
        if negb (seen =? inval s) then 4
        else match cache s (pkey g) with
             | Some old => if pts g <? pts old then 2 else if in_flight tasks s i then 1 else 0
             | None => if in_flight tasks s i then 1 else 0
             end
    | TPublish p, Start =>
        if in_flight tasks s i then
          match store s (pkey p) with
          | Some e => if more_recent e p then 3 else 1
          | None => 1
          end
        else 0
    | _, Finished => 0
    | _, _ => if in_flight tasks s i then 1 else 0
    end
  end.

(* 5 a locked step of a lookup was blocked behind a task parked inside its lock scope
   6 the cache invalidation of a publish was blocked behind a lookup parked inside its lock scope *)
Definition xstep_tag (tasks : list task) (x : xst) (e : nat * bool) : N :=
  let i := fst e in
  match holder x with
  | Some j =>
      if negb (Nat.eqb i j) && live tasks (base x) i && needs_lock tasks (base x) i
         && negb (existsb (Nat.eqb i) (waiters x)) then
        match nth_error tasks i with Some (TPublish _) => 6 | _ => 5 end
      else if existsb (Nat.eqb i) (waiters x) then 0
      else step_tag tasks (base x) i
  | None => step_tag tasks (base x) i
  end.

Fixpoint xrun_tag (tasks : list task) (x : xst) (sched : list (nat * bool)) : N :=
  match sched with
  | [] => 0
  | e :: r => N.max (xstep_tag tasks x e) (xrun_tag tasks (fst (xstep FIXED tasks x e)) r)
  end.

Definition tag (i : input) : N :=
  let '(tasks, sched) := i in xrun_tag tasks xinit (full_sched tasks sched).

Definition judge (i : input) (o : output) : bool * bool * N * N :=
  (agree i o, monitor i o, known i, tag i).

End C38.
