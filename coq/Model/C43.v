(* C43 — RelayMap (iroh-relay/src/relay_map.rs): handles sharing one
   Arc<RwLock<BTreeMap<RelayUrl, Arc<RelayConfig>>>>.
   Executable model, definitions only.

   The state is a table of locks (each with the BTreeMap it protects, kept as a
   strictly key-sorted association list) and a table of handles (RelayMap
   values), each naming the lock its Arc points to.  Every operation lists the
   lock acquisitions it performs, in program order; guards live until the end
   of the operation.  An acquisition that conflicts with a guard the SAME
   operation already holds never returns (std RwLock is not re-entrant):
   the operation's observation is VBlocked and the history stops there.

   [fixed = false] is the code before the fix recorded in notes/C43.md
   (extend/eq take both locks unconditionally); [fixed = true] is the working
   tree (early return on Arc::ptr_eq). *)
From V Require Import Lib.Base.
Open Scope N_scope.

Module C43.

(* RelayConfig { url, quic: Option<RelayQuicConfig{port}>, auth_token: Option<String> };
   URLs and tokens are small indices mapped to fixed strings by the harness
   (URL order = index order). *)
Record cfg := mkCfg { curl : N; quic : option N; token : option N }.

Definition cfg_eqb (a b : cfg) : bool :=
  N.eqb (curl a) (curl b) && opt_eqb N.eqb (quic a) (quic b) && opt_eqb N.eqb (token a) (token b).

Definition amap := list (N * cfg).

Fixpoint lookup (m : amap) (k : N) : option cfg :=
  match m with
  | [] => None
  | (k', v) :: r => if k =? k' then Some v else lookup r k
  end.

(* BTreeMap::insert *)
Fixpoint ins (m : amap) (k : N) (v : cfg) : amap :=
  match m with
  | [] => [(k, v)]
  | (k', v') :: r =>
      if k <? k' then (k, v) :: m
      else if k =? k' then (k, v) :: r
      else (k', v') :: ins r k v
  end.

(* BTreeMap::remove *)
Fixpoint del (m : amap) (k : N) : amap :=
  match m with
  | [] => []
  | (k', v') :: r => if k =? k' then r else (k', v') :: del r k
  end.

(* a.extend(b.iter().map(clone)) : insert every entry of b, in order *)
Definition ext (a b : amap) : amap :=
  fold_left (fun acc kv => ins acc (fst kv) (snd kv)) b a.

(* with_auth_token: every value replaced by a copy with the token set *)
Definition with_tok (t : N) (c : cfg) : cfg := mkCfg (curl c) (quic c) (Some t).
Definition set_tok (t : N) (m : amap) : amap := map (fun kv => (fst kv, with_tok t (snd kv))) m.

(* FromIterator<RelayConfig>: keyed by config.url, collected into a BTreeMap (last wins) *)
Definition from_list (es : list cfg) : amap :=
  fold_left (fun acc c => ins acc (curl c) c) es [].

Definition pair_eqb (x y : N * cfg) : bool := N.eqb (fst x) (fst y) && cfg_eqb (snd x) (snd y).
Definition map_eqb (a b : amap) : bool := list_eqb pair_eqb a b.

(* ---- state ---- *)
Record state := mkState { locks : list amap; handles : list nat }.

Definition init : state := mkState [[]] [0%nat].

Fixpoint set_nth {A} (n : nat) (x : A) (l : list A) : list A :=
  match l, n with
  | [], _ => []
  | _ :: r, O => x :: r
  | a :: r, S n' => a :: set_nth n' x r
  end.

(* the lock a handle's Arc points to; out-of-range handle indices denote handle 0
   (the harness does the same) *)
Definition lk (s : state) (h : N) : nat := nth (N.to_nat h) (handles s) 0%nat.
Definition cont (s : state) (l : nat) : amap := nth l (locks s) [].
Definition setl (s : state) (l : nat) (m : amap) : state :=
  mkState (set_nth l m (locks s)) (handles s).

Inductive op :=
| ONew (es : list cfg)          (* RelayMap::from_iter(configs): fresh Arc *)
| OClone (h : N)                (* handle.clone(): same Arc *)
| OInsert (h u : N) (c : cfg)
| ORemove (h u : N)
| OExtend (h1 h2 : N)
| OToken (h t : N)              (* handle = handle.with_auth_token(t) *)
| OEq (h1 h2 : N)
| OGet (h u : N)
| OContains (h u : N)
| OLen (h : N)
| OIsEmpty (h : N)
| OSnap (h : N).                (* urls() zipped with relays() *)

Inductive obs :=
| VUnit
| VOpt (c : option cfg)
| VBool (b : bool)
| VNum (n : N)
| VSnap (m : amap)
| VBlocked                      (* did not return within the watchdog timeout *)
| VPanic.

(* ---- lock acquisitions of one operation, in program order ---- *)
Inductive mode := R | W.
Definition is_w (m : mode) : bool := match m with W => true | R => false end.

Definition acqs (fixed : bool) (s : state) (o : op) : list (nat * mode) :=
  match o with
  | ONew _ | OClone _ => []
  | OInsert h _ _ | ORemove h _ | OToken h _ => [(lk s h, W)]
  | OExtend h1 h2 =>
      (* relay_map.rs extend: [if Arc::ptr_eq { return }]  self.relays.write(); other.relays.read() *)
      if fixed && Nat.eqb (lk s h1) (lk s h2) then []
      else [(lk s h1, W); (lk s h2, R)]
  | OEq h1 h2 =>
      (* PartialEq::eq: [if Arc::ptr_eq { return true }] self.relays.read(); other.relays.read() *)
      if fixed && Nat.eqb (lk s h1) (lk s h2) then []
      else [(lk s h1, R); (lk s h2, R)]
  | OGet h _ | OContains h _ | OLen h | OIsEmpty h | OSnap h => [(lk s h, R)]
  end.

(* Clean: never touches a lock it holds.  Reentrant: re-reads a lock it read-holds
   (returns when no writer is queued, deadlocks when one is).  Deadlock: write
   involved on a lock it holds: never returns. *)
Inductive hazard := Clean | Reentrant | Deadlock.

Definition conflict (held : list (nat * mode)) (l : nat) (m : mode) : hazard :=
  if existsb (fun h => Nat.eqb (fst h) l && (is_w (snd h) || is_w m)) held then Deadlock
  else if existsb (fun h => Nat.eqb (fst h) l) held then Reentrant
  else Clean.

Fixpoint check (held : list (nat * mode)) (a : list (nat * mode)) : hazard :=
  match a with
  | [] => Clean
  | (l, m) :: r =>
      match conflict held l m with
      | Deadlock => Deadlock
      | Reentrant => match check ((l, m) :: held) r with Deadlock => Deadlock | _ => Reentrant end
      | Clean => check ((l, m) :: held) r
      end
  end.

Definition is_some {A} (o : option A) : bool := match o with Some _ => true | None => false end.
Definition is_nil {A} (l : list A) : bool := match l with [] => true | _ => false end.

(* effect and return value of an operation that acquires all its locks *)
Definition exec (fixed : bool) (s : state) (o : op) : state * obs :=
  match o with
  | ONew es => (mkState (locks s ++ [from_list es]) (handles s ++ [length (locks s)]), VUnit)
  | OClone h => (mkState (locks s) (handles s ++ [lk s h]), VUnit)
  | OInsert h u c => let l := lk s h in (setl s l (ins (cont s l) u c), VOpt (lookup (cont s l) u))
  | ORemove h u => let l := lk s h in (setl s l (del (cont s l) u), VOpt (lookup (cont s l) u))
  | OExtend h1 h2 =>
      let l1 := lk s h1 in let l2 := lk s h2 in
      if fixed && Nat.eqb l1 l2 then (s, VUnit)
      else (setl s l1 (ext (cont s l1) (cont s l2)), VUnit)
  | OToken h t => let l := lk s h in (setl s l (set_tok t (cont s l)), VUnit)
  | OEq h1 h2 =>
      let l1 := lk s h1 in let l2 := lk s h2 in
      if fixed && Nat.eqb l1 l2 then (s, VBool true)
      else (s, VBool (map_eqb (cont s l1) (cont s l2)))
  | OGet h u => (s, VOpt (lookup (cont s (lk s h)) u))
  | OContains h u => (s, VBool (is_some (lookup (cont s (lk s h)) u)))
  | OLen h => (s, VNum (len (cont s (lk s h))))
  | OIsEmpty h => (s, VBool (is_nil (cont s (lk s h))))
  | OSnap h => (s, VSnap (cont s (lk s h)))
  end.

Definition step (fixed : bool) (s : state) (o : op) : option state * obs :=
  match check [] (acqs fixed s o) with
  | Deadlock => (None, VBlocked)
  | _ => let (s', v) := exec fixed s o in (Some s', v)
  end.

(* a history: observations in order; stops after the first blocked operation *)
Fixpoint run (fixed : bool) (s : state) (ops : list op) : list obs * option state :=
  match ops with
  | [] => ([], Some s)
  | o :: r =>
      match step fixed s o with
      | (None, v) => ([v], None)
      | (Some s', v) => let (vs, f) := run fixed s' r in (v :: vs, f)
      end
  end.

(* final contents seen through every handle (empty list when the history blocked) *)
Definition snaps (f : option state) : list amap :=
  match f with
  | None => []
  | Some s => map (fun l => cont s l) (handles s)
  end.

Definition input := list op.
Definition output := (list obs * list amap)%type.

Definition model_of (fixed : bool) (i : input) : output :=
  let (vs, f) := run fixed init i in (vs, snaps f).
Definition model (i : input) : output := model_of true i.

(* ---- the plain map the handles are supposed to implement: total functions ---- *)
Definition fmap := N -> option cfg.
Definition fempty : fmap := fun _ => None.
Definition fins (f : fmap) (k : N) (v : cfg) : fmap := fun x => if x =? k then Some v else f x.
Definition fdel (f : fmap) (k : N) : fmap := fun x => if x =? k then None else f x.
Definition fext (f g : fmap) : fmap := fun x => match g x with Some c => Some c | None => f x end.
Definition ftok (t : N) (f : fmap) : fmap := fun x => option_map (with_tok t) (f x).
Definition ffrom (es : list cfg) : fmap := fold_left (fun f c => fins f (curl c) c) es fempty.

Record astate := mkA { alocks : list fmap; ahandles : list nat }.
Definition ainit : astate := mkA [fempty] [0%nat].
Definition alk (a : astate) (h : N) : nat := nth (N.to_nat h) (ahandles a) 0%nat.
Definition acont (a : astate) (l : nat) : fmap := nth l (alocks a) fempty.
Definition asetl (a : astate) (l : nat) (f : fmap) : astate := mkA (set_nth l f (alocks a)) (ahandles a).

(* the plain-map machine: no locks, never blocks *)
Definition astep (a : astate) (o : op) : astate :=
  match o with
  | ONew es => mkA (alocks a ++ [ffrom es]) (ahandles a ++ [length (alocks a)])
  | OClone h => mkA (alocks a) (ahandles a ++ [alk a h])
  | OInsert h u c => let l := alk a h in asetl a l (fins (acont a l) u c)
  | ORemove h u => let l := alk a h in asetl a l (fdel (acont a l) u)
  | OExtend h1 h2 => let l1 := alk a h1 in asetl a l1 (fext (acont a l1) (acont a (alk a h2)))
  | OToken h t => let l := alk a h in asetl a l (ftok t (acont a l))
  | _ => a
  end.

Fixpoint arun (a : astate) (ops : list op) : astate :=
  match ops with [] => a | o :: r => arun (astep a o) r end.

(* ---- boolean reference check of one observation against the plain map,
   quantifiers bounded by a key universe U (all URLs mentioned in the history) ---- *)
Definition ocfg_eqb : option cfg -> option cfg -> bool := opt_eqb cfg_eqb.

Fixpoint nodupN (l : list N) : list N :=
  match l with
  | [] => []
  | x :: r => if existsb (N.eqb x) r then nodupN r else x :: nodupN r
  end.

Fixpoint sortedb (m : amap) : bool :=
  match m with
  | [] => true
  | (k, _) :: r => forallb (fun kv => k <? fst kv) r && sortedb r
  end.

Definition bobs (U : list N) (a : astate) (o : op) (v : obs) : bool :=
  match o, v with
  | ONew _, VUnit | OClone _, VUnit | OExtend _ _, VUnit | OToken _ _, VUnit => true
  | OInsert h u _, VOpt c | ORemove h u, VOpt c | OGet h u, VOpt c => ocfg_eqb c (acont a (alk a h) u)
  | OContains h u, VBool b => Bool.eqb b (is_some (acont a (alk a h) u))
  | OEq h1 h2, VBool b =>
      Bool.eqb b (forallb (fun k => ocfg_eqb (acont a (alk a h1) k) (acont a (alk a h2) k)) U)
  | OLen h, VNum n =>
      N.eqb n (len (filter (fun k => is_some (acont a (alk a h) k)) (nodupN U)))
  | OIsEmpty h, VBool b =>
      Bool.eqb b (forallb (fun k => negb (is_some (acont a (alk a h) k))) U)
  | OSnap h, VSnap m =>
      sortedb m
      && forallb (fun kv => existsb (N.eqb (fst kv)) U) m
      && forallb (fun k => ocfg_eqb (lookup m k) (acont a (alk a h) k)) U
  | _, _ => false
  end.

Fixpoint bcheck (U : list N) (a : astate) (ops : list op) (vs : list obs) : bool :=
  match ops, vs with
  | [], [] => true
  | o :: r, v :: vs' => bobs U a o v && bcheck U (astep a o) r vs'
  | _, _ => false
  end.

Definition opkeys (o : op) : list N :=
  match o with
  | ONew es => map curl es
  | OInsert _ u _ | ORemove _ u | OGet _ u | OContains _ u => [u]
  | _ => []
  end.
Definition universe (ops : list op) : list N := flat_map opkeys ops.

Definition snap_ok (U : list N) (a : astate) (ss : list amap) : bool :=
  Nat.eqb (length ss) (length (ahandles a)) &&
  forallb (fun lm : nat * amap =>
             let (l, m) := lm in
             sortedb m
             && forallb (fun kv => existsb (N.eqb (fst kv)) U) m
             && forallb (fun k => ocfg_eqb (lookup m k) (acont a l k)) U)
          (combine (ahandles a) ss).

(* ---- interface ---- *)
Definition obs_eqb (x y : obs) : bool :=
  match x, y with
  | VUnit, VUnit => true
  | VOpt a, VOpt b => ocfg_eqb a b
  | VBool a, VBool b => Bool.eqb a b
  | VNum a, VNum b => N.eqb a b
  | VSnap a, VSnap b => map_eqb a b
  | VBlocked, VBlocked => true
  | VPanic, VPanic => true
  | _, _ => false
  end.

Definition agree (i : input) (o : output) : bool :=
  list_eqb obs_eqb (fst (model i)) (fst o) && list_eqb map_eqb (snd (model i)) (snd o).

Definition bad (v : obs) : bool := match v with VBlocked | VPanic => true | _ => false end.

(* The property on an observed history: every operation returned (no watchdog
   timeout, no panic), and every return value and the final contents are those
   of the plain-map machine. *)
Definition monitor (i : input) (o : output) : bool :=
  negb (existsb bad (fst o))
  && bcheck (universe i) ainit i (fst o)
  && snap_ok (universe i) (arun ainit i) (snd o).

Definition known (i : input) : N := 0.

(* Branch tag, a bit set over the two-handle operations of the history:
   1 extend/== on handles with distinct locks, 2 == on handles sharing a lock,
   4 extend on handles sharing a lock; 0 = no two-handle operation. *)
Fixpoint tag_from (s : state) (ops : list op) (acc : N) : N :=
  match ops with
  | [] => acc
  | o :: r =>
      let t := match o with
               | OExtend h1 h2 => if Nat.eqb (lk s h1) (lk s h2) then 4 else 1
               | OEq h1 h2 => if Nat.eqb (lk s h1) (lk s h2) then 2 else 1
               | _ => 0
               end in
      match step true s o with
      | (Some s', _) => tag_from s' r (N.lor acc t)
      | (None, _) => N.lor acc t
      end
  end.
Definition tag (i : input) : N := tag_from init i 0.

Definition judge (i : input) (o : output) : bool * bool * N * N :=
  (agree i o, monitor i o, known i, tag i).

End C43.
