(* C15 — relay dialing, happy eyeballs.
   Executable model (definitions only) of
     dial_happy_eyeballs   iroh-relay/src/client/tls.rs:246-353
     pop_family            iroh-relay/src/client/tls.rs:367-378
     resolve_host_all      iroh-dns/src/dns.rs:504-595   (+ Inner::op timeout, dns.rs:311-337)
   as a timed deterministic simulator.  Time is in nanoseconds (the unit in
   which Gen/Consts.v holds the Durations); the harness writes milliseconds
   which `ok`/`fail`/`lk` scale by MS. *)
From V Require Import Lib.Base Gen.Consts.
Open Scope N_scope.

Module C15.

Definition MS  : N := 1000000.
Definition RD  : N := C15_RESOLUTION_DELAY.          (* defaults.rs RESOLUTION_DELAY *)
Definition CAD : N := C15_CONNECTION_ATTEMPT_DELAY.  (* defaults.rs CONNECTION_ATTEMPT_DELAY *)
Definition DT  : N := C15_DIAL_ENDPOINT_TIMEOUT.     (* defaults.rs DIAL_ENDPOINT_TIMEOUT *)
Definition DNS_TO : N := C15_DNS_TIMEOUT.            (* defaults.rs DNS_TIMEOUT *)

(* ------------------------------------------------------------------ scenario *)
(* What a connection attempt to an address does (the environment). *)
Inductive outcome := OOk (lat : N) | OFail (lat : N) | OHang.
Record addr := mkAddr { v6 : bool; aid : N; oc : outcome }.
Definition ok (ms : N) := OOk (ms * MS).
Definition fail (ms : N) := OFail (ms * MS).

Definition outcome_eqb (x y : outcome) : bool :=
  match x, y with
  | OOk a, OOk b => N.eqb a b
  | OFail a, OFail b => N.eqb a b
  | OHang, OHang => true
  | _, _ => false
  end.
Definition addr_eqb (a b : addr) : bool :=
  Bool.eqb (v6 a) (v6 b) && N.eqb (aid a) (aid b) && outcome_eqb (oc a) (oc b).

(* tls.rs:289-293: time::timeout(DIAL_ENDPOINT_TIMEOUT, TcpStream::connect(addr)), errors mapped.
   Attempt started at s: (completion time, None = connected | Some error code);
   code 2 = DialError::Io, 3 = DialError::Timeout.  tokio's Timeout polls the inner
   future first, so a completion exactly at the deadline wins. *)
Definition dial_end (a : addr) (s : N) : N * option N :=
  match oc a with
  | OOk l   => if l <=? DT then (s + l, None)   else (s + DT, Some 3)
  | OFail l => if l <=? DT then (s + l, Some 2) else (s + DT, Some 3)
  | OHang   => (s + DT, Some 3)
  end.

(* Items of the resolution stream; the end of the stream (`None`) is separate. *)
Inductive sitem := IAddr (a : addr) | IErr (code : N).
Definition stream := list (N * sitem).

(* A scenario of the dial loop: preference, stream items with the time from which each
   is ready, the time from which the end of the stream is ready.  An item is delivered
   at max(current time, its time): the stream is only polled by the loop. *)
Record scenario := mkSc { pref : bool; items : stream; tend : N }.

(* ------------------------------------------------------------------ resolve_host_all *)
(* One lookup: completes at `lt` with addresses or an error. *)
Record lookup := mkLk { lt : N; lr : option (list addr) }.
Definition lk (ms : N) (r : option (list addr)) := mkLk (ms * MS) r.

(* Inner::op: biased select { lookup, reset, sleep(timeout) } -> Err(Timeout) after DNS_TIMEOUT *)
Definition eff (l : lookup) : lookup := if lt l <=? DNS_TO then l else mkLk DNS_TO None.

Definition items_of (l : lookup) : stream :=
  match lr l with
  | Some xs => map (fun a => (lt l, IAddr a)) xs
  | None => []
  end.

(* dns.rs:551-594: addresses of the lookup that completes first (A first on a tie: biased
   select), then the other's; when both lookups are done: one ResolveBoth error (code 11) if
   both failed, one NoResponse error (code 10) if nothing was yielded; then the end. *)
Definition resolve (l4 l6 : lookup) : stream * N :=
  let a := eff l4 in
  let b := eff l6 in
  let te := N.max (lt a) (lt b) in
  let body := if lt a <=? lt b then items_of a ++ items_of b else items_of b ++ items_of a in
  let tail :=
    match lr a, lr b with
    | None, None => [(te, IErr 11)]
    | _, _ => match body with [] => [(te, IErr 10)] | _ :: _ => [] end
    end in
  (body ++ tail, te).

(* ------------------------------------------------------------------ dial loop state *)
Record dial := mkDial { daddr : addr; dstart : N }.
Definition dend (d : dial) : N := fst (dial_end (daddr d) (dstart d)).
Definition dres (d : dial) : option N := snd (dial_end (daddr d) (dstart d)).

Record st := mkSt {
  now : N;                        (* current instant *)
  rest : stream;                  (* stream items not yet yielded *)
  fin : bool;                     (* resolve_stream_finished *)
  queue : list addr;              (* queue (front first) *)
  want6 : bool;                   (* next_prefer_v6 *)
  dials : list dial;              (* dials (FuturesUnordered), in start order *)
  started : bool;                 (* started *)
  lerr : option (N * N * bool);   (* last_err: code, (ghost) time, (ghost) from an attempt *)
  timer : option N;               (* next_dial_delayed_until: deadline *)
  log : list (N * addr)           (* (ghost) attempts started so far, newest first *)
}.

(* pop_family, tls.rs:367-378: first queued address of the wanted family, else index 0;
   the wanted family becomes the other family than that of the address taken
   (`*next_is_v6 = !addr.is_ipv6()`; before the fix recorded in notes/C15.md the flag was
   flipped, `!*next_is_v6`, which repeats a family after a fall-back). *)
Fixpoint find_fam (w : bool) (q : list addr) : option (addr * list addr) :=
  match q with
  | [] => None
  | a :: q' =>
      if Bool.eqb (v6 a) w then Some (a, q')
      else match find_fam w q' with
           | Some (b, r) => Some (b, a :: r)
           | None => None
           end
  end.

Definition pop_family (q : list addr) (w : bool) : option (addr * list addr * bool) :=
  match q with
  | [] => None
  | a0 :: q0 =>
      match find_fam w q with
      | Some (a, r) => Some (a, r, negb (v6 a))
      | None => Some (a0, q0, negb (v6 a0))
      end
  end.

(* tls.rs:280-304: if the timer is unset and an address is queued, start an attempt. *)
Definition top (s : st) : st :=
  match timer s with
  | Some _ => s
  | None =>
      match pop_family (queue s) (want6 s) with
      | None => s
      | Some (a, q, w) =>
          mkSt (now s) (rest s) (fin s) q w (dials s ++ [mkDial a (now s)]) true (lerr s)
               (Some (now s + CAD)) ((now s, a) :: log s)
      end
  end.

(* The in-flight attempt that completes first (ties: the one started first) and the others. *)
Fixpoint pick_min (ds : list dial) : option (dial * list dial) :=
  match ds with
  | [] => None
  | d :: r =>
      match pick_min r with
      | None => Some (d, [])
      | Some (e, r') => if dend e <? dend d then Some (e, d :: r') else Some (d, r)
      end
  end.

Inductive stepres := Done (r : res addr) (s : st) | Next (s : st) | Stuck (s : st).

(* None = the arm is disabled / never fires *)
Definition le_opt (a b : option N) : bool :=
  match a, b with
  | Some x, Some y => x <=? y
  | Some _, None => true
  | None, _ => false
  end.

(* arm 1, tls.rs:311-320 *)
Definition on_dial (s : st) (t : N) (d : dial) (r : list dial) : stepres :=
  match dres d with
  | None =>
      Done (Ok (daddr d))
           (mkSt t (rest s) (fin s) (queue s) (want6 s) r (started s) (lerr s) (timer s) (log s))
  | Some c =>
      Next (mkSt t (rest s) (fin s) (queue s) (want6 s) r (started s) (Some (c, t, true))
                 (match r with [] => None | _ :: _ => timer s end) (log s))
  end.

(* arm 2, tls.rs:322-348 *)
Definition on_stream (p : bool) (s : st) (t : N) : stepres :=
  match rest s with
  | [] =>
      Next (mkSt t [] true (queue s) (want6 s) (dials s) (started s) (lerr s)
                 (if started s then timer s else None) (log s))
  | (_, IAddr a) :: r =>
      Next (mkSt t r (fin s) (queue s ++ [a]) (want6 s) (dials s) (started s) (lerr s)
                 (if started s then timer s
                  else if Bool.eqb p (v6 a) then None
                  else match timer s with None => Some (t + RD) | Some d => Some d end)
                 (log s))
  | (_, IErr c) :: r =>
      Next (mkSt t r (fin s) (queue s) (want6 s) (dials s) (started s) (Some (c, t, false))
                 (timer s) (log s))
  end.

(* arm 3, tls.rs:350 *)
Definition on_timer (s : st) (t : N) : stepres :=
  Next (mkSt t (rest s) (fin s) (queue s) (want6 s) (dials s) (started s) (lerr s) None (log s)).

(* tls.rs:308-351: biased select over the three guarded arms.  The arm whose event is
   earliest fires; at the same instant the source order decides. *)
Definition select (sc : scenario) (s : st) : stepres :=
  let od := pick_min (dials s) in
  let td := match od with Some (d, _) => Some (N.max (now s) (dend d)) | None => None end in
  let ts := if fin s then None
            else Some (N.max (now s) (match rest s with (t, _) :: _ => t | [] => tend sc end)) in
  let tt := match timer s with Some d => Some (N.max (now s) d) | None => None end in
  if le_opt td ts && le_opt td tt then
    match od with
    | Some (d, r) => on_dial s (N.max (now s) (dend d)) d r
    | None => Stuck s
    end
  else if le_opt ts tt then
    match ts with Some t => on_stream (pref sc) s t | None => Stuck s end
  else
    match tt with Some t => on_timer s t | None => Stuck s end.

(* One iteration of the loop, tls.rs:272-352. *)
Definition exhausted (s : st) : bool :=
  fin s && match queue s with [] => true | _ => false end
        && match dials s with [] => true | _ => false end.

Definition step (sc : scenario) (s : st) : stepres :=
  if exhausted s then
    Done (Err (match lerr s with Some (c, _, _) => c | None => 10 end)) s   (* NoResponse = 10 *)
  else select sc (top s).

Definition init (sc : scenario) : st :=
  mkSt 0 (items sc) false [] (pref sc) [] false None None [].

(* Panic = wedged (the harness reports its watchdog firing the same way), None = out of fuel. *)
Fixpoint run (fuel : nat) (sc : scenario) (s : st) : option (res addr * st) :=
  match fuel with
  | O => None
  | S f =>
      match step sc s with
      | Done r s' => Some (r, s')
      | Stuck s' => Some (Panic, s')
      | Next s' => run f sc s'
      end
  end.

Definition fuel_of (sc : scenario) : nat := 3 * length (items sc) + 3.

Definition run_sc (sc : scenario) : res addr * st :=
  match run (fuel_of sc) sc (init sc) with
  | Some x => x
  | None => (Panic, init sc)
  end.

(* ------------------------------------------------------------------ interface *)
Record input_t := mkIn { prefer6 : bool; look4 : lookup; look6 : lookup }.
Definition input := input_t.
(* (attempt log (time, address) oldest first, result, time of return) *)
Definition output := (list (N * addr) * res addr * N)%type.

Definition sc_of (i : input) : scenario :=
  let '(s, te) := resolve (look4 i) (look6 i) in mkSc (prefer6 i) s te.

Definition out_of (x : res addr * st) : output := (rev (log (snd x)), fst x, now (snd x)).
Definition model (i : input) : output := out_of (run_sc (sc_of i)).

Definition entry_eqb (x y : N * addr) : bool := N.eqb (fst x) (fst y) && addr_eqb (snd x) (snd y).

Definition succ (a : addr) : bool := match snd (dial_end a 0) with None => true | Some _ => false end.
Definition fcode (a : addr) : N := match snd (dial_end a 0) with None => 0 | Some c => c end.
Definition dend_at (s : N) (a : addr) : N := fst (dial_end a s).

(* Same log, same return time, and the same result up to the order in which attempts
   completing at the same instant are yielded by FuturesUnordered (unspecified):
   - Ok: the implementation's winner is a logged successful attempt completing at the return time;
   - Err: the same code, or the model's last error came from an attempt and the implementation's
     code is that of a failing attempt completing at the same instant. *)
Definition agree (i : input) (o : output) : bool :=
  let '(lg, r, e) := o in
  let '(rm, sm) := run_sc (sc_of i) in
  list_eqb entry_eqb (rev (log sm)) lg && N.eqb (now sm) e &&
  match rm, r with
  | Ok am, Ok ai =>
      addr_eqb am ai ||
      existsb (fun x => addr_eqb (snd x) ai && succ (snd x) && N.eqb (dend_at (fst x) (snd x)) e) lg
  | Err cm, Err ci =>
      N.eqb cm ci ||
      match lerr sm with
      | Some (_, t, true) =>
          existsb (fun x => negb (succ (snd x)) && N.eqb (fcode (snd x)) ci
                            && N.eqb (dend_at (fst x) (snd x)) t) lg
      | _ => false
      end
  | _, _ => false
  end.

(* ---- the property as a boolean function of an observed output ---- *)
Fixpoint stream_addrs (s : stream) : list (N * addr) :=
  match s with
  | [] => []
  | (t, IAddr a) :: r => (t, a) :: stream_addrs r
  | (_, IErr _) :: r => stream_addrs r
  end.

Definition cnt_fam (f : bool) (l : list (N * addr)) : nat :=
  length (filter (fun x => Bool.eqb (v6 (snd x)) f) l).
Definition cnt_before (f : bool) (t : N) (l : list (N * addr)) : nat :=
  length (filter (fun x => Bool.eqb (v6 (snd x)) f && (fst x <? t)) l).

(* at time t, with `prev` already attempted, family f still has an address that resolved
   strictly before t and has not been attempted *)
Definition untried (ads prev : list (N * addr)) (t : N) (f : bool) : bool :=
  Nat.ltb (cnt_fam f prev) (cnt_before f t ads).

(* over the log newest first: an attempt made while both families have untried addresses
   is of the other family than the previous attempt *)
Fixpoint alt_ok (ads : list (N * addr)) (rl : list (N * addr)) : bool :=
  match rl with
  | x :: prev =>
      match prev with
      | y :: _ =>
          (if untried ads prev (fst x) true && untried ads prev (fst x) false
           then negb (Bool.eqb (v6 (snd x)) (v6 (snd y))) else true)
          && alt_ok ads prev
      | [] => true
      end
  | [] => true
  end.

Definition first_ok (p : bool) (ads lg : list (N * addr)) : bool :=
  match ads with
  | [] => true
  | (t0, _) :: _ =>
      if existsb (fun x => Bool.eqb (v6 (snd x)) p && (fst x <=? t0 + RD)) ads
      then match lg with [] => true | (_, a) :: _ => Bool.eqb (v6 a) p end
      else true
  end.

Definition result_ok (ads lg : list (N * addr)) (te : N) (r : res addr) (e : N) : bool :=
  match r with
  | Ok a =>
      (* the winner is a logged attempt that connected at the return time, and no logged
         attempt would have connected earlier *)
      existsb (fun x => addr_eqb (snd x) a && succ (snd x) && N.eqb (dend_at (fst x) (snd x)) e) lg &&
      forallb (fun x => negb (succ (snd x)) || (e <=? dend_at (fst x) (snd x))) lg
  | Err c =>
      (* every resolved address was attempted *)
      forallb (fun x => existsb (fun y => addr_eqb (snd x) (snd y)) lg) ads &&
      Nat.eqb (length lg) (length ads) &&
      (* every attempt failed, resolution had finished *)
      forallb (fun x => negb (succ (snd x)) && (dend_at (fst x) (snd x) <=? e)) lg &&
      (te <=? e)
  | Panic => false
  end.

Definition monitor (i : input) (o : output) : bool :=
  let '(lg, r, e) := o in
  let sc := sc_of i in
  let ads := stream_addrs (items sc) in
  result_ok ads lg (tend sc) r e && first_ok (pref sc) ads lg && alt_ok ads (rev lg).

Definition known (i : input) : N := 0.

(* coverage tag: 0 = nothing resolved; else
   1 + {0 first attempt wins, 1 a later attempt wins, 2 all fail}
     + 3 * {0 first arrival is of the preferred family, 1 a preferred address arrives within
            the resolution delay, 2 the resolution delay expires / resolution ends first}
     + 9 * {1 if both families resolved}. *)
Definition tag (i : input) : N :=
  let sc := sc_of i in
  let ads := stream_addrs (items sc) in
  match ads with
  | [] => 0
  | (t0, a0) :: _ =>
      let '(r, s) := run_sc sc in
      let k := match r with
               | Ok a => match rev (log s) with
                         | (_, b) :: _ => if addr_eqb a b then 0 else 1
                         | [] => 1
                         end
               | _ => 2
               end in
      let d := if Bool.eqb (v6 a0) (pref sc) then 0
               else if existsb (fun x => Bool.eqb (v6 (snd x)) (pref sc) && (fst x <=? t0 + RD)) ads
                    then 1 else 2 in
      let b := if existsb (fun x => v6 (snd x)) ads && existsb (fun x => negb (v6 (snd x))) ads
               then 1 else 0 in
      1 + k + 3 * d + 9 * b
  end.

Definition judge (i : input) (o : output) : bool * bool * N * N :=
  (agree i o, monitor i o, known i, tag i).

End C15.
