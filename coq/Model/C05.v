(* C05 — no client can get another client disconnected from the relay.
   The model of the relay data path is shared with C04 (Model/C04.v: decoder,
   registry routing, actor steps, destination sink checks, harness schedule).
   This file adds C05's interface: the property as a function of an observed run. *)
From V Require Import Lib.Base Gen.Consts.
From V Require Import Model.C04.
Open Scope N_scope.

Module C05.
Import C04.

Definition input := C04.input.
Definition output := C04.output.
Definition model (i : input) : output := C04.model i.
Definition agree (i : input) (o : output) : bool := C04.agree i o.

(* An op that may legitimately end connection k (whose id is [id]): the client itself
   closes or breaks its stream, sends a frame the decoder rejects, or the operator
   disconnects that connection / that endpoint id. *)
Definition own_op (c : cfg) (k : N) (id : bytes) (o : op) : bool :=
  match o with
  | OClose j | OErr j => j =? k
  | OSend j raw => (j =? k) && match decode (valid c) raw with Ok _ => false | _ => true end
  | OBurst l =>
      existsb (fun jr => (fst jr =? k) &&
                         match decode (valid c) (snd jr) with Ok _ => false | _ => true end) l
  | ODiscId d => bytes_eqb d id
  | ODiscConn j => j =? k
  | OConnect _ _ => false
  end.

(* The property on an observed output: every connection that the relay closed was
   closed because of something that connection's own client, or the operator, did. *)
Fixpoint conns_ok (c : cfg) (ops : list op) (k : N) (ids : list bytes) (o : list (bool * list oframe)) : bool :=
  match ids, o with
  | [], [] => true
  | id :: ids', (alive, _) :: o' =>
      (if alive then true else existsb (own_op c k id) ops) && conns_ok c ops (k + 1) ids' o'
  | _, _ => false
  end.

Definition monitor (i : input) (o : output) : bool :=
  match o with
  | Ok l => conns_ok (cfg_of i) (i_ops i) 0 (conn_ids (i_ops i)) l
  | _ => false
  end.

Definition known (i : input) : N := 0.
Definition tag (i : input) : N := C04.tag i.

Definition judge (i : input) (o : output) : bool * bool * N * N :=
  (agree i o, monitor i o, known i, tag i).

End C05.
