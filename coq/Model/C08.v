(* C08 — a revoked relay connection does not stay connected.
   The accept path of one relay connection as far as revocation is concerned
   (iroh-relay/src/server/http_server.rs Inner::accept:845-899):
     handshake -> ClientRequest::new (ConnectionId assigned) ->
     authorize_with: on_connect -> Allow, guard created, ServerConfirmsAuth sent   (:877-879)
     [pause point relay.accept.after_admit]
     Clients::register                                                            (:896-897)
   and Clients::disconnect (clients.rs:181-197), which only looks at REGISTERED
   connections.  The registry itself is Model/C06.v; this file is the script
   semantics of the C08 correspondence harness (a real Server, real clients) and
   the C08 theorems about the registry are stated over C06's transition system
   in Props/C08.v.  Definitions only. *)
From V Require Import Lib.Base.
Open Scope N_scope.

Module C08.

Inductive op :=
| OAdmit (id : N)              (* a client connects; its accept is parked right after admission *)
| ORelease (k : N)             (* the parked accept of connection k goes on to Clients::register *)
| OConnect (id : N)            (* connect without pausing: admission and registration *)
| ODisc (id : N) (o : option N)  (* embedder: Clients::disconnect(id, Some(conn id of k) | None) *)
| OProbe (k : N)               (* is k served? (ping answered and a datagram from it forwarded) *)
| OFlood (k : N)               (* traffic is made to pile up for k's endpoint: other clients keep the send
                                  queue of its active connection filled while its clients read slowly, so
                                  the connection's actor is busy writing, with a non-empty queue every time
                                  it re-enters its select — until the next disconnect request has been served *)
| ODisc2 (id : N) (o1 o2 : option N).
                               (* embedder: Clients::disconnect(id, o1) IMMEDIATELY followed by
                                  Clients::disconnect(id, o2) — no await in between, so the connections
                                  cancelled by the first call are still in the registry (their actors have
                                  not yet unregistered) when the second call is made *)

(* phase: 0 admitted, accept parked before register; 1 registered, actor running;
          2 gone (actor cancelled: biased select leaves the loop, unregisters, stream closed).
   revoked: ghost — a disconnect request naming this connection (by its connection id, or by
   its endpoint id) was issued after its admission.
   busy: ghost — traffic is piled up for its endpoint (OFlood): when a disconnect request comes,
   the connection's send queue is non-empty and its actor is in the middle of a write. *)
Record conn := mkC { num : N; cid : N; phase : N; revoked : bool; busy : bool }.
Definition state := list conn.

Definition matches (c : conn) (id : N) (o : option N) : bool :=
  (cid c =? id) && match o with None => true | Some k => num c =? k end.

Definition inrange (s : state) (o : option N) : bool :=
  match o with Some k => k <? len s | None => true end.
Definition matches2 (c : conn) (id : N) (o1 o2 : option N) : bool :=
  matches c id o1 || matches c id o2.
Definition found (s : state) (id : N) (o : option N) : N :=
  if existsb (fun c => matches c id o && (phase c =? 1)) s then 1 else 0.

Definition exec (s : state) (o : op) : state * N :=
  match o with
  | OAdmit id => (s ++ [mkC (len s) id 0 false false], 1)
  | OConnect id => (s ++ [mkC (len s) id 1 false false], 1)
  | ORelease k =>
      if existsb (fun c => (num c =? k) && (phase c =? 0)) s
      then (map (fun c => if (num c =? k) && (phase c =? 0)
                          then mkC (num c) (cid c) 1 (revoked c) (busy c) else c) s, 1)
      else (s, 0)
  | ODisc id o =>
      if match o with Some k => k <? len s | None => true end then
        (* disconnect finds only registered connections (entry in the map); the ones it
           finds are cancelled and go away — BUSY OR NOT: the actor's select is biased and polls
           the shutdown token first, whatever is queued (client.rs:382-390), so the connection
           leaves its loop at the next iteration, i.e. after at most the write in flight; it
           returns whether it found one.  (The piled-up traffic is stopped after the request.) *)
        (map (fun c => if matches c id o
                       then mkC (num c) (cid c) (if phase c =? 1 then 2 else phase c) true false
                       else mkC (num c) (cid c) (phase c) (revoked c) false) s,
         if existsb (fun c => matches c id o && (phase c =? 1)) s then 2 else 1)
      else (s, 0)
  | OProbe k => (s, if existsb (fun c => (num c =? k) && (phase c =? 1)) s then 1 else 0)
  | OFlood k =>
      match find (fun c => (num c =? k) && (phase c =? 1)) s with
      | Some t => (map (fun c => if (cid c =? cid t) && (phase c =? 1)
                                 then mkC (num c) (cid c) (phase c) (revoked c) true else c) s, 1)
      | None => (s, 0)
      end
  | ODisc2 id o1 o2 =>
      if inrange s o1 && inrange s o2 then
        (* two requests back to back: each cancels every REGISTERED connection it names — whether
           or not the other request has already cancelled that or another connection of the
           endpoint (a cancelled connection stays in the registry until its actor unregisters,
           which cannot have happened yet) — so both look at the same registry; together they
           stop every registered connection either of them names.  ret = 10 + 2*found1 + found2. *)
        (map (fun c => if matches2 c id o1 o2
                       then mkC (num c) (cid c) (if phase c =? 1 then 2 else phase c) true false
                       else mkC (num c) (cid c) (phase c) (revoked c) false) s,
         10 + 2 * found s id o1 + found s id o2)
      else (s, 0)
  end.

Fixpoint go (s : state) (l : list op) : list (state * N) :=
  match l with
  | [] => []
  | o :: r => let '(s', ret) := exec s o in (s, ret) :: go s' r
  end.
(* (state BEFORE the op, return value of the op) *)

(* What the harness observes per operation: (return value, still).  [still] is empty except
   for a disconnect request: the connections the request named that were registered when it
   was made and that, after the harness' deadline, are STILL registered and STILL served
   (ping answered and a datagram of theirs forwarded).  In the model the named registered
   connections are gone at once, so [still] is always empty. *)
Definition obs := (N * list N)%type.
Definition input := list op.
Definition output := res (list obs).

Definition model (i : input) : output := Ok (map (fun p => (snd p, @nil N)) (go [] i)).

Definition obs_eqb (a b : obs) : bool := (fst a =? fst b) && list_eqb N.eqb (snd a) (snd b).
Definition agree (i : input) (o : output) : bool := res_eqb (list_eqb obs_eqb) (model i) o.

(* The property on observed probe results: a connection for which a matching disconnect
   request was issued after its admission is not served; a registered connection for which
   none was issued is served (other connections are unaffected). *)
Definition probe_ok (s : state) (k r : N) : bool :=
  forallb (fun c => if num c =? k
                    then if revoked c then r =? 0
                         else if phase c =? 1 then r =? 1 else true
                    else true) s.

(* The property on what is observed right after a disconnect request: no connection the
   request names (by connection id: that one; by endpoint id: every connection of that
   endpoint, active or displaced) that was registered when the request was made is still
   served after the deadline. *)
Definition disc_ok (s : state) (id : N) (o : option N) (still : list N) : bool :=
  forallb (fun c => if matches c id o && (phase c =? 1)
                    then negb (existsb (N.eqb (num c)) still) else true) s.

Definition disc_ok2 (s : state) (id : N) (o1 o2 : option N) (still : list N) : bool :=
  forallb (fun c => if matches2 c id o1 o2 && (phase c =? 1)
                    then negb (existsb (N.eqb (num c)) still) else true) s.

Fixpoint monitor_from (s : state) (l : list op) (rs : list obs) : bool :=
  match l, rs with
  | [], [] => true
  | o :: l', r :: rs' =>
      (match o with
       | OProbe k => probe_ok s k (fst r)
       | ODisc id oc => disc_ok s id oc (snd r)
       | ODisc2 id o1 o2 => disc_ok2 s id o1 o2 (snd r)
       | _ => true
       end) &&
      monitor_from (fst (exec s o)) l' rs'
  | _, _ => false
  end.

Definition monitor (i : input) (o : output) : bool :=
  match o with
  | Ok rs => monitor_from [] i rs
  | _ => true
  end.

(* Known finding, class 1: a disconnect request naming a connection (by connection id or
   by endpoint id) lands between that connection's admission and its registration. *)
Fixpoint known_from (s : state) (l : list op) : bool :=
  match l with
  | [] => false
  | o :: l' =>
      (match o with
       | ODisc id oc =>
           (match oc with Some k => k <? len s | None => true end) &&
           existsb (fun c => matches c id oc && (phase c =? 0)) s
       | ODisc2 id o1 o2 =>
           (inrange s o1 && inrange s o2) &&
           existsb (fun c => matches2 c id o1 o2 && (phase c =? 0)) s
       | _ => false
       end) || known_from (fst (exec s o)) l'
  end.

Definition known (i : input) : N := if known_from [] i then 1 else 0.

(* Branch tag: 0 no disconnect request; 1 requests only for registered / absent connections;
   2 a request while some accept is parked (any endpoint); 3 the known class;
   4 a request naming a registered connection that is busy (traffic piled up for it);
   5 (outside 3) two requests issued back to back. *)
Fixpoint busy_disc (s : state) (l : list op) : bool :=
  match l with
  | [] => false
  | o :: l' =>
      (match o with
       | ODisc id oc => existsb (fun c => matches c id oc && (phase c =? 1) && busy c) s
       | ODisc2 id o1 o2 => existsb (fun c => matches2 c id o1 o2 && (phase c =? 1) && busy c) s
       | _ => false
       end) || busy_disc (fst (exec s o)) l'
  end.
Fixpoint parked_disc (s : state) (l : list op) : bool :=
  match l with
  | [] => false
  | o :: l' =>
      (match o with ODisc _ _ | ODisc2 _ _ _ => existsb (fun c => phase c =? 0) s | _ => false end)
      || parked_disc (fst (exec s o)) l'
  end.
Definition tag (i : input) : N :=
  if known_from [] i then 3
  else if existsb (fun o => match o with ODisc2 _ _ _ => true | _ => false end) i then 5
  else if busy_disc [] i then 4
  else if parked_disc [] i then 2
  else if existsb (fun o => match o with ODisc _ _ => true | _ => false end) i then 1 else 0.

Definition judge (i : input) (o : output) : bool * bool * N * N :=
  (agree i o, monitor i o, known i, tag i).

End C08.
