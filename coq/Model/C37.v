(* C37 — DNS server keeps the newest packet per key.
   Executable model, definitions only.

   Modelled code (line numbers of the pinned tree):
     iroh-dns/src/pkarr.rs:269-276                    SignedPacket::more_recent_than
     iroh-dns-server/src/store/signed_packets.rs:161-200  Actor::handle_message, Message::Upsert
     iroh-dns-server/src/store/signed_packets.rs:152-160  Message::Get
     iroh-dns-server/src/store.rs:108-166             ZoneStore::resolve (without the DHT fallback)
     iroh-dns-server/src/store.rs:170-197             ZoneStore::get_signed_packet / insert
     iroh-dns-server/src/store.rs:236-305             ZoneCache::{resolve, insert_and_resolve, insert, remove}
     iroh-dns-server/src/store.rs:314-333             CachedZone::{from_signed_packet, is_newer_than, resolve}

   A signed packet is its wire format <32 key><64 sig><8 BE timestamp><DNS payload>,
   kept as four fields.  The code only ever compares keys and signatures for equality,
   so the harness renames the 32-byte keys and 64-byte signatures of a case injectively
   to small numbers (Coq literals of that size cost ~20 ms each); timestamps and payloads,
   which are ordered, are the real values.  What a packet answers to the (fixed) DNS question of the
   harness is a function of its payload, given as the table [ctab] (payload -> content id);
   payloads not in the table have no record for the question. *)
From V Require Import Lib.Base.
Open Scope N_scope.

Module C37.

Record packet := mkP { key : N; ts : N; sig : N; payload : bytes }.

Definition packet_eqb (a b : packet) : bool :=
  N.eqb (key a) (key b) && N.eqb (ts a) (ts b) &&
  N.eqb (sig a) (sig b) && bytes_eqb (payload a) (payload b).

(* Ord on &[u8]: lexicographic, a proper prefix is smaller. *)
Fixpoint bytes_ltb (a b : bytes) : bool :=
  match a, b with
  | [], [] => false
  | [], _ :: _ => true
  | _ :: _, [] => false
  | x :: a', y :: b' =>
      if x <? y then true else if y <? x then false else bytes_ltb a' b'
  end.

(* pkarr.rs:270  self.more_recent_than(other):
     if self.timestamp() == other.timestamp() { self.encoded_packet() > other.encoded_packet() }
     else { self.timestamp() > other.timestamp() }                                   *)
Definition more_recent_than (self other : packet) : bool :=
  if ts self =? ts other then bytes_ltb (payload other) (payload self)
  else ts other <? ts self.

(* redb table / LRU cache keyed by the 32 key bytes: association list, first match wins,
   insert replaces in place or appends. *)
Definition table := list (N * packet).

Fixpoint tget (t : table) (k : N) : option packet :=
  match t with
  | [] => None
  | (k', p) :: r => if N.eqb k' k then Some p else tget r k
  end.

Fixpoint tset (t : table) (k : N) (p : packet) : table :=
  match t with
  | [] => [(k, p)]
  | (k', q) :: r => if N.eqb k' k then (k, p) :: r else (k', q) :: tset r k p
  end.

Fixpoint tdel (t : table) (k : N) : table :=
  match t with
  | [] => []
  | (k', q) :: r => if N.eqb k' k then tdel r k else (k', q) :: tdel r k
  end.

(* signed_packets.rs:161-200, Message::Upsert:
     match get_packet(key) {
       Some(existing) => if existing.more_recent_than(&packet) { res.send(false); return }
                         else { update_time.remove(existing); true }
       None => false };
     signed_packets.insert(key, packet); update_time.insert(..); res.send(true)        *)
Definition upsert (st : table) (p : packet) : table * bool :=
  match tget st (key p) with
  | Some existing =>
      if more_recent_than existing p then (st, false)
      else (tset st (key p) p, true)
  | None => (tset st (key p) p, true)
  end.

Record state := mkS { store : table; cache : table }.

Definition init : state := mkS [] [].

(* store.rs:184-197  ZoneStore::insert:
     if self.store.upsert(packet).await? { self.cache.lock().await.remove(&pubkey); Ok(true) }
     else { Ok(false) }                                                                *)
Definition insert (s : state) (p : packet) : state * bool :=
  let '(st', updated) := upsert (store s) p in
  if updated then (mkS st' (tdel (cache s) (key p)), true)
  else (mkS st' (cache s), false).

(* payload -> content id of its answer to the harness' question *)
Definition ctab := list (bytes * N).
Fixpoint content (c : ctab) (pl : bytes) : option N :=
  match c with
  | [] => None
  | (b, n) :: r => if bytes_eqb b pl then Some n else content r pl
  end.

(* CachedZone::resolve on the zone built from packet z *)
Definition zone_resolve (c : ctab) (z : packet) : option N := content c (payload z).

(* ZoneCache::resolve (dht_cache is always empty without the DHT fallback) *)
Definition cache_resolve (c : ctab) (ca : table) (k : N) : option N :=
  match tget ca k with
  | Some z => zone_resolve c z
  | None => None
  end.

(* ZoneCache::insert:  if cache.peek(k).map(|old| old.timestamp > p.timestamp).unwrap_or(false) skip
                       else cache.put(k, zone(p))                                      *)
Definition cache_insert (ca : table) (p : packet) : table :=
  match tget ca (key p) with
  | Some old => if ts p <? ts old then ca else tset ca (key p) p
  | None => tset ca (key p) p
  end.

(* store.rs:108-166  ZoneStore::resolve: cache hit -> answer; else store.get -> insert_and_resolve;
   else (no DHT) None. *)
Definition resolve (c : ctab) (s : state) (k : N) : state * option N :=
  match cache_resolve c (cache s) k with
  | Some r => (s, Some r)
  | None =>
      match tget (store s) k with
      | Some p =>
          let ca' := cache_insert (cache s) p in
          (mkS (store s) ca', cache_resolve c ca' (key p))
      | None => (s, None)
      end
  end.

Inductive op :=
| Publish (p : packet)      (* ZoneStore::insert *)
| Get (k : N)           (* ZoneStore::get_signed_packet *)
| Resolve (k : N).      (* ZoneStore::resolve for the fixed question *)

Inductive obs :=
| OPub (updated : bool)
| OGet (p : option packet)
| ORes (r : option N).

Definition step (c : ctab) (s : state) (o : op) : state * obs :=
  match o with
  | Publish p => let '(s', b) := insert s p in (s', OPub b)
  | Get k => (s, OGet (tget (store s) k))
  | Resolve k => let '(s', r) := resolve c s k in (s', ORes r)
  end.

Fixpoint run_from (c : ctab) (s : state) (ops : list op) : state * list obs :=
  match ops with
  | [] => (s, [])
  | o :: r =>
      let '(s1, ob) := step c s o in
      let '(s2, obr) := run_from c s1 r in
      (s2, ob :: obr)
  end.

Definition input := (ctab * list op)%type.
Definition output := res (list obs).

Definition model (i : input) : output :=
  let '(c, ops) := i in Ok (snd (run_from c init ops)).

Definition obs_eqb (a b : obs) : bool :=
  match a, b with
  | OPub x, OPub y => Bool.eqb x y
  | OGet x, OGet y => opt_eqb packet_eqb x y
  | ORes x, ORes y => opt_eqb N.eqb x y
  | _, _ => false
  end.

Definition agree (i : input) (o : output) : bool := res_eqb (list_eqb obs_eqb) (model i) o.

(* ---- the property as a boolean function of an observed output ----
   [hist] = the packets published before the observed operation, oldest first.
   Nothing of the model's state is used: only more_recent_than on the history. *)
Definition pubs (k : N) (hist : list packet) : list packet :=
  filter (fun p => N.eqb (key p) k) hist.

(* m was published and no published packet is more recent than m *)
Definition is_max (m : packet) (l : list packet) : bool :=
  existsb (packet_eqb m) l && forallb (fun q => negb (more_recent_than q m)) l.

Definition obs_ok (c : ctab) (hist : list packet) (o : op) (ob : obs) : bool :=
  match o, ob with
  | Publish p, OPub b =>
      (* update reported exactly when p is now the newest: nothing earlier is more recent *)
      Bool.eqb b (forallb (fun q => negb (more_recent_than q p)) (pubs (key p) hist))
  | Get k, OGet None => match pubs k hist with [] => true | _ => false end
  | Get k, OGet (Some m) => is_max m (pubs k hist)
  | Resolve k, ORes r =>
      match pubs k hist with
      | [] => match r with None => true | Some _ => false end
      | l => existsb (fun m => is_max m l && opt_eqb N.eqb r (content c (payload m))) l
      end
  | _, _ => false
  end.

Fixpoint monitor_from (c : ctab) (hist : list packet) (ops : list op) (obl : list obs) : bool :=
  match ops, obl with
  | [], [] => true
  | o :: r, ob :: obr =>
      obs_ok c hist o ob &&
      monitor_from c (match o with Publish p => hist ++ [p] | _ => hist end) r obr
  | _, _ => false
  end.

Definition monitor (i : input) (o : output) : bool :=
  let '(c, ops) := i in
  match o with
  | Ok obl => monitor_from c [] ops obl
  | _ => false
  end.

(* ---- Prop-level reading of the same statement (used by the theorems) ---- *)
Definition newest (m : packet) (l : list packet) : Prop :=
  In m l /\ forall q, In q l -> more_recent_than q m = false.

Definition obs_spec (c : ctab) (hist : list packet) (o : op) (ob : obs) : Prop :=
  match o, ob with
  | Publish p, OPub b =>
      b = true <-> (forall q, In q (pubs (key p) hist) -> more_recent_than q p = false)
  | Get k, OGet None => pubs k hist = []
  | Get k, OGet (Some m) => newest m (pubs k hist)
  | Resolve k, ORes r =>
      (pubs k hist = [] /\ r = None) \/
      (exists m, newest m (pubs k hist) /\ r = content c (payload m))
  | _, _ => False
  end.

Definition hist_after (hist : list packet) (o : op) : list packet :=
  match o with Publish p => hist ++ [p] | _ => hist end.

Fixpoint spec_from (c : ctab) (hist : list packet) (ops : list op) (obl : list obs) : Prop :=
  match ops, obl with
  | [], [] => True
  | o :: r, ob :: obr => obs_spec c hist o ob /\ spec_from c (hist_after hist o) r obr
  | _, _ => False
  end.

(* the packets published by an operation list, oldest first *)
Fixpoint published (ops : list op) : list packet :=
  match ops with
  | [] => []
  | Publish p :: r => p :: published r
  | _ :: r => published r
  end.

(* what a single key's store slot becomes when packets are upserted one after the other *)
Definition upsert1 (cur : option packet) (p : packet) : option packet :=
  match cur with
  | None => Some p
  | Some e => if more_recent_than e p then Some e else Some p
  end.
Definition stored_of (l : list packet) : option packet := fold_left upsert1 l None.

(* same position in the recency order *)
Definition same_rank (a b : packet) : Prop := ts a = ts b /\ payload a = payload b.

Definition known (i : input) : N := 0.

(* Branch coverage tag: sum of
     1  a publish inserted a new key            2  replaced an older timestamp
     4  rejected (existing has newer timestamp) 8  equal timestamps, payload larger: replaced
    16  equal timestamps, payload smaller: rejected
    32  equal timestamp and payload (re-publish): replaced
    64  resolve answered from the cache        128 resolve went to the store
   0 = no publish and no resolve. *)
Definition op_tag (c : ctab) (s : state) (o : op) : N :=
  match o with
  | Publish p =>
      match tget (store s) (key p) with
      | None => 1
      | Some e =>
          if ts e =? ts p then
            if bytes_ltb (payload p) (payload e) then 16
            else if bytes_ltb (payload e) (payload p) then 8 else 32
          else if ts p <? ts e then 4 else 2
      end
  | Get _ => 0
  | Resolve k =>
      match cache_resolve c (cache s) k with
      | Some _ => 64
      | None => match tget (store s) k with Some _ => 128 | None => 0 end
      end
  end.

Fixpoint tags_from (c : ctab) (s : state) (ops : list op) (acc : N) : N :=
  match ops with
  | [] => acc
  | o :: r => tags_from c (fst (step c s o)) r (N.lor acc (op_tag c s o))
  end.

Definition tag (i : input) : N := let '(c, ops) := i in tags_from c init ops 0.

Definition judge (i : input) (o : output) : bool * bool * N * N :=
  (agree i o, monitor i o, known i, tag i).

End C37.
