(* C42 — connection hooks and connect preconditions
   (iroh/src/endpoint/hooks.rs:137-171, iroh/src/endpoint.rs:1094-1153 connect_with_opts,
   iroh/src/endpoint/connection.rs:311-360 conn_from_noq_conn; line numbers of the current tree).
   Executable model, definitions only.

   Assumed, not modelled: the QUIC/TLS handshake itself — it succeeds exactly when the
   dialer offers an ALPN the acceptor serves — and the delivery of CONNECTION_CLOSE. *)
From V Require Import Lib.Base.
Open Scope N_scope.

Module C42.

Inductive alpn := AlpnServed | AlpnEmpty | AlpnUnserved.

(* one installed hook: before_connect accepts?, after_handshake: None = accept,
   Some code = reject with this error code *)
Definition hook := (bool * option N)%type.

Record input := mkIn {
  to_self : bool;         (* dialing one's own endpoint id *)
  closed : bool;          (* the dialing endpoint was closed before *)
  alpn_kind : alpn;
  dhooks : list hook;     (* hooks installed on the dialer, in installation order *)
  ahooks : list hook      (* hooks installed on the acceptor *)
}.

(* EndpointHooksList::before_connect (hooks.rs:143-156): (indices called, accepted) *)
Fixpoint before_fold (i : N) (hs : list hook) : list N * bool :=
  match hs with
  | [] => ([], true)
  | (true, _) :: r => let '(l, a) := before_fold (i + 1) r in (i :: l, a)
  | (false, _) :: _ => ([i], false)
  end.

(* EndpointHooksList::after_handshake (hooks.rs:158-170): (indices called, reject code) *)
Fixpoint after_fold (i : N) (hs : list hook) : list N * option N :=
  match hs with
  | [] => ([], None)
  | (_, None) :: r => let '(l, a) := after_fold (i + 1) r in (i :: l, a)
  | (_, Some c) :: _ => ([i], Some c)
  end.

(* what the dialer gets *)
Inductive dial :=
| DPre (k : N)          (* connect_with_opts failed: 1 EndpointClosed, 2 LocallyRejected,
                           3 SelfConnect, 4 InvalidAlpn *)
| DHandshake            (* the handshake failed *)
| DRejected             (* an after_handshake hook of the dialer rejected *)
| DEstablished          (* established on both sides *)
| DPeerClosed (c : N)   (* established for the dialer, then closed by the peer with code c *)
| DLost.

(* what the acceptor sees *)
Inductive acc :=
| ANoIncoming
| AHandshake
| ARejected             (* an after_handshake hook of the acceptor rejected *)
| AClosed (c : N)       (* closed by the peer with application code c (99 = normal end) *)
| AOther.

Record out := mkOut {
  d_before : list N;    (* before_connect calls on the dialer *)
  d_after : list N;     (* after_handshake calls on the dialer *)
  d_res : dial;
  a_before : list N;    (* before_connect calls on the acceptor (never) *)
  a_after : list N;
  a_res : acc
}.

Definition done_code : N := 99.

(* connect_with_opts (endpoint.rs:1100-1117): closed -> hooks -> self -> empty ALPN;
   then the handshake; then conn_from_noq_conn on both sides *)
Definition connect (i : input) : out :=
  if closed i then mkOut [] [] (DPre 1) [] [] ANoIncoming                    (* :1100-1102 *)
  else
    let '(bl, bok) := before_fold 0 (dhooks i) in
    if negb bok then mkOut bl [] (DPre 2) [] [] ANoIncoming                  (* :1109-1113 *)
    else if to_self i then mkOut bl [] (DPre 3) [] [] ANoIncoming            (* :1116 *)
    else
      match alpn_kind i with
      | AlpnEmpty => mkOut bl [] (DPre 4) [] [] ANoIncoming                  (* :1117 *)
      | AlpnUnserved => mkOut bl [] DHandshake [] [] AHandshake
      | AlpnServed =>
          let '(dl, dr) := after_fold 0 (dhooks i) in
          let '(al, ar) := after_fold 0 (ahooks i) in
          match dr with
          | Some c =>                                       (* connection.rs:352-357 on the dialer *)
              mkOut bl dl DRejected [] al (match ar with Some _ => ARejected | None => AClosed c end)
          | None =>
              match ar with
              | Some c => mkOut bl dl (DPeerClosed c) [] al ARejected        (* ... on the acceptor *)
              | None => mkOut bl dl DEstablished [] al (AClosed done_code)
              end
          end
      end.

(* When the dialer's own hook rejects, its CONNECTION_CLOSE races with the acceptor's
   handshake completion: the acceptor may never get to run its hooks. *)
Definition connect_alt (i : input) : option out :=
  if closed i then None
  else
    let '(bl, bok) := before_fold 0 (dhooks i) in
    if negb bok || to_self i then None
    else match alpn_kind i with
         | AlpnServed =>
             let '(dl, dr) := after_fold 0 (dhooks i) in
             match dr with
             | Some c => Some (mkOut bl dl DRejected [] [] (AClosed c))
             | None => None
             end
         | _ => None
         end.

Definition lN_eqb := list_eqb N.eqb.

Definition dial_eqb (a b : dial) : bool :=
  match a, b with
  | DPre x, DPre y => N.eqb x y
  | DHandshake, DHandshake | DRejected, DRejected | DEstablished, DEstablished | DLost, DLost => true
  | DPeerClosed x, DPeerClosed y => N.eqb x y
  | _, _ => false
  end.

Definition acc_eqb (a b : acc) : bool :=
  match a, b with
  | ANoIncoming, ANoIncoming | AHandshake, AHandshake | ARejected, ARejected | AOther, AOther => true
  | AClosed x, AClosed y => N.eqb x y
  | _, _ => false
  end.

Definition out_eqb (x y : out) : bool :=
  lN_eqb (d_before x) (d_before y) && lN_eqb (d_after x) (d_after y) && dial_eqb (d_res x) (d_res y) &&
  lN_eqb (a_before x) (a_before y) && lN_eqb (a_after x) (a_after y) && acc_eqb (a_res x) (a_res y).

Definition output := res out.
Definition model (i : input) : output := Ok (connect i).

Definition agree (i : input) (o : output) : bool :=
  match o with
  | Ok x => out_eqb (connect i) x ||
            match connect_alt i with Some y => out_eqb y x | None => false end
  | _ => false
  end.

(* ---- the property as a boolean function of an observed output ---- *)

Definition all_before (hs : list hook) : bool := forallb fst hs.
Definition all_after (hs : list hook) : bool :=
  forallb (fun h => match snd h with None => true | Some _ => false end) hs.

(* code of the first rejecting after_handshake hook *)
Fixpoint first_code (hs : list hook) : option N :=
  match hs with
  | [] => None
  | (_, None) :: r => first_code r
  | (_, Some c) :: _ => Some c
  end.

(* number of leading hooks that accept *)
Fixpoint lead_before (hs : list hook) : nat :=
  match hs with (true, _) :: r => S (lead_before r) | _ => O end.
Fixpoint lead_after (hs : list hook) : nat :=
  match hs with (_, None) :: r => S (lead_after r) | _ => O end.

(* indices 0 .. min(k, n-1): the calls up to and including the first reject *)
Definition prefix_through (k n : nat) : list N := map N.of_nat (seq 0 (Nat.min (S k) n)).

Definition log_ok (lead : nat) (n : nat) (log : list N) : bool :=
  match log with [] => true | _ => lN_eqb log (prefix_through lead n) end.

Definition is_pre (d : dial) : bool := match d with DPre _ => true | _ => false end.
Definition no_incoming (a : acc) : bool := match a with ANoIncoming => true | _ => false end.

Definition monitor (i : input) (o : output) : bool :=
  match o with
  | Ok x =>
      let pre_ok := negb (closed i) && all_before (dhooks i) && negb (to_self i) &&
                    match alpn_kind i with AlpnEmpty => false | _ => true end in
      let everyone := pre_ok && all_after (dhooks i) && all_after (ahooks i) in
      (* established (on either side) only if every hook accepted and the preconditions hold *)
      (match d_res x with DEstablished => everyone | _ => true end) &&
      (match a_res x with
       | AClosed c =>
           if N.eqb c done_code && negb (opt_eqb N.eqb (first_code (dhooks i)) (Some done_code))
           then everyone else true
       | _ => true
       end) &&
      (* a failing precondition or a rejecting before_connect hook stops the attempt before
         the handshake: typed failure, no after_handshake call anywhere, nothing reaches the peer *)
      (if pre_ok then true
       else is_pre (d_res x) && no_incoming (a_res x) &&
            match d_after x, a_after x with [], [] => true | _, _ => false end) &&
      (* self / empty ALPN always fail *)
      (if to_self i || match alpn_kind i with AlpnEmpty => true | _ => false end
       then is_pre (d_res x) else true) &&
      (* a rejecting after_handshake hook closes the connection with its code *)
      (if pre_ok && match alpn_kind i with AlpnServed => true | _ => false end then
         match first_code (dhooks i), first_code (ahooks i) with
         | Some c, _ =>
             dial_eqb (d_res x) DRejected &&
             (acc_eqb (a_res x) (AClosed c) || acc_eqb (a_res x) ARejected)
         | None, Some c =>
             dial_eqb (d_res x) (DPeerClosed c) && acc_eqb (a_res x) ARejected
         | None, None => true
         end
       else true) &&
      (* call logs: nothing, or every hook up to and including the first rejecting one *)
      log_ok (lead_before (dhooks i)) (length (dhooks i)) (d_before x) &&
      log_ok (lead_after (dhooks i)) (length (dhooks i)) (d_after x) &&
      log_ok (lead_after (ahooks i)) (length (ahooks i)) (a_after x) &&
      (match a_before x with [] => true | _ => false end) &&
      (* a rejecting side did call its rejecting hook *)
      (match d_res x with
       | DRejected => lN_eqb (d_after x) (prefix_through (lead_after (dhooks i)) (length (dhooks i)))
       | DPre 2 => lN_eqb (d_before x) (prefix_through (lead_before (dhooks i)) (length (dhooks i)))
       | _ => true
       end)
  | _ => false
  end.

Definition known (i : input) : N := 0.

(* 1 endpoint closed / 2 before_connect rejects / 3 self / 4 empty ALPN / 5 ALPN not served /
   6 dialer's after_handshake rejects / 7 acceptor's after_handshake rejects / 8 established *)
Definition tag (i : input) : N :=
  match d_res (connect i) with
  | DPre k => k
  | DHandshake => 5
  | DRejected => 6
  | DPeerClosed _ => 7
  | DEstablished => 8
  | DLost => 9
  end.

Definition judge (i : input) (o : output) : bool * bool * N * N :=
  (agree i o, monitor i o, known i, tag i).

End C42.
