(* C24 — BiasedRttPathSelector::select (iroh/src/socket/biased_rtt_path_selector.rs:136-187)
   and the use of its result in RemoteStateActor::select_path
   (iroh/src/socket/remote_map/remote_state.rs:650-672).
   Executable model, definitions only. *)
From V Require Import Lib.Base Lib.MachineInt Gen.Consts.
Open Scope Z_scope.

Module C24.

(* A network path address (FourTuple).  Only equality and the address kind matter:
   kind 0 = IPv4, 1 = IPv6, 2 = relay, k >= 3 = custom transport with id k. *)
Record addr := mkAddr { kind : N; aid : N }.
Definition addr_eqb (a b : addr) : bool := N.eqb (kind a) (kind b) && N.eqb (aid a) (aid b).

(* enum TransportType { Primary, Backup } with the derived order Primary < Backup *)
Inductive tier := Primary | Backup.
Definition tier_rank (t : tier) : Z := match t with Primary => 0 | Backup => 1 end.
Definition tier_eqb (a b : tier) : bool := tier_rank a =? tier_rank b.

(* sort key (TransportType, i128), derived lexicographic PartialOrd *)
Definition key := (tier * Z)%type.
Definition key_ltb (a b : key) : bool :=
  (tier_rank (fst a) <? tier_rank (fst b)) ||
  ((tier_rank (fst a) =? tier_rank (fst b)) && (snd a <? snd b)).
Definition key_eqb (a b : key) : bool := tier_eqb (fst a) (fst b) && (snd a =? snd b).

(* i128 arithmetic *)
Definition I128_MAX : Z := 170141183460469231731687303715884105727.
Definition I128_MIN : Z := -170141183460469231731687303715884105728.
Definition i128_in (z : Z) : bool := (I128_MIN <=? z) && (z <=? I128_MAX).
Definition i128_sat_add (a b : Z) : Z := Z.max I128_MIN (Z.min I128_MAX (a + b)).
(* plain `+`: overflow panics (debug build, as the harness and the tests are built) *)
Definition i128_checked_add (a b : Z) : option Z := if i128_in (a + b) then Some (a + b) else None.
(* `x as i128` for x : u128 *)
Definition u128_as_i128 (x : N) : Z :=
  let z := Z.of_N x mod 340282366920938463463374607431768211456 in
  if z <=? I128_MAX then z else z - 340282366920938463463374607431768211456.

(* Largest Duration: u64::MAX seconds + 999_999_999 ns, in nanoseconds. *)
Definition DURATION_MAX_NANOS : N := 18446744073709551615999999999%N.

Definition IPV6_RTT_ADVANTAGE : Z := C24_IPV6_RTT_ADVANTAGE.
Definition RTT_SWITCHING_MIN : Z := C24_RTT_SWITCHING_MIN.

(* BiasedRttPathSelector::default + bias_for: IPv4 primary/0, IPv6 primary/-advantage
   (with_rtt_advantage: rtt_bias -= advantage), relay backup/0, anything else primary/0. *)
Definition bias_for (a : addr) : tier * Z :=
  if N.eqb (kind a) 0 then (Primary, 0)
  else if N.eqb (kind a) 1 then (Primary, 0 - IPV6_RTT_ADVANTAGE)
  else if N.eqb (kind a) 2 then (Backup, 0)
  else (Primary, 0).

Definition tier_of (a : addr) : tier := fst (bias_for a).

(* sort_key: (rtt.as_nanos() as i128).saturating_add(bias.rtt_bias) *)
Definition sort_key (a : addr) (rtt : N) : key :=
  let b := bias_for a in (fst b, i128_sat_add (u128_as_i128 rtt) (snd b)).

(* One candidate: address and readable stats (rtt in ns) or None. *)
Definition path := (addr * option N)%type.

(* loop state: best = Option<(psd, key)>, current_key = Option<key> *)
Definition state := (option (addr * key) * option key)%type.

Definition is_none_or {A} (o : option A) (f : A -> bool) : bool :=
  match o with None => true | Some x => f x end.

Definition step (cur : option addr) (st : state) (p : path) : state :=
  match snd p with
  | None => st                                   (* let Some(stats) = psd.stats() else continue *)
  | Some rtt =>
      let k := sort_key (fst p) rtt in
      let ck :=
        if opt_eqb addr_eqb (Some (fst p)) cur && is_none_or (snd st) (fun c => key_ltb k c)
        then Some k else snd st in
      let b :=
        if is_none_or (fst st) (fun b => key_ltb k (snd b)) then Some (fst p, k) else fst st in
      (b, ck)
  end.

Definition decide (st : state) : res (option addr) :=
  match fst st with
  | None => Ok None
  | Some (ba, (bt, bb)) =>
      match snd st with
      | None => Ok (Some ba)
      | Some (ct, cb) =>
          if negb (tier_eqb ct bt) then Ok (Some ba)
          else match i128_checked_add bb RTT_SWITCHING_MIN with
               | None => Panic
               | Some s => if s <=? cb then Ok (Some ba) else Ok None
               end
      end
  end.

Record input := mkIn { current : option addr; paths : list path }.
Definition output := res (option addr).

Definition run (i : input) : state := fold_left (step (current i)) (paths i) (None, None).
Definition model (i : input) : output := decide (run i).

(* RemoteStateActor::select_path: an empty selection (or the same address) keeps the current path. *)
Definition next_selected (cur sel : option addr) : option addr :=
  match sel with Some a => Some a | None => cur end.

Definition agree (i : input) (o : output) : bool := res_eqb (opt_eqb addr_eqb) (model i) o.

(* ---- the property as a function of an observed output ---- *)

(* keys of the candidates with readable stats whose address satisfies f, in order *)
Fixpoint keys_of (f : addr -> bool) (l : list path) : list key :=
  match l with
  | [] => []
  | (a, Some r) :: t => if f a then sort_key a r :: keys_of f t else keys_of f t
  | (_, None) :: t => keys_of f t
  end.

Definition key_min2 (a b : key) : key := if key_ltb b a then b else a.
Definition key_min (l : list key) : option key :=
  match l with [] => None | k :: t => Some (fold_left key_min2 t k) end.

Definition valid (i : input) : bool :=
  forallb (fun p => match snd p with None => true | Some r => (r <=? DURATION_MAX_NANOS)%N end) (paths i).

Definition monitor (i : input) (o : output) : bool :=
  if negb (valid i) then true else
  match o with
  | Ok sel =>
      match key_min (keys_of (fun _ => true) (paths i)) with
      | None => match sel with None => true | Some _ => false end   (* no readable stats: nothing selected *)
      | Some kb =>
          let ck := match current i with
                    | None => None
                    | Some c => key_min (keys_of (fun x => addr_eqb x c) (paths i))
                    end in
          match sel with
          | Some a =>
              match key_min (keys_of (fun x => addr_eqb x a) (paths i)) with
              | None => false                                   (* not a live path with stats *)
              | Some ka =>
                  key_eqb ka kb &&                              (* best tier, then lowest biased rtt *)
                  match ck with
                  | None => true
                  | Some kc => negb (tier_eqb (fst kc) (fst ka)) || (snd ka + RTT_SWITCHING_MIN <=? snd kc)
                  end
              end
          | None =>
              (* keeping the current path: it is live, in the best tier, and nothing is 5 ms better *)
              match ck with
              | None => false
              | Some kc => tier_eqb (fst kc) (fst kb) && (snd kc <? snd kb + RTT_SWITCHING_MIN)
              end
          end
      end
  | _ => false
  end.

Definition known (i : input) : N := 0%N.

(* 0 no readable stats / 1 no current key (no current, or current without stats) /
   2 tier change / 3 same tier, switch / 4 same tier, keep / 5 outside Duration range *)
Definition tag (i : input) : N :=
  if negb (valid i) then 5%N else
  let st := run i in
  match fst st with
  | None => 0%N
  | Some (_, (bt, bb)) =>
      match snd st with
      | None => 1%N
      | Some (ct, cb) =>
          if negb (tier_eqb ct bt) then 2%N
          else if bb + RTT_SWITCHING_MIN <=? cb then 3%N else 4%N
      end
  end.

Definition judge (i : input) (o : output) : bool * bool * N * N :=
  (agree i o, monitor i o, known i, tag i).

End C24.
