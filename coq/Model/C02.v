(* C02 — Key and address encodings round-trip and parse totally.
   Executable model of iroh-base/src/key.rs (PublicKey / SecretKey / Signature
   parsers, printers, serde) and iroh-base/src/endpoint_addr.rs (CustomAddr,
   TransportAddr, EndpointAddr; postcard layout).  Definitions only.

   Panicking operations of the Rust code are modelled explicitly as `Panic`
   (data-encoding's decode_mut / decode_len assertions, slice indexing in
   CustomAddrBytes::as_bytes) so that "parsing never panics" is a theorem about
   the guards and not true by construction.

   Curve-point validity (`is_point`, ed25519-dalek VerifyingKey::from_bytes =
   CompressedEdwardsY::decompress) and URL parsing (`url_parse`, url::Url::parse
   followed by re-serialisation) are parameters; in the correspondence check they
   are instantiated by finite tables computed by the harness with the real
   libraries. *)
From V Require Import Lib.Base Lib.MachineInt Lib.BaseN Lib.Hex Lib.Leb128.
Open Scope N_scope.

Module C02.

Definition bind {A B} (x : res A) (f : A -> res B) : res B :=
  match x with Ok a => f a | Err e => Err e | Panic => Panic end.
Notation "x >>= f" := (bind x f) (at level 50, left associativity).

(* ------------------------------------------------------------------ *)
(* data-encoding entry points as the code calls them *)

(* usize::MAX / 8: Encoding::decode_len starts with assert!(len <= usize::MAX / 8) *)
Definition MAXLEN : N := 2305843009213693951.

Definition enc_decode_len (c : codec) (n : nat) : res nat :=
  if MAXLEN <? N.of_nat n then Panic else decode_len c n.

(* Encoding::decode_mut: assert_eq!(Ok(output.len()), self.decode_len(input.len())) *)
Definition enc_decode_mut (c : codec) (s : bytes) (outlen : nat) : res bytes :=
  match enc_decode_len c (length s) with
  | Ok m => if (m =? outlen)%nat then decode c s else Panic
  | _ => Panic
  end.

(* Encoding::decode: vec![0; self.decode_len(len)?] then decode_mut *)
Definition enc_decode (c : codec) (s : bytes) : res bytes :=
  enc_decode_len c (length s) >>= fun m => enc_decode_mut c s m.

(* ------------------------------------------------------------------ *)
(* Keys (key.rs).  KeyParsingError codes:
   1 FailedToDecodeHex, 2 FailedToDecodeBase32, 3 InvalidLength, 4 InvalidKeyData *)

Section Keys.
Variable is_point : bytes -> bool.

(* key.rs:475-496 *)
Definition decode_base32_hex (s : bytes) : res bytes :=
  if (length s =? 64)%nat then
    match enc_decode_mut HEXLOWER s 32 with
    | Ok b => if (length b =? 32)%nat then Ok b else Err 3
    | Err _ => Err 1
    | Panic => Panic
    end
  else
    let input := ascii_upper s in
    match enc_decode_len BASE32_NOPAD (length input) with
    | Panic => Panic
    | Ok m =>
        if (m =? 32)%nat then
          match enc_decode_mut BASE32_NOPAD input 32 with
          | Ok b => if (length b =? 32)%nat then Ok b else Err 3
          | Err _ => Err 2
          | Panic => Panic
          end
        else Err 3
    | Err _ => Err 3
    end.

(* PublicKey::from_bytes(&[u8; 32]), key.rs:122-127 (the stored bytes are the given bytes) *)
Definition pk_from_bytes (b : bytes) : res bytes := if is_point b then Ok b else Err 4.

(* TryFrom<&[u8]>, key.rs:186-194: wrong length is InvalidKeyData too *)
Definition pk_try_from_slice (b : bytes) : res bytes :=
  if (length b =? 32)%nat then pk_from_bytes b else Err 4.

(* FromStr, key.rs:249-257 *)
Definition pk_from_str (s : bytes) : res bytes := decode_base32_hex s >>= pk_from_bytes.

(* from_z32, key.rs:169-174 *)
Definition pk_from_z32 (s : bytes) : res bytes :=
  match enc_decode Z_BASE_32 s with
  | Ok b => pk_try_from_slice b
  | Err _ => Err 2
  | Panic => Panic
  end.

Definition pk_display (k : bytes) : bytes := encode HEXLOWER k.           (* key.rs:221-225 *)
Definition pk_to_z32 (k : bytes) : bytes := encode Z_BASE_32 k.           (* key.rs:164-166 *)
Definition pk_fmt_short (k : bytes) : bytes := encode HEXLOWER (firstn 5 k). (* key.rs:142-148 *)
Definition pk_base32 (k : bytes) : bytes := encode BASE32_NOPAD k.        (* accepted input form *)

(* postcard (non human readable): the 32 raw bytes.  postcard error codes:
   1 DeserializeUnexpectedEnd, 2 DeserializeBadVarint, 3 DeserializeBadUtf8, 4 SerdeDeCustom *)
Definition pk_postcard_enc (k : bytes) : bytes := k.
Definition pk_postcard_dec (l : bytes) : res (bytes * bytes) :=
  if (length l <? 32)%nat then Err 1
  else match pk_try_from_slice (firstn 32 l) with
       | Ok k => Ok (k, skipn 32 l)
       | Err _ => Err 4
       | Panic => Panic
       end.

(* SecretKey::from_str, key.rs:269-276: no validation *)
Definition sk_from_str (s : bytes) : res bytes := decode_base32_hex s.

(* Signature: 64-byte tuple, key.rs:378-426 *)
Definition sig_postcard_enc (sg : bytes) : bytes := sg.
Definition sig_postcard_dec (l : bytes) : res (bytes * bytes) :=
  if (length l <? 64)%nat then Err 1 else Ok (firstn 64 l, skipn 64 l).

End Keys.

(* ------------------------------------------------------------------ *)
(* CustomAddr (endpoint_addr.rs:185-384) *)

Inductive cab := Inline (size : N) (data : bytes) | Heap (data : bytes).
Record custom := mkCustom { cid : N; cdata : cab }.

(* copy_from_slice, 319-330 *)
Definition copy_from_slice (d : bytes) : cab :=
  if (length d <=? 30)%nat then Inline (len d) (d ++ repeat 0 (30 - length d)) else Heap d.

(* as_bytes, 312-317: &data[..size] panics when size > 30 *)
Definition as_bytes (c : cab) : res bytes :=
  match c with
  | Inline size data => if size <=? len data then Ok (firstn (N.to_nat size) data) else Panic
  | Heap d => Ok d
  end.

Definition is_inline (c : cab) : bool := match c with Inline _ _ => true | Heap _ => false end.

Definition from_parts (id : N) (d : bytes) : custom := mkCustom id (copy_from_slice d).

Fixpoint le_enc (k : nat) (n : N) : bytes :=
  match k with O => [] | S k' => (n mod 256) :: le_enc k' (n / 256) end.
Fixpoint le_dec (l : bytes) : N :=
  match l with [] => 0 | b :: r => b + 256 * le_dec r end.

(* to_vec, 366-371 *)
Definition ca_to_vec (a : custom) : res bytes :=
  as_bytes (cdata a) >>= fun d => Ok (le_enc 8 (cid a) ++ d).

(* from_bytes, 376-383: Err 1 = "data too short" *)
Definition ca_from_bytes (b : bytes) : res custom :=
  if (length b <? 8)%nat then Err 1
  else Ok (from_parts (le_dec (firstn 8 b)) (skipn 8 b)).

(* Display, 193-197 *)
Definition ca_display (a : custom) : res bytes :=
  as_bytes (cdata a) >>= fun d => Ok (fmt_lower_hex (cid a) ++ [95] ++ encode HEXLOWER d).

(* str::split_once('_') *)
Fixpoint split_once (ch : N) (s : bytes) : option (bytes * bytes) :=
  match s with
  | [] => None
  | c :: r => if c =? ch then Some ([], r)
              else match split_once ch r with Some (a, b) => Some (c :: a, b) | None => None end
  end.

(* FromStr, 199-214: Err 1 MissingSeparator, 2 InvalidId, 3 InvalidData *)
Definition ca_from_str (s : bytes) : res custom :=
  match split_once 95 s with
  | None => Err 1
  | Some (id_str, data_str) =>
      match u64_from_str_radix16 id_str with
      | None => Err 2
      | Some id =>
          match enc_decode HEXLOWER data_str with
          | Ok d => Ok (from_parts id d)
          | Err _ => Err 3
          | Panic => Panic
          end
      end
  end.

(* postcard: varint(u64 id) ++ varint(usize len) ++ data  (derive(Serialize) on the struct,
   CustomAddrBytes::serialize = serialize_bytes(as_bytes), 243-247) *)
Definition ca_postcard_enc (a : custom) : res bytes :=
  as_bytes (cdata a) >>= fun d =>
  Ok (varint_u64_enc (cid a) ++ varint_u64_enc (len d) ++ d).

Definition dec_bytes (l : bytes) : res (bytes * bytes) :=
  varint_u64_dec l >>= fun '(n, r) =>
  if len r <? n then Err 1 else Ok (firstn (N.to_nat n) r, skipn (N.to_nat n) r).

(* custom Deserialize through copy_from_slice only, 249-282 *)
Definition ca_postcard_dec (l : bytes) : res (custom * bytes) :=
  varint_u64_dec l >>= fun '(id, r) =>
  dec_bytes r >>= fun '(d, r2) => Ok (from_parts id d, r2).

Definition cab_eqb (a b : cab) : bool :=
  match a, b with
  | Inline s d, Inline s' d' => N.eqb s s' && bytes_eqb d d'
  | Heap d, Heap d' => bytes_eqb d d'
  | _, _ => false
  end.
(* derive(PartialEq) *)
Definition custom_eqb (a b : custom) : bool := N.eqb (cid a) (cid b) && cab_eqb (cdata a) (cdata b).

(* ------------------------------------------------------------------ *)
(* TransportAddr / EndpointAddr (endpoint_addr.rs:41-62), postcard layout *)

Inductive sockaddr := V4 (ip : bytes) (port : N) | V6 (ip : bytes) (port flow scope : N).
Inductive taddr := Relay (u : bytes) | Ip (a : sockaddr) | Custom (c : custom).
Record eaddr := mkEa { eid : bytes; eaddrs : list taddr }.

(* derive(Ord): variant order, then fields in order *)
Fixpoint bytes_cmp (a b : bytes) : comparison :=
  match a, b with
  | [], [] => Eq
  | [], _ => Lt
  | _, [] => Gt
  | x :: a', y :: b' => match x ?= y with Eq => bytes_cmp a' b' | c => c end
  end.
Definition lex (c1 c2 : comparison) : comparison := match c1 with Eq => c2 | _ => c1 end.
Definition cab_cmp (a b : cab) : comparison :=
  match a, b with
  | Inline s d, Inline s' d' => lex (s ?= s') (bytes_cmp d d')
  | Inline _ _, Heap _ => Lt
  | Heap _, Inline _ _ => Gt
  | Heap d, Heap d' => bytes_cmp d d'
  end.
Definition custom_cmp (a b : custom) : comparison :=
  lex (cid a ?= cid b) (cab_cmp (cdata a) (cdata b)).
Definition sock_cmp (a b : sockaddr) : comparison :=
  match a, b with
  | V4 i p, V4 i' p' => lex (bytes_cmp i i') (p ?= p')
  | V4 _ _, V6 _ _ _ _ => Lt
  | V6 _ _ _ _, V4 _ _ => Gt
  | V6 i p f s, V6 i' p' f' s' => lex (bytes_cmp i i') (lex (p ?= p') (lex (f ?= f') (s ?= s')))
  end.
Definition taddr_cmp (a b : taddr) : comparison :=
  match a, b with
  | Relay u, Relay u' => bytes_cmp u u'
  | Relay _, _ => Lt
  | Ip _, Relay _ => Gt
  | Ip x, Ip y => sock_cmp x y
  | Ip _, Custom _ => Lt
  | Custom x, Custom y => custom_cmp x y
  | Custom _, _ => Gt
  end.

(* BTreeSet::insert into the ascending list of elements; an equal element is kept *)
Fixpoint set_insert (a : taddr) (l : list taddr) : list taddr :=
  match l with
  | [] => [a]
  | x :: r => match taddr_cmp a x with
              | Lt => a :: l
              | Eq => l
              | Gt => x :: set_insert a r
              end
  end.

Definition sock_eqb (a b : sockaddr) : bool :=
  match a, b with
  | V4 i p, V4 i' p' => bytes_eqb i i' && N.eqb p p'
  | V6 i p f s, V6 i' p' f' s' => bytes_eqb i i' && N.eqb p p' && N.eqb f f' && N.eqb s s'
  | _, _ => false
  end.
Definition taddr_eqb (a b : taddr) : bool :=
  match a, b with
  | Relay u, Relay u' => bytes_eqb u u'
  | Ip x, Ip y => sock_eqb x y
  | Custom x, Custom y => custom_eqb x y
  | _, _ => false
  end.
Definition eaddr_eqb (a b : eaddr) : bool :=
  bytes_eqb (eid a) (eid b) && list_eqb taddr_eqb (eaddrs a) (eaddrs b).

(* serde's binary SocketAddr: variant index, ip octets, port as u16 varint;
   SocketAddrV6 serialises (ip, port) only *)
Definition sock_enc (a : sockaddr) : bytes :=
  match a with
  | V4 ip p => varint_u32_enc 0 ++ ip ++ varint_u16_enc p
  | V6 ip p _ _ => varint_u32_enc 1 ++ ip ++ varint_u16_enc p
  end.
Definition taddr_enc (a : taddr) : res bytes :=
  match a with
  | Relay u => Ok (varint_u32_enc 0 ++ varint_u64_enc (len u) ++ u)
  | Ip s => Ok (varint_u32_enc 1 ++ sock_enc s)
  | Custom c => ca_postcard_enc c >>= fun b => Ok (varint_u32_enc 2 ++ b)
  end.
Fixpoint taddrs_enc (l : list taddr) : res bytes :=
  match l with
  | [] => Ok []
  | a :: r => taddr_enc a >>= fun x => taddrs_enc r >>= fun y => Ok (x ++ y)
  end.
Definition ea_enc (e : eaddr) : res bytes :=
  taddrs_enc (eaddrs e) >>= fun b => Ok (eid e ++ varint_u64_enc (len (eaddrs e)) ++ b).

Section Addr.
Variable is_point : bytes -> bool.
(* Url::deserialize of the string bytes: Err 3 invalid UTF-8, Err 4 Url::parse error,
   Ok = serialisation of the parsed Url *)
Variable url_parse : bytes -> res bytes.

Definition dec_u8s (k : nat) (l : bytes) : res (bytes * bytes) :=
  if (length l <? k)%nat then Err 1 else Ok (firstn k l, skipn k l).

Definition sock_dec (l : bytes) : res (sockaddr * bytes) :=
  varint_u32_dec l >>= fun '(v, r) =>
  if v =? 0 then
    dec_u8s 4 r >>= fun '(ip, r2) => varint_u16_dec r2 >>= fun '(p, r3) => Ok (V4 ip p, r3)
  else if v =? 1 then
    dec_u8s 16 r >>= fun '(ip, r2) => varint_u16_dec r2 >>= fun '(p, r3) => Ok (V6 ip p 0 0, r3)
  else Err 4.

Definition taddr_dec (l : bytes) : res (taddr * bytes) :=
  varint_u32_dec l >>= fun '(v, r) =>
  if v =? 0 then
    dec_bytes r >>= fun '(s, r2) => url_parse s >>= fun u => Ok (Relay u, r2)
  else if v =? 1 then
    sock_dec r >>= fun '(a, r2) => Ok (Ip a, r2)
  else if v =? 2 then
    ca_postcard_dec r >>= fun '(c, r2) => Ok (Custom c, r2)
  else Err 4.

(* seq of cnt elements, each inserted into the BTreeSet; every element takes >= 1 byte,
   so fuel = S (length l) is never exhausted while cnt > 0 *)
Fixpoint taddrs_dec (fuel : nat) (cnt : N) (l : bytes) (acc : list taddr) : res (list taddr * bytes) :=
  if cnt =? 0 then Ok (acc, l) else
  match fuel with
  | O => Err 1
  | S f => taddr_dec l >>= fun '(a, r) => taddrs_dec f (cnt - 1) r (set_insert a acc)
  end.

Definition ea_dec (l : bytes) : res (eaddr * bytes) :=
  pk_postcard_dec is_point l >>= fun '(k, r) =>
  varint_u64_dec r >>= fun '(cnt, r2) =>
  taddrs_dec (S (length r2)) cnt r2 [] >>= fun '(as_, r3) => Ok (mkEa k as_, r3).

End Addr.

(* ------------------------------------------------------------------ *)
(* The correspondence interface *)

Inductive op :=
| OpPkStr (s : bytes)       (* PublicKey::from_str *)
| OpPkZ32 (s : bytes)       (* PublicKey::from_z32 *)
| OpPkSlice (b : bytes)     (* PublicKey::try_from(&[u8]) *)
| OpPkPostcard (b : bytes)  (* postcard::from_bytes::<PublicKey> *)
| OpPkJson (s : bytes)      (* serde_json::from_str::<PublicKey>(json string of s) *)
| OpSkStr (s : bytes)       (* SecretKey::from_str *)
| OpPkRt (b : bytes)        (* key bytes through every encoding and back *)
| OpSigPostcard (b : bytes) (* postcard::from_bytes::<Signature> *)
| OpCaStr (s : bytes)       (* CustomAddr::from_str *)
| OpCaBytes (b : bytes)     (* CustomAddr::from_bytes *)
| OpCaPostcard (b : bytes)  (* postcard::from_bytes::<CustomAddr> *)
| OpCaRt (id : N) (d : bytes)  (* from_parts through every encoding and back *)
| OpEaRt (e : eaddr)        (* EndpointAddr -> postcard -> EndpointAddr *)
| OpEaPostcard (b : bytes)  (* postcard::from_bytes::<EndpointAddr> *)
(* PublicKey::try_from(k) then PublicKey::verify(m, Signature::from_bytes(sg)), key.rs:134-138.
   [honest]: the harness produced sg by SecretKey::sign of exactly m under the secret key of
   exactly k (it says so in the input; every other case - another message, another key, a
   changed or crafted signature - has honest = false).
   [vo]: the verification oracle's entry for (k, m, sg).  Ed25519 is not modelled; the model
   answers with this entry, which is part of the INPUT and which the harness fills with what
   the property demands of strict verification (vo = honest). *)
| OpVerify (k m sg : bytes) (honest vo : bool).

Definition oracle := list (bytes * bool).
Definition url_oracle := list (bytes * res bytes).
Definition input := (op * oracle * url_oracle)%type.

Inductive outv :=
| OBytes (l : list (res bytes))
| OEa (e : eaddr) (l : list (res bytes)).
Definition output := res outv.

Fixpoint lookup {A} (t : list (bytes * A)) (b : bytes) : option A :=
  match t with
  | [] => None
  | (k, v) :: r => if bytes_eqb k b then Some v else lookup r b
  end.
Definition is_point_of (o : oracle) (b : bytes) : bool :=
  match lookup o b with Some v => v | None => false end.
(* a string missing from the table is reported as Err 99, which no implementation output has *)
Definition url_parse_of (u : url_oracle) (s : bytes) : res bytes :=
  match lookup u s with Some v => v | None => Err 99 end.

(* no entry of the table says that url::Url::parse panicked *)
Definition url_table_total (u : url_oracle) : bool :=
  forallb (fun kv => negb (is_panic (snd kv))) u.

Definition flag (b : bool) : res bytes := Ok [if b then 1 else 0].

Definition pk_obs (k : bytes) : list (res bytes) :=
  [Ok k; Ok (pk_display k); Ok (pk_to_z32 k); Ok (pk_fmt_short k); Ok (pk_postcard_enc k)].

Definition ca_obs (a : custom) : list (res bytes) :=
  [ca_to_vec a; ca_display a; flag (is_inline (cdata a))].

(* one re-parsed CustomAddr: its to_vec, storage class, and `==` with the original *)
Definition ca_back (orig : custom) (r : res custom) : list (res bytes) :=
  match r with
  | Ok a => [ca_to_vec a; flag (is_inline (cdata a)); flag (custom_eqb a orig)]
  | Err e => [Err e; Err e; Err e]
  | Panic => [Panic; Panic; Panic]
  end.

Definition no_trailing {A} (r : res (A * bytes)) : res A := r >>= fun '(a, _) => Ok a.

Definition v6_plain (a : taddr) : bool :=
  match a with Ip (V6 _ _ f s) => N.eqb f 0 && N.eqb s 0 | _ => true end.
Definition v6_noflow (a : taddr) : bool :=
  match a with Ip (V6 _ _ f _) => N.eqb f 0 | _ => true end.

Definition model (i : input) : output :=
  let '(o, pts, urls) := i in
  let isp := is_point_of pts in
  let up := url_parse_of urls in
  match o with
  | OpPkStr s => pk_from_str isp s >>= fun k => Ok (OBytes (pk_obs k))
  | OpPkZ32 s => pk_from_z32 isp s >>= fun k => Ok (OBytes (pk_obs k))
  | OpPkSlice b => pk_try_from_slice isp b >>= fun k => Ok (OBytes (pk_obs k))
  | OpPkPostcard b => no_trailing (pk_postcard_dec isp b) >>= fun k => Ok (OBytes (pk_obs k))
  | OpPkJson s =>
      match pk_from_str isp s with
      | Ok k => Ok (OBytes (pk_obs k))
      | Err _ => Err 20
      | Panic => Panic
      end
  | OpSkStr s => sk_from_str s >>= fun k => Ok (OBytes [Ok k])
  | OpPkRt b =>
      pk_try_from_slice isp b >>= fun k =>
      let hex := pk_display k in
      let b32 := pk_base32 k in
      let z := pk_to_z32 k in
      let pc := pk_postcard_enc k in
      Ok (OBytes [Ok hex; Ok b32; Ok z; Ok pc;
                  pk_from_str isp hex; pk_from_str isp b32; pk_from_str isp (ascii_lower b32);
                  pk_from_z32 isp z; no_trailing (pk_postcard_dec isp pc);
                  (* serde_json: to_string then from_str *)
                  match pk_from_str isp hex with Ok k' => Ok k' | Err _ => Err 20 | Panic => Panic end])
  | OpSigPostcard b => no_trailing (sig_postcard_dec b) >>= fun s => Ok (OBytes [Ok s])
  | OpCaStr s => ca_from_str s >>= fun a => Ok (OBytes (ca_obs a))
  | OpCaBytes b => ca_from_bytes b >>= fun a => Ok (OBytes (ca_obs a))
  | OpCaPostcard b => no_trailing (ca_postcard_dec b) >>= fun a => Ok (OBytes (ca_obs a))
  | OpCaRt id d =>
      let a := from_parts id d in
      Ok (OBytes (ca_obs a ++ [as_bytes (cdata a); ca_postcard_enc a]
                  ++ ca_back a (ca_display a >>= ca_from_str)
                  ++ ca_back a (ca_to_vec a >>= ca_from_bytes)
                  ++ ca_back a (ca_postcard_enc a >>= fun b => no_trailing (ca_postcard_dec b))
                  (* serde_json: {"id":..,"data":[..]} and back through visit_seq *)
                  ++ ca_back a (as_bytes (cdata a) >>= fun d' => Ok (from_parts (cid a) d'))))
  | OpEaRt e =>
      ea_enc e >>= fun b =>
      no_trailing (ea_dec isp up b) >>= fun e' =>
      (* JSON keeps the scope id ("[ip%scope]:port") but not the flow info *)
      Ok (OEa e' [Ok b; flag (forallb v6_noflow (eaddrs e))])
  | OpEaPostcard b =>
      no_trailing (ea_dec isp up b) >>= fun e' => Ok (OEa e' [ea_enc e'])
  | OpVerify k m sg honest vo =>
      pk_try_from_slice isp k >>= fun _ => Ok (OBytes [flag vo])
  end.

Definition rb_eqb : res bytes -> res bytes -> bool := res_eqb bytes_eqb.
Definition outv_eqb (a b : outv) : bool :=
  match a, b with
  | OBytes l, OBytes l' => list_eqb rb_eqb l l'
  | OEa e l, OEa e' l' => eaddr_eqb e e' && list_eqb rb_eqb l l'
  | _, _ => false
  end.

(* ---- well-formedness of inputs (what the harness can construct) ---- *)
Definition wf_cab (c : cab) : bool :=
  match c with
  | Inline s d => (s <=? 30) && (length d =? 30)%nat && bytes_ok d && forallb (N.eqb 0) (skipn (N.to_nat s) d)
  | Heap d => (30 <? length d)%nat && bytes_ok d && (len d <=? U64_MAX)   (* a length is a usize *)
  end.
Definition wf_custom (c : custom) : bool := (cid c <=? U64_MAX) && wf_cab (cdata c).
Definition wf_sock (a : sockaddr) : bool :=
  match a with
  | V4 ip p => (length ip =? 4)%nat && bytes_ok ip && (p <=? U16_MAX)
  | V6 ip p f s => (length ip =? 16)%nat && bytes_ok ip && (p <=? U16_MAX) && (f <=? U32_MAX) && (s <=? U32_MAX)
  end.
Definition wf_taddr (up : bytes -> res bytes) (a : taddr) : bool :=
  match a with
  | Relay u => bytes_ok u && (len u <=? U64_MAX) && rb_eqb (up u) (Ok u)     (* a serialised Url parses to itself *)
  | Ip s => wf_sock s
  | Custom c => wf_custom c
  end.
(* strictly ascending: each element is greater than every earlier one (BTreeSet iteration order) *)
Fixpoint ascending (prev : list taddr) (l : list taddr) : bool :=
  match l with
  | [] => true
  | a :: r => forallb (fun p => match taddr_cmp a p with Gt => true | _ => false end) prev
              && ascending (prev ++ [a]) r
  end.
Definition wf_key (isp : bytes -> bool) (k : bytes) : bool :=
  (length k =? 32)%nat && bytes_ok k && isp k.
Definition wf_eaddr (isp : bytes -> bool) (up : bytes -> res bytes) (e : eaddr) : bool :=
  wf_key isp (eid e) && forallb (wf_taddr up) (eaddrs e) && ascending [] (eaddrs e)
  && (len (eaddrs e) <=? U64_MAX).

(* the 32 bytes whose validity the model asks about: must be in the table *)
Definition candidate (i : input) : option bytes :=
  let '(o, pts, urls) := i in
  let some_ok (r : res bytes) := match r with Ok b => Some b | _ => None end in
  match o with
  | OpPkStr s | OpPkJson s => some_ok (decode_base32_hex s)
  | OpPkZ32 s => match enc_decode Z_BASE_32 s with Ok b => if (length b =? 32)%nat then Some b else None | _ => None end
  | OpPkSlice b | OpPkRt b => if (length b =? 32)%nat then Some b else None
  | OpPkPostcard b | OpEaPostcard b => if (length b <? 32)%nat then None else Some (firstn 32 b)
  | OpEaRt e => Some (eid e)
  | OpVerify k _ _ _ _ => if (length k =? 32)%nat then Some k else None
  | _ => None
  end.

Definition oracle_covers (i : input) : bool :=
  match candidate i with
  | None => true
  | Some b => match lookup (snd (fst i)) b with Some _ => true | None => false end
  end.

Definition agree (i : input) (o : output) : bool :=
  oracle_covers i && res_eqb outv_eqb (model i) o &&
  (* an EndpointAddr handed over by the harness lists its BTreeSet in iteration order *)
  match fst (fst i) with OpEaRt e => ascending [] (eaddrs e) | _ => true end.

(* ---- the property as a function of an observed output ---- *)

Definition all_ok_eq (b : bytes) (l : list (res bytes)) : bool :=
  forallb (fun r => rb_eqb r (Ok b)) l.

(* accepted public key: 32 bytes that the oracle says are a curve point, and every formatter returned *)
Definition pk_accept_ok (isp : bytes -> bool) (l : list (res bytes)) : bool :=
  match l with
  | Ok k :: rest => (length k =? 32)%nat && isp k &&
                    forallb (fun r => match r with Ok _ => true | _ => false end) rest
  | _ => false
  end.

(* parsed CustomAddr: to_vec / to_string did not panic, storage class is canonical *)
Definition ca_accept_ok (l : list (res bytes)) : bool :=
  match l with
  | [Ok v; Ok _; Ok [f]] =>
      (8 <=? length v)%nat && N.eqb f (if (length v - 8 <=? 30)%nat then 1 else 0)
  | _ => false
  end.

Fixpoint triples_ok (v : bytes) (inl : N) (l : list (res bytes)) : bool :=
  match l with
  | [] => true
  | Ok v' :: Ok [f] :: Ok [e] :: r => bytes_eqb v' v && N.eqb f inl && N.eqb e 1 && triples_ok v inl r
  | _ => false
  end.

Definition monitor (i : input) (o : output) : bool :=
  let '(op_, pts, urls) := i in
  let isp := is_point_of pts in
  let up := url_parse_of urls in
  match op_ with
  | OpPkStr s | OpPkZ32 s | OpPkJson s =>
      if MAXLEN <? len s then true else
      match o with
      | Ok (OBytes l) => pk_accept_ok isp l
      | Ok _ => false
      | Err _ => true
      | Panic => false
      end
  | OpPkSlice s | OpPkPostcard s =>
      match o with
      | Ok (OBytes l) => pk_accept_ok isp l
      | Ok _ => false
      | Err _ => true
      | Panic => false
      end
  | OpSkStr s =>
      if MAXLEN <? len s then true else
      match o with
      | Ok (OBytes [Ok k]) => (length k =? 32)%nat
      | Ok _ => false
      | Err _ => true
      | Panic => false
      end
  | OpPkRt b =>
      if negb ((length b =? 32)%nat && bytes_ok b) then true else
      if isp b then
        match o with
        | Ok (OBytes (Ok _ :: Ok _ :: Ok _ :: Ok _ :: back)) => all_ok_eq b back && (length back =? 6)%nat
        | _ => false
        end
      else (* not a curve point: must be refused *)
        match o with Err _ => true | _ => false end
  | OpSigPostcard b =>
      match o with
      | Ok (OBytes [Ok s]) => (length s =? 64)%nat
      | Ok _ => false
      | Err _ => true
      | Panic => false
      end
  | OpCaStr s =>
      if MAXLEN <? len s then true else
      match o with
      | Ok (OBytes l) => ca_accept_ok l
      | Ok _ => false
      | Err _ => true
      | Panic => false
      end
  | OpCaBytes s | OpCaPostcard s =>
      match o with
      | Ok (OBytes l) => ca_accept_ok l
      | Ok _ => false
      | Err _ => (match op_ with OpCaBytes _ => (length s <? 8)%nat | _ => true end)
      | Panic => false
      end
  | OpCaRt id d =>
      if negb ((id <=? U64_MAX) && bytes_ok d && (2 * len d <=? MAXLEN)) then true else
      let v := le_enc 8 id ++ d in
      let inl := if (length d <=? 30)%nat then 1 else 0 in
      match o with
      | Ok (OBytes (Ok v0 :: Ok _ :: Ok [f0] :: Ok d0 :: Ok _ :: back)) =>
          bytes_eqb v0 v && N.eqb f0 inl && bytes_eqb d0 d &&
          triples_ok v inl back && (length back =? 12)%nat
      | _ => false
      end
  | OpEaRt e =>
      if negb (wf_eaddr isp up e) then true else
      match o with
      | Ok (OEa e' [Ok _; Ok [j]]) => eaddr_eqb e' e && N.eqb j 1
      | _ => false
      end
  | OpEaPostcard b =>
      (* outside the quantifier: "bytes" that are not bytes, and a url table that records a
         panic of url::Url itself (the harness never writes one: its entries are Ok / Err) *)
      if negb (bytes_ok b && url_table_total urls) then true else
      match o with
      | Ok (OEa e' [Ok _]) => wf_key isp (eid e')     (* accepted: only a valid key, re-serialisable *)
      | Ok _ => false
      | Err _ => true
      | Panic => false
      end
  | OpVerify k m sg honest vo =>
      (* "A signature made with a secret key verifies under its public key and fails for any
         other message or key": the OBSERVED result must be "accepted" exactly for the honest
         cases.  Outside the quantifier: an oracle entry that is not what the property demands
         (the harness always writes vo = honest), and an "honest" case whose key is not a
         32-byte curve point (a key derived from a secret key always is). *)
      if negb (Bool.eqb vo honest) || (honest && negb ((length k =? 32)%nat && isp k)) then true else
      match o with
      | Ok (OBytes [Ok [f]]) => N.eqb f (if honest then 1 else 0)
      | Ok _ => false
      | Err _ => negb honest       (* the key is refused by the parser: nothing verifies under it *)
      | Panic => false
      end
  end.

(* Known-finding class 1: an EndpointAddr holding a SocketAddrV6 with non-zero flow info
   or scope id does not survive postcard (serde's binary SocketAddrV6 is (ip, port) only). *)
Definition known (i : input) : N :=
  match fst (fst i) with
  | OpEaRt e => if forallb v6_plain (eaddrs e) then 0 else 1
  | _ => 0
  end.

Definition op_index (o : op) : N :=
  match o with
  | OpPkStr _ => 1 | OpPkZ32 _ => 2 | OpPkSlice _ => 3 | OpPkPostcard _ => 4 | OpPkJson _ => 5
  | OpSkStr _ => 6 | OpPkRt _ => 7 | OpSigPostcard _ => 8 | OpCaStr _ => 9 | OpCaBytes _ => 10
  | OpCaPostcard _ => 11 | OpCaRt _ _ => 12 | OpEaRt _ => 13 | OpEaPostcard _ => 14
  | OpVerify _ _ _ _ _ => 15
  end.

(* branch tag: 10 * operation + outcome (1 = accepted, 1 + e = error code e, capped at 9);
   the heap representation of an accepted/round-tripped CustomAddr adds 100 *)
Definition tag (i : input) : N :=
  let o := fst (fst i) in
  let out := match o, model i with
             | OpVerify _ _ _ honest _, Ok _ => if honest then 1 else 2   (* 151 accepted / 152 must be rejected *)
             | _, Ok _ => 1 | _, Err e => N.min 9 (1 + e) | _, Panic => 9 end in
  let heap := match o with
              | OpCaRt _ d => if (length d <=? 30)%nat then 0 else 100
              | _ => match model i with
                     | Ok (OBytes [_; _; Ok [0]]) => 100
                     | _ => 0
                     end
              end in
  10 * op_index o + out + heap.

Definition judge (i : input) (o : output) : bool * bool * N * N :=
  (agree i o, monitor i o, known i, tag i).

End C02.
