(* C18 — mapped addresses: AddrMap::get / AddrMap::lookup, the three generators,
   MultipathMappedAddr::from (iroh/src/socket/mapped_addrs.rs) and to_transport_addr
   (iroh/src/socket/remote_map.rs).  Executable model, definitions only.

   Concurrency.  AddrMap is Arc<Mutex<AddrMapInner>>.  `get` takes the lock in its first
   statement and holds it until it returns (the map probe, the generate-until-unique loop
   and both inserts all happen under the one guard, mapped_addrs.rs:337-352); `lookup`
   likewise (mapped_addrs.rs:357-358).  Neither touches shared state outside the guard.
   Hence every call is ONE atomic step, the order in which the calls acquire the mutex is
   a total order, and every concurrent history of calls has exactly the results of the
   sequential history that lists the calls in lock-acquisition order (its linearisation).
   The model is therefore a sequential state machine `step`, a history is a list of ops,
   and "all interleavings of the threads' programs" is "all merges of the per-thread op
   lists" (`Merge` in Proofs/C18.v); the theorems quantify over ALL op lists, hence over
   all merges.  The correspondence check observes the real lock order through a hook
   inside the two critical sections and replays exactly that order.

   Randomness.  `V::generate()` draws 8 random host bytes.  The model takes the draws
   from an oracle: each `OpGet` carries the list `cands` of host parts the generator
   would return, in order.  The real loop runs until a candidate is fresh and does not
   terminate otherwise; the model returns `None` ("exhausted") when `cands` holds no
   fresh candidate.  Progress theorems assume a fresh candidate exists in `cands` and
   say so. *)
From V Require Import Lib.Base Gen.Consts.
Open Scope N_scope.

Module C18.

(* ---- constants (mapped_addrs.rs:20-55).  MAPPED_PORT is regenerated from the source
   (Gen/Consts.v); the byte-array constants cannot be parsed by gen_consts and are
   compared with the compiled crate by the `K` case of every run (IConsts below). *)
Definition ADDR_PREFIXL : N := 253.                          (* 0xfd *)
Definition ADDR_GLOBAL_ID : bytes := [21; 7; 10; 81; 11].    (* 15 07 0a 51 0b *)
Definition ENDPOINT_ID_SUBNET : bytes := [0; 0].
Definition RELAY_MAPPED_SUBNET : bytes := [0; 1].
Definition CUSTOM_MAPPED_SUBNET : bytes := [0; 3].
Definition MAPPED_PORT : N := C18_MAPPED_PORT.
(* DEFAULT_FAKE_ADDR: fd15:070a:510b:0000:ffff:ffff:ffff:ffff port MAPPED_PORT *)
Definition DEFAULT_FAKE_OCTETS : bytes :=
  [ADDR_PREFIXL; 21; 7; 10; 81; 11; 0; 0; 255; 255; 255; 255; 255; 255; 255; 255].

(* The three real address types, plus the harness's scripted type (an AddrMap<u64, _>
   instantiated with a MappedAddr whose `generate` replays a script: it exercises the
   generic get/lookup code including the retry on collision). *)
Inductive kind := KMixed | KRelay | KCustom | KScript.

Definition kind_code (k : kind) : N :=
  match k with KMixed => 0 | KRelay => 1 | KCustom => 2 | KScript => 3 end.
Definition kind_eqb (a b : kind) : bool := N.eqb (kind_code a) (kind_code b).

Definition subnet (k : kind) : bytes :=
  match k with
  | KMixed => ENDPOINT_ID_SUBNET
  | KRelay => RELAY_MAPPED_SUBNET
  | KCustom => CUSTOM_MAPPED_SUBNET
  | KScript => []
  end.

(* generate(): addr[0] = PREFIXL; addr[1..6] = GLOBAL_ID; addr[6..8] = SUBNET;
   fill_bytes(addr[8..16]).  `r` = the 8 random bytes.  The scripted type returns the
   scripted 16 octets as they are. *)
Definition gen (k : kind) (r : bytes) : bytes :=
  match k with
  | KScript => r
  | _ => ADDR_PREFIXL :: ADDR_GLOBAL_ID ++ subnet k ++ r
  end.

(* octets[a..b] *)
Definition slice (a b : nat) (l : bytes) : bytes := firstn (b - a) (skipn a l).

(* TryFrom<Ipv6Addr>: octets[0] == ADDR_PREFIXL && octets[1..6] == ADDR_GLOBAL_ID
   && octets[6..8] == SUBNET *)
Definition in_subnet (sub : bytes) (o : bytes) : bool :=
  N.eqb (nth 0 o 0) ADDR_PREFIXL && bytes_eqb (slice 1 6 o) ADDR_GLOBAL_ID
  && bytes_eqb (slice 6 8 o) sub.

(* Does `o` convert into the address type of map `k`?  (always for the scripted type) *)
Definition typed (k : kind) (o : bytes) : bool :=
  match k with KScript => true | _ => in_subnet (subnet k) o end.

(* std::net::SocketAddr.  IPv4 address as a 32-bit number, IPv6 as its 16 octets. *)
Inductive sockaddr :=
| SV4 (ip port : N)
| SV6 (o : bytes) (port flow scope : N).

Definition sockaddr_eqb (a b : sockaddr) : bool :=
  match a, b with
  | SV4 i p, SV4 j q => N.eqb i j && N.eqb p q
  | SV6 o p f s, SV6 o' p' f' s' => bytes_eqb o o' && N.eqb p p' && N.eqb f f' && N.eqb s s'
  | _, _ => false
  end.

(* MultipathMappedAddr *)
Inductive mapped :=
| MMixed (o : bytes)
| MRelay (o : bytes)
| MCustom (o : bytes)
| MIp (sa : sockaddr).

Definition mapped_eqb (a b : mapped) : bool :=
  match a, b with
  | MMixed x, MMixed y | MRelay x, MRelay y | MCustom x, MCustom y => bytes_eqb x y
  | MIp x, MIp y => sockaddr_eqb x y
  | _, _ => false
  end.

(* impl From<SocketAddr> for MultipathMappedAddr (mapped_addrs.rs:95-113): V4 is Ip;
   V6 tries EndpointId, Relay, Custom in this order, else Ip. *)
Definition classify (sa : sockaddr) : mapped :=
  match sa with
  | SV4 _ _ => MIp sa
  | SV6 o _ _ _ =>
      if in_subnet ENDPOINT_ID_SUBNET o then MMixed o
      else if in_subnet RELAY_MAPPED_SUBNET o then MRelay o
      else if in_subnet CUSTOM_MAPPED_SUBNET o then MCustom o
      else MIp sa
  end.

(* private_socket_addr(): SocketAddr::new(IpAddr::from(self.0), MAPPED_PORT) *)
Definition private_socket_addr (o : bytes) : sockaddr := SV6 o MAPPED_PORT 0 0.

(* Ipv6Addr::to_canonical: ::ffff:a.b.c.d becomes the IPv4 address a.b.c.d.
   SocketAddr::new(ip.to_canonical(), port) drops flow info and scope id. *)
Definition is_v4_mapped (o : bytes) : bool :=
  bytes_eqb (firstn 12 o) [0;0;0;0;0;0;0;0;0;0;255;255].
Definition v4_of (o : bytes) : N :=
  ((nth 12 o 0 * 256 + nth 13 o 0) * 256 + nth 14 o 0) * 256 + nth 15 o 0.
Definition canonical (sa : sockaddr) : sockaddr :=
  match sa with
  | SV4 _ _ => sa
  | SV6 o p _ _ => if is_v4_mapped o then SV4 (v4_of o) p else SV6 o p 0 0
  end.

(* ---- AddrMapInner { addrs: FxHashMap<K, V>, lookup: FxHashMap<V, K> } as two
   association lists; keys K are numbered by the harness. *)
Record amap := mkMap { addrs : list (N * bytes); lookup : list (bytes * N) }.
Definition empty_map : amap := mkMap [] [].

Fixpoint find_k (k : N) (l : list (N * bytes)) : option bytes :=
  match l with
  | [] => None
  | (k', a) :: r => if N.eqb k' k then Some a else find_k k r
  end.

Fixpoint find_a (a : bytes) (l : list (bytes * N)) : option N :=
  match l with
  | [] => None
  | (a', k) :: r => if bytes_eqb a' a then Some k else find_a a r
  end.

(* HashMap::insert replaces an existing entry *)
Definition ins_k (k : N) (a : bytes) (l : list (N * bytes)) : list (N * bytes) :=
  (k, a) :: filter (fun p => negb (N.eqb (fst p) k)) l.
Definition ins_a (a : bytes) (k : N) (l : list (bytes * N)) : list (bytes * N) :=
  (a, k) :: filter (fun p => negb (bytes_eqb (fst p) a)) l.

(* loop { let candidate = V::generate(); if !inner.lookup.contains_key(&candidate) { break candidate } } *)
Fixpoint first_fresh (lk : list (bytes * N)) (cands : list bytes) : option bytes :=
  match cands with
  | [] => None
  | c :: r => match find_a c lk with
              | None => Some c
              | Some _ => first_fresh lk r
              end
  end.

(* AddrMap::get (mapped_addrs.rs:336-353), one critical section. *)
Definition get (kd : kind) (m : amap) (key : N) (cands : list bytes) : amap * option bytes :=
  match find_k key (addrs m) with
  | Some a => (m, Some a)
  | None =>
      match first_fresh (lookup m) (map (gen kd) cands) with
      | Some a => (mkMap (ins_k key a (addrs m)) (ins_a a key (lookup m)), Some a)
      | None => (m, None)
      end
  end.

(* AddrMap::lookup (mapped_addrs.rs:356-359), one critical section. *)
Definition lookup_addr (m : amap) (a : bytes) : option N := find_a a (lookup m).

(* MappedAddrs { endpoint_addrs, relay_addrs, custom_addrs } + the scripted map *)
Record state := mkState { mE : amap; mR : amap; mC : amap; mS : amap }.
Definition init : state := mkState empty_map empty_map empty_map empty_map.

Definition sel (k : kind) (s : state) : amap :=
  match k with KMixed => mE s | KRelay => mR s | KCustom => mC s | KScript => mS s end.
Definition upd (k : kind) (s : state) (m : amap) : state :=
  match k with
  | KMixed => mkState m (mR s) (mC s) (mS s)
  | KRelay => mkState (mE s) m (mC s) (mS s)
  | KCustom => mkState (mE s) (mR s) m (mS s)
  | KScript => mkState (mE s) (mR s) (mC s) m
  end.

(* transports::Addr *)
Inductive taddr := TIp (sa : sockaddr) | TRelay (key : N) | TCustom (key : N).
Definition taddr_eqb (a b : taddr) : bool :=
  match a, b with
  | TIp x, TIp y => sockaddr_eqb x y
  | TRelay x, TRelay y | TCustom x, TCustom y => N.eqb x y
  | _, _ => false
  end.

(* to_transport_addr (remote_map.rs:90-123) *)
Definition to_transport_addr (s : state) (sa : sockaddr) : option taddr :=
  match classify sa with
  | MMixed _ => None
  | MRelay o => match lookup_addr (mR s) o with Some k => Some (TRelay k) | None => None end
  | MCustom o => match lookup_addr (mC s) o with Some k => Some (TCustom k) | None => None end
  | MIp a => Some (TIp (canonical a))
  end.

(* ---- operations and observations *)
Inductive op :=
| OpGet (kd : kind) (key : N) (cands : list bytes)   (* map.get(&key); generator draws = cands *)
| OpLookup (kd : kind) (o : bytes)                   (* V::try_from(o).ok().map(|v| map.lookup(&v)) *)
| OpTransport (sa : sockaddr)                        (* to_transport_addr(sa, relay_addrs, custom_addrs) *)
| OpClassify (sa : sockaddr).                        (* MultipathMappedAddr::from(sa) *)

Inductive obs :=
| RAddr (sa : sockaddr)          (* get: private_socket_addr() of the returned address *)
| RExhausted                     (* get: no fresh candidate in cands (real code: loops) *)
| RNotTyped                      (* lookup: try_from failed *)
| RKey (k : option N)            (* lookup result *)
| RTransport (t : option taddr)
| RClass (m : mapped).

Definition obs_eqb (a b : obs) : bool :=
  match a, b with
  | RAddr x, RAddr y => sockaddr_eqb x y
  | RExhausted, RExhausted => true
  | RNotTyped, RNotTyped => true
  | RKey x, RKey y => opt_eqb N.eqb x y
  | RTransport x, RTransport y => opt_eqb taddr_eqb x y
  | RClass x, RClass y => mapped_eqb x y
  | _, _ => false
  end.

Definition step (s : state) (o : op) : state * obs :=
  match o with
  | OpGet kd key cands =>
      match get kd (sel kd s) key cands with
      | (m', Some a) => (upd kd s m', RAddr (private_socket_addr a))
      | (_, None) => (s, RExhausted)
      end
  | OpLookup kd a =>
      (s, if typed kd a then RKey (lookup_addr (sel kd s) a) else RNotTyped)
  | OpTransport sa => (s, RTransport (to_transport_addr s sa))
  | OpClassify sa => (s, RClass (classify sa))
  end.

Fixpoint run (s : state) (ops : list op) : state * list obs :=
  match ops with
  | [] => (s, [])
  | o :: r => let '(s1, x) := step s o in
              let '(s2, xs) := run s1 r in (s2, x :: xs)
  end.

(* ---- interface.  A case is a list of calls in linearisation order, each tagged with
   the thread that issued it (the tag does not influence the model), or the constants
   probe. *)
Inductive input :=
| IConsts
| IOps (ops : list (N * op)).

(* dump of the final maps: (kind code, key, octets) for every entry of `addrs` and of `lookup` *)
Definition dump := list (N * N * bytes).

Inductive output :=
| OConsts (prefixl : N) (gid sub_e sub_r sub_c : bytes) (port : N) (fake : sockaddr)
| OOps (results : list obs) (d_addrs d_lookup : dump).

Definition dump_k (k : kind) (m : amap) : dump * dump :=
  (map (fun p => (kind_code k, fst p, snd p)) (addrs m),
   map (fun p => (kind_code k, snd p, fst p)) (lookup m)).

Definition dump_state (s : state) : dump * dump :=
  let ds := map (fun k => dump_k k (sel k s)) [KMixed; KRelay; KCustom; KScript] in
  (concat (map fst ds), concat (map snd ds)).

Definition ent_eqb (x y : N * N * bytes) : bool :=
  N.eqb (fst (fst x)) (fst (fst y)) && N.eqb (snd (fst x)) (snd (fst y)) && bytes_eqb (snd x) (snd y).
Definition dump_sub (a b : dump) : bool := forallb (fun x => existsb (ent_eqb x) b) a.
(* equal as sets (the hash maps have no order) *)
Definition dump_eqb (a b : dump) : bool :=
  Nat.eqb (length a) (length b) && dump_sub a b && dump_sub b a.

Definition model (i : input) : output :=
  match i with
  | IConsts =>
      OConsts ADDR_PREFIXL ADDR_GLOBAL_ID ENDPOINT_ID_SUBNET RELAY_MAPPED_SUBNET
              CUSTOM_MAPPED_SUBNET MAPPED_PORT (SV6 DEFAULT_FAKE_OCTETS MAPPED_PORT 0 0)
  | IOps ops =>
      let '(s, xs) := run init (map snd ops) in
      let '(da, dl) := dump_state s in OOps xs da dl
  end.

Definition agree (i : input) (o : output) : bool :=
  match model i, o with
  | OConsts p g e r c po f, OConsts p' g' e' r' c' po' f' =>
      N.eqb p p' && bytes_eqb g g' && bytes_eqb e e' && bytes_eqb r r' && bytes_eqb c c'
      && N.eqb po po' && sockaddr_eqb f f'
  | OOps xs da dl, OOps xs' da' dl' =>
      list_eqb obs_eqb xs xs' && dump_eqb da da' && dump_eqb dl dl'
  | _, _ => false
  end.

(* ---- the property on an OBSERVED trace.
   The observed events: (kind, key, octets) for every get that returned an address,
   (kind, octets, result) for every typed lookup. *)
Definition octets_of (sa : sockaddr) : bytes :=
  match sa with SV6 o _ _ _ => o | SV4 _ _ => [] end.

Fixpoint zip_obs (ops : list op) (xs : list obs) : list (op * obs) :=
  match ops, xs with
  | o :: r, x :: xr => (o, x) :: zip_obs r xr
  | _, _ => []
  end.

(* gets seen so far: (kind, key, octets) *)
Definition seen := list (kind * N * bytes).

Definition seen_key (sn : seen) (kd : kind) (key : N) : option bytes :=
  match find (fun e => kind_eqb (fst (fst e)) kd && N.eqb (snd (fst e)) key) sn with
  | Some e => Some (snd e) | None => None end.
Definition seen_addr (sn : seen) (kd : kind) (a : bytes) : option N :=
  match find (fun e => kind_eqb (fst (fst e)) kd && bytes_eqb (snd e) a) sn with
  | Some e => Some (snd (fst e)) | None => None end.

Definition kind_of_mapped (m : mapped) : option kind :=
  match m with MMixed _ => Some KMixed | MRelay _ => Some KRelay | MCustom _ => Some KCustom | MIp _ => None end.
Definition mapped_octets (m : mapped) : bytes :=
  match m with MMixed o | MRelay o | MCustom o => o | MIp _ => [] end.

Definition prefix7 (k : kind) : bytes := ADDR_PREFIXL :: ADDR_GLOBAL_ID ++ subnet k.

(* one event of the trace against the gets seen before it *)
Definition event_ok (sn : seen) (e : op * obs) : bool :=
  match e with
  | (OpGet kd key _, RAddr sa) =>
      let a := octets_of sa in
      (* stable: the key's earlier address; injective: the address's earlier key *)
      match seen_key sn kd key with Some a' => bytes_eqb a a' | None => true end
      && match seen_addr sn kd a with Some k' => N.eqb k' key | None => true end
      (* recognised as the right kind, with the dummy port *)
      && sockaddr_eqb sa (private_socket_addr a)
      && match kd with
         | KScript => true
         | _ => match classify sa with
                | MIp _ => false
                | m => opt_eqb kind_eqb (kind_of_mapped m) (Some kd) && bytes_eqb (mapped_octets m) a
                end
         end
  | (OpGet _ _ _, _) => false                     (* a get always yields an address *)
  | (OpLookup kd a, RKey r) =>
      typed kd a && opt_eqb N.eqb r (seen_addr sn kd a)   (* exactly the key it was given to *)
  | (OpLookup kd a, RNotTyped) => negb (typed kd a)
  | (OpLookup _ _, _) => false
  | (OpTransport sa, RTransport t) =>
      match classify sa with
      | MMixed _ => opt_eqb taddr_eqb t None
      | MRelay o => opt_eqb taddr_eqb t (option_map TRelay (seen_addr sn KRelay o))
      | MCustom o => opt_eqb taddr_eqb t (option_map TCustom (seen_addr sn KCustom o))
      | MIp _ => match t with Some (TIp _) => true | _ => false end
      end
  | (OpTransport _, _) => false
  | (OpClassify sa, RClass m) =>
      match sa with
      | SV4 _ _ => mapped_eqb m (MIp sa)            (* an IPv4 address is never mapped *)
      | SV6 o _ _ _ =>
          match kind_of_mapped m with
          | Some k => bytes_eqb (firstn 8 o) (prefix7 k) && bytes_eqb (mapped_octets m) o
          | None => mapped_eqb m (MIp sa)
                    && negb (existsb (fun k => bytes_eqb (firstn 8 o) (prefix7 k)) [KMixed; KRelay; KCustom])
          end
      end
  | (OpClassify _, _) => false
  end.

Definition push_seen (sn : seen) (e : op * obs) : seen :=
  match e with
  | (OpGet kd key _, RAddr sa) => (kd, key, octets_of sa) :: sn
  | _ => sn
  end.

Fixpoint trace_ok (sn : seen) (t : list (op * obs)) : bool :=
  match t with
  | [] => true
  | e :: r => event_ok sn e && trace_ok (push_seen sn e) r
  end.

(* the dumped maps are mutually inverse: (k, a) is in `addrs` iff (a, k) is in `lookup` *)
Definition dumps_inverse (da dl : dump) : bool := dump_sub da dl && dump_sub dl da.

(* The property's quantifier: histories in which the oracle stream of every get holds a
   fresh candidate (the real loop's termination condition).  Decided by running the model. *)
Definition fresh_ok (ops : list op) : bool :=
  forallb (fun x => negb (obs_eqb x RExhausted)) (snd (run init ops)).

Definition monitor (i : input) (o : output) : bool :=
  match i, o with
  | IConsts, _ => true
  | IOps ops, OOps xs da dl =>
      if negb (fresh_ok (map snd ops)) then true else
      Nat.eqb (length xs) (length ops) && trace_ok [] (zip_obs (map snd ops) xs)
      && dumps_inverse da dl
  | IOps _, _ => false
  end.

Definition known (i : input) : N := 0.

(* Branch tag: 0 empty / 1 one thread, no collision / 2 one thread, some get had to retry /
   3 several threads, no collision / 4 several threads with a retry / 5 constants probe. *)
(* the harness appends one never-used candidate to every oracle stream: two draws plus
   that one means the real generator was asked at least twice *)
Definition has_retry (o : op) : bool :=
  match o with OpGet _ _ (_ :: _ :: _ :: _) => true | _ => false end.
Definition tag (i : input) : N :=
  match i with
  | IConsts => 5
  | IOps [] => 0
  | IOps ops =>
      let multi := existsb (fun p => negb (N.eqb (fst p) 0)) ops in
      let retry := existsb (fun p => has_retry (snd p)) ops in
      if multi then (if retry then 4 else 3) else (if retry then 2 else 1)
  end.

Definition judge (i : input) (o : output) : bool * bool * N * N :=
  (agree i o, monitor i o, known i, tag i).

End C18.
