(* C35 — DnsResolver::resolve_host_all: the `unfold` state machine
   (iroh-dns/src/dns.rs:504-595).  Executable model, definitions only.

   The two lookups (Inner::op: resolver call raced against sleep(timeout), the
   lookup winning a tie) are lazy futures: each starts when `select!` first
   polls it.  Inputs: per family the duration and answer of the resolver,
   the timeout, and the delays of the consumer before each `next()`. *)
From V Require Import Lib.Base Lib.MachineInt.
Open Scope N_scope.

Module C35.

Definition addr := (N * N)%type.                (* (4, u32) or (6, u128) *)
Definition answer := res (list N).               (* Ok addresses | Err code (1 Timeout 2 NoResponse 3 MissingHost 4 InvalidResponse) *)

Inductive item :=
| IAddr (a : addr)
| IBoth (c4 c6 : N)            (* DnsError::ResolveBoth { ipv4, ipv6 } *)
| INoResp                      (* DnsError::NoResponse *)
| IMissing.                    (* DnsError::MissingHost *)

Record cfg := mkC { timeout : N; d4 : N; r4 : answer; d6 : N; r6 : answer }.

(* A lookup future = Inner::op (dns.rs:311-337): when polled at time t, having been
   started at st:  select! { biased; res = lookup => res, _ = sleep(timeout) => Err(Timeout) }.
   The lookup is tested first, so a finished lookup beats an elapsed timeout —
   also when the future is polled late (the consumer was busy). *)
Inductive fut :=
| Unstarted
| Running (st : N)
| Finished (st : N) (a : answer).        (* MaybeFuture::None; st, a: start time and the answer it gave (observation) *)

Definition poll_op (c : cfg) (d : N) (r : answer) (f : fut) (t : N) : option answer :=
  match f with
  | Running st => if st + d <=? t then Some r
                  else if st + timeout c <=? t then Some (Err 1) else None
  | _ => None
  end.
Definition wake (c : cfg) (d : N) (f : fut) : option N :=
  match f with Running st => Some (N.min (st + d) (st + timeout c)) | _ => None end.
Definition start (f : fut) (t : N) : fut := match f with Unstarted => Running t | x => x end.
Definition st_of (f : fut) : N := match f with Running st => st | Finished st _ => st | Unstarted => 0 end.
Definition is_fin (f : fut) : bool := match f with Finished _ _ => true | _ => false end.

Record state := mkS {
  f4 : fut; f6 : fut;
  e4 : option N; e6 : option N;          (* v4_err, v6_err *)
  queue : list addr;
  closed : bool; yielded : bool;
  now : N
}.

Definition init_state : state := mkS Unstarted Unstarted None None [] false false 0.

(* res = &mut state.v4_fut => match res { Ok(items) => queue.extend(items.map(V4)), Err(e) => v4_err = Some(e) } *)
Definition put4 (s : state) (g4 g6 : fut) (t : N) (a : answer) : state :=
  match a with
  | Ok l => mkS g4 g6 (e4 s) (e6 s) (queue s ++ map (fun x => (4, x)) l) (closed s) (yielded s) t
  | Err e => mkS g4 g6 (Some e) (e6 s) (queue s) (closed s) (yielded s) t
  | Panic => mkS g4 g6 (e4 s) (e6 s) (queue s) (closed s) (yielded s) t
  end.
Definition put6 (s : state) (g4 g6 : fut) (t : N) (a : answer) : state :=
  match a with
  | Ok l => mkS g4 g6 (e4 s) (e6 s) (queue s ++ map (fun x => (6, x)) l) (closed s) (yielded s) t
  | Err e => mkS g4 g6 (e4 s) (Some e) (queue s) (closed s) (yielded s) t
  | Panic => mkS g4 g6 (e4 s) (e6 s) (queue s) (closed s) (yielded s) t
  end.

(* tokio::select! { biased; v4_fut => .., v6_fut => .. }  (dns.rs:577-592):
   poll v4 (starting it if new); if it is ready take it without polling v6;
   else poll v6; else sleep until the first timer of either fires and poll again, v4 first. *)
Definition select (c : cfg) (s : state) : state :=
  let t := now s in
  let g4 := start (f4 s) t in
  match poll_op c (d4 c) (r4 c) g4 t with
  | Some a => put4 s (Finished (st_of g4) a) (f6 s) t a
  | None =>
      let g6 := start (f6 s) t in
      match poll_op c (d6 c) (r6 c) g6 t with
      | Some a => put6 s g4 (Finished (st_of g6) a) t a
      | None =>
          let t' := match wake c (d4 c) g4, wake c (d6 c) g6 with
                    | Some a, Some b => N.min a b
                    | Some a, None => a
                    | None, Some b => b
                    | None, None => t
                    end in
          match poll_op c (d4 c) (r4 c) g4 t' with
          | Some a => put4 s (Finished (st_of g4) a) g6 t' a
          | None =>
              match poll_op c (d6 c) (r6 c) g6 t' with
              | Some a => put6 s g4 (Finished (st_of g6) a) t' a
              | None => s          (* unreachable: the earliest timer makes one of them ready *)
              end
          end
      end
  end.

(* one `next()` of the unfold stream (dns.rs:551-594) *)
Fixpoint next (fuel : nat) (c : cfg) (s : state) : option item * state :=
  if closed s then (None, s) else
  match queue s with
  | a :: q =>
      (Some (IAddr a), mkS (f4 s) (f6 s) (e4 s) (e6 s) q (closed s) true (now s))
  | [] =>
      if is_fin (f4 s) && is_fin (f6 s) then
        let s' := mkS (f4 s) (f6 s) None None [] true (yielded s) (now s) in
        match e4 s, e6 s with
        | Some a, Some b => (Some (IBoth a b), s')
        | _, _ => if negb (yielded s) then (Some INoResp, s') else (None, s')
        end
      else
        match fuel with
        | O => (None, s)          (* unreachable: at most two lookups finish *)
        | Datatypes.S f => next f c (select c s)
        end
  end.

Definition advance (s : state) (gap : N) : state :=
  mkS (f4 s) (f6 s) (e4 s) (e6 s) (queue s) (closed s) (yielded s) (now s + gap).

(* the consumer: wait gap_k, call next(), until the stream ends *)
Fixpoint collect (fuel : nat) (c : cfg) (s : state) (gaps : list N) : list (N * item) * state :=
  match fuel with
  | O => ([], s)
  | Datatypes.S f =>
      match next 2 c (advance s (hd 0 gaps)) with
      | (None, s') => ([], s')
      | (Some it, s') =>
          let (l, s'') := collect f c s' (tl gaps) in ((now s', it) :: l, s'')
      end
  end.

(* ---- interface ---- *)
Inductive input :=
| Dom (c : cfg) (gaps : list N)      (* url::Host::Domain *)
| Lit (a : addr) (gaps : list N)     (* url::Host::Ipv4 / Ipv6 *)
| NoHost (gaps : list N).            (* url.host() == None *)

(* yielded items with the (virtual) time of each, then the resolver call times *)
Definition output := res (list (N * item) * option N * option N).

Definition call_time (f : fut) : option N :=
  match f with Unstarted => None | Running st => Some st | Finished st _ => Some st end.

Definition answer_len (r : answer) : nat := match r with Ok l => length l | _ => O end.
Definition fuel_for (c : cfg) : nat := (answer_len (r4 c) + answer_len (r6 c) + 4)%nat.

Definition model (i : input) : output :=
  match i with
  | Dom c gaps =>
      let (l, s) := collect (fuel_for c) c init_state gaps in Ok (l, call_time (f4 s), call_time (f6 s))
  | Lit a gaps => Ok ([(hd 0 gaps, IAddr a)], None, None)
  | NoHost gaps => Ok ([(hd 0 gaps, IMissing)], None, None)
  end.

Definition addr_eqb (a b : addr) : bool := (fst a =? fst b) && (snd a =? snd b).
Definition item_eqb (a b : item) : bool :=
  match a, b with
  | IAddr x, IAddr y => addr_eqb x y
  | IBoth a1 a2, IBoth b1 b2 => (a1 =? b1) && (a2 =? b2)
  | INoResp, INoResp => true
  | IMissing, IMissing => true
  | _, _ => false
  end.
Definition titem_eqb (a b : N * item) : bool := (fst a =? fst b) && item_eqb (snd a) (snd b).

Definition out_eqb (a b : list (N * item) * option N * option N) : bool :=
  list_eqb titem_eqb (fst (fst a)) (fst (fst b)) &&
  opt_eqb N.eqb (snd (fst a)) (snd (fst b)) && opt_eqb N.eqb (snd a) (snd b).

Definition agree (i : input) (o : output) : bool := res_eqb out_eqb (model i) o.

(* ---- the property, as a function of the observed items ---- *)
Definition block (fam : N) (a : answer) : list addr :=
  match a with Ok l => map (fun x => (fam, x)) l | _ => [] end.
Definition err_of (a : answer) : option N := match a with Err e => Some e | _ => None end.

(* what the stream must yield when the lookups gave a4 and a6 and completed in the given order *)
Definition spec_tail (a4 a6 : answer) (oks : list addr) : list item :=
  match err_of a4, err_of a6 with
  | Some a, Some b => [IBoth a b]
  | _, _ => match oks with [] => [INoResp] | _ => [] end
  end.
Definition spec (a4 a6 : answer) (v4_first : bool) : list item :=
  let oks := if v4_first then block 4 a4 ++ block 6 a6 else block 6 a6 ++ block 4 a4 in
  map IAddr oks ++ spec_tail a4 a6 oks.

(* what a lookup future can give: the resolver's answer, or Timeout if that takes longer than the timeout *)
Definition candidates (c : cfg) (d : N) (r : answer) : list answer :=
  if timeout c <? d then [r; Err 1] else [r].

Definition wf (i : input) : bool :=
  match i with
  | Dom c _ => negb (is_panic (r4 c)) && negb (is_panic (r6 c))
  | _ => true
  end.

Definition monitor (i : input) (o : output) : bool :=
  if negb (wf i) then true else
  match o with
  | Ok (l, _, _) =>
      let its := map snd l in
      match i with
      | Dom c _ =>
          existsb (fun a4 => existsb (fun a6 =>
            list_eqb item_eqb its (spec a4 a6 true) || list_eqb item_eqb its (spec a4 a6 false))
            (candidates c (d6 c) (r6 c))) (candidates c (d4 c) (r4 c))
      | Lit a _ => list_eqb item_eqb its [IAddr a]
      | NoHost _ => list_eqb item_eqb its [IMissing]
      end
  | _ => false
  end.

Definition known (i : input) : N := 0.

(* 0 trivial (no host) / 1 IP literal / 2 both lookups fail / 3 nothing found (NoResponse) /
   4 only v4 addresses / 5 only v6 addresses / 6 both, v4 block first / 7 both, v6 block first *)
Definition tag (i : input) : N :=
  match i with
  | NoHost _ => 0
  | Lit _ _ => 1
  | Dom c gaps =>
      match model i with
      | Ok (l, _, _) =>
          let its := map snd l in
          match its with
          | IBoth _ _ :: _ => 2
          | INoResp :: _ => 3
          | IAddr (f, _) :: _ =>
              if forallb (fun it => match it with IAddr (g, _) => g =? f | _ => true end) its
              then (if f =? 4 then 4 else 5)
              else (if f =? 4 then 6 else 7)
          | _ => 8
          end
      | _ => 9
      end
  end.

Definition judge (i : input) (o : output) : bool * bool * N * N :=
  (agree i o, monitor i o, known i, tag i).

End C35.
