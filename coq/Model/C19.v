(* C19 — which transport an outgoing datagram is handed to:
   ip::Config::{is_valid_send_addr, is_valid_default_addr}, IpTransports::bind
   (iroh/src/socket/transports/ip.rs), TransportsSender::poll_send and Sender::poll_send
   (iroh/src/socket/transports.rs).  Executable model, definitions only.
   Addresses are numbers (IPv4: 32 bit, IPv6: 128 bit).  The mapped-address layer is C18's. *)
From V Require Import Lib.Base Lib.Sorting Model.C18.
Open Scope N_scope.

Module C19.

(* IpAddr *)
Inductive ip := IP4 (a : N) | IP6 (a : N).
(* destination SocketAddr: only the family, the address and (V6) the scope id matter *)
Inductive dst := D4 (a : N) | D6 (a scope : N).

(* ip::Config::{V4,V6} { ip_net, scope_id, is_default }.  `addr` is ip_net.addr() (with host
   bits), `plen` the prefix length, `sid` names the socket (its index in the bind order). *)
Record sock := mkSock { sid : N; v6 : bool; addr : N; plen : N; scope : N; isdef : bool }.

Definition width (s : sock) : N := if v6 s then 128 else 32.

(* the top p bits of a w-bit address *)
Definition top (w p a : N) : N := a / 2 ^ (w - p).

(* IpNet::contains: same network prefix *)
Definition contains (s : sock) (a : N) : bool :=
  N.eqb (top (width s) (plen s) (addr s)) (top (width s) (plen s) a).

(* Ipv6Addr::is_unicast_link_local: (segments()[0] & 0xffc0) == 0xfe80, i.e. fe80::/10 *)
Definition link_local (a : N) : bool := N.eqb (a / 2 ^ 118) 1018.

(* Config::is_valid_send_addr (ip.rs:113-151) *)
Definition valid_send (src : option ip) (d : dst) (s : sock) : bool :=
  match src with
  | Some (IP4 a) => negb (v6 s) && (N.eqb (addr s) 0 || N.eqb (addr s) a)
  | Some (IP6 a) => v6 s && (N.eqb (addr s) 0 || N.eqb (addr s) a)
  | None =>
      match d with
      | D4 a => negb (v6 s) && contains s a
      | D6 a sc => v6 s && (contains s a || (link_local a && N.eqb (scope s) sc))
      end
  end.

(* Config::is_valid_default_addr (ip.rs:98-111) *)
Definition valid_default (src : option ip) (d : dst) (s : sock) : bool :=
  match src with
  | Some (IP4 _) => negb (v6 s) && isdef s
  | Some (IP6 _) => v6 s && isdef s
  | None => match d with
            | D4 _ => negb (v6 s) && isdef s
            | D6 _ _ => v6 s && isdef s
            end
  end.

(* ---- IpTransports::bind (ip.rs:408-467) *)
(* one bind request: the config, is_required, and whether the OS lets us bind it *)
Record req := mkReq { rsock : sock; rrequired : bool; rbindable : bool }.

Definition E_DUP4 : N := 1.     (* "can only have a single IPv4 default transport" *)
Definition E_DUP6 : N := 2.     (* "can only have a single IPv6 default transport" *)
Definition E_BIND : N := 3.     (* a required bind failed *)

Fixpoint bind_loop (rs : list req) (h4 h6 : bool) (a4 a6 : list sock) : res (list sock * list sock) :=
  match rs with
  | [] => Ok (a4, a6)
  | r :: rest =>
      let s := rsock r in
      if rbindable r then
        if negb (v6 s) then
          if isdef s then
            (if h4 then Err E_DUP4 else bind_loop rest true h6 (a4 ++ [s]) a6)
          else bind_loop rest h4 h6 (a4 ++ [s]) a6
        else
          if isdef s then
            (if h6 then Err E_DUP6 else bind_loop rest h4 true a4 (a6 ++ [s]))
          else bind_loop rest h4 h6 a4 (a6 ++ [s])
      else if rrequired r then Err E_BIND
      else bind_loop rest h4 h6 a4 a6
  end.

(* sort_by_key(|i| Reverse(prefix_len)): stable, descending prefix length *)
Definition leb_desc (a b : sock) : bool := plen b <=? plen a.
Definition bind_sort (l : list sock) : list sock := sort leb_desc l.

Record transports := mkT { t4 : list sock; t6 : list sock }.

Definition bind (rs : list req) : res transports :=
  match bind_loop rs false false [] [] with
  | Ok (a4, a6) => Ok (mkT (bind_sort a4) (bind_sort a6))
  | Err e => Err e
  | Panic => Panic
  end.

(* iter().position(|i| i.config.is_default()) *)
Fixpoint position (l : list sock) (i : N) : option N :=
  match l with
  | [] => None
  | s :: r => if isdef s then Some i else position r (i + 1)
  end.

(* ---- TransportsSender::poll_send, IP branch (transports.rs:1175-1221):
   the first sender of the destination's family (stored order) whose config
   is_valid_send_addr; else the family's default sender if is_valid_default_addr;
   else the datagram is blackholed (Ready(Ok)). *)
Inductive action := SendOn (i : N) (via_default : bool) | Blackhole.

Definition fam_list (t : transports) (d : dst) : list sock :=
  match d with D4 _ => t4 t | D6 _ _ => t6 t end.

Definition dispatch (t : transports) (src : option ip) (d : dst) : action :=
  let l := fam_list t d in
  match find (valid_send src d) l with
  | Some s => SendOn (sid s) false
  | None =>
      match find isdef l with      (* self.v4[default_v4_index] *)
      | Some s => if valid_default src d s then SendOn (sid s) true else Blackhole
      | None => Blackhole
      end
  end.

(* Poll result codes: 0 Ready(Ok), 1 Ready(Err), 2 Pending *)
(* custom branch (transports.rs:1239-1248): every sender that accepts the remote's
   transport id is polled in order until one is Ready.  Sender = (accepted ids, behaviour). *)
Fixpoint custom_dispatch (i : N) (ss : list (list N * N)) (id : N) : list N * N :=
  match ss with
  | [] => ([], 0)                                  (* fell through: blackholed, Ready(Ok) *)
  | (acc, beh) :: r =>
      if existsb (N.eqb id) acc then
        if N.eqb beh 2 then let '(l, c) := custom_dispatch (i + 1) r id in (i :: l, c)
        else ([i], beh)
      else custom_dispatch (i + 1) r id
  end.

(* relay branch (transports.rs:1222-1238): every relay sender is valid; polled in order
   until one is Ready; Pending if there was a sender but none was Ready. *)
Fixpoint relay_dispatch (i : N) (behs : list N) : list N * option N :=
  match behs with
  | [] => ([], None)
  | b :: r => if N.eqb b 2 then let '(l, c) := relay_dispatch (i + 1) r in (i :: l, c)
              else ([i], Some b)
  end.
Definition relay_code (behs : list N) : list N * N :=
  let '(l, c) := relay_dispatch 0 behs in
  (l, match c with Some b => b | None => match behs with [] => 0 | _ => 2 end end).

(* ---- Sender::poll_send (transports.rs:1377-1500): from QUIC's destination to a path *)
Fixpoint num (o : bytes) (acc : N) : N :=
  match o with [] => acc | b :: r => num r (acc * 256 + b) end.

(* noq's src_ip *)
Inductive srcip := S4 (a : N) | S6 (o : bytes).
Definition src_num (s : srcip) : ip :=
  match s with S4 a => IP4 a | S6 o => IP6 (num o 0) end.

Inductive path :=
| PIp (d : dst) (src : option ip)
| PRelay (key : N)
| PCustom (key : N) (local : option N).

Inductive handed :=
| HFatal                       (* Err(NotConnected): the only error ever returned *)
| HDropped                     (* Ready(Ok) without handing the datagram to anything *)
| HRemote (key : N)            (* RemoteStateMessage::SendDatagram to that endpoint's state *)
| HPath (p : path).            (* TransportsSender::poll_send on that path; result mapped to Ok *)

(* SocketAddr::new(ip.to_canonical(), port): scope id and flow info are dropped *)
Definition dst_of (sa : C18.sockaddr) : dst :=
  match C18.canonical sa with
  | C18.SV4 a _ => D4 a
  | C18.SV6 o _ _ sc => D6 (num o 0) sc
  end.

Definition outer (closed : bool) (st : C18.state) (dest : C18.sockaddr) (src : option srcip) : handed :=
  if closed then HFatal else
  match C18.classify dest with
  | C18.MMixed o =>
      match C18.lookup_addr (C18.mE st) o with
      | None => HDropped
      | Some k => HRemote k
      end
  | C18.MRelay o =>
      match C18.lookup_addr (C18.mR st) o with
      | None => HDropped
      | Some k => HPath (PRelay k)
      end
  | C18.MCustom o =>
      match C18.lookup_addr (C18.mC st) o with
      | None => HDropped
      | Some k =>
          (* src_ip.and_then(|ip| CustomMappedAddr::try_from(ip).ok()).and_then(|a| lookup(&a)) *)
          let local := match src with
                       | Some (S6 so) => if C18.in_subnet C18.CUSTOM_MAPPED_SUBNET so
                                         then C18.lookup_addr (C18.mC st) so else None
                       | _ => None
                       end in
          HPath (PCustom k local)
      end
  | C18.MIp sa => HPath (PIp (dst_of sa) (option_map src_num src))
  end.

(* what QUIC is told: Err only when closed; every per-datagram outcome of the inner
   poll_send (Ok, Err, Pending) becomes Ok *)
Definition quic_result (h : handed) (inner : N) : N :=
  match h with HFatal => 1 | _ => 0 end.

(* The destination as QUIC gave it: like dst_of, but the scope id is kept.  This is the
   destination the property's IP rule speaks about ("on the destination's scope"). *)
Definition orig_dst (sa : C18.sockaddr) : dst :=
  match sa with
  | C18.SV4 a _ => D4 a
  | C18.SV6 o _ _ sc => if C18.is_v4_mapped o then D4 (C18.v4_of o) else D6 (num o 0) sc
  end.

(* ---- Sender::poll_send composed with what it hands the datagram to.
   deliv = what is observable behind the hand-off:
   DRemote: whether the SendDatagram message arrived in the RemoteStateActor inbox of the key
            (try_send_remote_state_msg: no actor / closed / full inbox -> dropped, still Ok);
   DIp:     the socket TransportsSender::poll_send chose;
   DCustom: the custom senders polled, in order;
   DRelay:  the relay sender whose channel received the item. *)
Inductive deliv :=
| DNone
| DRemote (arrived : bool)
| DIp (a : action)
| DCustom (polled : list N)
| DRelay (got : option N).

(* the harness names custom addresses by numbers: key n is CustomAddr(id n mod 2, [n / 2]) *)
Definition custom_id (k : N) : N := k mod 2.

(* inbox: (endpoint key, 0 room | 1 closed | 2 full); keys not listed have no actor *)
Definition inbox_room (inbox : list (N * N)) (k : N) : bool :=
  existsb (fun p => N.eqb (fst p) k && N.eqb (snd p) 0) inbox.

(* relay senders (0 room | 1 closed channel | 2 full channel), polled in order until one is
   Ready (transports.rs:1222-1238): the item arrives at the first non-pending one if it has room *)
Fixpoint relay_got (i : N) (behs : list N) : option N :=
  match behs with
  | [] => None
  | b :: r => if N.eqb b 2 then relay_got (i + 1) r else if N.eqb b 0 then Some i else None
  end.

Definition one_send := (bool * C18.sockaddr * option srcip)%type.   (* closed?, destination, src_ip *)
Definition one_obs := (N * handed * deliv)%type.                     (* result code, handed, delivery *)

Definition deliv_of (t : transports) (customs : list (list N * N)) (relays : list N)
    (inbox : list (N * N)) (h : handed) : deliv :=
  match h with
  | HFatal | HDropped => DNone
  | HRemote k => DRemote (inbox_room inbox k)
  | HPath (PIp d s) => DIp (dispatch t s d)
  | HPath (PCustom k _) => DCustom (fst (custom_dispatch 0 customs (custom_id k)))
  | HPath (PRelay _) => DRelay (relay_got 0 relays)
  end.

Definition out_send (t : transports) (customs : list (list N * N)) (relays : list N)
    (inbox : list (N * N)) (st : C18.state) (x : one_send) : one_obs :=
  let '(closed, dest, src) := x in
  let h := outer closed st dest src in
  (quic_result h 0, h, deliv_of t customs relays inbox h).

(* ---- specification-level choice, independent of the stored order:
   among the bound sockets of the destination's family IN BIND ORDER, scanning from the
   right, keep the candidate unless an earlier matching socket has a prefix at least as long. *)
Definition best (P : sock -> bool) (l : list sock) : option sock :=
  fold_right (fun a acc =>
    match acc with
    | Some s => if P a && (plen s <=? plen a) then Some a else Some s
    | None => if P a then Some a else None
    end) None l.

Definition bound (rs : list req) : list sock := map rsock (filter rbindable rs).
Definition fam_bound (rs : list req) (d : dst) : list sock :=
  match d with
  | D4 _ => filter (fun s => negb (v6 s)) (bound rs)
  | D6 _ _ => filter v6 (bound rs)
  end.

Definition spec_choice (rs : list req) (src : option ip) (d : dst) : action :=
  let l := fam_bound rs d in
  match best (valid_send src d) l with
  | Some s => SendOn (sid s) false
  | None =>
      match best isdef l with
      | Some s => if valid_default src d s then SendOn (sid s) true else Blackhole
      | None => Blackhole
      end
  end.

(* ---- interface *)
Inductive send :=
| SIp (src : option ip) (d : dst)
| SCustom (id : N)
| SRelay.

Inductive sres :=
| RIp (a : action)
| RCustom (polled : list N) (code : N)
| RRelay (code : N).

Inductive input :=
| IValid (s : sock) (src : option ip) (d : dst)
| ISend (rs : list req) (customs : list (list N * N)) (sends : list send)
| IOuter (closed : bool) (ops : list C18.op) (dest : C18.sockaddr) (src : option srcip)
(* the real Sender over real maps filled by `ops`, real sockets bound from `rs`, custom
   senders, relay senders and RemoteStateActor inboxes, then one poll_send per entry of `sends` *)
| IOut (rs : list req) (customs : list (list N * N)) (relays : list N) (inbox : list (N * N))
       (ops : list C18.op) (sends : list one_send).

Inductive output :=
| OValid (vs vd : bool) (prefix_len : N)
| OBindErr (e : N)
| OSent (l4 : list N) (d4 : option N) (l6 : list N) (d6 : option N) (rs : list sres)
| OOuter (h : handed)
| OOut (l4 : list N) (d4 : option N) (l6 : list N) (d6 : option N) (xs : list one_obs).

Definition do_send (t : transports) (customs : list (list N * N)) (s : send) : sres :=
  match s with
  | SIp src d => RIp (dispatch t src d)
  | SCustom id => let '(l, c) := custom_dispatch 0 customs id in RCustom l c
  | SRelay => RRelay (snd (relay_code []))
  end.

Definition model (i : input) : output :=
  match i with
  | IValid s src d => OValid (valid_send src d s) (valid_default src d s) (plen s)
  | ISend rs customs sends =>
      match bind rs with
      | Ok t => OSent (map sid (t4 t)) (position (t4 t) 0) (map sid (t6 t)) (position (t6 t) 0)
                      (map (do_send t customs) sends)
      | Err e => OBindErr e
      | Panic => OBindErr 99
      end
  | IOuter closed ops dest src => OOuter (outer closed (fst (C18.run C18.init ops)) dest src)
  | IOut rs customs relays inbox ops sends =>
      match bind rs with
      | Ok t => OOut (map sid (t4 t)) (position (t4 t) 0) (map sid (t6 t)) (position (t6 t) 0)
                     (map (out_send t customs relays inbox (fst (C18.run C18.init ops))) sends)
      | Err e => OBindErr e
      | Panic => OBindErr 99
      end
  end.

Definition ip_eqb (a b : ip) : bool :=
  match a, b with IP4 x, IP4 y | IP6 x, IP6 y => N.eqb x y | _, _ => false end.
Definition dst_eqb (a b : dst) : bool :=
  match a, b with
  | D4 x, D4 y => N.eqb x y
  | D6 x s, D6 y t => N.eqb x y && N.eqb s t
  | _, _ => false
  end.
Definition action_eqb (a b : action) : bool :=
  match a, b with
  | SendOn i x, SendOn j y => N.eqb i j && Bool.eqb x y
  | Blackhole, Blackhole => true
  | _, _ => false
  end.
Definition sres_eqb (a b : sres) : bool :=
  match a, b with
  | RIp x, RIp y => action_eqb x y
  | RCustom l c, RCustom l' c' => list_eqb N.eqb l l' && N.eqb c c'
  | RRelay c, RRelay c' => N.eqb c c'
  | _, _ => false
  end.
Definition path_eqb (a b : path) : bool :=
  match a, b with
  | PIp d s, PIp d' s' => dst_eqb d d' && opt_eqb ip_eqb s s'
  | PRelay k, PRelay k' => N.eqb k k'
  | PCustom k l, PCustom k' l' => N.eqb k k' && opt_eqb N.eqb l l'
  | _, _ => false
  end.
Definition handed_eqb (a b : handed) : bool :=
  match a, b with
  | HFatal, HFatal | HDropped, HDropped => true
  | HRemote k, HRemote k' => N.eqb k k'
  | HPath p, HPath p' => path_eqb p p'
  | _, _ => false
  end.

Definition deliv_eqb (a b : deliv) : bool :=
  match a, b with
  | DNone, DNone => true
  | DRemote x, DRemote y => Bool.eqb x y
  | DIp x, DIp y => action_eqb x y
  | DCustom x, DCustom y => list_eqb N.eqb x y
  | DRelay x, DRelay y => opt_eqb N.eqb x y
  | _, _ => false
  end.
Definition one_obs_eqb (a b : one_obs) : bool :=
  let '(r, h, d) := a in let '(r', h', d') := b in
  N.eqb r r' && handed_eqb h h' && deliv_eqb d d'.

Definition agree (i : input) (o : output) : bool :=
  match model i, o with
  | OValid a b p, OValid a' b' p' => Bool.eqb a a' && Bool.eqb b b' && N.eqb p p'
  | OBindErr e, OBindErr e' => N.eqb e e'
  | OSent l4 d4 l6 d6 rs, OSent l4' d4' l6' d6' rs' =>
      list_eqb N.eqb l4 l4' && opt_eqb N.eqb d4 d4' && list_eqb N.eqb l6 l6' && opt_eqb N.eqb d6 d6'
      && list_eqb sres_eqb rs rs'
  | OOuter h, OOuter h' => handed_eqb h h'
  | OOut l4 d4 l6 d6 xs, OOut l4' d4' l6' d6' xs' =>
      list_eqb N.eqb l4 l4' && opt_eqb N.eqb d4 d4' && list_eqb N.eqb l6 l6' && opt_eqb N.eqb d6 d6'
      && list_eqb one_obs_eqb xs xs'
  | _, _ => false
  end.

(* ---- the property on observed outputs.
   IP datagrams: the observed choice is the specification's choice (computed from the bind
   requests in bind order, not from the stored layout).  Custom datagrams: only senders
   accepting the transport id were polled, in order, each at most once, and the result is
   Ok unless a polled sender said otherwise.  (The stored layout itself is compared by `agree`.) *)
Fixpoint increasing (l : list N) : bool :=
  match l with
  | a :: ((b :: _) as r) => (a <? b) && increasing r
  | _ => true
  end.

Definition send_ok (rs : list req) (customs : list (list N * N)) (s : send) (r : sres) : bool :=
  match s, r with
  | SIp src d, RIp a => action_eqb a (spec_choice rs src d)
  | SCustom id, RCustom polled code =>
      forallb (fun i => match nth_error customs (N.to_nat i) with
                        | Some (acc, _) => existsb (N.eqb id) acc
                        | None => false end) polled
      && increasing polled
  | SRelay, RRelay code => N.eqb code 0 || N.eqb code 2
  | _, _ => false
  end.

Fixpoint sends_ok (rs : list req) (customs : list (list N * N)) (ss : list send) (xs : list sres) : bool :=
  match ss, xs with
  | [], [] => true
  | s :: ss', x :: xs' => send_ok rs customs s x && sends_ok rs customs ss' xs'
  | _, _ => false
  end.

(* outer: never fatal unless closed; synthetic relay / custom / endpoint addresses only go
   to the key they were given to; unknown synthetic addresses are dropped *)
Definition outer_ok (closed : bool) (ops : list C18.op) (dest : C18.sockaddr) (h : handed) : bool :=
  let st := fst (C18.run C18.init ops) in
  match h with
  | HFatal => closed
  | _ =>
      negb closed &&
      match C18.classify dest with
      | C18.MMixed o => match C18.lookup_addr (C18.mE st) o with
                        | None => handed_eqb h HDropped
                        | Some k => handed_eqb h (HRemote k) end
      | C18.MRelay o => match C18.lookup_addr (C18.mR st) o with
                        | None => handed_eqb h HDropped
                        | Some k => handed_eqb h (HPath (PRelay k)) end
      | C18.MCustom o => match C18.lookup_addr (C18.mC st) o with
                         | None => handed_eqb h HDropped
                         | Some k => match h with HPath (PCustom k' _) => N.eqb k k' | _ => false end end
      | C18.MIp _ => match h with HPath (PIp _ _) => true | _ => false end
      end
  end.

(* one poll_send of the real Sender, observed: QUIC is told Err exactly when closed; the
   datagram was handed where outer_ok says; and behind the hand-off: an IP datagram went to
   the socket the rule designates for the destination AS QUIC GAVE IT (scope id included;
   the same socket, whether by the match or the default clause) with the source QUIC gave, a custom one only to senders accepting its transport id. *)
Definition accepts (customs : list (list N * N)) (id i : N) : bool :=
  match nth_error customs (N.to_nat i) with
  | Some (acc, _) => existsb (N.eqb id) acc
  | None => false
  end.

(* handed to the same socket (or both dropped), by whichever rule *)
Definition same_sock (a b : action) : bool :=
  match a, b with
  | SendOn i _, SendOn j _ => N.eqb i j
  | Blackhole, Blackhole => true
  | _, _ => false
  end.

Definition deliv_ok (rs : list req) (customs : list (list N * N)) (dest : C18.sockaddr)
    (src : option srcip) (h : handed) (dv : deliv) : bool :=
  match h, dv with
  | HFatal, DNone | HDropped, DNone => true
  | HRemote _, DRemote _ => true
  | HPath (PIp _ s), DIp a =>
      opt_eqb ip_eqb s (option_map src_num src)
      && same_sock a (spec_choice rs (option_map src_num src) (orig_dst dest))
  | HPath (PCustom k _), DCustom polled =>
      forallb (accepts customs (custom_id k)) polled && increasing polled
  | HPath (PRelay _), DRelay _ => true
  | _, _ => false
  end.

Definition out_ok (rs : list req) (customs : list (list N * N)) (ops : list C18.op)
    (x : one_send) (y : one_obs) : bool :=
  let '(closed, dest, src) := x in
  let '(res, h, dv) := y in
  N.eqb res (if closed then 1 else 0) && outer_ok closed ops dest h
  && deliv_ok rs customs dest src h dv.

Fixpoint outs_ok (rs : list req) (customs : list (list N * N)) (ops : list C18.op)
    (xs : list one_send) (ys : list one_obs) : bool :=
  match xs, ys with
  | [], [] => true
  | x :: xs', y :: ys' => out_ok rs customs ops x y && outs_ok rs customs ops xs' ys'
  | _, _ => false
  end.

Definition monitor (i : input) (o : output) : bool :=
  match i, o with
  | IValid _ _ _, _ => true
  | ISend rs customs sends, OSent l4 d4 l6 d6 xs =>
      sends_ok rs customs sends xs
  | ISend rs _ _, OBindErr e => negb (N.eqb e 99)
  | IOuter closed ops dest src, OOuter h => outer_ok closed ops dest h
  | IOut rs customs _ _ ops sends, OOut _ _ _ _ ys => outs_ok rs customs ops sends ys
  | IOut _ _ _ _ _ _, OBindErr e => negb (N.eqb e 99)
  | _, _ => false
  end.

(* Known finding, class 1: Sender::poll_send erases the scope id of an IPv6 destination
   (SocketAddr::new(ip.to_canonical(), port), transports.rs:1497-1498) before the dispatch sees
   it.  A send falls in the class exactly when that changes the socket: the rule applied to
   the destination with scope 0 picks another socket (or none) than the rule applied to the
   destination QUIC gave.  (Only link-local destinations with a non-zero scope id and no
   source address can be in it: C19_scope_erasure_confined.) *)
Definition scope_hit (rs : list req) (x : one_send) : bool :=
  let '(closed, dest, src) := x in
  negb closed &&
  match C18.classify dest with
  | C18.MIp sa => negb (same_sock (spec_choice rs (option_map src_num src) (dst_of sa))
                                  (spec_choice rs (option_map src_num src) (orig_dst dest)))
  | _ => false
  end.

Definition known (i : input) : N :=
  match i with
  | IOut rs _ _ _ _ sends =>
      match bind rs with
      | Ok _ => if existsb (scope_hit rs) sends then 1 else 0
      | _ => 0
      end
  | _ => 0
  end.

(* Branch tag: 1 pure validity probe / 2 bind error / 3 sends, all by a matching socket or
   custom / 4 sends, some through the default route / 5 sends, some blackholed / 6 outer
   (one datagram, hand-off only) / outer + delivery: 7 nothing dropped or fatal, 8 some
   datagram dropped (unknown synthetic address), 9 some fatal (closed), 10 bind error. *)
Definition is_dropped (y : one_obs) : bool := match y with (_, HDropped, _) => true | _ => false end.
Definition is_fatal (y : one_obs) : bool := match y with (_, HFatal, _) => true | _ => false end.
Definition is_default_send (r : sres) : bool :=
  match r with RIp (SendOn _ true) => true | _ => false end.
Definition is_blackhole (r : sres) : bool :=
  match r with RIp Blackhole => true | _ => false end.
Definition tag (i : input) : N :=
  match i with
  | IValid _ _ _ => 1
  | ISend rs customs sends =>
      match model i with
      | OSent _ _ _ _ xs =>
          if existsb is_blackhole xs then 5 else if existsb is_default_send xs then 4 else 3
      | _ => 2
      end
  | IOuter _ _ _ _ => 6
  | IOut _ _ _ _ _ _ =>
      match model i with
      | OOut _ _ _ _ ys =>
          if existsb is_fatal ys then 9 else if existsb is_dropped ys then 8 else 7
      | _ => 10
      end
  end.

Definition judge (i : input) (o : output) : bool * bool * N * N :=
  (agree i o, monitor i o, known i, tag i).

End C19.
