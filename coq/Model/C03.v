(* C03 — relay handshake (iroh-relay/src/protos/handshake.rs): serverside,
   authorize_if / authorize_with, clientside, KeyMaterialClientAuth::{new,verify,
   into_header_value}, ClientAuth::{new,verify}, read_frame / write_frame /
   deserialize_frame, with the wire layouts (base64url-nopad header, postcard
   structs, QUIC-varint frame tag) modelled byte-exactly and the cryptographic
   primitives taken as a parameter [P : prims] (Lib/Crypto.v).
   Executable model, definitions only. *)
From V Require Import Lib.Base Lib.Crypto Lib.Varint.
Open Scope N_scope.

Module C03.

(* ---------------------------------------------------------------- constants *)
(* handshake.rs:52 / :56 *)
Definition DOMAIN_SEP_CHALLENGE : bytes := str_bytes "iroh-relay handshake v1 challenge signature".
Definition DOMAIN_SEP_TLS_EXPORT_LABEL : bytes := str_bytes "iroh-relay handshake v1".

(* protos/common.rs FrameType *)
Definition TAG_CHALLENGE : N := 0.
Definition TAG_CLIENT_AUTH : N := 1.
Definition TAG_CONFIRM : N := 2.
Definition TAG_DENY : N := 3.
Definition TAG_LAST : N := 13.         (* FrameType::Status, the largest discriminant *)

(* handshake::Error variants as small codes *)
Definition E_WS : N := 1.              (* Websocket: stream item error, send or flush error *)
Definition E_END : N := 2.             (* UnexpectedEnd: stream finished *)
Definition E_FT_END : N := 3.          (* FrameTypeError::UnexpectedEnd *)
Definition E_FT_UNKNOWN : N := 4.      (* FrameTypeError::UnknownFrameType *)
Definition E_DENIED : N := 5.          (* ServerDeniedAuth *)
Definition E_UNEXPECTED : N := 6.      (* UnexpectedFrameType *)
Definition E_DESER : N := 7.           (* DeserializationError *)
Definition E_HDR : N := 8.             (* ClientAuthHeaderInvalid *)

Definition MECH_KM : N := 1.           (* Mechanism::SignedKeyMaterial *)
Definition MECH_CH : N := 2.           (* Mechanism::SignedChallenge *)

(* ------------------------------------------------- base64url, no padding *)
(* data_encoding::BASE64URL_NOPAD: alphabet A-Z a-z 0-9 - _, most significant
   bit first, no padding, no ignored characters, trailing bits must be zero,
   length = 1 (mod 4) is invalid. *)
Definition b64_val (c : N) : option N :=
  if (65 <=? c) && (c <=? 90) then Some (c - 65)
  else if (97 <=? c) && (c <=? 122) then Some (c - 71)
  else if (48 <=? c) && (c <=? 57) then Some (c + 4)
  else if c =? 45 then Some 62
  else if c =? 95 then Some 63
  else None.

Definition b64_sym (v : N) : N :=
  if v <? 26 then v + 65
  else if v <? 52 then v + 71
  else if v <? 62 then v - 4
  else if v =? 62 then 45 else 95.

Fixpoint b64_decode (s : bytes) : option bytes :=
  match s with
  | [] => Some []
  | [_] => None
  | [a; b] =>
      match b64_val a, b64_val b with
      | Some x, Some y => if y mod 16 =? 0 then Some [x * 4 + y / 16] else None
      | _, _ => None
      end
  | [a; b; c] =>
      match b64_val a, b64_val b, b64_val c with
      | Some x, Some y, Some z =>
          if z mod 4 =? 0 then Some [x * 4 + y / 16; (y mod 16) * 16 + z / 4] else None
      | _, _, _ => None
      end
  | a :: b :: c :: d :: r =>
      match b64_val a, b64_val b, b64_val c, b64_val d with
      | Some x, Some y, Some z, Some u =>
          match b64_decode r with
          | Some t => Some ((x * 4 + y / 16) :: ((y mod 16) * 16 + z / 4) :: ((z mod 4) * 64 + u) :: t)
          | None => None
          end
      | _, _, _, _ => None
      end
  end.

Fixpoint b64_encode (bs : bytes) : bytes :=
  match bs with
  | [] => []
  | [a] => [b64_sym (a / 4); b64_sym ((a mod 4) * 16)]
  | [a; b] => [b64_sym (a / 4); b64_sym ((a mod 4) * 16 + b / 16); b64_sym ((b mod 16) * 4)]
  | a :: b :: c :: r =>
      b64_sym (a / 4) :: b64_sym ((a mod 4) * 16 + b / 16) ::
      b64_sym ((b mod 16) * 4 + c / 64) :: b64_sym (c mod 64) :: b64_encode r
  end.

(* ------------------------------------------------------------- postcard *)
(* postcard-1.1.3 de/deserializer.rs try_take_varint_u64: at most 10 bytes,
   7 bits each, little endian; the 10th byte must be <= 1; a non-minimal
   encoding is accepted. *)
Fixpoint pc_varint_aux (fuel : nat) (i : N) (s : bytes) : option (N * bytes) :=
  match fuel with
  | O => None
  | S f =>
      match s with
      | [] => None
      | b :: r =>
          let v := (b mod 128) * 2 ^ (7 * i) in
          if b <? 128 then
            if (i =? 9) && (1 <? b) then None else Some (v, r)
          else
            match pc_varint_aux f (i + 1) r with
            | Some (w, r') => Some (v + w, r')
            | None => None
            end
      end
  end.
Definition pc_varint (s : bytes) : option (N * bytes) := pc_varint_aux 10 0 s.

(* postcard varint_usize (serialization) *)
Fixpoint pc_varint_enc_aux (fuel : nat) (n : N) : bytes :=
  match fuel with
  | O => []
  | S f => if n <? 128 then [n] else (n mod 128 + 128) :: pc_varint_enc_aux f (n / 128)
  end.
Definition pc_varint_enc (n : N) : bytes := pc_varint_enc_aux 10 n.

(* Flavor::try_take_n *)
Definition take_n (n : N) (s : bytes) : option (bytes * bytes) :=
  if n <=? len s then Some (firstn (N.to_nat n) s, skipn (N.to_nat n) s) else None.

(* #[serde(with = "serde_bytes")] [u8; 64]: deserialize_bytes = varint length,
   that many bytes, then ByteArray<64>::visit_bytes requires exactly 64. *)
Definition pc_bytes64 (s : bytes) : option (bytes * bytes) :=
  match pc_varint s with
  | Some (n, r) =>
      match take_n n r with
      | Some (b, r') => if n =? 64 then Some (b, r') else None
      | None => None
      end
  | None => None
  end.

(* String: varint length, bytes, from_utf8 *)
Definition cont (b : N) : bool := (128 <=? b) && (b <=? 191).
Fixpoint utf8_ok (s : bytes) : bool :=
  match s with
  | [] => true
  | b0 :: r =>
      if b0 <? 128 then utf8_ok r
      else if (194 <=? b0) && (b0 <=? 223) then
        match r with
        | b1 :: r' => cont b1 && utf8_ok r'
        | _ => false
        end
      else if (224 <=? b0) && (b0 <=? 239) then
        match r with
        | b1 :: b2 :: r' =>
            (if b0 =? 224 then (160 <=? b1) && (b1 <=? 191)
             else if b0 =? 237 then (128 <=? b1) && (b1 <=? 159)
             else cont b1) && cont b2 && utf8_ok r'
        | _ => false
        end
      else if (240 <=? b0) && (b0 <=? 244) then
        match r with
        | b1 :: b2 :: b3 :: r' =>
            (if b0 =? 240 then (144 <=? b1) && (b1 <=? 191)
             else if b0 =? 244 then (128 <=? b1) && (b1 <=? 143)
             else cont b1) && cont b2 && cont b3 && utf8_ok r'
        | _ => false
        end
      else false
  end.

Definition pc_string (s : bytes) : option bytes :=
  match pc_varint s with
  | Some (n, r) =>
      match take_n n r with
      | Some (b, _) => if utf8_ok b then Some b else None
      | None => None
      end
  | None => None
  end.

Section WithPrims.
Variable P : prims.

(* PublicKey (non human readable): [u8; 32] as 32 raw bytes, then
   VerifyingKey::from_bytes (iroh-base/src/key.rs:91-104) *)
Definition pc_key (s : bytes) : option (bytes * bytes) :=
  match take_n 32 s with
  | Some (k, r) => if is_point P k then Some (k, r) else None
  | None => None
  end.

(* KeyMaterialClientAuth { public_key, signature (serde_bytes), key_material_suffix: [u8;16] };
   postcard::from_bytes ignores whatever follows. *)
Definition pc_km_auth (s : bytes) : option (bytes * bytes * bytes) :=
  match pc_key s with
  | Some (k, r) =>
      match pc_bytes64 r with
      | Some (sg, r') =>
          match take_n 16 r' with
          | Some (suf, _) => Some (k, sg, suf)
          | None => None
          end
      | None => None
      end
  | None => None
  end.

(* ClientAuth { public_key, signature (serde_bytes) } *)
Definition pc_client_auth (s : bytes) : option (bytes * bytes) :=
  match pc_key s with
  | Some (k, r) =>
      match pc_bytes64 r with
      | Some (sg, _) => Some (k, sg)
      | None => None
      end
  | None => None
  end.

(* ------------------------------------------------------------------ I/O *)
(* The stream the peer feeds us: each item is a binary message or a stream
   error; the end of the list is the end of the stream. *)
Inductive ritem := RFrame (b : bytes) | RErr.

(* World: frames handed to Sink::start_send so far, the remaining write-fault
   script (one code per write_frame: 0 ok / 1 poll_ready fails / 2 start_send
   fails / 3 the flush inside SinkExt::send fails / 4 the explicit flush
   fails), the unread stream items, how many were consumed, and the log of
   export_keying_material calls (label, context). *)
Record io := mkIo {
  out : list bytes; wfl : list N; rds : list ritem; nrd : N; exps : list (bytes * bytes)
}.

(* write_frame (handshake.rs:554-572): tag varint ++ postcard, send, flush *)
Definition write_frame (w : io) (f : bytes) : res unit * io :=
  let c := match wfl w with [] => 0 | c :: _ => c end in
  let rest := match wfl w with [] => [] | _ :: r => r end in
  let recorded := negb ((c =? 1) || (c =? 2)) in
  (if c =? 0 then Ok tt else Err E_WS,
   mkIo (if recorded then out w ++ [f] else out w) rest (rds w) (nrd w) (exps w)).

(* FrameType::from_bytes (common.rs:105-112) *)
Definition frame_type (f : bytes) : res (N * bytes) :=
  match Varint.decode f with
  | Ok (t, rest) => if t <=? TAG_LAST then Ok (t, rest) else Err E_FT_UNKNOWN
  | Err _ => Err E_FT_END
  | Panic => Panic
  end.

(* read_frame (handshake.rs:574-595) *)
Definition read_frame (w : io) (expected : list N) : res (N * bytes) * io :=
  match rds w with
  | [] => (Err E_END, w)
  | it :: r =>
      let w' := mkIo (out w) (wfl w) r (nrd w + 1) (exps w) in
      match it with
      | RErr => (Err E_WS, w')
      | RFrame f =>
          match frame_type f with
          | Ok (t, p) => if existsb (N.eqb t) expected then (Ok (t, p), w') else (Err E_UNEXPECTED, w')
          | Err e => (Err e, w')
          | Panic => (Panic, w')
          end
      end
  end.

(* ExportKeyingMaterial::export_keying_material([0u8;32], LABEL, Some(context)):
   the exporter is the environment's: a table from context to 32 bytes (or None). *)
Definition export (kmt : list (bytes * option bytes)) (kmd : option bytes) (w : io) (ctx : bytes)
  : option bytes * io :=
  (assoc kmt ctx kmd,
   mkIo (out w) (wfl w) (rds w) (nrd w) (exps w ++ [(DOMAIN_SEP_TLS_EXPORT_LABEL, ctx)])).

Definition challenge_frame (ch : bytes) : bytes := TAG_CHALLENGE :: ch.
Definition deny_frame (reason : bytes) : bytes := TAG_DENY :: pc_varint_enc (len reason) ++ reason.
Definition confirm_frame : bytes := [TAG_CONFIRM].
Definition SIG_INVALID : bytes := str_bytes "signature invalid".
Definition NOT_AUTHORIZED : bytes := str_bytes "not authorized".

(* ------------------------------------------------------------- the server *)
Inductive access := Allow | Deny (reason : option bytes).

Record sinput := mkS {
  s_header : option bytes;                       (* the client-auth header value, if sent *)
  s_kmt : list (bytes * option bytes);           (* server-side exporter: context -> material *)
  s_kmd : option bytes;
  s_challenge : bytes;                           (* the 16 bytes ServerChallenge::new drew *)
  s_reads : list ritem;                          (* what the client sends *)
  s_wfaults : list N;                            (* write-fault script *)
  s_access : access;                             (* the access decision *)
  s_with : bool                                  (* authorize_with (true) or authorize_if *)
}.

(* the header step of serverside (handshake.rs:425-450) *)
Inductive km_outcome :=
| KmAbsent | KmBad64 | KmBadPostcard | KmOk (k : bytes)
| KmNoMaterial | KmSuffix | KmSig.

(* KeyMaterialClientAuth::verify (handshake.rs:288-330) *)
Definition km_verify (i : sinput) (w : io) (k sg suf : bytes) : km_outcome * io :=
  match export (s_kmt i) (s_kmd i) w k with
  | (None, w1) => (KmNoMaterial, w1)
  | (Some km, w1) =>
      if bytes_eqb (skipn 16 km) suf then
        if verify P k (firstn 16 km) sg then (KmOk k, w1) else (KmSig, w1)
      else (KmSuffix, w1)
  end.

Definition km_phase (i : sinput) (w : io) : km_outcome * io :=
  match s_header i with
  | None => (KmAbsent, w)
  | Some h =>
      match b64_decode h with
      | None => (KmBad64, w)
      | Some bs =>
          match pc_km_auth bs with
          | None => (KmBadPostcard, w)
          | Some (k, sg, suf) => km_verify i w k sg suf
          end
      end
  end.

(* the challenge round of serverside (handshake.rs:452-473) *)
Definition challenge_phase (i : sinput) (w : io) : res (bytes * N) * io :=
  match write_frame w (challenge_frame (s_challenge i)) with
  | (Ok _, w1) =>
      match read_frame w1 [TAG_CLIENT_AUTH] with
      | (Ok (_, p), w2) =>
          match pc_client_auth p with
          | None => (Err E_DESER, w2)
          | Some (k, sg) =>
              if verify P k (blake3_derive P DOMAIN_SEP_CHALLENGE (s_challenge i)) sg
              then (Ok (k, MECH_CH), w2)
              else
                match write_frame w2 (deny_frame SIG_INVALID) with
                | (Ok _, w3) => (Err E_DENIED, w3)
                | (Err e, w3) => (Err e, w3)
                | (Panic, w3) => (Panic, w3)
                end
          end
      | (Err e, w2) => (Err e, w2)
      | (Panic, w2) => (Panic, w2)
      end
  | (Err e, w1) => (Err e, w1)
  | (Panic, w1) => (Panic, w1)
  end.

Definition serverside (i : sinput) (w : io) : res (bytes * N) * io :=
  match km_phase i w with
  | (KmBad64, w1) | (KmBadPostcard, w1) => (Err E_HDR, w1)
  | (KmOk k, w1) => (Ok (k, MECH_KM), w1)
  | (_, w1) => challenge_phase i w1
  end.

(* SuccessfulAuthentication::accept / deny (handshake.rs:528-551) *)
Definition accept (w : io) (k : bytes) : res bytes * io :=
  match write_frame w confirm_frame with
  | (Ok _, w1) => (Ok k, w1)
  | (Err e, w1) => (Err e, w1)
  | (Panic, w1) => (Panic, w1)
  end.

Definition deny (w : io) (reason : option bytes) : res bytes * io :=
  let r := match reason with Some r => r | None => NOT_AUTHORIZED end in
  match write_frame w (deny_frame r) with
  | (Ok _, w1) => (Err E_DENIED, w1)
  | (Err e, w1) => (Err e, w1)
  | (Panic, w1) => (Panic, w1)
  end.

(* authorize_if (517-526) / authorize_with (489-503).  The access-control log
   (authorize_with only): 1 = on_connect, 2 = on_disconnect with the request's
   endpoint id and connection id.  First log: when the call returns; second:
   after the caller dropped a returned guard.  On Allow the guard exists
   before the confirmation is written, so a failed write drops it (`?`). *)
Definition authorize (i : sinput) (w : io) (k : bytes) : res bytes * io * list N * list N :=
  match s_access i with
  | Allow =>
      let '(r, w1) := accept w k in
      if s_with i
      then (r, w1, match r with Ok _ => [1] | _ => [1; 2] end, [1; 2])
      else (r, w1, [], [])
  | Deny reason =>
      let '(r, w1) := deny w reason in
      if s_with i then (r, w1, [1], [1]) else (r, w1, [], [])
  end.

Record sout := mkSO {
  so_res : res (bytes * N);          (* serverside: Ok (client_key, mechanism) *)
  so_auth : option (res bytes);      (* authorize_*: Ok key (authorize_with: a guard was returned) *)
  so_written : list bytes;           (* frames handed to the sink, in order *)
  so_nreads : N;                     (* stream items consumed *)
  so_exports : list (bytes * bytes); (* export_keying_material calls (label, context) *)
  so_log1 : list N; so_log2 : list N
}.

Definition io0 (reads : list ritem) (wf : list N) : io := mkIo [] wf reads 0 [].

Definition server (i : sinput) : sout :=
  match serverside i (io0 (s_reads i) (s_wfaults i)) with
  | (Ok (k, m), w) =>
      let '(r, w1, l1, l2) := authorize i w k in
      mkSO (Ok (k, m)) (Some r) (out w1) (nrd w1) (exps w1) l1 l2
  | (r, w) => mkSO r None (out w) (nrd w) (exps w) [] []
  end.

(* ------------------------------------------------------------- the client *)
Record cinput := mkC {
  c_sk : bytes;                                  (* the 32-byte secret key *)
  c_kmt : list (bytes * option bytes); c_kmd : option bytes;   (* client-side exporter *)
  c_reads : list ritem;                          (* what the server sends *)
  c_wfaults : list N
}.

(* KeyMaterialClientAuth::new + into_header_value (handshake.rs:254-278) *)
Definition km_auth_bytes (sk km : bytes) : bytes :=
  pk_of P sk ++ pc_varint_enc 64 ++ sign P sk (firstn 16 km) ++ skipn 16 km.

Definition client_header (sk : bytes) (kmt : list (bytes * option bytes)) (kmd : option bytes) (w : io)
  : option bytes * io :=
  match export kmt kmd w (pk_of P sk) with
  | (None, w1) => (None, w1)
  | (Some km, w1) => (Some (b64_encode (km_auth_bytes sk km)), w1)
  end.

(* ClientAuth::new + write_frame *)
Definition client_auth_frame (sk ch : bytes) : bytes :=
  TAG_CLIENT_AUTH :: pk_of P sk ++ pc_varint_enc 64 ++
  sign P sk (blake3_derive P DOMAIN_SEP_CHALLENGE ch).

(* the final match of clientside (handshake.rs:365-377) *)
Definition client_finish (t : N) (p : bytes) : res unit * option bytes :=
  if t =? TAG_CONFIRM then (Ok tt, None)
  else match pc_string p with
       | Some r => (Err E_DENIED, Some r)
       | None => (Err E_DESER, None)
       end.

(* clientside (handshake.rs:340-378) *)
Definition clientside (sk : bytes) (w : io) : res unit * option bytes * io :=
  match read_frame w [TAG_CHALLENGE; TAG_CONFIRM; TAG_DENY] with
  | (Ok (t, p), w1) =>
      if t =? TAG_CHALLENGE then
        match take_n 16 p with
        | None => (Err E_DESER, None, w1)
        | Some (ch, _) =>
            match write_frame w1 (client_auth_frame sk ch) with
            | (Ok _, w2) =>
                match read_frame w2 [TAG_CONFIRM; TAG_DENY] with
                | (Ok (t', p'), w3) => (client_finish t' p', w3)
                | (Err e, w3) => (Err e, None, w3)
                | (Panic, w3) => (Panic, None, w3)
                end
            | (Err e, w2) => (Err e, None, w2)
            | (Panic, w2) => (Panic, None, w2)
            end
        end
      else (client_finish t p, w1)
  | (Err e, w1) => (Err e, None, w1)
  | (Panic, w1) => (Panic, None, w1)
  end.

Record cout := mkCO {
  co_header : option bytes; co_res : res unit; co_reason : option bytes;
  co_written : list bytes; co_nreads : N; co_exports : list (bytes * bytes)
}.

Definition client (i : cinput) : cout :=
  let '(h, w0) := client_header (c_sk i) (c_kmt i) (c_kmd i) (io0 (c_reads i) (c_wfaults i)) in
  let '(r, reason, w) := clientside (c_sk i) w0 in
  mkCO h r reason (out w) (nrd w) (exps w).

(* ------------------------------------------- an honest client meets the server *)
(* The server's input [i] supplies the server exporter, the challenge, the
   access decision and the fault script; header and reads come from the
   honest client holding [sk] with exporter (kmt, kmd).  The client's reply to
   the challenge frame does not depend on anything else the server sends, so
   the session is: header := client's header; reads := [the client's ClientAuth
   for the server's challenge]; then the client is run on everything the server
   wrote. *)
Definition session (sk : bytes) (kmt : list (bytes * option bytes)) (kmd : option bytes) (i : sinput)
  : sout * cout :=
  let h := fst (client_header sk kmt kmd (io0 [] [])) in
  let so := server (mkS h (s_kmt i) (s_kmd i) (s_challenge i)
                        [RFrame (client_auth_frame sk (s_challenge i))]
                        (s_wfaults i) (s_access i) (s_with i)) in
  (so, client (mkC sk kmt kmd (map RFrame (so_written so)) [])).

(* ---------------------------------------- the property as boolean checks *)
(* Evidence that [k] proved possession: the boolean form of auth_sound's
   conclusion, a function of the input only. *)
Definition km_evidence (i : sinput) (k : bytes) : bool :=
  match s_header i with
  | Some h =>
      match b64_decode h with
      | Some bs =>
          match pc_km_auth bs with
          | Some (k', sg, suf) =>
              bytes_eqb k' k &&
              match assoc (s_kmt i) k (s_kmd i) with
              | Some km => bytes_eqb (skipn 16 km) suf && verify P k (firstn 16 km) sg
              | None => false
              end
          | None => false
          end
      | None => false
      end
  | None => false
  end.

Definition ch_evidence (i : sinput) (k : bytes) : bool :=
  match s_reads i with
  | RFrame f :: _ =>
      match frame_type f with
      | Ok (t, p) =>
          (t =? TAG_CLIENT_AUTH) &&
          match pc_client_auth p with
          | Some (k', sg) =>
              bytes_eqb k' k &&
              verify P k (blake3_derive P DOMAIN_SEP_CHALLENGE (s_challenge i)) sg
          | None => false
          end
      | _ => false
      end
  | _ => false
  end.

Definition is_err {A} (r : res A) : bool := match r with Err _ => true | _ => false end.

Definition last_is (l : list bytes) (f : bytes) : bool :=
  match rev l with x :: _ => bytes_eqb x f | [] => false end.

Definition monitor_s (i : sinput) (o : sout) : bool :=
  (* soundness: an admitted identity comes with evidence; on the challenge path
     the challenge that was signed is the one this session sent first *)
  match so_res o with
  | Ok (k, m) =>
      if m =? MECH_KM then km_evidence i k
      else (m =? MECH_CH) && ch_evidence i k &&
           match so_written o with f :: _ => bytes_eqb f (challenge_frame (s_challenge i)) | [] => false end
  | _ => true
  end &&
  (* the key handed on by authorize_* is the authenticated one *)
  match so_res o, so_auth o with
  | Ok (k, _), Some (Ok k') => bytes_eqb k k'
  | Ok _, _ => true
  | _, Some _ => false
  | _, None => true
  end &&
  (* a denial never admits, is reported, and creates no guard *)
  match s_access i, so_auth o with
  | Deny reason, Some a =>
      is_err a &&
      (if res_eqb bytes_eqb a (Err E_DENIED)
       then last_is (so_written o)
              (deny_frame (match reason with Some r => r | None => NOT_AUTHORIZED end))
       else true) &&
      negb (existsb (N.eqb 2) (so_log2 o))
  | _, _ => true
  end.

(* ---- completeness, on the implementation's output, for runs marked as honest ----
   An honest run: a client holding the secret key of [k], whose exporter gave it [ckm]
   (None: it cannot export), meets the server.  What makes a run honest is checked on the
   input, not trusted: the header is absent exactly when the client has no material, and
   otherwise decodes to a claim of k with the suffix of ckm and a signature that verifies
   under k over the first 16 bytes of ckm; the first frame the client sends is a ClientAuth
   of k whose signature verifies over THIS session's challenge; and the first write (the
   challenge, if one is needed) is not made to fail.  Then the property's completeness
   clause must hold of the OBSERVED result: authenticated as k — by key material when the
   relay exports the same bytes for context k, by the challenge when the client or the
   relay has no material or the suffixes differ. *)
Definition km_header_of (i : sinput) : option (bytes * bytes * bytes) :=
  match s_header i with
  | Some h => match b64_decode h with Some bs => pc_km_auth bs | None => None end
  | None => None
  end.

Definition first_write_ok (i : sinput) : bool :=
  match s_wfaults i with [] => true | c :: _ => c =? 0 end.

Definition honest_pre (i : sinput) (k : bytes) (ckm : option bytes) : bool :=
  match ckm with
  | None => match s_header i with None => true | Some _ => false end
  | Some km =>
      match km_header_of i with
      | Some (k', sg, suf) =>
          bytes_eqb k' k && bytes_eqb suf (skipn 16 km) && verify P k (firstn 16 km) sg
      | None => false
      end
  end && ch_evidence i k && first_write_ok i.

Definition expected_mech (i : sinput) (k : bytes) (ckm : option bytes) (m : N) : bool :=
  match ckm, assoc (s_kmt i) k (s_kmd i) with
  | Some a, Some b =>
      if bytes_eqb a b then m =? MECH_KM                         (* both export the same material *)
      else if bytes_eqb (skipn 16 a) (skipn 16 b)
      then (m =? MECH_KM) || (m =? MECH_CH)                      (* only the signed halves differ *)
      else m =? MECH_CH                                          (* the suffixes differ *)
  | _, _ => m =? MECH_CH                                         (* client or relay cannot export *)
  end.

Definition honest_ok (i : sinput) (k : bytes) (ckm : option bytes) (o : sout) : bool :=
  if honest_pre i k ckm then
    match so_res o with
    | Ok (k', m) => bytes_eqb k' k && expected_mech i k ckm m
    | _ => false
    end
  else true.

(* the client reports success only after reading a ServerConfirmsAuth frame *)
Definition monitor_c (i : cinput) (o : cout) : bool :=
  match co_res o with
  | Ok _ =>
      match nth_error (c_reads i) (N.to_nat (co_nreads o) - 1) with
      | Some (RFrame f) =>
          match frame_type f with Ok (t, _) => t =? TAG_CONFIRM | _ => false end
      | _ => false
      end
  | _ => true
  end.

(* ------------------------------------------------------------ branch tags *)
Definition km_code (ko : km_outcome) : N :=
  match ko with
  | KmAbsent => 0 | KmBad64 => 1 | KmBadPostcard => 2 | KmOk _ => 3
  | KmNoMaterial => 4 | KmSuffix => 5 | KmSig => 6
  end.

Definition tag_s (i : sinput) : N :=
  let o := server i in
  let a := match so_auth o with
           | Some (Ok _) => 10
           | Some (Err e) => if e =? E_DENIED then 11 else match s_access i with Allow => 12 | Deny _ => 13 end
           | Some Panic => 15
           | None =>
               match so_res o with
               | Err e =>
                   if e =? E_HDR then 0
                   else if e =? E_WS then
                     (match so_written o, so_nreads o with
                      | _, 0 => 1            (* challenge write failed *)
                      | _ :: _ :: _, _ => 9  (* denial write failed *)
                      | _, _ => 3            (* read failed *)
                      end)
                   else if e =? E_END then 2
                   else if e =? E_FT_END then 4
                   else if e =? E_FT_UNKNOWN then 5
                   else if e =? E_UNEXPECTED then 6
                   else if e =? E_DESER then 7
                   else 8
               | _ => 15
               end
           end in
  16 * km_code (fst (km_phase i (io0 (s_reads i) (s_wfaults i)))) + a.

Definition tag_c (i : cinput) : N :=
  let o := client i in
  200 + (match co_header o with Some _ => 20 | None => 0 end)
      + (match co_res o with Ok _ => 0 | Err e => e | Panic => 15 end)
      + (match co_written o with [] => 0 | _ => 10 end).

End WithPrims.

(* --------------------------------------------------------------- judge *)
(* SHonest: a server case that the generator marks as an honest run of the client with
   public key [k] and client-side material [ckm]; run and compared like SCase, the monitor
   additionally evaluates the completeness clause [honest_ok]. *)
Inductive input :=
| SCase (o : oracle) (i : sinput) | CCase (o : oracle) (i : cinput)
| SHonest (o : oracle) (i : sinput) (k : bytes) (ckm : option bytes).
Inductive output := SOut (o : sout) | COut (o : cout).

Definition pair_eqb (a b : bytes * bytes) : bool := bytes_eqb (fst a) (fst b) && bytes_eqb (snd a) (snd b).
Definition km_res_eqb (a b : bytes * N) : bool := bytes_eqb (fst a) (fst b) && N.eqb (snd a) (snd b).

Definition sout_eqb (a b : sout) : bool :=
  res_eqb km_res_eqb (so_res a) (so_res b) &&
  opt_eqb (res_eqb bytes_eqb) (so_auth a) (so_auth b) &&
  list_eqb bytes_eqb (so_written a) (so_written b) &&
  N.eqb (so_nreads a) (so_nreads b) &&
  list_eqb pair_eqb (so_exports a) (so_exports b) &&
  list_eqb N.eqb (so_log1 a) (so_log1 b) && list_eqb N.eqb (so_log2 a) (so_log2 b).

Definition cout_eqb (a b : cout) : bool :=
  opt_eqb bytes_eqb (co_header a) (co_header b) &&
  res_eqb (fun _ _ => true) (co_res a) (co_res b) &&
  opt_eqb bytes_eqb (co_reason a) (co_reason b) &&
  list_eqb bytes_eqb (co_written a) (co_written b) &&
  N.eqb (co_nreads a) (co_nreads b) &&
  list_eqb pair_eqb (co_exports a) (co_exports b).

(* The model is run twice, with the two defaults for oracle queries outside
   the tables; both runs must reproduce the implementation's output. *)
Definition agree (i : input) (o : output) : bool :=
  match i, o with
  | SCase t s, SOut x => sout_eqb (server (table_prims t false) s) x && sout_eqb (server (table_prims t true) s) x
  | CCase t c, COut x => cout_eqb (client (table_prims t false) c) x && cout_eqb (client (table_prims t true) c) x
  | SHonest t s _ _, SOut x => sout_eqb (server (table_prims t false) s) x && sout_eqb (server (table_prims t true) s) x
  | _, _ => false
  end.

Definition monitor (i : input) (o : output) : bool :=
  match i, o with
  | SCase t s, SOut x => monitor_s (table_prims t false) s x
  | CCase t c, COut x => monitor_c c x
  | SHonest t s k ckm, SOut x =>
      monitor_s (table_prims t false) s x && honest_ok (table_prims t false) s k ckm x
  | _, _ => false
  end.

Definition known (i : input) : N := 0.

Definition tag (i : input) : N :=
  match i with
  | SCase t s => tag_s (table_prims t false) s
  | CCase t c => tag_c (table_prims t false) c
  | SHonest t s _ _ => tag_s (table_prims t false) s
  end.

Definition model (i : input) : output :=
  match i with
  | SCase t s => SOut (server (table_prims t false) s)
  | CCase t c => COut (client (table_prims t false) c)
  | SHonest t s _ _ => SOut (server (table_prims t false) s)
  end.

Definition judge (i : input) (o : output) : bool * bool * N * N :=
  (agree i o, monitor i o, known i, tag i).

End C03.
