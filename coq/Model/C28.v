(* C28 — Client::add_report_history_and_set_preferred_relay (iroh/src/net_report.rs:748-822).
   Executable model, definitions only.  The latency tables, merge and get are those of C27. *)
From V Require Import Lib.Base Gen.Consts Model.C27.
Open Scope N_scope.

Module C28.

Definition MAX_AGE : N := C28_MAX_AGE.     (* const MAX_AGE: Duration = 5 min, in ns *)

(* The part of a Report this function reads or writes. *)
Record rep := mkR {
  lat : C27.latencies;
  pref : option N;                (* preferred_relay *)
  mv4 : option bool; mv6 : option bool }.

(* reports.prev : BTreeMap<Instant, Report> — ascending by time (ns since the start of the
   case); only the latency tables of stored reports are ever read again, so only they are kept.
   reports.last : Option<Report>. *)
Definition hist := list (N * C27.latencies).
Record state := mkSt { prev : hist; last : option rep }.
Definition st_default : state := mkSt [] None.

(* BTreeMap::insert: a report at an Instant already present replaces the old one *)
Fixpoint hist_insert (h : hist) (t : N) (l : C27.latencies) : hist :=
  match h with
  | [] => [(t, l)]
  | (t', l') :: r =>
      if t <? t' then (t, l) :: h
      else if t =? t' then (t, l) :: r
      else (t', l') :: hist_insert r t l
  end.

(* entries with now.duration_since(t) > MAX_AGE are skipped and removed *)
Definition fresh (now : N) (e : N * C27.latencies) : bool := negb (MAX_AGE <? now - fst e).
Definition hist_prune (h : hist) (now : N) : hist := filter (fresh now) h.

(* best_recent: merge of the fresh previous reports (in time order), then of the current run *)
Definition best_recent (h : hist) (now : N) (cur : C27.latencies) : C27.latencies :=
  C27.merge (fold_left (fun acc e => C27.merge acc (snd e)) (hist_prune h now) C27.lat_default) cur.

(* RelayLatencies::iter: https, then ipv4, then ipv6, each in URL order *)
Definition iter_lat (l : C27.latencies) : list (N * N) :=
  C27.https l ++ C27.ipv4 l ++ C27.ipv6 l.

Definition is_none {A} (o : option A) : bool := match o with None => true | Some _ => false end.

(* loop state: (best_any, old_relay_cur_latency, r.preferred_relay) *)
Definition acc := (N * N * option N)%type.

(* One iteration.  `orig` = the code before the fix: old_relay_cur_latency is overwritten by
   every occurrence of the previous relay (so the LAST probe kind iterated wins).  After the
   fix it is computed before the loop (RelayLatencies::get = lowest) and the loop leaves it alone. *)
Definition loop_step (orig : bool) (prev_relay : option N) (br : C27.latencies) (a : acc) (ud : N * N) : acc :=
  let '(best_any, old_cur, p) := a in
  let old_cur' := if orig && opt_eqb N.eqb (Some (fst ud)) prev_relay then snd ud else old_cur in
  match C27.get br (fst ud) with
  | Some best =>
      if is_none p || (best <? best_any) then (best, old_cur', Some (fst ud)) else (best_any, old_cur', p)
  | None => (best_any, old_cur', p)
  end.

Definition old_init (orig : bool) (prev_relay : option N) (cur : C27.latencies) : N :=
  if orig then 0 else
  match prev_relay with
  | Some q => match C27.get cur q with Some d => d | None => 0 end   (* .unwrap_or_default() *)
  | None => 0
  end.

Definition opt_or {A} (a b : option A) : option A := match a with Some _ => a | None => b end.

(* One call at time `now` with report r (r.preferred_relay is None on entry, as in get_report).
   Returns the new state and the report as mutated. *)
Definition step_gen (orig : bool) (st : state) (now : N) (r : rep) : state * rep :=
  let prev_relay := match last st with Some l => pref l | None => None end in
  let v4 := match last st with Some l => opt_or (mv4 r) (mv4 l) | None => mv4 r end in
  let v6 := match last st with Some l => opt_or (mv6 r) (mv6 l) | None => mv6 r end in
  let br := best_recent (prev st) now (lat r) in
  let h := hist_prune (prev st) now in
  let '(best_any, old_cur, p) :=
    fold_left (loop_step orig prev_relay br) (iter_lat (lat r)) (0, old_init orig prev_relay (lat r), pref r) in
  let p' :=
    if negb (is_none prev_relay) && negb (opt_eqb N.eqb p prev_relay) && negb (old_cur =? 0)
       && (old_cur / 3 * 2 <? best_any)
    then prev_relay else p in
  let r' := mkR (lat r) p' v4 v6 in
  (mkSt (hist_insert h now (lat r)) (Some r'), r').

(* ---- a case: a sequence of calls ---- *)

(* one call: the clock is advanced by dt ns, then the function is called with a report whose
   latency table was built from the (probe kind, relay, latency) triples *)
Record call := mkCall { dt : N; meas : list (N * N * N); in4 : option bool; in6 : option bool }.

Definition lat_of_meas (m : list (N * N * N)) : C27.latencies :=
  fold_left (fun l x => let '(k, u, d) := x in if k <=? 2 then C27.update_relay l u d k else l) m C27.lat_default.

(* observation per call: preferred relay, number of stored reports, the two copied flags *)
Record obs := mkObs { o_pref : option N; o_len : N; o_v4 : option bool; o_v6 : option bool }.

Definition input := list call.
Definition output := list obs.

Fixpoint run_gen (orig : bool) (st : state) (now : N) (cs : list call) : list obs :=
  match cs with
  | [] => []
  | c :: cs' =>
      let now' := now + dt c in
      let '(st', r') := step_gen orig st now' (mkR (lat_of_meas (meas c)) None (in4 c) (in6 c)) in
      mkObs (pref r') (len (prev st')) (mv4 r') (mv6 r') :: run_gen orig st' now' cs'
  end.

Definition model (i : input) : output := run_gen false st_default 0 i.
(* the code as it was before the fix (kept for the refutation witness) *)
Definition model_orig (i : input) : output := run_gen true st_default 0 i.

Definition obs_eqb (a b : obs) : bool :=
  opt_eqb N.eqb (o_pref a) (o_pref b) && (o_len a =? o_len b) &&
  opt_eqb Bool.eqb (o_v4 a) (o_v4 b) && opt_eqb Bool.eqb (o_v6 a) (o_v6 b).
Definition agree (i : input) (o : output) : bool := list_eqb obs_eqb (model i) o.

(* ---- the property as a function of the observed outputs ---- *)

(* all latencies recorded for relay u in one table set *)
Definition lat_values (l : C27.latencies) (u : N) : list N :=
  C27.opt_list (C27.lookup (C27.https l) u) ++ C27.opt_list (C27.lookup (C27.ipv4 l) u) ++
  C27.opt_list (C27.lookup (C27.ipv6 l) u).

(* best latency of u over the fresh stored reports and the current one *)
Definition best_of (h : hist) (now : N) (cur : C27.latencies) (u : N) : option N :=
  C27.list_min (concat (map (fun e => lat_values (snd e) u) (hist_prune h now)) ++ lat_values cur u).

Definition measured (l : C27.latencies) : list N := map fst (iter_lat l).
Definition mem (u : N) (l : list N) : bool := existsb (N.eqb u) l.

Definition opt_le (a b : option N) : bool :=
  match a, b with Some x, Some y => x <=? y | _, _ => false end.

(* The conclusion for one call: prev_relay = preferred relay observed for the previous call. *)
Definition call_ok (h : hist) (now : N) (cur : C27.latencies) (prev_relay : option N) (p : option N) : bool :=
  match p with
  | None => match measured cur with [] => true | _ => false end     (* none only if none was measured *)
  | Some x =>
      mem x (measured cur) &&                                        (* one of the relays measured now *)
      (* chosen by best latency over the last five minutes, unless it is the previous one kept *)
      (opt_eqb N.eqb (Some x) prev_relay ||
       forallb (fun u => opt_le (best_of h now cur x) (best_of h now cur u)) (measured cur)) &&
      (* sticky: previous relay still measured and the choice changed => new best <= 2/3 of the
         previous relay's lowest current latency (Duration / 3 * 2) *)
      match prev_relay with
      | Some q =>
          if mem q (measured cur) && negb (x =? q) then
            match C27.list_min (lat_values cur q) with
            | Some lowest => opt_le (best_of h now cur x) (Some (lowest / 3 * 2))
            | None => false
            end
          else true
      | None => true
      end
  end.

Fixpoint monitor_from (h : hist) (now : N) (prev_relay : option N) (cs : list call) (os : list obs) : bool :=
  match cs, os with
  | [], [] => true
  | c :: cs', o :: os' =>
      let now' := now + dt c in
      let cur := lat_of_meas (meas c) in
      call_ok h now' cur prev_relay (o_pref o) &&
      monitor_from (hist_insert (hist_prune h now') now' cur) now' (o_pref o) cs' os'
  | _, _ => false
  end.

Definition monitor (i : input) (o : output) : bool := monitor_from [] 0 None i o.

Definition known (i : input) : N := 0.

(* coverage: the "deepest" decision over the calls of the case.
   0 no call measured anything / 1 only first-time choices (no previous relay) /
   2 previous relay kept because it is still the best / 3 previous relay not measured any more /
   4 switched (new best <= 2/3 old) / 5 stuck (reverted to the previous relay) *)
Definition call_tag (orig : bool) (st : state) (now : N) (r : rep) : N :=
  let prev_relay := match last st with Some l => pref l | None => None end in
  let '(_, p') := step_gen orig st now r in
  match measured (lat r) with
  | [] => 0
  | _ =>
    match prev_relay with
    | None => 1
    | Some q =>
        if negb (mem q (measured (lat r))) then 3
        else
          let br := best_recent (prev st) now (lat r) in
          let '(_, _, p) := fold_left (loop_step orig prev_relay br) (iter_lat (lat r))
                                      (0, old_init orig prev_relay (lat r), None) in
          if opt_eqb N.eqb p prev_relay then 2
          else if opt_eqb N.eqb (pref p') prev_relay then 5 else 4
    end
  end.

Fixpoint tag_from (st : state) (now : N) (cs : list call) : N :=
  match cs with
  | [] => 0
  | c :: cs' =>
      let now' := now + dt c in
      let r := mkR (lat_of_meas (meas c)) None (in4 c) (in6 c) in
      N.max (call_tag false st now' r) (tag_from (fst (step_gen false st now' r)) now' cs')
  end.

Definition tag (i : input) : N := tag_from st_default 0 i.

Definition judge (i : input) (o : output) : bool * bool * N * N :=
  (agree i o, monitor i o, known i, tag i).

End C28.
