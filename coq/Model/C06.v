(* C06 — relay connection registry: newest connection wins, older ones resume.
   Executable model of iroh-relay/src/server/clients.rs (Clients::register,
   unregister, send_packet, disconnect, shutdown) and the parts of the per-connection
   actor in server/client.rs that touch it.  Definitions only.

   The model is an interleaving transition system: one [event] per atomic step
   the code has (a DashMap entry critical section, a channel try_send, an actor
   leaving its loop).  [step] gives the successor state or None when the event
   is not enabled.  On top of it, [exec_op] is the deterministic script
   semantics the correspondence harness drives (each harness operation = a few
   events + "run every task until idle"). *)
From V Require Import Lib.Base.
Open Scope N_scope.

Module C06.

(* Life of a connection's actor task (server/client.rs Actor::run):
   Running  : inside run_inner's select loop                      (client.rs:354)
   Exited   : run_inner has returned, unregister not yet called   (client.rs:354-363)
   Done     : unregister returned and the task ended: the queue receivers and the
              stream are dropped, try_send on its queues now says Closed. *)
Inductive cst := Fresh | Running | Exited | Done.
Definition cst_code (s : cst) : N :=
  match s with Running => 0 | Exited => 1 | Done => 2 | Fresh => 3 end.
Definition is_done (s : cst) : bool := match s with Done => true | _ => false end.
Definition is_running (s : cst) : bool := match s with Running => true | _ => false end.
Definition is_exited (s : cst) : bool := match s with Exited => true | _ => false end.

(* What a client can receive.  Status codes: 0 Healthy, 1 SameEndpointIdConnected.
   V1 connections get the Health frame with the status' display text, V2 the
   Status frame (client.rs:214 try_send_health). *)
Inductive frame := FStatus (k : N) | FHealth (k : N) | FGone (id : N) | FData (src tag : N).
Definition frame_eqb (a b : frame) : bool :=
  match a, b with
  | FStatus x, FStatus y => x =? y
  | FHealth x, FHealth y => x =? y
  | FGone x, FGone y => x =? y
  | FData x t, FData y u => (x =? y) && (t =? u)
  | _, _ => false
  end.
Definition status_frame (v k : N) : frame := if v =? 1 then FHealth k else FStatus k.

Record conn := mkConn {
  eid : N;            (* endpoint id *)
  ver : N;            (* protocol version 1|2 *)
  cstate : cst;
  cancelled : bool;   (* Client::done token cancelled (start_shutdown) *)
  closed : bool;      (* the client end closed its side *)
  inserted : bool;    (* register's map update has happened for it *)
  taken : bool;       (* Clients::shutdown has taken the entry that held it out of the map *)
  pq : list frame;    (* packet_queue contents  (bounded mpsc, capacity cap) *)
  mq : list frame;    (* message_queue contents (bounded mpsc, capacity cap) *)
  got : list frame    (* frames written to the client, in order *)
}.
Definition conn0 : conn := mkConn 0 0 Fresh false false false false [] [] [].

Definition with_cstate (x : conn) v := mkConn (eid x) (ver x) v (cancelled x) (closed x) (inserted x) (taken x) (pq x) (mq x) (got x).
Definition with_cancelled (x : conn) v := mkConn (eid x) (ver x) (cstate x) v (closed x) (inserted x) (taken x) (pq x) (mq x) (got x).
Definition with_closed (x : conn) v := mkConn (eid x) (ver x) (cstate x) (cancelled x) v (inserted x) (taken x) (pq x) (mq x) (got x).
Definition with_inserted (x : conn) v := mkConn (eid x) (ver x) (cstate x) (cancelled x) (closed x) v (taken x) (pq x) (mq x) (got x).
Definition with_taken (x : conn) v := mkConn (eid x) (ver x) (cstate x) (cancelled x) (closed x) (inserted x) v (pq x) (mq x) (got x).
Definition with_pq (x : conn) v := mkConn (eid x) (ver x) (cstate x) (cancelled x) (closed x) (inserted x) (taken x) v (mq x) (got x).
Definition with_mq (x : conn) v := mkConn (eid x) (ver x) (cstate x) (cancelled x) (closed x) (inserted x) (taken x) (pq x) v (got x).
Definition with_pq_got (x : conn) q g := mkConn (eid x) (ver x) (cstate x) (cancelled x) (closed x) (inserted x) (taken x) q (mq x) g.
Definition with_mq_got (x : conn) q g := mkConn (eid x) (ver x) (cstate x) (cancelled x) (closed x) (inserted x) (taken x) (pq x) q g.

Definition fupd {A} (f : N -> A) (k : N) (v : A) : N -> A := fun x => if x =? k then v else f x.

(* reg id = the connections registered for id, ACTIVE FIRST, then the inactive
   ones from most recently to least recently pushed:
     ClientState { active, inactive }  ~  active :: rev inactive,   no entry ~ [].
   sent id = Clients::Inner::sent_to[id] (kept sorted, no duplicates).
   pending = peer-gone notices collected by unregister inside the entry lock and
   not yet sent (clients.rs:147-169 runs after the lock is released).
   order = ghost: connections in the order their map update happened, newest first. *)
Record state := mkSt {
  conns : N -> conn;
  nconns : N;
  reg : N -> list N;
  sent : N -> list N;
  pending : list (N * N);
  order : list N;
  cap : N
}.
Definition init (cap : N) : state := mkSt (fun _ => conn0) 0 (fun _ => []) (fun _ => []) [] [] cap.

Definition set_conn (s : state) (c : N) (x : conn) : state :=
  mkSt (fupd (conns s) c x) (nconns s) (reg s) (sent s) (pending s) (order s) (cap s).
Definition set_reg (s : state) (id : N) (l : list N) : state :=
  mkSt (conns s) (nconns s) (fupd (reg s) id l) (sent s) (pending s) (order s) (cap s).
Definition set_sent (s : state) (id : N) (l : list N) : state :=
  mkSt (conns s) (nconns s) (reg s) (fupd (sent s) id l) (pending s) (order s) (cap s).
Definition set_pending (s : state) (p : list (N * N)) : state :=
  mkSt (conns s) (nconns s) (reg s) (sent s) p (order s) (cap s).

Fixpoint add_sorted (x : N) (l : list N) : list N :=
  match l with
  | [] => [x]
  | y :: r => if x <? y then x :: l else if x =? y then l else y :: add_sorted x r
  end.

(* mpsc try_send on a connection's message queue: Closed once the actor task is gone,
   Full at capacity; both are ignored by every caller in clients.rs (`.ok()` / debug!). *)
Definition enqueue_m (s : state) (a : N) (f : frame) : state :=
  let x := conns s a in
  if is_done (cstate x) then s
  else if len (mq x) <? cap s then set_conn s a (with_mq x (mq x ++ [f]))
  else s.

Definition cancel (s : state) (c : N) : state := set_conn s c (with_cancelled (conns s c) true).

Fixpoint remove_nth {A} (k : nat) (l : list A) : list A :=
  match k, l with
  | _, [] => []
  | O, _ :: r => r
  | S k', x :: r => x :: remove_nth k' r
  end.

Inductive event :=
| Spawn (id v : N)          (* Client::new: queues created, actor task spawned     client.rs:124-174 *)
| Insert (c : N)            (* register's map entry update                          clients.rs:81-101 *)
| Close (c : N)             (* environment: the client end of c closes *)
| Exit (c : N)              (* run_inner returns (cancelled, stream end, any error)  client.rs:354 *)
| Unregister (c : N)        (* unregister's remove_if_mut critical section, then the task ends   clients.rs:109-145 *)
| Notify (k : N)            (* one peer-gone notice of the loop after the lock       clients.rs:149-168 *)
| Send (s d tag : N)        (* actor s handles a datagram frame: send_packet         clients.rs:200-234 *)
| Deliver (c : N) (pkt : bool)  (* actor c takes one queued packet / message and writes it  client.rs:410-423 *)
| Disconnect (id : N) (o : option N)   (* Clients::disconnect                         clients.rs:181-197 *)
| ShutTake (id : N)         (* Clients::shutdown: `self.0.clients.remove(&k)` — the entry of id is taken out of
                               the map and handed to the shutdown future; nothing else is touched (no sent_to,
                               no peer-gone notice)                                  clients.rs:62-67 *)
| ShutStop (c : N).         (* ClientState::shutdown_all -> Client::shutdown -> start_shutdown of a connection
                               of a taken entry (then the handle is awaited)        clients.rs:46-53, client.rs:184-192 *)

(* [locked]: whether register holds the map entry (shard lock) from before the actor
   is spawned until the entry update.  true is the code as it is now (after the fix
   recorded in notes/C06.md): an actor that ends early then blocks in unregister until
   its connection has been inserted.  false is the code before the fix. *)
Definition step (locked : bool) (s : state) (e : event) : option state :=
  match e with
  | Spawn id v =>
      let c := nconns s in
      Some (mkSt (fupd (conns s) c (mkConn id v Running false false false false [] [] []))
                 (c + 1) (reg s) (sent s) (pending s) (order s) (cap s))
  | Insert c =>
      let x := conns s c in
      if (c <? nconns s) && negb (inserted x) then
        let id := eid x in
        let s1 :=
          match reg s id with
          | [] => set_reg s id [c]                              (* Entry::Vacant *)
          | a :: rest =>                                        (* Entry::Occupied *)
              (* replace active; tell the old one; push it to inactive *)
              set_reg (enqueue_m s a (status_frame (ver (conns s a)) 1)) id (c :: a :: rest)
          end in
        let s2 := set_conn s1 c (with_inserted (conns s1 c) true) in
        Some (mkSt (conns s2) (nconns s2) (reg s2) (sent s2) (pending s2) (c :: order s2) (cap s2))
      else None
  | Close c =>
      if c <? nconns s then Some (set_conn s c (with_closed (conns s c) true)) else None
  | Exit c =>
      let x := conns s c in
      if is_running (cstate x) then Some (set_conn s c (with_cstate x Exited)) else None
  | Unregister c =>
      let x := conns s c in
      if is_exited (cstate x) && (negb locked || inserted x) then
        let id := eid x in
        let s1 :=
          match reg s id with
          | [] => s                                             (* no entry: remove_if_mut does nothing *)
          | a :: rest =>
              if a =? c then
                match rest with
                | p :: _ =>                                     (* promote inactive.pop(), tell it Healthy *)
                    enqueue_m (set_reg s id rest) p (status_frame (ver (conns s p)) 0)
                | [] =>                                         (* last one: remove entry, collect sent_to *)
                    set_pending (set_sent (set_reg s id []) id [])
                                (pending s ++ map (fun p => (id, p)) (sent s id))
                end
              else set_reg s id (a :: filter (fun y => negb (y =? c)) rest)   (* inactive.retain *)
          end in
        Some (set_conn s1 c (with_cstate (conns s1 c) Done))
      else None
  | Notify k =>
      match nth_error (pending s) (N.to_nat k) with
      | None => None
      | Some (gone, peer) =>
          let s1 := set_pending s (remove_nth (N.to_nat k) (pending s)) in
          match reg s1 peer with
          | [] => Some s1
          | a :: _ => Some (enqueue_m s1 a (FGone gone))
          end
      end
  | Send a d tag =>
      let x := conns s a in
      if is_running (cstate x) then
        match reg s d with
        | [] => Some s                                          (* no connected client: dropped *)
        | b :: _ =>
            let y := conns s b in
            if is_done (cstate y) then Some (cancel s b)       (* Closed: start_shutdown of that active *)
            else if len (pq y) <? cap s then
              Some (set_sent (set_conn s b (with_pq y (pq y ++ [FData (eid x) tag])))
                             (eid x) (add_sorted d (sent s (eid x))))
            else Some s                                         (* Full: dropped *)
        end
      else None
  | Deliver c pkt =>
      let x := conns s c in
      if is_running (cstate x) then
        if pkt then
          match pq x with
          | f :: r => Some (set_conn s c (with_pq_got x r (got x ++ [f])))
          | [] => None
          end
        else
          match mq x with
          | f :: r => Some (set_conn s c (with_mq_got x r (got x ++ [f])))
          | [] => None
          end
      else None
  | Disconnect id o =>
      match o with
      | Some c => if existsb (N.eqb c) (reg s id) then Some (cancel s c) else Some s
      | None => Some (fold_left cancel (reg s id) s)
      end
  | ShutTake id =>
      (* the ClientState leaves the map; its connections' actors keep running until stopped,
         and each still calls unregister when it ends: a STALE unregister (no entry, or a new
         entry of a reconnected endpoint that does not contain it) *)
      let l := reg s id in
      Some (mkSt (fun c => if existsb (N.eqb c) l then with_taken (conns s c) true else conns s c)
                 (nconns s) (fupd (reg s) id []) (sent s) (pending s) (order s) (cap s))
  | ShutStop c =>
      if taken (conns s c) then Some (cancel s c) else None
  end.

(* return value of Clients::disconnect *)
Definition disc_ret (s : state) (id : N) (o : option N) : bool :=
  match reg s id with
  | [] => false
  | l => match o with Some c => existsb (N.eqb c) l | None => true end
  end.

Fixpoint run (locked : bool) (s : state) (tr : list event) : option state :=
  match tr with
  | [] => Some s
  | e :: r => match step locked s e with Some s' => run locked s' r | None => None end
  end.

(* ------------------------------------------------------------------------
   Script semantics for the correspondence harness.  The harness runs the real
   Clients with real actors on a current-thread runtime that only it drives;
   after every operation it lets every task run until idle ([settle]).  Actor
   exits park at a pause point before unregister until released by OUnreg; a
   register started with OSpawn parks between Client::new and the map update
   until OInsert. *)
Inductive op :=
| OSpawn (id v : N) | OInsert (c : N) | OReg (id v : N) | OClose (c : N)
| OUnreg (c : N) | OSend (s d tag : N) | ODisc (id : N) (o : option N)
| OShut.   (* Clients::shutdown is started: every entry is taken, every taken connection stopped *)

Definition locked_register : bool := true.

Definition doev (s : state) (e : event) : state :=
  match step locked_register s e with Some s' => s' | None => s end.

Definition crange (s : state) : list N := map N.of_nat (seq 0 (N.to_nat (nconns s))).

(* biased select: a cancelled token or the end of the client's stream is seen before the queues *)
Definition settle_exits (s : state) : state :=
  fold_left (fun s c => let x := conns s c in
                        if is_running (cstate x) && (cancelled x || closed x) then doev s (Exit c) else s)
            (crange s) s.

Fixpoint deliver_all (fuel : nat) (s : state) (c : N) (pkt : bool) : state :=
  match fuel with
  | O => s
  | S f => match step locked_register s (Deliver c pkt) with
           | Some s' => deliver_all f s' c pkt
           | None => s
           end
  end.

Definition settle_deliver (s : state) : state :=
  fold_left (fun s c => let s1 := deliver_all (length (pq (conns s c))) s c true in
                        deliver_all (length (mq (conns s1 c))) s1 c false)
            (crange s) s.

Definition settle (s : state) : state := settle_deliver (settle_exits s).

Fixpoint notify_all (fuel : nat) (s : state) : state :=
  match fuel with
  | O => s
  | S f => match pending s with [] => s | _ => notify_all f (doev s (Notify 0)) end
  end.

Definition unregister_full (s : state) (c : N) : state :=
  let s1 := doev s (Unregister c) in notify_all (length (pending s1)) s1.

Definition ids : list N := [0; 1; 2; 3].

(* Clients::shutdown up to its first await: every entry is removed from the map, then every
   connection of the removed entries is told to stop *)
Definition shut_all (s : state) : state :=
  fold_left (fun s c => doev s (ShutStop c)) (flat_map (reg s) ids)
            (fold_left (fun s id => doev s (ShutTake id)) ids s).

(* win: the connection whose register is parked between spawn and insert;
   deferred: an actor released towards unregister that is blocked on the map lock
   held by the parked register (the runtime thread is then stuck with it). *)
Record sstate := mkSS { st : state; win : option N; deferred : option N }.

Definition skip (ss : sstate) : sstate * N := (ss, 0).

Definition exec_op (ss : sstate) (o : op) : sstate * N :=
  let s := st ss in
  match deferred ss with
  | Some x =>
      match o, win ss with
      | OInsert c, Some w =>
          if c =? w then
            (mkSS (settle (unregister_full (doev s (Insert c)) x)) None None, 1)
          else skip ss
      | _, _ => skip ss
      end
  | None =>
      match o with
      | OSpawn id v =>
          match win ss with
          | Some _ => skip ss
          | None => (mkSS (settle (doev s (Spawn id v))) (Some (nconns s)) None, 1)
          end
      | OReg id v =>
          match win ss with
          | Some _ => skip ss
          | None => (mkSS (settle (doev (doev s (Spawn id v)) (Insert (nconns s)))) None None, 1)
          end
      | OInsert c =>
          match win ss with
          | Some w => if c =? w then (mkSS (settle (doev s (Insert c))) None None, 1) else skip ss
          | None => skip ss
          end
      | OClose c =>
          if (c <? nconns s) && negb (closed (conns s c))
          then (mkSS (settle (doev s (Close c))) (win ss) None, 1) else skip ss
      | OUnreg c =>
          if (c <? nconns s) && is_exited (cstate (conns s c)) then
            match win ss with
            | None => (mkSS (settle (unregister_full s c)) None None, 1)
            | Some w =>
                if eid (conns s w) =? eid (conns s c) then
                  if locked_register then (mkSS s (win ss) (Some c), 2)
                  else (mkSS (settle (unregister_full s c)) (win ss) None, 1)
                else skip ss
            end
          else skip ss
      | OSend a d tag =>
          match win ss with
          | Some _ => skip ss
          | None =>
              if (a <? nconns s) && negb (closed (conns s a))
              then (mkSS (settle (doev s (Send a d tag))) None None, 1) else skip ss
          end
      | ODisc id o =>
          match win ss with
          | Some _ => skip ss
          | None =>
              if match o with Some c => c <? nconns s | None => true end
              then (mkSS (settle (doev s (Disconnect id o))) None None,
                    if disc_ret s id o then 2 else 1)
              else skip ss
          end
      | OShut =>
          match win ss with
          | Some _ => skip ss      (* the parked register holds a shard lock: shutdown would block *)
          | None => (mkSS (settle (shut_all s)) None None, 1)
          end
      end
  end.

(* ---- observations ---- *)
Record obs := mkObs {
  o_ret : N;
  o_states : list N;                          (* per connection: 0 running, 1 exited (parked), 2 done *)
  o_snap : option (list (N * N * list N));    (* registry (id, active, inactive in Vec order); None inside the window *)
  o_news : list (N * list frame)              (* frames that reached each client during this operation *)
}.

Definition snapshot (s : state) : list (N * N * list N) :=
  flat_map (fun id => match reg s id with [] => [] | a :: rest => [(id, a, rev rest)] end) ids.

Definition sent_snapshot (s : state) : list (N * list N) :=
  flat_map (fun id => match sent s id with [] => [] | l => [(id, l)] end) ids.

Definition states_of (s : state) : list N := map (fun c => cst_code (cstate (conns s c))) (crange s).

Definition news_of (s0 s1 : state) : list (N * list frame) :=
  flat_map (fun c => match skipn (length (got (conns s0 c))) (got (conns s1 c)) with
                     | [] => []
                     | l => [(c, l)]
                     end) (crange s1).

Definition observe (ss0 ss1 : sstate) (ret : N) : obs :=
  mkObs ret (states_of (st ss1))
        (match win ss1 with None => Some (snapshot (st ss1)) | Some _ => None end)
        (news_of (st ss0) (st ss1)).

(* the script, with a register still parked at the end completed *)
Fixpoint exec_ops (ss : sstate) (l : list op) : list (sstate * obs) :=
  match l with
  | [] =>
      match win ss with
      | Some w => let '(ss1, r) := exec_op ss (OInsert w) in [(ss1, observe ss ss1 r)]
      | None => []
      end
  | o :: rest =>
      let '(ss1, r) := exec_op ss o in (ss1, observe ss ss1 r) :: exec_ops ss1 rest
  end.

Definition input := (N * list op)%type.
Definition output := res (list obs * list (N * list N)).

Definition trace (i : input) : list (sstate * obs) :=
  exec_ops (mkSS (init (fst i)) None None) (snd i).

Definition final_state (i : input) : state :=
  st (last (map fst (trace i)) (mkSS (init (fst i)) None None)).

Definition model (i : input) : output :=
  Ok (map snd (trace i), sent_snapshot (final_state i)).

(* ---- agree ---- *)
Definition entry_eqb (a b : N * N * list N) : bool :=
  (fst (fst a) =? fst (fst b)) && (snd (fst a) =? snd (fst b)) && list_eqb N.eqb (snd a) (snd b).
Definition news_eqb (a b : N * list frame) : bool :=
  (fst a =? fst b) && list_eqb frame_eqb (snd a) (snd b).
Definition obs_eqb (a b : obs) : bool :=
  (o_ret a =? o_ret b) && list_eqb N.eqb (o_states a) (o_states b) &&
  opt_eqb (list_eqb entry_eqb) (o_snap a) (o_snap b) &&
  list_eqb news_eqb (o_news a) (o_news b).
Definition sentry_eqb (a b : N * list N) : bool := (fst a =? fst b) && list_eqb N.eqb (snd a) (snd b).
Definition out_eqb (a b : list obs * list (N * list N)) : bool :=
  list_eqb obs_eqb (fst a) (fst b) && list_eqb sentry_eqb (snd a) (snd b).

Definition agree (i : input) (o : output) : bool := res_eqb out_eqb (model i) o.

(* ---- monitor ----
   The property on what was OBSERVED: at every point where the registry was
   observed, for every endpoint id the registered connections are exactly the
   connections of that id whose map update has happened and whose actor task
   has not ended, the active one being the one registered most recently and the
   inactive ones in registration order.  (Which connections were registered, in
   which order, and their endpoint ids are a function of the script alone; they
   are read off the model's ghost [order].) *)
Definition stack_of_snap (snap : list (N * N * list N)) (id : N) : list N :=
  match find (fun e => fst (fst e) =? id) snap with
  | Some (_, a, ina) => a :: rev ina
  | None => []
  end.

Definition expected_stack (s : state) (states : list N) (id : N) : list N :=
  filter (fun c => (eid (conns s c) =? id) && negb (taken (conns s c)) &&
                   negb (nth (N.to_nat c) states 2 =? 2)) (order s).

Definition registry_ok (s : state) (ob : obs) : bool :=
  match o_snap ob with
  | None => true
  | Some snap =>
      forallb (fun e => fst (fst e) <? 4) snap &&
      forallb (fun id => list_eqb N.eqb (stack_of_snap snap id) (expected_stack s (o_states ob) id)) ids
  end.

(* -- the notices, on the frames each client was OBSERVED to receive --
   What was registered BEFORE the step ([s0]: the entries, the sent_to sets, which are a
   function of the script and are tied to the observations by [registry_ok] of the previous
   step) against what is observed AFTER it: the registry snapshot (inside a register window,
   where no snapshot can be taken, the registrations of the script filtered by the observed
   task states), the observed task states and the observed frames. *)
Definition obs_stack (s1 : state) (ob : obs) (id : N) : list N :=
  match o_snap ob with
  | Some snap => stack_of_snap snap id
  | None => expected_stack s1 (o_states ob) id
  end.
Definition obs_running (ob : obs) (c : N) : bool := nth (N.to_nat c) (o_states ob) 2 =? 0.
Definition news_for (ob : obs) (c : N) : list frame :=
  match find (fun e => fst e =? c) (o_news ob) with Some (_, l) => l | None => [] end.
Definition count_frame (f : frame) (l : list frame) : N := len (filter (frame_eqb f) l).
Definition gone_ids (l : list frame) : list N :=
  flat_map (fun f => match f with FGone x => [x] | _ => [] end) l.
Definition is_nil {A} (l : list A) : bool := match l with [] => true | _ => false end.

(* a peer-gone notice for X is received only in a step after which X has no entry *)
Definition gone_only_after_last (s1 : state) (ob : obs) : bool :=
  forallb (fun e => forallb (fun x => is_nil (obs_stack s1 ob x)) (gone_ids (snd e))) (o_news ob).

(* when X's entry disappears in this step, the active connection of every endpoint X had
   sent to receives exactly one peer-gone notice for X in this step (premise: it is
   observed running, i.e. it reads its queue, and the queue has room: capacity >= 1 —
   a running connection's queue is empty between operations) *)
Definition gone_delivered (s0 s1 : state) (ob : obs) : bool :=
  forallb (fun x =>
    if negb (is_nil (reg s0 x)) && forallb (fun c => negb (taken (conns s1 c))) (reg s0 x) &&
       is_nil (obs_stack s1 ob x) then
      forallb (fun p =>
        match obs_stack s1 ob p with
        | a :: _ =>
            if obs_running ob a && (1 <=? cap s0)
            then count_frame (FGone x) (news_for ob a) =? 1 else true
        | [] => true
        end) (sent s0 x)
    else true) ids.

(* a displaced connection is told another connection took over: when a connection c that was
   not registered before is observed in front of the previously active connection a, then a —
   if observed running, capacity >= 1 — received the took-over notice in this step *)
Definition took_over_told (s0 s1 : state) (ob : obs) : bool :=
  forallb (fun id =>
    match reg s0 id, obs_stack s1 ob id with
    | a :: _, c :: a' :: _ =>
        if (a' =? a) && negb (existsb (N.eqb c) (reg s0 id)) && obs_running ob a && (1 <=? cap s0)
        then existsb (frame_eqb (status_frame (ver (conns s0 a)) 1)) (news_for ob a) else true
    | _, _ => true
    end) ids.

(* when the active connection c is gone and the most recently displaced one p is observed
   active again, then p — if observed running, capacity >= 1 — received the healthy notice *)
Definition healthy_told (s0 s1 : state) (ob : obs) : bool :=
  forallb (fun id =>
    match reg s0 id, obs_stack s1 ob id with
    | c :: p :: _, p' :: _ =>
        if (p' =? p) && negb (existsb (N.eqb c) (obs_stack s1 ob id)) && obs_running ob p && (1 <=? cap s0)
        then existsb (frame_eqb (status_frame (ver (conns s0 p)) 0)) (news_for ob p) else true
    | _, _ => true
    end) ids.

(* a connection is served as long as it is open: every connection that is observed NOT running
   (its actor left its loop, or its client saw the end of the stream) is one whose client end
   closed or that a disconnect / shutdown request (or a send that found it closed) named —
   which of the two is a function of the script *)
Definition ends_explained (s1 : state) (ob : obs) : bool :=
  forallb (fun c => obs_running ob c || cancelled (conns s1 c) || closed (conns s1 c)) (crange s1).

Definition step_ok (s0 s1 : state) (ob : obs) : bool :=
  registry_ok s1 ob && gone_only_after_last s1 ob && gone_delivered s0 s1 ob &&
  took_over_told s0 s1 ob && healthy_told s0 s1 ob && ends_explained s1 ob.

Fixpoint monitor_steps (ss0 : sstate) (tr : list (sstate * obs)) (os : list obs) : bool :=
  match tr, os with
  | [], [] => true
  | (ss, _) :: tr', ob :: os' => step_ok (st ss0) (st ss) ob && monitor_steps ss tr' os'
  | _, _ => false
  end.

Definition monitor (i : input) (o : output) : bool :=
  match o with
  | Ok (os, _) => monitor_steps (mkSS (init (fst i)) None None) (trace i) os
  | _ => true      (* a harness failure is reported through agree *)
  end.

(* No known-finding class. *)
Definition known (i : input) : N := 0.

(* Branch tag: 0 trivial (no two connections of one endpoint ever registered together);
   1 duplicates without a paused register; 2 a register window with an actor exit inside;
   3 an unregister requested inside the window (the racing schedule);
   4 a stale unregister: of a connection whose entry Clients::shutdown had taken out of the map. *)
Definition has_dup (tr : list (sstate * obs)) : bool :=
  existsb (fun p => existsb (fun id => 1 <? len (reg (st (fst p)) id)) ids) tr.
Fixpoint window_tag (ss : sstate) (l : list op) : N :=
  match l with
  | [] => 0
  | o :: rest =>
      let here :=
        match win ss, deferred ss, o with
        | Some _, None, OUnreg c => if N.eqb (snd (exec_op ss o)) 0 then 0 else 3
        | Some _, None, OClose c => if N.eqb (snd (exec_op ss o)) 0 then 0 else 2
        | _, _, _ => 0
        end in
      N.max here (window_tag (fst (exec_op ss o)) rest)
  end.
(* a stale unregister happened: a connection taken out of the map by shutdown has unregistered *)
Definition has_stale (tr : list (sstate * obs)) : bool :=
  existsb (fun p => let s := st (fst p) in
                    existsb (fun c => taken (conns s c) && is_done (cstate (conns s c))) (crange s)) tr.
Definition tag (i : input) : N :=
  let w := window_tag (mkSS (init (fst i)) None None) (snd i) in
  if has_stale (trace i) then 4 else
  if 2 <=? w then w else if has_dup (trace i) then 1 else 0.

Definition judge (i : input) (o : output) : bool * bool * N * N :=
  (agree i o, monitor i o, known i, tag i).

End C06.
