(* C25 — DirectAddrUpdateState: scheduling of net-report runs (iroh/src/socket.rs).
   An interleaving transition system over the atomic steps the code has.
   Definitions only.

   Threads:
   - the socket actor (Actor::run, socket.rs:1486-1642), sequential; the steps modelled are
       ESched w r   re_stun(w) -> DirectAddrUpdateState::schedule_run (socket.rs:758-767):
                    try_lock_owned; Ok -> run(why, ..), Err -> want_update = Some(why)
       ERecv        the select arm `direct_addr_done_rx.recv()` yields Some(()) (socket.rs:1569-1571)
       ETry r       DirectAddrUpdateState::try_run (socket.rs:770-781), called from that arm:
                    try_lock_owned; Ok -> if let Some(why) = want_update.take() { run(..) };
                    Err -> nothing
     where `run` (socket.rs:784-841) returns early (dropping the guard it was given) when
     shutdown_token.is_cancelled() or relay_map.is_empty(), and otherwise spawns a run task
     that owns the guard;
   - one run task per spawned run (socket.rs:816-840):
       EWork t      get_report finishes (report, timeout or cancellation)   (818-823)
       EStore t     sock.net_report.set(..) / log                            (824-833)
       ERelease t   the OwnedMutexGuard `net_reporter` is dropped
       ESend t      run_done.send(()).await                                  (837)
       EEnd t       the task's future completes
     The ORDER of ERelease and ESend is the parameter [order]:
       SendFirst     the guard is dropped when the task ends, after the send (iroh as pinned);
       ReleaseFirst  `drop(net_reporter)` before the send (the fix, see notes/C25.md);
   - the environment: ESetRelays (Endpoint::insert_relay/remove_relay change the shared
     RelayMap before messaging the actor, socket.rs:1242/1251), EShutdown (the token is cancelled).

   The done channel is `mpsc::channel(8)` (socket.rs:1070); a send into a full channel waits,
   i.e. ESend is not enabled. *)
From V Require Import Lib.Base.
Open Scope N_scope.

Module C25.

Inductive reason := NoReason | Periodic | PortmapUpdated | LinkChangeMajor | LinkChangeMinor | RelayMapChange.

Inductive phase := Spawned | Worked | Stored.

(* rel: the task has dropped the reporter guard; snt: it has sent run_done *)
Record task := mkTask { tid : N; ph : phase; rel : bool; snt : bool }.

Record st := mkSt {
  want  : option reason;   (* DirectAddrUpdateState::want_update *)
  lock  : bool;            (* net_reporter mutex is locked *)
  tasks : list task;       (* run tasks that have not ended, oldest first *)
  doneq : N;               (* run_done messages queued *)
  got   : bool;            (* the actor has received a done message and is about to call try_run *)
  empty : bool;            (* relay_map.is_empty() *)
  down  : bool;            (* shutdown_token.is_cancelled() *)
  next  : N                (* id of the next run task *)
}.

Inductive sres := SStart (t : N) | SSkipEmpty | SSkipDown | SBusy.
Inductive tres := TStart (w : reason) (t : N) | TSkipEmpty (w : reason) | TSkipDown (w : reason) | TNoWant | TBusy.

Inductive ev :=
| ESetRelays (e : bool)
| EShutdown
| ESched (w : reason) (r : sres)
| ERecv
| ETry (r : tres)
| EWork (t : N)
| EStore (t : N)
| ERelease (t : N)
| ESend (t : N)
| EEnd (t : N).

Inductive order := SendFirst | ReleaseFirst.

Definition init (e0 : bool) : st := mkSt None false [] 0 false e0 false 1.

(* ---- what the code computes in the actor steps ---- *)

(* schedule_run + run *)
Definition sched_result (s : st) : sres :=
  if lock s then SBusy
  else if down s then SSkipDown
  else if empty s then SSkipEmpty
  else SStart (next s).

(* try_run + run *)
Definition try_result (s : st) : tres :=
  if lock s then TBusy
  else match want s with
       | None => TNoWant
       | Some w => if down s then TSkipDown w
                   else if empty s then TSkipEmpty w
                   else TStart w (next s)
       end.

(* ---- effects ---- *)

Definition set_want (s : st) (w : option reason) : st :=
  mkSt w (lock s) (tasks s) (doneq s) (got s) (empty s) (down s) (next s).
Definition set_got (s : st) (g : bool) : st :=
  mkSt (want s) (lock s) (tasks s) (doneq s) g (empty s) (down s) (next s).
Definition set_tasks (s : st) (l : list task) : st :=
  mkSt (want s) (lock s) l (doneq s) (got s) (empty s) (down s) (next s).
Definition set_lock (s : st) (b : bool) : st :=
  mkSt (want s) b (tasks s) (doneq s) (got s) (empty s) (down s) (next s).
Definition set_doneq (s : st) (n : N) : st :=
  mkSt (want s) (lock s) (tasks s) n (got s) (empty s) (down s) (next s).

(* the guard goes to a new run task *)
Definition spawn (s : st) (t : N) : st :=
  mkSt (want s) true (tasks s ++ [mkTask t Spawned false false]) (doneq s) (got s) (empty s) (down s) (t + 1).

Definition upd (t : N) (f : task -> task) (l : list task) : list task :=
  map (fun k => if tid k =? t then f k else k) l.
Definition del (t : N) (l : list task) : list task :=
  filter (fun k => negb (tid k =? t)) l.
Definition find_task (t : N) (l : list task) : option task :=
  find (fun k => tid k =? t) l.

Definition set_ph (p : phase) (k : task) : task := mkTask (tid k) p (rel k) (snt k).
Definition set_rel (k : task) : task := mkTask (tid k) (ph k) true (snt k).
Definition set_snt (k : task) : task := mkTask (tid k) (ph k) (rel k) true.

(* The effect of an observed event (results are taken from the event). *)
Definition apply (s : st) (e : ev) : st :=
  match e with
  | ESetRelays b => mkSt (want s) (lock s) (tasks s) (doneq s) (got s) b (down s) (next s)
  | EShutdown => mkSt (want s) (lock s) (tasks s) (doneq s) (got s) (empty s) true (next s)
  | ESched w (SStart t) => spawn s t
  | ESched w SBusy => set_want s (Some w)
  | ESched w _ => s
  | ERecv => set_got (set_doneq s (doneq s - 1)) true
  | ETry (TStart w t) => spawn (set_got (set_want s None) false) t
  | ETry (TSkipEmpty w) | ETry (TSkipDown w) => set_got (set_want s None) false
  | ETry TNoWant | ETry TBusy => set_got s false
  | EWork t => set_tasks s (upd t (set_ph Worked) (tasks s))
  | EStore t => set_tasks s (upd t (set_ph Stored) (tasks s))
  | ERelease t => set_lock (set_tasks s (upd t set_rel (tasks s))) false
  | ESend t => set_doneq (set_tasks s (upd t set_snt (tasks s))) (doneq s + 1)
  | EEnd t => set_tasks s (del t (tasks s))
  end.

(* ---- enabledness ---- *)

Definition reason_eqb (a b : reason) : bool :=
  match a, b with
  | NoReason, NoReason | Periodic, Periodic | PortmapUpdated, PortmapUpdated
  | LinkChangeMajor, LinkChangeMajor | LinkChangeMinor, LinkChangeMinor
  | RelayMapChange, RelayMapChange => true
  | _, _ => false
  end.
Definition sres_eqb (a b : sres) : bool :=
  match a, b with
  | SStart x, SStart y => x =? y
  | SSkipEmpty, SSkipEmpty | SSkipDown, SSkipDown | SBusy, SBusy => true
  | _, _ => false
  end.
Definition tres_eqb (a b : tres) : bool :=
  match a, b with
  | TStart w x, TStart v y => reason_eqb w v && (x =? y)
  | TSkipEmpty w, TSkipEmpty v | TSkipDown w, TSkipDown v => reason_eqb w v
  | TNoWant, TNoWant | TBusy, TBusy => true
  | _, _ => false
  end.
Definition ev_eqb (a b : ev) : bool :=
  match a, b with
  | ESetRelays x, ESetRelays y => Bool.eqb x y
  | EShutdown, EShutdown | ERecv, ERecv => true
  | ESched w r, ESched v q => reason_eqb w v && sres_eqb r q
  | ETry r, ETry q => tres_eqb r q
  | EWork x, EWork y | EStore x, EStore y | ERelease x, ERelease y
  | ESend x, ESend y | EEnd x, EEnd y => x =? y
  | _, _ => false
  end.

Definition is_ph (p : phase) (k : task) : bool :=
  match p, ph k with
  | Spawned, Spawned | Worked, Worked | Stored, Stored => true
  | _, _ => false
  end.

Definition task_is (s : st) (t : N) (p : task -> bool) : bool :=
  match find_task t (tasks s) with Some k => p k | None => false end.

Definition enabled (o : order) (cap : N) (s : st) (e : ev) : bool :=
  match e with
  | ESetRelays _ | EShutdown => true
  | ESched w r => negb (got s) && sres_eqb r (sched_result s)
  | ERecv => negb (got s) && (0 <? doneq s)
  | ETry r => got s && tres_eqb r (try_result s)
  | EWork t => task_is s t (is_ph Spawned)
  | EStore t => task_is s t (is_ph Worked)
  | ERelease t =>
      task_is s t (fun k => is_ph Stored k && negb (rel k) &&
                            match o with SendFirst => snt k | ReleaseFirst => true end)
  | ESend t =>
      task_is s t (fun k => is_ph Stored k && negb (snt k) &&
                            match o with ReleaseFirst => rel k | SendFirst => true end)
      && (doneq s <? cap)
  | EEnd t => task_is s t (fun k => is_ph Stored k && rel k && snt k)
  end.

Definition step (o : order) (cap : N) (s : st) (e : ev) : option st :=
  if enabled o cap s e then Some (apply s e) else None.

Fixpoint steps (o : order) (cap : N) (s : st) (tr : list ev) : option st :=
  match tr with
  | [] => Some s
  | e :: tr' => match step o cap s e with Some s' => steps o cap s' tr' | None => None end
  end.

(* ---- the property, as a function of a state ---- *)

(* something will still make the actor call try_run *)
Definition pending_trigger (s : st) : bool :=
  (0 <? doneq s) || got s || existsb (fun k => negb (snt k)) (tasks s).
Definition nostuck_b (s : st) : bool :=
  match want s with None => true | Some _ => pending_trigger s end.
(* at most one task holds the reporter guard, and the lock is held exactly then *)
Definition holders (s : st) : list task := filter (fun k => negb (rel k)) (tasks s).
Definition onerun_b (s : st) : bool :=
  match holders s with
  | [] => negb (lock s)
  | [_] => lock s
  | _ => false
  end.
Definition good_b (s : st) : bool := nostuck_b s && onerun_b s.

Fixpoint all_states (s : st) (tr : list ev) : bool :=
  good_b s && match tr with [] => true | e :: tr' => all_states (apply s e) tr' end.

(* ---- the correspondence harness: commands and the events each must produce ---- *)

Inductive cmd := CIns | CRem | CWork | CSend (k : N) | CEnd (k : N) | CTry.

Definition run_evs (s : st) (l : list ev) : st := fold_left apply l s.

(* an idle actor with a queued done message receives it (and parks before try_run) *)
Definition auto_recv (s : st) : list ev :=
  if negb (got s) && (0 <? doneq s) then [ERecv] else [].

Definition pick (k : N) (l : list task) : option task :=
  match l with
  | [] => None
  | _ => nth_error l (N.to_nat (k mod len l))
  end.

(* run tasks parked at the three pause points *)
Definition at_p0 (s : st) : list task := filter (is_ph Spawned) (tasks s).
Definition at_p1 (s : st) : list task := filter (fun k => is_ph Stored k && negb (snt k)) (tasks s).
Definition at_p2 (s : st) : list task := filter (fun k => is_ph Stored k && snt k) (tasks s).

Definition exec (o : order) (cap : N) (s : st) (c : cmd) : list ev :=
  match c with
  | CIns | CRem =>
      if got s then [] else
      let e1 := ESetRelays (match c with CRem => true | _ => false end) in
      [e1; ESched RelayMapChange (sched_result (apply s e1))]
  | CWork =>
      match at_p0 s with
      | [] => []
      | k :: _ => [EWork (tid k); EStore (tid k)] ++
                  match o with ReleaseFirst => [ERelease (tid k)] | SendFirst => [] end
      end
  | CSend n =>
      if cap <=? doneq s then [] else
      match pick n (at_p1 s) with
      | None => []
      | Some k => let e := ESend (tid k) in e :: auto_recv (apply s e)
      end
  | CEnd n =>
      match pick n (at_p2 s) with
      | None => []
      | Some k => (if rel k then [] else [ERelease (tid k)]) ++ [EEnd (tid k)]
      end
  | CTry =>
      if got s then let e := ETry (try_result s) in e :: auto_recv (apply s e) else []
  end.

(* The events of a command are kept while the transition system enables them (so the
   predicted trace is a run of the system by construction; a wrong prediction shows
   up as a disagreement with the observed trace). *)
Fixpoint keep_enabled (o : order) (cap : N) (s : st) (l : list ev) : list ev * st :=
  match l with
  | [] => ([], s)
  | e :: l' =>
      match step o cap s e with
      | Some s' => let (r, s'') := keep_enabled o cap s' l' in (e :: r, s'')
      | None => ([], s)
      end
  end.

Fixpoint exec_all (o : order) (cap : N) (s : st) (cs : list cmd) : list ev :=
  match cs with
  | [] => []
  | c :: cs' => let (l, s') := keep_enabled o cap s (exec o cap s c) in l ++ exec_all o cap s' cs'
  end.

(* startup: the first tick of periodic_re_stun_timer (time::interval, immediate) calls
   re_stun(Periodic) *)
Definition startup (s : st) : list ev := [ESched Periodic (sched_result s)].

(* ---- interface ---- *)

(* The code as it is in /repo. *)
Definition code_order : order := ReleaseFirst.
Definition DONE_CAP : N := 8.   (* mpsc::channel(8), socket.rs:1070 *)

Definition input := (bool * list cmd)%type.   (* relay map empty at bind?, script *)
Definition output := res (list ev).

Definition model_trace (o : order) (i : input) : list ev :=
  let s0 := init (fst i) in
  let (l0, s1) := keep_enabled o DONE_CAP s0 (startup s0) in
  l0 ++ exec_all o DONE_CAP s1 (snd i).

Definition model (i : input) : output := Ok (model_trace code_order i).

Definition agree (i : input) (o : output) : bool := res_eqb (list_eqb ev_eqb) (model i) o.

Definition monitor (i : input) (o : output) : bool :=
  match o with
  | Ok tr => all_states (init (fst i)) tr
  | _ => false
  end.

Definition known (i : input) : N := 0.

(* coverage: 0 = no request ever met a running report; otherwise
   1 + 2*[try_run found the lock held] + 4*[try_run consumed a request]
     + 8*[a run was skipped] + 16*[try_run with nothing wanted] *)
Definition has (p : ev -> bool) (l : list ev) : N := if existsb p l then 1 else 0.
Definition tag (i : input) : N :=
  let l := model_trace code_order i in
  if existsb (fun e => match e with ESched _ SBusy => true | _ => false end) l then
    1 + 2 * has (fun e => match e with ETry TBusy => true | _ => false end) l
      + 4 * has (fun e => match e with ETry (TStart _ _) | ETry (TSkipEmpty _) | ETry (TSkipDown _) => true | _ => false end) l
      + 8 * has (fun e => match e with ESched _ SSkipEmpty | ESched _ SSkipDown | ETry (TSkipEmpty _) | ETry (TSkipDown _) => true | _ => false end) l
      + 16 * has (fun e => match e with ETry TNoWant => true | _ => false end) l
  else 0.

Definition judge (i : input) (o : output) : bool * bool * N * N :=
  (agree i o, monitor i o, known i, tag i).

End C25.
