(* C16 — Datagrams::take_segments (iroh-relay/src/protos/relay.rs).
   Executable model, definitions only. *)
From V Require Import Lib.Base Lib.MachineInt.
Open Scope N_scope.

Module C16.

Record dg := mkDg { ecn : N; seg : option N; contents : bytes }.

Definition dg_eqb (a b : dg) : bool :=
  N.eqb (ecn a) (ecn b) && opt_eqb N.eqb (seg a) (seg b) && bytes_eqb (contents a) (contents b).

(* take_segments: returns (returned batch, what is left in self).
     let Some(segment_size) = self.segment_size else { take everything };
     let max_content_len = num_segments.saturating_mul(usize_segment_size);
     let contents = self.contents.split_to(min(max_content_len, len));
     let is_datagram_batch = num_segments > 1 && usize_segment_size < contents.len();
     if self.contents.len() <= usize_segment_size { self.segment_size = None }   *)
Definition take_segments (d : dg) (n : N) : res (dg * dg) :=
  match seg d with
  | None =>
      Ok (mkDg (ecn d) None (contents d), mkDg (ecn d) None [])
  | Some ss =>
      let maxlen := u64_sat_mul n ss in
      let k := N.to_nat (N.min maxlen (len (contents d))) in
      let piece := firstn k (contents d) in
      let rest := skipn k (contents d) in
      let is_batch := (1 <? n) && (ss <? len piece) in
      Ok (mkDg (ecn d) (if is_batch then Some ss else None) piece,
          mkDg (ecn d) (if len rest <=? ss then None else Some ss) rest)
  end.

(* The harness loop: take until self is empty; records (piece, digest of what is left in self) per step.
   Err 1 = out of fuel (the harness reports non-termination the same way). *)
Definition digest (r : dg) : option N * N := (seg r, len (contents r)).

Fixpoint unfold_take (fuel : nat) (d : dg) (n : N) : res (list (dg * (option N * N))) :=
  match fuel with
  | O => Err 1
  | S f =>
      match take_segments d n with
      | Panic => Panic
      | Err e => Err e
      | Ok (p, r) =>
          match contents r with
          | [] => Ok [(p, digest r)]
          | _ :: _ =>
              match unfold_take f r n with
              | Ok l => Ok ((p, digest r) :: l)
              | Err e => Err e
              | Panic => Panic
              end
          end
      end
  end.

Definition input := (dg * N)%type.
Definition output := res (list (dg * (option N * N))).

Definition model (i : input) : output :=
  let '(d, n) := i in unfold_take (S (length (contents d))) d n.

Definition pair_eqb (x y : dg * (option N * N)) : bool :=
  dg_eqb (fst x) (fst y) && opt_eqb N.eqb (fst (snd x)) (fst (snd y)) && N.eqb (snd (snd x)) (snd (snd y)).
Definition agree (i : input) (o : output) : bool := res_eqb (list_eqb pair_eqb) (model i) o.

(* The property as a boolean function of an observed output. *)
Definition piece_ok (d : dg) (n : N) (p : dg) : bool :=
  N.eqb (ecn p) (ecn d) &&
  match seg d with
  | None => match seg p with None => true | Some _ => false end
  | Some ss =>
      (len (contents p) <=? n * ss) &&
      match seg p with
      | None => len (contents p) <=? ss            (* no segment size: holds a single datagram *)
      | Some s => N.eqb s ss && (ss <? len (contents p))   (* segment size only with more than one *)
      end
  end.

Definition wf (d : dg) : bool :=
  match seg d with None => true | Some ss => (1 <=? ss) && (ss <=? U16_MAX) end.

Definition monitor (i : input) (o : output) : bool :=
  let '(d, n) := i in
  if negb (wf d) || (n <? 1) then true else
  match o with
  | Ok steps =>
      bytes_eqb (concat (map (fun s => contents (fst s)) steps)) (contents d) &&
      forallb (fun s => piece_ok d n (fst s)) steps
  | _ => false
  end.

(* Known-finding classes (none listed after the fix). *)
Definition known (i : input) : N := 0.

(* Branch tag for coverage statistics:
   0 trivial (empty contents) / 1 single datagram / 2 batch, one piece /
   3 batch split into several pieces / 4 n*ss saturates. *)
Definition tag (i : input) : N :=
  let '(d, n) := i in
  match contents d with
  | [] => 0
  | _ => match seg d with
         | None => 1
         | Some ss => if U64_MAX <? n * ss then 4
                      else if len (contents d) <=? n * ss then 2 else 3
         end
  end.

Definition judge (i : input) (o : output) : bool * bool * N * N :=
  (agree i o, monitor i o, known i, tag i).

End C16.
