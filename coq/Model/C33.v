(* C33 — pkarr Timestamp::now: CAS loop on LAST_TIMESTAMP
   (iroh-dns/src/pkarr.rs:334-374).  Executable model, definitions only.

     let micros = SystemTime::now()...as_micros() as u64;          // ReadClock m   (any m)
     let mut last = LAST_TIMESTAMP.load(Relaxed);                   // Load
     loop {
         let next = micros.max(last + 1);                           // last + 1 overflows (panics in a debug build) iff last = u64::MAX
         match LAST_TIMESTAMP.compare_exchange_weak(last, next, ..) // Cas (may also fail spuriously: CasSpur)
         { Ok(_) => return Self(next),                              // Ret
           Err(actual) => last = actual }
     }
   One atomic cell shared by all threads; every line above is one atomic step
   of one thread; a trace is an arbitrary list of (thread, action). *)
From V Require Import Lib.Base Lib.MachineInt.
Open Scope N_scope.

Module C33.

Inductive lstate :=
| Idle                      (* not inside Timestamp::now *)
| Clock (m : N)             (* clock read *)
| Loaded (m last : N)       (* in the loop, holding `last` *)
| Won (v : N)               (* CAS succeeded with v, about to return it *)
| Dead.                     (* panicked (overflow of last + 1) *)

Inductive action :=
| ReadClock (m : N)
| Load
| Cas
| CasSpur                   (* compare_exchange_weak failing although the values are equal *)
| Ret.

Record st := mk {
  cell : N;                         (* LAST_TIMESTAMP *)
  loc : nat -> lstate;              (* per thread *)
  wins : list N;                    (* values stored by successful CASes, newest first *)
  rets : list (nat * N);            (* (thread, value) returned, newest first *)
  panics : N                        (* number of calls that panicked *)
}.

Definition upd (f : nat -> lstate) (t : nat) (x : lstate) : nat -> lstate :=
  fun t' => if Nat.eqb t' t then x else f t'.

Definition set_loc (s : st) (t : nat) (x : lstate) : st :=
  mk (cell s) (upd (loc s) t x) (wins s) (rets s) (panics s).

(* An action that is not enabled in the thread's state leaves the state unchanged,
   so every list of events is a trace. *)
Definition step (s : st) (e : nat * action) : st :=
  let '(t, a) := e in
  match a, loc s t with
  | ReadClock m, Idle => set_loc s t (Clock m)
  | ReadClock m, Dead => set_loc s t (Clock m)       (* a later call on a thread whose panic was caught *)
  | Load, Clock m => set_loc s t (Loaded m (cell s))
  | Cas, Loaded m last =>
      if last =? U64_MAX then mk (cell s) (upd (loc s) t Dead) (wins s) (rets s) (panics s + 1)
      else
        let next := N.max m (last + 1) in
        if cell s =? last
        then mk next (upd (loc s) t (Won next)) (next :: wins s) (rets s) (panics s)
        else set_loc s t (Loaded m (cell s))
  | CasSpur, Loaded m last =>
      if last =? U64_MAX then mk (cell s) (upd (loc s) t Dead) (wins s) (rets s) (panics s + 1)
      else set_loc s t (Loaded m (cell s))
  | Ret, Won v => mk (cell s) (upd (loc s) t Idle) (wins s) ((t, v) :: rets s) (panics s)
  | _, _ => s
  end.

Definition run (s : st) (tr : list (nat * action)) : st := fold_left step tr s.

Definition init (c0 : N) : st := mk c0 (fun _ => Idle) [] [] 0.

(* ---------------- correspondence interface ---------------- *)
(* Scripted schedules (pause point after the load):
     B t m : thread t starts a call with clock reading m and runs up to (and including) the load;
     F t   : thread t runs to completion (all other threads stand still). *)
Inductive op := B (t : nat) (m : N) | F (t : nat).

Inductive input :=
| Sched (c0 : N) (ops : list op)
| Stress (c0 : N) (nthreads : N).
   (* Stress: every thread performs calls concurrently; observed per call:
      (clock reading, floor = largest value any call had returned before this call began, returned value) *)

Inductive output :=
| OSched (l : list (res N))                       (* one per effective F: returned value or panic *)
| OStress (l : list (list (N * N * N))).          (* per thread, in call order *)

Definition busy (x : lstate) : bool :=
  match x with Loaded _ _ => true | Clock _ => true | Won _ => true | _ => false end.

Fixpoint exec (s : st) (ops : list op) : list (res N) :=
  match ops with
  | [] => []
  | B t m :: r =>
      if busy (loc s t) then exec s r                      (* ignored by the harness as well *)
      else exec (run s [(t, ReadClock m); (t, Load)]) r
  | F t :: r =>
      match loc s t with
      | Loaded _ _ =>
          let s' := run s [(t, Cas); (t, Cas)] in          (* a failed CAS is retried once: nobody else moves *)
          match loc s' t with
          | Won v => Ok v :: exec (step s' (t, Ret)) r
          | Dead => Panic :: exec s' r
          | _ => Err 1 :: exec s' r                         (* unreachable, see Proofs *)
          end
      | _ => exec s r
      end
  end.

Definition model (i : input) : list (res N) :=
  match i with Sched c0 ops => exec (init c0) ops | Stress _ _ => [] end.

(* --- stress: merge sort of (value, clock) pairs by value --- *)
Fixpoint merge_by (fuel : nat) (a b : list (N * N)) : list (N * N) :=
  match fuel with
  | O => a ++ b
  | Datatypes.S f =>
      match a, b with
      | [], _ => b
      | _, [] => a
      | x :: a', y :: b' =>
          if fst x <=? fst y then x :: merge_by f a' b else y :: merge_by f a b'
      end
  end.
Definition merge (a b : list (N * N)) := merge_by (length a + length b) a b.

Fixpoint insert_v (x : N * N) (l : list (N * N)) : list (N * N) :=
  match l with
  | [] => [x]
  | y :: l' => if fst x <=? fst y then x :: l else y :: insert_v x l'
  end.

(* per-thread lists are (almost) sorted already: insertion sort per thread, then merge *)
Definition sort_thread (l : list (N * N * N)) : list (N * N) :=
  fold_right (fun c acc => insert_v (snd c, fst (fst c)) acc) [] l.
Definition all_sorted (ls : list (list (N * N * N))) : list (N * N) :=
  fold_right (fun l acc => merge (sort_thread l) acc) [] ls.

(* admissible for the model: walking the returned values in increasing order,
   each is its own clock reading, or the predecessor (previous cell value) + 1
   and above its clock reading:  next = max(m, last + 1)  with last a cell value. *)
Fixpoint walk (prev : N) (l : list (N * N)) : bool :=
  match l with
  | [] => true
  | (v, m) :: r => (prev <? v) && ((v =? m) || ((m <? v) && (v =? prev + 1))) && walk v r
  end.

Fixpoint strictly_inc (prev : option N) (l : list N) : bool :=
  match l with
  | [] => true
  | v :: r => match prev with Some p => p <? v | None => true end && strictly_inc (Some v) r
  end.

Definition agree (i : input) (o : output) : bool :=
  match i, o with
  | Sched _ _, OSched l => list_eqb (res_eqb N.eqb) (model i) l
  | Stress c0 n, OStress ls => (len ls =? n) && walk c0 (all_sorted ls)
  | _, _ => false
  end.

(* The property on observed outputs: all returned values pairwise distinct,
   increasing per thread, and greater than everything returned before the call
   began (floor); no panic unless the cell reached u64::MAX. *)
Definition monitor (i : input) (o : output) : bool :=
  match i, o with
  | Sched c0 ops, OSched l =>
      (* sequentially consistent schedule: completion order is return order *)
      let vals := flat_map (fun r => match r with Ok v => [v] | _ => [] end) l in
      strictly_inc (Some c0) vals &&
      (forallb (fun r => negb (is_panic r)) l || (U64_MAX <=? c0) ||
       existsb (fun r => match r with Ok v => U64_MAX <=? v | _ => false end) l)
  | Stress c0 n, OStress ls =>
      strictly_inc (Some c0) (map fst (all_sorted ls)) &&
      forallb (fun l => strictly_inc None (map snd l)) ls &&
      forallb (fun l => forallb (fun c => snd (fst c) <? snd c) l) ls
  | _, _ => false
  end.

Definition known (i : input) : N := 0.

(* 0 trivial (no call completes) / 1 all CASes succeed at once / 2 some CAS fails and is retried /
   3 a call panics (cell at u64::MAX) / 4 stress *)
Definition has_retry (s0 : st) (ops : list op) : bool :=
  (fix go (s : st) (ops : list op) : bool :=
     match ops with
     | [] => false
     | B t m :: r => if busy (loc s t) then go s r else go (run s [(t, ReadClock m); (t, Load)]) r
     | F t :: r =>
         match loc s t with
         | Loaded _ last =>
             let s' := run s [(t, Cas); (t, Cas)] in
             negb (cell s =? last) ||
             go (match loc s' t with Won _ => step s' (t, Ret) | _ => s' end) r
         | _ => go s r
         end
     end) s0 ops.

Definition tag (i : input) : N :=
  match i with
  | Stress _ _ => 4
  | Sched c0 ops =>
      let out := exec (init c0) ops in
      match out with
      | [] => 0
      | _ => if existsb is_panic out then 3
             else if has_retry (init c0) ops then 2 else 1
      end
  end.

Definition judge (i : input) (o : output) : bool * bool * N * N :=
  (agree i o, monitor i o, known i, tag i).

End C33.
