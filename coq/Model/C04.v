(* C04 / C05 — the relay data path: the per-connection actor
   (iroh-relay/src/server/client.rs), the registry's routing
   (server/clients.rs), the destination sink's checks (server/streams.rs) and the
   client-to-relay decoder (protos/relay.rs, protos/common.rs).
   Executable model, definitions only.  The same model serves C05 (Model/C05.v).

   The model is an interleaving transition system: [step cfg s e] performs one
   atomic step [e] of the real code (one select-arm of an actor loop, one
   critical section of the registry), [run cfg t] a whole trace.  The
   correspondence harness drives the real code with op lists on one thread and
   waits for quiescence after each op; [exec] reproduces exactly that schedule
   as a trace of [step]s, so every compared run is a run of the transition system. *)
From V Require Import Lib.Base Gen.Consts.
Open Scope N_scope.

Module C04.

(* n copies of byte b: cheap long contents for the size-boundary cases *)
Definition rep (n b : N) : bytes := repeat b (N.to_nat n).

(* ------------------------------------------------------------------ wire *)
(* Datagrams (protos/relay.rs:198): ecn as written on the wire (0 = None),
   segment size (None, or Some nonzero u16), contents. *)
Record dgram := mkDg { d_ecn : N; d_seg : option N; d_data : bytes }.

Inductive cmsg :=
| CDatagrams (dst : bytes) (d : dgram)
| CPing (p : bytes)
| CPong (p : bytes).

(* noq_proto VarInt::decode (QUIC varint): top two bits of the first byte give
   the length 1/2/4/8.  None = UnexpectedEnd. *)
Definition varint (b : bytes) : option (N * bytes) :=
  match b with
  | [] => None
  | x :: r =>
      let v := x mod 64 in
      match x / 64 with
      | 0 => Some (v, r)
      | 1 => match r with
             | a :: r' => Some (v * 256 + a, r')
             | _ => None
             end
      | 2 => match r with
             | a :: b :: c :: r' => Some (((v * 256 + a) * 256 + b) * 256 + c, r')
             | _ => None
             end
      | _ => match r with
             | a :: b :: c :: d :: e :: f :: g :: r' =>
                 Some (((((((v * 256 + a) * 256 + b) * 256 + c) * 256 + d) * 256 + e) * 256 + f) * 256 + g, r')
             | _ => None
             end
      end
  end.

(* ClientToRelayMsg::from_bytes (protos/relay.rs:540-579) with FrameType::from_bytes
   (protos/common.rs:104-111) and Datagrams::from_bytes (relay.rs:280-303).
   [valid k]: the 32 bytes parse as a public key (KeyCache::key_from_slice) - the
   key parser is outside this model and supplied by the case.
   Error codes: 1 UnexpectedEnd, 2 UnknownFrameType, 3 FrameTooLarge, 4 InvalidFrame,
   5 InvalidPublicKey, 6 InvalidFrameType. *)
Definition decode (valid : bytes -> bool) (raw : bytes) : res cmsg :=
  match varint raw with
  | None => Err 1
  | Some (t, c) =>
      if 13 <? t then Err 2
      else if MAX_PACKET_SIZE <? len c then Err 3       (* frame_len excludes the type bytes *)
      else if (t =? 4) || (t =? 5) then
        if len c <? 32 then Err 4
        else
          let k := firstn 32 c in
          let r := skipn 32 c in
          if negb (valid k) then Err 5
          else if t =? 5 then
            match r with
            | e :: s1 :: s2 :: data =>
                let ss := s1 * 256 + s2 in
                Ok (CDatagrams k (mkDg (e mod 4) (if ss =? 0 then None else Some ss) data))
            | _ => Err 4
            end
          else
            match r with
            | e :: data => Ok (CDatagrams k (mkDg (e mod 4) None data))
            | [] => Err 4
            end
      else if t =? 9 then (if len c =? 8 then Ok (CPing c) else Err 4)
      else if t =? 10 then (if len c =? 8 then Ok (CPong c) else Err 4)
      else Err 6
  end.

(* RelayToClientMsg::Datagrams::encoded_len (relay.rs:372-388, 273-277):
   type byte + 32 byte sender id + ecn byte + optional u16 + contents. *)
Definition relayed_len (d : dgram) : N :=
  1 + 32 + 1 + (match d_seg d with Some _ => 2 | None => 0 end) + len (d_data d).

(* RelayedStream::start_send (server/streams.rs:130-143) for a datagram frame:
   size <= MAX_PACKET_SIZE and contents not empty; otherwise the write errors. *)
Definition sink_ok (d : dgram) : bool :=
  (relayed_len d <=? MAX_PACKET_SIZE) &&
  match d_data d with [] => false | _ => true end.

(* The sender-side check in Actor::handle_frame_send_packet (client.rs:524-545,
   Datagrams::is_forwardable, relay.rs): datagrams the destination's sink would
   refuse are dropped by the SENDER's actor (added by the fix for C05). *)
Definition forwardable (d : dgram) : bool :=
  match d_data d with [] => false | _ => true end && (relayed_len d <=? MAX_PACKET_SIZE).

(* ------------------------------------------------------------------ state *)
(* A queued packet (client.rs:41 Packet).  p_tag is a ghost: the position in the
   trace of the step that accepted it. *)
Record pkt := mkPkt { p_src : bytes; p_dg : dgram; p_tag : N }.

(* Queued control messages (message_queue).  Health status codes: 0 Healthy,
   1 SameEndpointIdConnected; MStatus for V2 connections, MHealth for V1. *)
Inductive msg := MStatus (c : N) | MHealth (c : N) | MGone (id : bytes).

(* Frames written to a connection's socket. *)
Inductive frame :=
| FD (p : pkt) | FPong (d : bytes) | FPing | FStatus (c : N) | FHealth (c : N) | FGone (id : bytes).

Definition frame_of_msg (m : msg) : frame :=
  match m with MStatus c => FStatus c | MHealth c => FHealth c | MGone i => FGone i end.

(* Life of a connection actor: Running (in run_inner's loop) -> Exiting (run_inner
   returned, client.rs:354) -> Unregistered (after Clients::unregister, :363) ->
   Dropped (actor dropped: queue receivers closed, socket closed). *)
Inductive phase := Running | Exiting | Unregistered | Dropped.

(* Why run_inner returned. *)
Inductive cause :=
| COwnClose     (* its stream ended or errored: HandleFrameError::StreamTerminated / Recv *)
| COwnFrame     (* it sent a frame the decoder rejects: RecvError::Proto *)
| COwnSocket    (* write timeout, sink/flush error, ping timeout on its own socket *)
| COperator     (* Clients::disconnect cancelled it *)
| CPeerCancel   (* cancelled by send_packet's Closed branch (clients.rs:230) *)
| CPktWrite.    (* start_send refused a queued packet: RunError::PacketSend (client.rs:414) *)

Record conn := mkConn {
  c_id : bytes;          (* authenticated endpoint id (guard.endpoint_id) *)
  c_ver : N;             (* protocol version 1 | 2 *)
  c_ins : bool;          (* register's map insertion has happened *)
  c_phase : phase;
  c_why : option cause;
  c_cop : bool;          (* cancellation token set by Clients::disconnect *)
  c_cint : bool;         (* cancellation token set by send_packet's Closed branch (same token; ghost split) *)
  c_pq : list pkt;       (* packet_queue, oldest first *)
  c_mq : list msg;       (* message_queue, oldest first *)
  c_out : list frame     (* frames written to the socket, oldest first *)
}.

(* ClientState (clients.rs:40): connection numbers are positions in [conns]. *)
Record entry := mkEntry { e_id : bytes; e_active : N; e_inactive : list N }.

Record state := mkState {
  conns : list conn;
  reg : list entry;                    (* Inner::clients *)
  sent : list (bytes * list bytes);    (* Inner::sent_to *)
  clock : N;                           (* ghost: number of steps taken *)
  flags : N                            (* ghost: branch coverage bits *)
}.

(* cap: Config::channel_capacity as set by the embedder; 0 = not set, i.e. Config::new's
   default PER_CLIENT_SEND_QUEUE_DEPTH (client.rs:88). *)
Record cfg := mkCfg { cap : N; valid : bytes -> bool }.
Definition eff_cap (c : cfg) : N := if cap c =? 0 then PER_CLIENT_SEND_QUEUE_DEPTH else cap c.

Definition init : state := mkState [] [] [] 0 0.

(* ---- connection access ---- *)
Definition getc (s : state) (k : N) : option conn := nth_error (conns s) (N.to_nat k).

Fixpoint upd_nat (n : nat) (f : conn -> conn) (l : list conn) : list conn :=
  match l, n with
  | [], _ => []
  | x :: r, O => f x :: r
  | x :: r, S n' => x :: upd_nat n' f r
  end.

Definition updc (s : state) (k : N) (f : conn -> conn) : state :=
  mkState (upd_nat (N.to_nat k) f (conns s)) (reg s) (sent s) (clock s) (flags s).

Definition set_reg (s : state) (r : list entry) : state :=
  mkState (conns s) r (sent s) (clock s) (flags s).
Definition set_sent (s : state) (x : list (bytes * list bytes)) : state :=
  mkState (conns s) (reg s) x (clock s) (flags s).
Definition flag (s : state) (b : N) : state :=
  mkState (conns s) (reg s) (sent s) (clock s) (N.lor (flags s) b).
Definition tick (s : state) : state :=
  mkState (conns s) (reg s) (sent s) (clock s + 1) (flags s).

Definition with_pq (q : list pkt) (c : conn) : conn :=
  mkConn (c_id c) (c_ver c) (c_ins c) (c_phase c) (c_why c) (c_cop c) (c_cint c) q (c_mq c) (c_out c).
Definition with_mq (q : list msg) (c : conn) : conn :=
  mkConn (c_id c) (c_ver c) (c_ins c) (c_phase c) (c_why c) (c_cop c) (c_cint c) (c_pq c) q (c_out c).
Definition with_out (o : list frame) (c : conn) : conn :=
  mkConn (c_id c) (c_ver c) (c_ins c) (c_phase c) (c_why c) (c_cop c) (c_cint c) (c_pq c) (c_mq c) o.
Definition with_phase (p : phase) (c : conn) : conn :=
  mkConn (c_id c) (c_ver c) (c_ins c) p (c_why c) (c_cop c) (c_cint c) (c_pq c) (c_mq c) (c_out c).
Definition with_exit (w : cause) (c : conn) : conn :=
  mkConn (c_id c) (c_ver c) (c_ins c) Exiting (Some w) (c_cop c) (c_cint c) (c_pq c) (c_mq c) (c_out c).
Definition with_cop (c : conn) : conn :=
  mkConn (c_id c) (c_ver c) (c_ins c) (c_phase c) (c_why c) true (c_cint c) (c_pq c) (c_mq c) (c_out c).
Definition with_cint (c : conn) : conn :=
  mkConn (c_id c) (c_ver c) (c_ins c) (c_phase c) (c_why c) (c_cop c) true (c_pq c) (c_mq c) (c_out c).
Definition with_ins (c : conn) : conn :=
  mkConn (c_id c) (c_ver c) true (c_phase c) (c_why c) (c_cop c) (c_cint c) (c_pq c) (c_mq c) (c_out c).

Definition is_running (c : conn) : bool := match c_phase c with Running => true | _ => false end.
(* the queue receivers live until the actor is dropped *)
Definition is_open (c : conn) : bool := match c_phase c with Dropped => false | _ => true end.

(* ---- registry access (DashMap keyed by endpoint id) ---- *)
Fixpoint find_entry (id : bytes) (r : list entry) : option entry :=
  match r with
  | [] => None
  | e :: r' => if bytes_eqb (e_id e) id then Some e else find_entry id r'
  end.
Fixpoint remove_entry (id : bytes) (r : list entry) : list entry :=
  match r with
  | [] => []
  | e :: r' => if bytes_eqb (e_id e) id then r' else e :: remove_entry id r'
  end.
Fixpoint put_entry (n : entry) (r : list entry) : list entry :=
  match r with
  | [] => [n]
  | e :: r' => if bytes_eqb (e_id e) (e_id n) then n :: r' else e :: put_entry n r'
  end.

Fixpoint find_sent (id : bytes) (x : list (bytes * list bytes)) : option (list bytes) :=
  match x with
  | [] => None
  | (k, v) :: x' => if bytes_eqb k id then Some v else find_sent id x'
  end.
Fixpoint remove_sent (id : bytes) (x : list (bytes * list bytes)) : list (bytes * list bytes) :=
  match x with
  | [] => []
  | (k, v) :: x' => if bytes_eqb k id then x' else (k, v) :: remove_sent id x'
  end.
Definition mem_bytes (b : bytes) (l : list bytes) : bool := existsb (bytes_eqb b) l.
(* sent_to.entry(src).or_default().insert(dst)  (clients.rs:215) *)
Fixpoint record_sent (src dst : bytes) (x : list (bytes * list bytes)) : list (bytes * list bytes) :=
  match x with
  | [] => [(src, [dst])]
  | (k, v) :: x' =>
      if bytes_eqb k src then (k, if mem_bytes dst v then v else v ++ [dst]) :: x'
      else (k, v) :: record_sent src dst x'
  end.

(* tokio mpsc try_send on a bounded queue *)
Inductive tsr := TsOk | TsFull | TsClosed.
Definition q_try {A} (cfg : cfg) (c : conn) (q : list A) : tsr :=
  if negb (is_open c) then TsClosed else if len q <? eff_cap cfg then TsOk else TsFull.

(* coverage bits *)
Definition B_DELIVERED := 1.   Definition B_NOCLIENT := 2.   Definition B_GONE := 4.
Definition B_PROMOTE := 8.     Definition B_BADFRAME := 16.  Definition B_FULL := 32.
Definition B_CLOSED := 64.     Definition B_UNFWD_BIG := 128. Definition B_UNFWD_EMPTY := 256.
Definition B_PKTWRITE_FAIL := 512. Definition B_CANCEL := 1024. Definition B_REPLACED := 2048.

(* Client::try_send_peer_gone / try_send_health (client.rs:206-225): a control
   message is dropped when the message queue is full or closed. *)
Definition push_msg (cfg : cfg) (s : state) (k : N) (m : msg) : state :=
  match getc s k with
  | None => s
  | Some c =>
      match q_try cfg c (c_mq c) with
      | TsOk => updc s k (fun c => with_mq (c_mq c ++ [m]) c)
      | _ => s
      end
  end.

Definition push_health (cfg : cfg) (s : state) (k : N) (code : N) : state :=
  match getc s k with
  | None => s
  | Some c => push_msg cfg s k (if c_ver c =? 1 then MHealth code else MStatus code)
  end.

(* Clients::send_packet (clients.rs:200-234) *)
Definition send_packet (cfg : cfg) (s : state) (src dst : bytes) (d : dgram) : state :=
  match find_entry dst (reg s) with
  | None => flag s B_NOCLIENT                              (* no connected client: dropped *)
  | Some e =>
      let a := e_active e in
      match getc s a with
      | None => s
      | Some ca =>
          match q_try cfg ca (c_pq ca) with
          | TsOk =>
              let s1 := updc s a (fun c => with_pq (c_pq c ++ [mkPkt src d (clock s)]) c) in
              set_sent s1 (record_sent src dst (sent s1))
          | TsFull => flag s B_FULL                         (* dropped, ForwardPacketError logged *)
          | TsClosed => flag (updc s a with_cint) B_CLOSED  (* client.active.start_shutdown() *)
          end
      end
  end.

(* Actor::handle_frame (client.rs:488-522) for a frame read from connection k. *)
Definition handle_frame (cfg : cfg) (s : state) (k : N) (c : conn) (raw : bytes) : state :=
  match decode (valid cfg) raw with
  | Ok (CDatagrams dst d) =>
      if forwardable d then send_packet cfg s (c_id c) dst d
      else flag s (match d_data d with [] => B_UNFWD_EMPTY | _ => B_UNFWD_BIG end)
  | Ok (CPing p) => updc s k (fun c => with_out (c_out c ++ [FPong p]) c)
  | Ok (CPong _) => s
  | _ => flag (updc s k (with_exit COwnFrame)) B_BADFRAME
  end.

(* Clients::register's map half (clients.rs:81-101) *)
Definition do_insert (cfg : cfg) (s : state) (k : N) (c : conn) : state :=
  let s := updc s k with_ins in
  match find_entry (c_id c) (reg s) with
  | Some e =>
      let s := set_reg s (put_entry (mkEntry (c_id c) k (e_inactive e ++ [e_active e])) (reg s)) in
      flag (push_health cfg s (e_active e) 1) B_REPLACED
  | None => set_reg s (reg s ++ [mkEntry (c_id c) k []])
  end.

Definition last_opt {A} (l : list A) : option (list A * A) :=
  match rev l with [] => None | x :: r => Some (rev r, x) end.

(* Clients::unregister (clients.rs:109-170) *)
Definition do_unregister (cfg : cfg) (s : state) (k : N) (c : conn) : state :=
  let s := updc s k (with_phase Unregistered) in
  let id := c_id c in
  match find_entry id (reg s) with
  | None => s
  | Some e =>
      if e_active e =? k then
        match last_opt (e_inactive e) with
        | Some (rest, l) =>
            let s := set_reg s (put_entry (mkEntry id l rest) (reg s)) in
            flag (push_health cfg s l 0) B_PROMOTE
        | None =>
            let peers := match find_sent id (sent s) with Some p => p | None => [] end in
            let s := set_sent (set_reg s (remove_entry id (reg s))) (remove_sent id (sent s)) in
            fold_left (fun s peer =>
                         match find_entry peer (reg s) with
                         | Some pe => flag (push_msg cfg s (e_active pe) (MGone id)) B_GONE
                         | None => s
                         end) peers s
        end
      else
        set_reg s (put_entry (mkEntry id (e_active e)
                                (filter (fun j => negb (j =? k)) (e_inactive e))) (reg s))
  end.

(* Clients::disconnect (clients.rs:181-197) *)
Definition do_disconnect (s : state) (id : bytes) (o : option N) : state :=
  match find_entry id (reg s) with
  | None => s
  | Some e =>
      let all := e_inactive e ++ [e_active e] in
      let targets := match o with
                     | None => all
                     | Some k => filter (fun j => j =? k) all
                     end in
      fold_left (fun s j => updc s j with_cop) targets s
  end.

(* ------------------------------------------------------------------ steps *)
Inductive event :=
| ESpawn (id : bytes) (ver : N)   (* Client::new (client.rs:124-174): queues created, actor spawned *)
| EInsert (k : N)                 (* register's DashMap entry section (clients.rs:81-101) *)
| ERecv (k : N) (raw : bytes)     (* select arm stream.next() = Some(Ok raw) (client.rs:402) *)
| EClose (k : N)                  (* stream.next() = None | Some(Err) : the client went away *)
| ESockFail (k : N)               (* write timeout / sink error / flush error / pong timeout on k's socket *)
| EPingTick (k : N)               (* select arm ping_interval.tick() (client.rs:428) *)
| EWritePkt (k : N)               (* select arm packet_send_queue.recv() + send_packet (client.rs:410) *)
| EWriteMsg (k : N)               (* select arm message_send_queue.recv() + write_frame (client.rs:417) *)
| EDisconnect (id : bytes) (o : option N)  (* operator: Clients::disconnect *)
| ECancelled (k : N)              (* select arm done.cancelled() (client.rs:385) *)
| EUnregister (k : N)             (* Actor::run after run_inner (client.rs:363) *)
| EDrop (k : N).                  (* the actor is dropped *)

Definition new_conn (id : bytes) (ver : N) : conn :=
  mkConn id ver false Running None false false [] [] [].

Definition step_body (cfg : cfg) (s : state) (e : event) : state :=
  match e with
  | ESpawn id ver =>
      mkState (conns s ++ [new_conn id ver]) (reg s) (sent s) (clock s) (flags s)
  | EInsert k =>
      match getc s k with
      | Some c => if c_ins c then s else do_insert cfg s k c
      | None => s
      end
  | ERecv k raw =>
      match getc s k with
      | Some c => if is_running c then handle_frame cfg s k c raw else s
      | None => s
      end
  | EClose k =>
      match getc s k with
      | Some c => if is_running c then updc s k (with_exit COwnClose) else s
      | None => s
      end
  | ESockFail k =>
      match getc s k with
      | Some c => if is_running c then updc s k (with_exit COwnSocket) else s
      | None => s
      end
  | EPingTick k =>
      match getc s k with
      | Some c => if is_running c then updc s k (fun c => with_out (c_out c ++ [FPing]) c) else s
      | None => s
      end
  | EWritePkt k =>
      match getc s k with
      | Some c =>
          if is_running c then
            match c_pq c with
            | [] => s
            | p :: q =>
                if sink_ok (p_dg p)
                then flag (updc s k (fun c => with_out (c_out c ++ [FD p]) (with_pq q c))) B_DELIVERED
                else flag (updc s k (fun c => with_exit CPktWrite (with_pq q c))) B_PKTWRITE_FAIL
            end
          else s
      | None => s
      end
  | EWriteMsg k =>
      match getc s k with
      | Some c =>
          if is_running c then
            match c_mq c with
            | [] => s
            | m :: q => updc s k (fun c => with_out (c_out c ++ [frame_of_msg m]) (with_mq q c))
            end
          else s
      | None => s
      end
  | EDisconnect id o => do_disconnect s id o
  | ECancelled k =>
      match getc s k with
      | Some c =>
          if is_running c && (c_cop c || c_cint c)
          then flag (updc s k (with_exit (if c_cop c then COperator else CPeerCancel))) B_CANCEL
          else s
      | None => s
      end
  | EUnregister k =>
      match getc s k with
      | Some c => match c_phase c with Exiting => do_unregister cfg s k c | _ => s end
      | None => s
      end
  | EDrop k =>
      match getc s k with
      | Some c => match c_phase c with Unregistered => updc s k (with_phase Dropped) | _ => s end
      | None => s
      end
  end.

Definition step (cfg : cfg) (s : state) (e : event) : state := tick (step_body cfg s e).

Definition run_from (cfg : cfg) (s : state) (t : list event) : state := fold_left (step cfg) t s.
Definition run (cfg : cfg) (t : list event) : state := run_from cfg init t.

(* ------------------------------------------------------------------ the harness schedule *)
Inductive op :=
| OConnect (id : bytes) (ver : N)
| OClose (k : N)
| OErr (k : N)
| OSend (k : N) (raw : bytes)
| OBurst (l : list (N * bytes))
| ODiscId (id : bytes)
| ODiscConn (k : N).

(* What the (single-threaded) scheduler does next when no external input is pending:
   the lowest-numbered connection with an enabled internal step; an actor that has
   left its loop unregisters and is dropped without yielding; cancellation is the
   first select arm, packets come before control messages. *)
Definition conn_next (k : N) (c : conn) : option event :=
  match c_phase c with
  | Exiting => Some (EUnregister k)
  | Unregistered => Some (EDrop k)
  | Dropped => None
  | Running =>
      if c_cop c || c_cint c then Some (ECancelled k)
      else match c_pq c with
           | _ :: _ => Some (EWritePkt k)
           | [] => match c_mq c with _ :: _ => Some (EWriteMsg k) | [] => None end
           end
  end.

Fixpoint next_internal (k : N) (l : list conn) : option event :=
  match l with
  | [] => None
  | c :: r => match conn_next k c with Some e => Some e | None => next_internal (k + 1) r end
  end.

(* state and the trace so far (newest first) *)
Definition st := (state * list event)%type.
Definition apply (cfg : cfg) (x : st) (e : event) : st := (step cfg (fst x) e, e :: snd x).

Fixpoint quiesce (fuel : nat) (cfg : cfg) (x : st) : st :=
  match fuel with
  | O => x
  | S f => match next_internal 0 (conns (fst x)) with
           | None => x
           | Some e => quiesce f cfg (apply cfg x e)
           end
  end.

Definition fuel_of (cfg : cfg) (s : state) : nat :=
  (S (length (conns s)) * (4 * N.to_nat (eff_cap cfg) + 16))%nat.

Definition settle (cfg : cfg) (x : st) : st := quiesce (fuel_of cfg (fst x)) cfg x.

(* One poll of actor k after it has read its input: it keeps taking its own enabled
   steps (it only yields when nothing of its own is ready). *)
Fixpoint settle_conn (fuel : nat) (cfg : cfg) (k : N) (x : st) : st :=
  match fuel with
  | O => x
  | S f => match getc (fst x) k with
           | Some c => match conn_next k c with
                       | Some e => settle_conn f cfg k (apply cfg x e)
                       | None => x
                       end
           | None => x
           end
  end.

(* A burst: the frames are queued on the sockets before any actor runs; the actors are
   then polled in the order of their first frame; an actor reads all its frames (the read
   arm precedes the write arms) and goes on with its own writes in the same poll. *)
Fixpoint burst (cfg : cfg) (fuel : nat) (l : list (N * bytes)) (x : st) : st :=
  match l with
  | [] => x
  | kr :: r =>
      let x := apply cfg x (ERecv (fst kr) (snd kr)) in
      match r with
      | kr' :: _ => if fst kr' =? fst kr then burst cfg fuel r x
                    else burst cfg fuel r (settle_conn fuel cfg (fst kr) x)
      | [] => settle_conn fuel cfg (fst kr) x
      end
  end.

Definition exec_op (cfg : cfg) (x : st) (o : op) : st :=
  match o with
  | OConnect id ver =>
      let k := len (conns (fst x)) in
      settle cfg (apply cfg (apply cfg x (ESpawn id ver)) (EInsert k))
  | OClose k | OErr k => settle cfg (apply cfg x (EClose k))
  | OSend k raw => settle cfg (apply cfg x (ERecv k raw))
  | OBurst l => settle cfg (burst cfg (fuel_of cfg (fst x)) l x)
  | ODiscId id => settle cfg (apply cfg x (EDisconnect id None))
  | ODiscConn k =>
      match getc (fst x) k with
      | Some c => settle cfg (apply cfg x (EDisconnect (c_id c) (Some k)))
      | None => x
      end
  end.

Definition exec (cfg : cfg) (ops : list op) : st := fold_left (exec_op cfg) ops (init, []).

(* ------------------------------------------------------------------ observation *)
Inductive oframe :=
| OD (src : bytes) (ecn : N) (seg : option N) (data : bytes)
| OPong (d : bytes) | OPing (d : bytes) | OStatus (c : N) | OHealth (text : bytes)
| OGone (id : bytes) | OOther (b : bytes).

(* Status's Display text, sent to V1 clients as Health{problem} (relay.rs:124-130, client.rs:220) *)
Definition health_text (c : N) : bytes :=
  if c =? 0 then str_bytes "The connection is healthy and has recovered from previous problems"
  else str_bytes "Another endpoint connected with the same endpoint id. No more messages will be received.".

Definition obs_frame (f : frame) : oframe :=
  match f with
  | FD p => OD (p_src p) (d_ecn (p_dg p)) (d_seg (p_dg p)) (d_data (p_dg p))
  | FPong d => OPong d
  | FPing => OPing []
  | FStatus c => OStatus c
  | FHealth c => OHealth (health_text c)
  | FGone i => OGone i
  end.

Record input := mkInput { i_cap : N; i_keys : list (bytes * bool); i_ops : list op }.
Definition output := res (list (bool * list oframe)).

Definition cfg_of (i : input) : cfg :=
  mkCfg (i_cap i) (fun k => existsb (fun kv => bytes_eqb (fst kv) k && snd kv) (i_keys i)).

Definition observe (s : state) : list (bool * list oframe) :=
  map (fun c => (is_open c, map obs_frame (c_out c))) (conns s).

Definition model (i : input) : output := Ok (observe (fst (exec (cfg_of i) (i_ops i)))).

(* ---- comparison: liveness per connection; per (sender, connection) the exact
   sequence of datagram frames; the control frames of a connection as a multiset
   (cross-sender order on one socket and the position of control frames depend on
   the scheduler and are not compared); keep-alive pings are ignored. *)
Definition oframe_eqb (a b : oframe) : bool :=
  match a, b with
  | OD s e g d, OD s' e' g' d' => bytes_eqb s s' && N.eqb e e' && opt_eqb N.eqb g g' && bytes_eqb d d'
  | OPong d, OPong d' => bytes_eqb d d'
  | OPing _, OPing _ => true
  | OStatus c, OStatus c' => N.eqb c c'
  | OHealth t, OHealth t' => bytes_eqb t t'
  | OGone i, OGone i' => bytes_eqb i i'
  | OOther b, OOther b' => bytes_eqb b b'
  | _, _ => false
  end.

Definition is_od (f : oframe) : bool := match f with OD _ _ _ _ => true | _ => false end.
Definition is_ping (f : oframe) : bool := match f with OPing _ => true | _ => false end.
Definition from_src (src : bytes) (f : oframe) : bool :=
  match f with OD s _ _ _ => bytes_eqb s src | _ => false end.
Definition count (f : oframe) (l : list oframe) : nat := length (filter (oframe_eqb f) l).
Definition multiset_eqb (a b : list oframe) : bool :=
  Nat.eqb (length a) (length b) && forallb (fun f => Nat.eqb (count f a) (count f b)) a.

Definition frames_agree (keys : list bytes) (m o : list oframe) : bool :=
  Nat.eqb (length (filter is_od m)) (length (filter is_od o)) &&
  forallb (fun k => list_eqb oframe_eqb (filter (from_src k) m) (filter (from_src k) o)) keys &&
  multiset_eqb (filter (fun f => negb (is_od f) && negb (is_ping f)) m)
               (filter (fun f => negb (is_od f) && negb (is_ping f)) o).

Definition conn_agree (keys : list bytes) (m o : bool * list oframe) : bool :=
  Bool.eqb (fst m) (fst o) && frames_agree keys (snd m) (snd o).

Definition agree (i : input) (o : output) : bool :=
  match model i, o with
  | Ok m, Ok o => list_eqb (conn_agree (map fst (i_keys i))) m o
  | _, _ => false
  end.

(* ---- what the ops of a case say, independently of the state machine ---- *)
(* id of each connection, in connect order *)
Fixpoint conn_ids (ops : list op) : list bytes :=
  match ops with
  | [] => []
  | OConnect id _ :: r => id :: conn_ids r
  | _ :: r => conn_ids r
  end.

(* frames sent by the clients, in order: (connection, raw) *)
Fixpoint sends (ops : list op) : list (N * bytes) :=
  match ops with
  | [] => []
  | OSend k raw :: r => (k, raw) :: sends r
  | OBurst l :: r => l ++ sends r
  | _ :: r => sends r
  end.

(* ------------------------------------------------------------------ C04 interface *)
(* accepted datagram sends of the case: (sender id, destination id, datagram) *)
Definition dsends (i : input) : list (bytes * bytes * dgram) :=
  let ids := conn_ids (i_ops i) in
  flat_map (fun kr =>
              match nth_error ids (N.to_nat (fst kr)), decode (valid (cfg_of i)) (snd kr) with
              | Some src, Ok (CDatagrams dst d) => [(src, dst, d)]
              | _, _ => []
              end) (sends (i_ops i)).

Definition dg_matches (d : dgram) (f : oframe) : bool :=
  match f with
  | OD _ e g x => N.eqb e (d_ecn d) && opt_eqb N.eqb g (d_seg d) && bytes_eqb x (d_data d)
  | _ => false
  end.

(* [fs] is a subsequence of the datagrams of [ds] *)
Fixpoint subseq (fs : list oframe) (ds : list dgram) : bool :=
  match fs, ds with
  | [], _ => true
  | _ :: _, [] => false
  | f :: fs', d :: ds' => if dg_matches d f then subseq fs' ds' else subseq fs ds'
  end.

(* The property on an observed output: on every connection, for every sender id
   (the authenticated ids of the case's connections), the datagram frames attributed to
   that sender are, in order, a subsequence of the datagrams that connections
   authenticated as that sender sent to this connection's id (true sender, right
   destination, unchanged ecn / segment size / contents, FIFO, at most once per
   connection), and every datagram frame is attributed to one of those ids.
   (That a datagram is not delivered on two connections of one id is proved on traces,
   C04_delivery_at_most_once, and enforced on the implementation by [agree].) *)
Definition pair_sends (i : input) (src dst : bytes) : list dgram :=
  map snd (filter (fun x => bytes_eqb (fst (fst x)) src && bytes_eqb (snd (fst x)) dst) (dsends i)).

Definition conn_sound (i : input) (dst : bytes) (fs : list oframe) : bool :=
  let srcs := conn_ids (i_ops i) in
  forallb (fun f => negb (is_od f) || existsb (fun k => from_src k f) srcs) fs &&
  forallb (fun src => subseq (filter (from_src src) fs) (pair_sends i src dst)) srcs.

Definition monitor1 (i : input) (o : output) : bool :=
  match o with
  | Ok l =>
      Nat.eqb (length l) (length (conn_ids (i_ops i))) &&
      forallb (fun x => conn_sound i (fst x) (snd (snd x))) (combine (conn_ids (i_ops i)) l)
  | _ => false
  end.

(* ---- "only on the connection that was the destination's ACTIVE one when the relay
   accepted it".  The registry history of the script: replaying the case's trace (the
   harness schedule), every frame read from a running connection that decodes to
   datagrams for [dst] while the registry has an entry for [dst] is routed to that entry's
   active connection AT THAT MOMENT (Clients::send_packet, clients.rs:200-221): recorded as
   (that connection, (authenticated sender id, datagram)), in trace order. *)
Definition route_of (cfg : cfg) (s : state) (e : event) : list (N * (bytes * dgram)) :=
  match e with
  | ERecv k raw =>
      match getc s k with
      | Some c =>
          if is_running c then
            match decode (valid cfg) raw with
            | Ok (CDatagrams dst d) =>
                match find_entry dst (reg s) with
                | Some en => [(e_active en, (c_id c, d))]
                | None => []
                end
            | _ => []
            end
          else []
      | None => []
      end
  | _ => []
  end.
Fixpoint routes_from (cfg : cfg) (s : state) (t : list event) : list (N * (bytes * dgram)) :=
  match t with
  | [] => []
  | e :: r => route_of cfg s e ++ routes_from cfg (step cfg s e) r
  end.
Definition routes (cfg : cfg) (t : list event) := routes_from cfg init t.
(* the case's trace under the harness schedule, oldest first *)
Definition trace_of (i : input) : list event := rev (snd (exec (cfg_of i) (i_ops i))).
Definition to_conn (k : N) (R : list (N * (bytes * dgram))) : list (bytes * dgram) :=
  map snd (filter (fun x => fst x =? k) R).
(* datagrams of sender [src] routed to connection number [k], in order *)
Definition conn_routed (R : list (N * (bytes * dgram))) (k : N) (src : bytes) : list dgram :=
  map snd (filter (fun x => bytes_eqb (fst x) src) (to_conn k R)).
Definition indices {A} (l : list A) : list N := map N.of_nat (seq 0 (length l)).

(* on every connection (by its NUMBER, not its id) and for every sender id of the case, the
   datagram frames attributed to that sender are, in order, a subsequence of the datagrams
   of that sender that were routed to THIS connection, i.e. accepted while it was its
   endpoint's active connection; a frame on an inactive duplicate has no such send *)
Definition monitor2 (i : input) (o : output) : bool :=
  match o with
  | Ok l =>
      let R := routes (cfg_of i) (trace_of i) in
      let srcs := conn_ids (i_ops i) in
      forallb (fun kx => forallb (fun src => subseq (filter (from_src src) (snd (snd kx)))
                                                    (conn_routed R (fst kx) src)) srcs)
              (combine (indices l) l)
  | _ => false
  end.

Definition monitor (i : input) (o : output) : bool := monitor1 i o && monitor2 i o.

Definition known (i : input) : N := 0.

(* coverage tag: the rarest branch the run took (0 = nothing forwarded or dropped) *)
Definition tag_of_flags (f : N) : N :=
  if N.testbit f 8 then 12 else if N.testbit f 7 then 11 else if N.testbit f 9 then 10
  else if N.testbit f 6 then 9 else if N.testbit f 5 then 8 else if N.testbit f 10 then 7
  else if N.testbit f 3 then 6 else if N.testbit f 2 then 5 else if N.testbit f 11 then 4
  else if N.testbit f 4 then 3 else if N.testbit f 1 then 2 else if N.testbit f 0 then 1 else 0.

Definition tag (i : input) : N := tag_of_flags (flags (fst (exec (cfg_of i) (i_ops i)))).

Definition judge (i : input) (o : output) : bool * bool * N * N :=
  (agree i o, monitor i o, known i, tag i).

End C04.
