(* C07 — the OnDisconnectGuard's journey through the relay accept path
   (iroh-relay/src/server.rs:165-183 ConnectionId::next, :376-425 OnDisconnectGuard;
    protos/handshake.rs:489-503 authorize_with; server/http_server.rs:845-898 accept;
    server/clients.rs:73-108 register, :111-177 unregister; server/client.rs:123-172
    Client::new, :346-367 Actor::run).

   Interleaving transition system over the atomic steps of ANY number of
   concurrent connections.  Each connection is a small state machine whose
   state says who owns the guard; every Rust drop point of the guard is an
   explicit transition that appends on_disconnect to the access-control log.
   Environment choices (I/O outcomes, the access decision, why the actor ends,
   when a task is dropped) are carried by the events, so "for every fault list,
   decision, disconnection cause and schedule" is "for every event list".
   Executable model, definitions only. *)
From V Require Import Lib.Base.
Open Scope N_scope.

Module C07.

(* why run_inner returned (client.rs:369-446) *)
Inductive cause :=
| StreamEnd        (* the client closed / stream error: handle_frame fails *)
| WriteError       (* write_frame / send_packet / flush failed *)
| Cancelled        (* done.cancelled(): Clients::disconnect, Clients::shutdown, Client::shutdown *)
| PingTimeout
| HandleDropped.   (* the registry dropped the Client handle's senders *)

(* Per-connection state = where the connection is in accept()/the actor and who owns the guard. *)
Inductive cstate :=
| Idle                      (* upgraded, serverside() running: no ClientRequest yet, no guard *)
| Rejected                  (* serverside failed, or the handler task died before it finished (final) *)
| HasId (id : N)            (* http_server.rs:873 ClientRequest::new drew ConnectionId::next() *)
| ClosedUnasked (id : N)    (* the handler task was dropped before on_connect was called (final) *)
| Denying (id : N)          (* on_connect -> Deny: ServerDeniesAuth being written; no guard was created *)
| ClosedDenied (id : N)     (* accept returned the denial error (final) *)
| Guarded (id : N)          (* on_connect -> Allow: guard created, owned by authorize_with's frame,
                               ServerConfirmsAuth being written (handshake.rs:497-498) *)
| Accepting (id : N)        (* guard returned to accept(): owned by its frame, then by Config (885-897) *)
| Running (id : N)          (* Client::new moved the guard into the Actor; task spawned (client.rs:142-163) *)
| Unregistering (id : N)    (* run_inner returned; the actor is about to call unregister(self.guard) (365) *)
| ClosedAdmitted (id : N).  (* the guard was dropped (final) *)

Inductive ev :=
| EHandshake (k : nat) (ok : bool)     (* serverside returns Ok / Err (any I/O fault, bad auth) *)
| EOnConnect (k : nat) (allow : bool)  (* access_control.on_connect(request).await resolves *)
| EDenyWrite (k : nat) (ok : bool)     (* deny(): write_frame(ServerDeniesAuth) ok / failed *)
| EConfirmWrite (k : nat) (ok : bool)  (* accept(): write_frame(ServerConfirmsAuth) send+flush ok / failed (`?`) *)
| ERegister (k : nat)                  (* Config::new, Clients::register -> Client::new -> spawn *)
| EActorEnd (k : nat) (c : cause)      (* run_inner returns *)
| EUnregister (k : nat)                (* clients.unregister(self.guard, ..): registry update, guard dropped at its end *)
| EDropTask (k : nat).                 (* the task that currently owns the connection is dropped:
                                          abort (AbortOnDropHandle), runtime shutdown, panic unwinding *)

(* what the access policy sees *)
Inductive obs := Connect (id : N) (allow : bool) | Disconnect (id : N).

Record st := mkSt { next : N; log : list obs; conns : nat -> cstate }.

Definition upd (f : nat -> cstate) (k : nat) (c : cstate) : nat -> cstate :=
  fun j => if Nat.eqb j k then c else f j.

Definition conn_of (e : ev) : nat :=
  match e with
  | EHandshake k _ | EOnConnect k _ | EDenyWrite k _ | EConfirmWrite k _
  | ERegister k | EActorEnd k _ | EUnregister k | EDropTask k => k
  end.

(* newest event first *)
Definition step (s : st) (e : ev) : option st :=
  let k := conn_of e in
  let set c := Some (mkSt (next s) (log s) (upd (conns s) k c)) in
  let set_log o c := Some (mkSt (next s) (o :: log s) (upd (conns s) k c)) in
  match e, conns s k with
  | EHandshake _ true, Idle =>
      (* ConnectionId::next(): NEXT.fetch_add(1) — one atomic read-modify-write *)
      Some (mkSt (next s + 1) (log s) (upd (conns s) k (HasId (next s))))
  | EHandshake _ false, Idle => set Rejected
  | EOnConnect _ true, HasId id => set_log (Connect id true) (Guarded id)
  | EOnConnect _ false, HasId id => set_log (Connect id false) (Denying id)
  | EDenyWrite _ _, Denying id => set (ClosedDenied id)
  | EConfirmWrite _ true, Guarded id => set (Accepting id)
  | EConfirmWrite _ false, Guarded id => set_log (Disconnect id) (ClosedAdmitted id)   (* `?` drops the guard *)
  | ERegister _, Accepting id => set (Running id)
  | EActorEnd _ _, Running id => set (Unregistering id)
  | EUnregister _, Unregistering id => set_log (Disconnect id) (ClosedAdmitted id)
  | EDropTask _, Idle => set Rejected
  | EDropTask _, HasId id => set (ClosedUnasked id)
  | EDropTask _, Denying id => set (ClosedDenied id)
  | EDropTask _, Guarded id | EDropTask _, Accepting id
  | EDropTask _, Running id | EDropTask _, Unregistering id =>
      set_log (Disconnect id) (ClosedAdmitted id)
  | _, _ => None
  end.

Fixpoint run (s : st) (tr : list ev) : option st :=
  match tr with
  | [] => Some s
  | e :: r => match step s e with Some s' => run s' r | None => None end
  end.

Definition init (n0 : N) : st := mkSt n0 [] (fun _ => Idle).

Definition id_of (c : cstate) : option N :=
  match c with
  | Idle | Rejected => None
  | HasId id | ClosedUnasked id | Denying id | ClosedDenied id | Guarded id
  | Accepting id | Running id | Unregistering id | ClosedAdmitted id => Some id
  end.

Definition final (c : cstate) : bool :=
  match c with
  | Rejected | ClosedUnasked _ | ClosedDenied _ | ClosedAdmitted _ => true
  | _ => false
  end.

Definition denied (c : cstate) : bool :=
  match c with Denying _ | ClosedDenied _ => true | _ => false end.

Definition obs_eqb (a b : obs) : bool :=
  match a, b with
  | Connect i x, Connect j y => N.eqb i j && Bool.eqb x y
  | Disconnect i, Disconnect j => N.eqb i j
  | _, _ => false
  end.

Fixpoint cnt (o : obs) (l : list obs) : N :=
  match l with
  | [] => 0
  | x :: r => (if obs_eqb o x then 1 else 0) + cnt o r
  end.

(* number of on_connect calls for id, with either answer *)
Definition cntC (id : N) (l : list obs) : N := cnt (Connect id true) l + cnt (Connect id false) l.
Definition cntD (id : N) (l : list obs) : N := cnt (Disconnect id) l.

(* ------------------------------------------------ correspondence interface *)
(* One scenario = one relay server and a list of connection attempts.  Per
   attempt the harness knows (from its proxy) whether the complete
   authentication reached the server: 0 = certainly not, 1 = certainly,
   2 = cut too close to tell; and the policy's answer for that attempt. *)
Record spec := mkSpec { sp_auth : N; sp_allow : bool }.
Definition scen := list spec.

(* the access-control callback log of the run, oldest first, after every client
   is gone and the server has shut down: (kind, id, allow) with kind 1 =
   on_connect (allow = its answer), 2 = on_disconnect for an id whose on_connect
   was seen with the same endpoint id, 3 = on_disconnect that matches no on_connect *)
Definition olog := list (N * N * bool).

(* Second case kind: [threads] OS threads, released together, each draw [per]
   connection ids from the real allocator (ConnectionId::next through
   ClientRequest::new / OnDisconnectGuard::empty); one id is drawn before the
   threads are released and one after all have joined.  Observed: those two ids
   and every thread's ids in the order drawn. *)
Inductive input := IScen (l : scen) | IAlloc (threads per : N).
Inductive output := OLog (l : olog) | OAlloc (before after : N) (seqs : list (list N)).

Definition conv (l : list obs) : olog :=
  map (fun o => match o with Connect id a => (1, id, a) | Disconnect id => (2, id, false) end) (rev l).

(* canonical schedule: the attempts one after the other, no fault after authentication *)
Definition canon_conn (k : nat) (sp : spec) : list ev :=
  if sp_auth sp =? 0 then [EHandshake k false]
  else if sp_allow sp
       then [EHandshake k true; EOnConnect k true; EConfirmWrite k true; ERegister k;
             EActorEnd k StreamEnd; EUnregister k]
       else [EHandshake k true; EOnConnect k false; EDenyWrite k true].

Fixpoint canon (k : nat) (i : scen) : list ev :=
  match i with
  | [] => []
  | sp :: r => canon_conn k sp ++ canon (S k) r
  end.

Definition model_scen (i : scen) : olog :=
  match run (init 0) (canon 0 i) with Some s => conv (log s) | None => [] end.

(* ---- concurrent allocation: the counter part of [step]'s `EHandshake _ true` case
   (one atomic fetch_add per draw), for an arbitrary schedule = list of thread numbers,
   one entry per draw.  [aseq t] = the ids thread t drew, oldest first. *)
Record ast := mkA { anext : N; aseq : nat -> list N }.
Definition astep (s : ast) (t : nat) : ast :=
  mkA (anext s + 1) (fun j => if Nat.eqb j t then aseq s j ++ [anext s] else aseq s j).
Fixpoint arun (s : ast) (sched : list nat) : ast :=
  match sched with [] => s | t :: r => arun (astep s t) r end.
(* the id [n0] is drawn before the threads start, the threads run [sched], one id is drawn after *)
Definition aout (n0 : N) (threads : nat) (sched : list nat) : output :=
  let s := arun (mkA (n0 + 1) (fun _ => [])) sched in
  OAlloc n0 (anext s) (map (aseq s) (seq 0 threads)).
(* canonical schedule: thread 0 draws all its ids, then thread 1, ... *)
Definition canon_sched (threads per : nat) : list nat :=
  concat (map (fun t => repeat t per) (seq 0 threads)).

Definition model (i : input) : output :=
  match i with
  | IScen l => OLog (model_scen l)
  | IAlloc threads per => aout 0 (N.to_nat threads) (canon_sched (N.to_nat threads) (N.to_nat per))
  end.

Fixpoint incr (l : list N) : bool :=
  match l with
  | a :: (b :: _) as r => (a <? b) && incr r
  | _ => true
  end.
Fixpoint nodupb (l : list N) : bool :=
  match l with
  | [] => true
  | a :: r => negb (existsb (N.eqb a) r) && nodupb r
  end.
(* connection ids are never reused: all ids drawn (before, after, by any thread) are
   pairwise distinct, and every thread sees its own ids strictly increasing *)
Definition monitor_alloc (before after : N) (seqs : list (list N)) : bool :=
  forallb incr seqs && nodupb (before :: after :: concat seqs).
(* what one-atomic-step allocation gives under every interleaving (nobody else draws
   meanwhile): every thread got its [per] ids, all lie strictly between the two
   bracketing ids, and the counter advanced by exactly the number of draws *)
Definition agree_alloc (threads per before after : N) (seqs : list (list N)) : bool :=
  (len seqs =? threads) && forallb (fun q => len q =? per) seqs &&
  forallb (fun x => (before <? x) && (x <? after)) (concat seqs) &&
  (after =? before + threads * per + 1) && monitor_alloc before after seqs.

Definition ocntC (id : N) (o : olog) : N :=
  len (filter (fun e : N * N * bool => match e with (k, i, _) => (k =? 1) && (i =? id) end) o).
Definition ocntD (id : N) (o : olog) : N :=
  len (filter (fun e : N * N * bool => match e with (k, i, _) => (k =? 2) && (i =? id) end) o).

(* The property on an observed, settled log: every on_connect has a fresh id;
   an admitted id is disconnected exactly once, a denied id never; every
   on_disconnect belongs to an admitted on_connect of the same endpoint. *)
Definition monitor_o (o : olog) : bool :=
  forallb (fun e : N * N * bool =>
    match e with
    | (1, id, a) => (ocntC id o =? 1) && (ocntD id o =? (if a then 1 else 0))
    | (2, id, _) => existsb (fun x : N * N * bool => match x with (k, i, a) => (k =? 1) && (i =? id) && a end) o
    | _ => false
    end) o.
Definition monitor (i : input) (o : output) : bool :=
  match o with
  | OLog l => monitor_o l
  | OAlloc b a seqs => monitor_alloc b a seqs
  end.

(* Admissible outputs for a scenario: the number of on_connect calls lies
   between the number of attempts whose authentication certainly arrived and
   that number plus the uncertain ones; the number of Allow / Deny answers
   cannot exceed the attempts that could get them; and the log has the shape
   every settled run of the transition system has (monitor_o). *)
Definition count_specs (f : spec -> bool) (i : scen) : N := len (filter f i).
Definition agree_scen (i : scen) (o : olog) : bool :=
  let nC := len (filter (fun e : N * N * bool => match e with (k, _, _) => k =? 1 end) o) in
  let nA := len (filter (fun e : N * N * bool => match e with (k, _, a) => (k =? 1) && a end) o) in
  let nD := len (filter (fun e : N * N * bool => match e with (k, _, a) => (k =? 1) && negb a end) o) in
  let may f := count_specs (fun s => negb (sp_auth s =? 0) && f s) i in
  let must f := count_specs (fun s => (sp_auth s =? 1) && f s) i in
  (must (fun _ => true) <=? nC) && (nC <=? may (fun _ => true)) &&
  (must sp_allow <=? nA) && (nA <=? may sp_allow) &&
  (must (fun s => negb (sp_allow s)) <=? nD) && (nD <=? may (fun s => negb (sp_allow s))) &&
  monitor_o o.
Definition agree (i : input) (o : output) : bool :=
  match i, o with
  | IScen l, OLog o => agree_scen l o
  | IAlloc threads per, OAlloc b a seqs => agree_alloc threads per b a seqs
  | _, _ => false
  end.

Definition known (i : input) : N := 0.

(* 0 = nothing reached the policy; otherwise bit 1 = some allowed attempt,
   bit 2 = some denied attempt, bit 4 = some uncertain cut; 8 = concurrent allocation
   (0 when a single thread or no draws) *)
Definition tag_scen (i : scen) : N :=
  (if existsb (fun s => negb (sp_auth s =? 0) && sp_allow s) i then 1 else 0) +
  (if existsb (fun s => negb (sp_auth s =? 0) && negb (sp_allow s)) i then 2 else 0) +
  (if existsb (fun s => sp_auth s =? 2) i then 4 else 0).
Definition tag (i : input) : N :=
  match i with
  | IScen l => tag_scen l
  | IAlloc threads per => if (2 <=? threads) && (1 <=? per) then 8 else 0
  end.

Definition judge (i : input) (o : output) : bool * bool * N * N :=
  (agree i o, monitor i o, known i, tag i).

End C07.
