(* C27 — Report::update and RelayLatencies::{update_relay, merge, get}
   (iroh/src/net_report/report.rs:68-131, 145-220).  Executable model, definitions only. *)
From V Require Import Lib.Base.
Open Scope N_scope.

Module C27.

(* BTreeMap<RelayUrl, Duration>: association list with strictly increasing keys.
   Relay URLs are identified by numbers ordered like the URLs; latencies are nanoseconds. *)
Definition table := list (N * N).

Fixpoint lookup (m : table) (k : N) : option N :=
  match m with
  | [] => None
  | (k', v') :: t => if k =? k' then Some v' else lookup t k
  end.

(* update_relay on one map:
     let old_latency = list.entry(url).or_insert(latency);
     if latency < *old_latency { *old_latency = latency; }          *)
Fixpoint upd (m : table) (k v : N) : table :=
  match m with
  | [] => [(k, v)]
  | (k', v') :: t =>
      if k <? k' then (k, v) :: m
      else if k =? k' then (k', if v <? v' then v else v') :: t
      else (k', v') :: upd t k v
  end.

(* struct RelayLatencies { ipv4, ipv6, https } *)
Record latencies := mkLat { ipv4 : table; ipv6 : table; https : table }.
Definition lat_default : latencies := mkLat [] [] [].

(* Probe: 0 = Https, 1 = QadIpv4, 2 = QadIpv6 *)
Definition update_relay (l : latencies) (url lat probe : N) : latencies :=
  if probe =? 0 then mkLat (ipv4 l) (ipv6 l) (upd (https l) url lat)
  else if probe =? 1 then mkLat (upd (ipv4 l) url lat) (ipv6 l) (https l)
  else mkLat (ipv4 l) (upd (ipv6 l) url lat) (https l).

(* merge: for other.https, then other.ipv4, then other.ipv6, in key order: update_relay *)
Definition merge (l other : latencies) : latencies :=
  let l1 := fold_left (fun acc kv => update_relay acc (fst kv) (snd kv) 0) (https other) l in
  let l2 := fold_left (fun acc kv => update_relay acc (fst kv) (snd kv) 1) (ipv4 other) l1 in
  fold_left (fun acc kv => update_relay acc (fst kv) (snd kv) 2) (ipv6 other) l2.

Definition list_min (l : list N) : option N :=
  match l with [] => None | x :: t => Some (fold_left N.min t x) end.

Definition opt_list {A} (o : option A) : list A := match o with Some x => [x] | None => [] end.

(* get: lowest of the https, ipv4, ipv6 entries *)
Definition get (l : latencies) (url : N) : option N :=
  list_min (opt_list (lookup (https l) url) ++ opt_list (lookup (ipv4 l) url) ++ opt_list (lookup (ipv6 l) url)).

(* A socket address: family (0 = V4, 1 = V6) and a number identifying the whole address
   (ip, port, and for V6 flowinfo and scope id: all take part in `==`). *)
Record sockaddr := mkSa { fam : N; sid : N }.
Definition sa_eqb (a b : sockaddr) : bool := (fam a =? fam b) && (sid a =? sid b).

Record report := mkRep {
  udp_v4 : bool; udp_v6 : bool;
  varies_v4 : option bool; varies_v6 : option bool;
  relay_latency : latencies;
  global_v4 : option sockaddr; global_v6 : option sockaddr }.
Definition report_default : report := mkRep false false None None lat_default None None.

(* ProbeReport: kind (0 Https, 1 QadIpv4, 2 QadIpv6), relay, latency, observed address
   (ignored for Https). *)
Record probe := mkProbe { pkind : N; prelay : N; platency : N; paddr : sockaddr }.

Definition update (r : report) (p : probe) : report :=
  if pkind p =? 0 then
    mkRep (udp_v4 r) (udp_v6 r) (varies_v4 r) (varies_v6 r)
          (update_relay (relay_latency r) (prelay p) (platency p) 0) (global_v4 r) (global_v6 r)
  else if pkind p =? 1 then
    let l := update_relay (relay_latency r) (prelay p) (platency p) 1 in
    if negb (fam (paddr p) =? 0) then      (* let SocketAddr::V4(ipp) = report.addr else { warn; return } *)
      mkRep (udp_v4 r) (udp_v6 r) (varies_v4 r) (varies_v6 r) l (global_v4 r) (global_v6 r)
    else
      match global_v4 r with
      | Some g =>
          if sa_eqb g (paddr p) then
            mkRep true (udp_v6 r)
                  (match varies_v4 r with None => Some false | v => v end) (varies_v6 r) l (global_v4 r) (global_v6 r)
          else mkRep true (udp_v6 r) (Some true) (varies_v6 r) l (global_v4 r) (global_v6 r)
      | None => mkRep true (udp_v6 r) (varies_v4 r) (varies_v6 r) l (Some (paddr p)) (global_v6 r)
      end
  else if negb (pkind p =? 2) then r      (* no such probe kind *)
  else
    let l := update_relay (relay_latency r) (prelay p) (platency p) 2 in
    if negb (fam (paddr p) =? 1) then
      mkRep (udp_v4 r) (udp_v6 r) (varies_v4 r) (varies_v6 r) l (global_v4 r) (global_v6 r)
    else
      match global_v6 r with
      | Some g =>
          if sa_eqb g (paddr p) then
            mkRep (udp_v4 r) true (varies_v4 r)
                  (match varies_v6 r with None => Some false | v => v end) l (global_v4 r) (global_v6 r)
          else mkRep (udp_v4 r) true (varies_v4 r) (Some true) l (global_v4 r) (global_v6 r)
      | None => mkRep (udp_v4 r) true (varies_v4 r) (varies_v6 r) l (global_v4 r) (Some (paddr p))
      end.

Definition run (ps : list probe) : report := fold_left update ps report_default.

(* One case: two probe histories; the second only contributes its latency table, which is
   merged into the first one's (both ways); `gets` = get on the merged table for relays 0..5. *)
Record input := mkIn { hist : list probe; hist2 : list probe }.
Record output := mkOut {
  o_rep : report;                 (* after hist *)
  o_lat2 : latencies;             (* relay_latency after hist2 *)
  o_merge12 : latencies;          (* lat1.merge(lat2) *)
  o_merge21 : latencies;          (* lat2.merge(lat1) *)
  o_gets : list (option N) }.

Definition GET_KEYS : list N := [0; 1; 2; 3; 4; 5].

Definition model (i : input) : output :=
  let r := run (hist i) in
  let l2 := relay_latency (run (hist2 i)) in
  let m := merge (relay_latency r) l2 in
  mkOut r l2 m (merge l2 (relay_latency r)) (map (get m) GET_KEYS).

Definition table_eqb : table -> table -> bool :=
  list_eqb (fun a b => (fst a =? fst b) && (snd a =? snd b)).
Definition lat_eqb (a b : latencies) : bool :=
  table_eqb (ipv4 a) (ipv4 b) && table_eqb (ipv6 a) (ipv6 b) && table_eqb (https a) (https b).
Definition rep_eqb (a b : report) : bool :=
  Bool.eqb (udp_v4 a) (udp_v4 b) && Bool.eqb (udp_v6 a) (udp_v6 b) &&
  opt_eqb Bool.eqb (varies_v4 a) (varies_v4 b) && opt_eqb Bool.eqb (varies_v6 a) (varies_v6 b) &&
  lat_eqb (relay_latency a) (relay_latency b) &&
  opt_eqb sa_eqb (global_v4 a) (global_v4 b) && opt_eqb sa_eqb (global_v6 a) (global_v6 b).
Definition out_eqb (a b : output) : bool :=
  rep_eqb (o_rep a) (o_rep b) && lat_eqb (o_lat2 a) (o_lat2 b) &&
  lat_eqb (o_merge12 a) (o_merge12 b) && lat_eqb (o_merge21 a) (o_merge21 b) &&
  list_eqb (opt_eqb N.eqb) (o_gets a) (o_gets b).

Definition agree (i : input) (o : output) : bool := out_eqb (model i) o.

(* ---- the property, stated directly on the history (no fold) ---- *)

(* addresses observed for a family: probes of the QAD kind of that family that reported an
   address of that family, in order *)
Definition observed (f : N) (ps : list probe) : list sockaddr :=
  map paddr (filter (fun p => (pkind p =? f + 1) && (fam (paddr p) =? f)) ps).

Definition first_observed (f : N) (ps : list probe) : option sockaddr := hd_error (observed f ps).

(* None with fewer than two observations, else whether two of them differ *)
Definition varies_spec (f : N) (ps : list probe) : option bool :=
  match observed f ps with
  | [] => None
  | [_] => None
  | a :: t => Some (negb (forallb (sa_eqb a) t))
  end.

(* all latencies reported for (probe kind, relay), including wrong-family reports *)
Definition lats_of (k url : N) (ps : list probe) : list N :=
  map platency (filter (fun p => (pkind p =? k) && (prelay p =? url)) ps).

Definition opt_min (a b : option N) : option N :=
  match a, b with
  | Some x, Some y => Some (N.min x y)
  | Some x, None => Some x
  | None, b => b
  end.

Fixpoint sortedb (m : table) : bool :=
  match m with
  | [] => true
  | (k, _) :: t => match t with [] => true | (k', _) :: _ => (k <? k') end && sortedb t
  end.

(* table m holds exactly the minimum latency of every relay reported with probe kind k *)
Definition table_ok (k : N) (ps : list probe) (m : table) : bool :=
  sortedb m &&
  forallb (fun kv => opt_eqb N.eqb (list_min (lats_of k (fst kv) ps)) (Some (snd kv))) m &&
  forallb (fun p => negb (pkind p =? k) || match lookup m (prelay p) with Some _ => true | None => false end) ps.

Definition lat_ok (ps : list probe) (l : latencies) : bool :=
  table_ok 0 ps (https l) && table_ok 1 ps (ipv4 l) && table_ok 2 ps (ipv6 l).

(* m is the pointwise minimum of a and b *)
Definition table_merge_ok (a b m : table) : bool :=
  sortedb m &&
  forallb (fun kv => opt_eqb N.eqb (lookup m (fst kv)) (opt_min (lookup a (fst kv)) (lookup b (fst kv)))) (m ++ a ++ b).
Definition merge_ok (a b m : latencies) : bool :=
  table_merge_ok (https a) (https b) (https m) && table_merge_ok (ipv4 a) (ipv4 b) (ipv4 m) &&
  table_merge_ok (ipv6 a) (ipv6 b) (ipv6 m).

Definition monitor (i : input) (o : output) : bool :=
  let r := o_rep o in
  opt_eqb sa_eqb (global_v4 r) (first_observed 0 (hist i)) &&
  opt_eqb sa_eqb (global_v6 r) (first_observed 1 (hist i)) &&
  opt_eqb Bool.eqb (varies_v4 r) (varies_spec 0 (hist i)) &&
  opt_eqb Bool.eqb (varies_v6 r) (varies_spec 1 (hist i)) &&
  Bool.eqb (udp_v4 r) (match observed 0 (hist i) with [] => false | _ => true end) &&
  Bool.eqb (udp_v6 r) (match observed 1 (hist i) with [] => false | _ => true end) &&
  lat_ok (hist i) (relay_latency r) &&
  lat_ok (hist2 i) (o_lat2 o) &&
  merge_ok (relay_latency r) (o_lat2 o) (o_merge12 o) &&
  lat_eqb (o_merge12 o) (o_merge21 o) &&                                  (* commutative *)
  list_eqb (opt_eqb N.eqb) (o_gets o)
    (map (fun u => opt_min (lookup (https (o_merge12 o)) u)
                    (opt_min (lookup (ipv4 (o_merge12 o)) u) (lookup (ipv6 (o_merge12 o)) u))) GET_KEYS).

Definition known (i : input) : N := 0.

(* 0 empty history / 1 only https or wrong-family / 2 one family observed once /
   3 some family observed at least twice, all equal / 4 some family varies *)
Definition tag (i : input) : N :=
  match hist i with
  | [] => 0
  | _ =>
      let v4 := varies_spec 0 (hist i) in let v6 := varies_spec 1 (hist i) in
      if opt_eqb Bool.eqb v4 (Some true) || opt_eqb Bool.eqb v6 (Some true) then 4
      else if opt_eqb Bool.eqb v4 (Some false) || opt_eqb Bool.eqb v6 (Some false) then 3
      else match observed 0 (hist i) ++ observed 1 (hist i) with [] => 1 | _ => 2 end
  end.

Definition judge (i : input) (o : output) : bool * bool * N * N :=
  (agree i o, monitor i o, known i, tag i).

End C27.
