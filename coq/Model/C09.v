(* C09 — relay per-client receive rate limiter
   (iroh-relay/src/server/streams.rs: Bucket 368-479, RateLimited::poll_read 565-618).
   Executable model, definitions only.

   Time: every Instant is its offset in NANOSECONDS from the start of the
   (paused-clock) runtime, a non-negative Z.  A Duration is its total number
   of nanoseconds (0 .. DUR_MAX).  i64 values are Z; every cast, saturation
   and checked operation of the Rust code is explicit.
   Not modelled: overflow of `Instant + Duration` (std panics when the
   monotonic clock reading would exceed i64::MAX seconds); see notes/C09.md. *)
From V Require Import Lib.Base Lib.MachineInt.

Module C09.
Local Open Scope Z_scope.

Definition NS_PER_MS : Z := 1000000.
Definition TWO32 : Z := 4294967296.
Definition TWO64 : Z := 18446744073709551616.
Definition U32MAX : Z := 4294967295.
(* Duration::MAX = u64::MAX s + 999_999_999 ns *)
Definition DUR_MAX : Z := TWO64 * 1000000000 - 1.

(* Duration::as_millis (u128, exact) *)
Definition ms (d : Z) : Z := d / NS_PER_MS.
(* `x as u32` of a non-negative integer *)
Definition as_u32 (z : Z) : Z := z mod TWO32.
(* `x as i64` of a u128 *)
Definition as_i64 (z : Z) : Z :=
  let w := z mod TWO64 in if w <=? I64_MAX then w else w - TWO64.

Record bucket := mkB {
  fill : Z;        (* i64 *)
  bmax : Z;        (* i64 *)
  last_fill : Z;   (* Instant, ns offset *)
  period : Z;      (* Duration, ns *)
  refill : Z       (* i64 *)
}.

(* Bucket::new (398-420).  Err 1 = InvalidBucketConfig.
   The conjunct `ms per <=? U32MAX` is the C09 fix (period must fit the u32
   millisecond arithmetic of update_state). *)
Definition new (now mx bps per : Z) : res bucket :=
  let pms := ms per in
  let rf := Z.quot (i64_sat (bps * as_i64 pms)) 1000 in
  if (0 <? mx) && (0 <? bps) && (0 <? as_u32 pms) && (pms <=? U32MAX) && (0 <? rf)
  then Ok (mkB mx mx now per rf)
  else Err 1.

(* Bucket::update_state (437-452) *)
Definition update_state (b : bucket) (now : Z) : res bucket :=
  let el := ms (Z.max 0 (now - last_fill b)) in          (* saturating_duration_since *)
  let d := as_u32 (ms (period b)) in
  if d =? 0 then Panic else                              (* u32 division by zero *)
  let periods := as_u32 el / d in
  if periods =? 0 then Ok b else
  let prod := i64_sat (periods * refill b) in            (* (periods as i64).saturating_mul(refill)  [fix] *)
  let f := Z.min (i64_sat (fill b + prod)) (bmax b) in
  let adv := period b * periods in                       (* Duration * u32, checked *)
  if DUR_MAX <? adv then Panic else
  Ok (mkB f (bmax b) (last_fill b + adv) (period b) (refill b)).

(* Bucket::consume (462-478): new state and Ok (None) / Err deadline (Some d). *)
Definition consume (b : bucket) (now n : Z) : res (bucket * option Z) :=
  let bytes := Z.min n I64_MAX in                        (* i64::try_from(usize).unwrap_or(MAX) *)
  match update_state b now with
  | Panic => Panic
  | Err e => Err e
  | Ok b1 =>
      let f := i64_sat (fill b1 - bytes) in
      let b2 := mkB f (bmax b1) (last_fill b1) (period b1) (refill b1) in
      if 0 <? f then Ok (b2, None) else
      let missing := i64_sat (- f) in                    (* saturating_neg *)
      if refill b2 =? 0 then Panic else                  (* i64 division by zero *)
      let pn := i64_sat (Z.quot missing (refill b2) + 1) in   (* .saturating_add(1)  [fix] *)
      let pn32 := if (0 <=? pn) && (pn <=? U32MAX) then pn else U32MAX in
      let w := pn32 * period b2 in                       (* u32 * Duration, checked *)
      if DUR_MAX <? w then Panic else
      Ok (b2, Some (last_fill b2 + w))
  end.

(* ClientRateLimit: bytes_per_second (NonZeroU32), max_burst_bytes (Option<NonZeroU32>) *)
Definition cfg := (Z * option Z)%type.

(* Bucket::from_config (422-435) *)
Definition from_config (now : Z) (c : option cfg) : res (option bucket) :=
  match c with
  | None => Ok None
  | Some (bps, burst) =>
      let mx := match burst with Some m => m | None => bps / 10 end in
      match new now mx bps (100 * NS_PER_MS) with
      | Ok b => Ok (Some b)
      | Err e => Err e
      | Panic => Panic
      end
  end.

(* RateLimited (335-355): bucket, pending refill sleep (its deadline), an
   unseen watch update, and the limited_tx counter. *)
Record rl := mkR {
  bkt : option bucket;
  refilled : option Z;
  pend : option (option cfg);
  limited : Z
}.

(* tokio timer: a Sleep with deadline d has fired at `now` iff the deadline
   rounded UP to a millisecond tick is <= now rounded DOWN to a tick. *)
Definition fired (d now : Z) : bool := (d + 999999) / NS_PER_MS <=? now / NS_PER_MS.

(* RateLimited::poll_read (567-617) with an inner reader that has `avail`
   bytes ready (Pending when 0) and a buffer of `cap` bytes.
   Result: new state and None = Poll::Pending / Some n = Ready(n bytes). *)
Definition poll (s : rl) (now avail cap : Z) : res (rl * option Z) :=
  (* 577-590: pick up a live rate change *)
  let s1 :=
    match pend s with
    | None => Ok s
    | Some c =>
        match from_config now c with
        | Ok b => Ok (mkR b None None (limited s))
        | Err _ => Ok (mkR (bkt s) (refilled s) None (limited s))   (* warn, ignore *)
        | Panic => Panic
        end
    end in
  match s1 with
  | Panic => Panic
  | Err e => Err e
  | Ok s1 =>
      let inner := if avail =? 0 then None else Some (Z.min avail cap) in
      match bkt s1 with
      | None => Ok (s1, inner)                               (* 592-595 *)
      | Some b =>
          (* 598-601 *)
          let wait := match refilled s1 with
                      | Some d => negb (fired d now)
                      | None => false
                      end in
          if wait then Ok (s1, None) else
          match inner with
          | None => Ok (mkR (Some b) None None (limited s1), None)   (* 607: inner Pending *)
          | Some n =>
              match consume b now n with                     (* 611-614 *)
              | Panic => Panic
              | Err e => Err e
              | Ok (b', None) => Ok (mkR (Some b') None None (limited s1), Some n)
              | Ok (b', Some d) => Ok (mkR (Some b') (Some d) None (limited s1 + 1), Some n)
              end
          end
      end
  end.

(* ---- histories ---- *)
Inductive ev :=
| Advance (dt : Z)            (* tokio::time::advance *)
| Consume (n : Z)             (* Bucket::consume, bucket mode *)
| Poll (avail cap : Z)        (* one RateLimited::poll_read, reader mode *)
| Reconfig (c : option cfg).  (* watch::Sender::send_replace, reader mode *)

Inductive obs :=
| ONone
| OCons (d : option Z)        (* None = Ok(()), Some d = Err(deadline) *)
| OPoll (r : option Z).       (* None = Pending, Some n = Ready, n bytes *)

Inductive setup :=
| SBucket (mx bps per : Z)    (* Bucket::new(mx, bps, Duration(per ns)) at time 0 *)
| SReader (c : option cfg).   (* RateLimited::from_watcher with initial value c *)

Fixpoint run_bucket (b : bucket) (now : Z) (es : list ev) : res (list obs) :=
  match es with
  | [] => Ok []
  | Advance dt :: es' =>
      match run_bucket b (now + dt) es' with Ok l => Ok (ONone :: l) | x => x end
  | Consume n :: es' =>
      match consume b now n with
      | Panic => Panic
      | Err e => Err e
      | Ok (b', r) =>
          match run_bucket b' now es' with Ok l => Ok (OCons r :: l) | x => x end
      end
  | _ :: es' =>
      match run_bucket b now es' with Ok l => Ok (ONone :: l) | x => x end
  end.

Fixpoint run_reader (s : rl) (now : Z) (es : list ev) : res (list obs * Z) :=
  match es with
  | [] => Ok ([], limited s)
  | Advance dt :: es' =>
      match run_reader s (now + dt) es' with Ok (l, c) => Ok (ONone :: l, c) | x => x end
  | Poll avail cap :: es' =>
      match poll s now avail cap with
      | Panic => Panic
      | Err e => Err e
      | Ok (s', r) =>
          match run_reader s' now es' with Ok (l, c) => Ok (OPoll r :: l, c) | x => x end
      end
  | Reconfig c :: es' =>
      match run_reader (mkR (bkt s) (refilled s) (Some c) (limited s)) now es' with
      | Ok (l, c') => Ok (ONone :: l, c') | x => x end
  | Consume _ :: es' =>
      match run_reader s now es' with Ok (l, c) => Ok (ONone :: l, c) | x => x end
  end.

Definition input := (setup * list ev)%type.
Definition output := res (list obs * Z).

Definition model (i : input) : output :=
  match i with
  | (SBucket mx bps per, es) =>
      match new 0 mx bps per with
      | Ok b => match run_bucket b 0 es with Ok l => Ok (l, 0) | Err e => Err e | Panic => Panic end
      | Err e => Err e
      | Panic => Panic
      end
  | (SReader c, es) =>
      match from_config 0 c with
      | Ok b => run_reader (mkR b None None 0) 0 es
      | Err e => Err e
      | Panic => Panic
      end
  end.

Definition optz_eqb := opt_eqb Z.eqb.
Definition obs_eqb (a b : obs) : bool :=
  match a, b with
  | ONone, ONone => true
  | OCons x, OCons y => optz_eqb x y
  | OPoll x, OPoll y => optz_eqb x y
  | _, _ => false
  end.
Definition out_eqb (a b : list obs * Z) : bool :=
  list_eqb obs_eqb (fst a) (fst b) && Z.eqb (snd a) (snd b).
Definition agree (i : input) (o : output) : bool := res_eqb out_eqb (model i) o.

(* ---- the property as a function of an observed output ---- *)

(* The rate bound is checked while the current limit is younger than
   HORIZON = (2^32 - 1) ms (the range in which `elapsed_ms as u32` is exact). *)
Definition HORIZON : Z := U32MAX * NS_PER_MS.

(* Bucket mode: every deadline is finite and bounded:
   d <= 2*now + u32::MAX * period   (no stall). *)
Fixpoint mon_bucket (per now : Z) (es : list ev) (os : list obs) : bool :=
  match es, os with
  | Advance dt :: es', _ :: os' => mon_bucket per (now + dt) es' os'
  | Consume _ :: es', OCons (Some d) :: os' =>
      (d <=? 2 * now + U32MAX * per) && mon_bucket per now es' os'
  | _ :: es', _ :: os' => mon_bucket per now es' os'
  | _, _ => true
  end.

(* Reader mode.  lim = the limit in force: (t0, burst, refill per period,
   period in ns as the limiter counts it) ; c = bytes read since t0;
   pd = configuration sent but not yet seen by a poll. *)
Definition lim_of (now : Z) (c : option cfg) : res (option (Z * Z * Z * Z)) :=
  match from_config now c with
  | Ok None => Ok None
  | Ok (Some b) => Ok (Some (now, bmax b, refill b, ms (period b) * NS_PER_MS))
  | Err e => Err e
  | Panic => Panic
  end.

Definition budget_ok (l : Z * Z * Z * Z) (c now : Z) : bool :=
  let '(t0, mx, rf, pns) := l in
  (HORIZON <=? now - t0) || (c <? mx + ((now - t0) / pns) * rf).

Fixpoint mon_reader (lim : option (Z * Z * Z * Z)) (c : Z) (pd : option (option cfg))
         (now : Z) (es : list ev) (os : list obs) : bool :=
  match es, os with
  | Advance dt :: es', _ :: os' => mon_reader lim c pd (now + dt) es' os'
  | Reconfig cf :: es', _ :: os' => mon_reader lim c (Some cf) now es' os'
  | Poll _ _ :: es', o :: os' =>
      let '(lim1, c1) :=
        match pd with
        | None => (lim, c)
        | Some cf => match lim_of now cf with
                     | Ok l => (l, 0)
                     | _ => (lim, c)
                     end
        end in
      match o with
      | OPoll (Some n) =>
          (* bytes are read only while the budget accrued since t0 is positive *)
          (match lim1 with Some l => budget_ok l c1 now | None => true end)
          && mon_reader lim1 (c1 + n) None now es' os'
      | _ => mon_reader lim1 c1 None now es' os'
      end
  | _ :: es', _ :: os' => mon_reader lim c pd now es' os'
  | _, _ => true
  end.

(* Resume clause (reader mode): a reader is never left sleeping past what the CURRENT limit
   requires.  The monitor keeps the bucket in effect [sb] — installed full by the poll that
   picks up a (valid) reconfiguration, then debited by every OBSERVED read exactly as
   Bucket::consume debits it — and checks every poll that was observed Pending although the
   client had input: the bucket in effect must be empty (fill <= 0) and the poll must come
   before the first refill instant of that bucket's own period grid at which its fill is
   positive again (timer granularity: [fired]).  *)
Definition first_positive (b : bucket) : Z :=
  last_fill b + ((- fill b) / refill b + 1) * period b.

Definition pending_ok (sb : option bucket) (avail now : Z) : bool :=
  (avail =? 0) ||
  match sb with
  | Some b => (fill b <=? 0) && negb (fired (first_positive b) now)
  | None => false          (* no limit in effect: nothing to wait for *)
  end.

Fixpoint mon_resume (sb : option bucket) (pd : option (option cfg))
         (now : Z) (es : list ev) (os : list obs) : bool :=
  match es, os with
  | Advance dt :: es', _ :: os' => mon_resume sb pd (now + dt) es' os'
  | Reconfig cf :: es', _ :: os' => mon_resume sb (Some cf) now es' os'
  | Poll avail cap :: es', o :: os' =>
      let sb1 :=
        match pd with
        | None => sb
        | Some cf => match from_config now cf with
                     | Ok b => b            (* the new limit takes effect with a full bucket *)
                     | _ => sb              (* invalid update: ignored *)
                     end
        end in
      match o with
      | OPoll None => pending_ok sb1 avail now && mon_resume sb1 None now es' os'
      | OPoll (Some n) =>
          match sb1 with
          | None => mon_resume None None now es' os'
          | Some b =>
              match consume b now n with
              | Ok (b', _) => mon_resume (Some b') None now es' os'
              | _ => true
              end
          end
      | _ => mon_resume sb1 None now es' os'
      end
  | _ :: es', _ :: os' => mon_resume sb pd now es' os'
  | _, _ => true
  end.

(* The property's quantifier: values of the Rust types.  i64 parameters, a
   Duration, non-negative time advances, usize byte counts, a read buffer of
   at most isize::MAX bytes, NonZeroU32 limits. *)
Definition wf_cfg (c : option cfg) : bool :=
  match c with
  | None => true
  | Some (bps, burst) =>
      (1 <=? bps) && (bps <=? U32MAX) &&
      match burst with None => true | Some m => (1 <=? m) && (m <=? U32MAX) end
  end.
Definition wf_ev (e : ev) : bool :=
  match e with
  | Advance dt => 0 <=? dt
  | Consume n => (0 <=? n) && (n <? TWO64)
  | Poll avail cap => (0 <=? avail) && (0 <=? cap) && (cap <=? I64_MAX)
  | Reconfig c => wf_cfg c
  end.
Definition wf_setup (s : setup) : bool :=
  match s with
  | SBucket mx bps per => i64_in mx && i64_in bps && (0 <=? per) && (per <=? DUR_MAX)
  | SReader c => wf_cfg c
  end.
Definition wf_input (i : input) : bool := wf_setup (fst i) && forallb wf_ev (snd i).

Definition monitor (i : input) (o : output) : bool :=
  if negb (wf_input i) then true else
  match o with
  | Panic => false                       (* no configuration or byte count may panic *)
  | Err _ => true                        (* configuration rejected: nothing ran *)
  | Ok (os, _) =>
      match i with
      | (SBucket mx bps per, es) => mon_bucket per 0 es os
      | (SReader cf, es) =>
          match lim_of 0 cf with
          | Ok l => mon_reader l 0 None 0 es os
          | _ => true
          end &&
          match from_config 0 cf with
          | Ok sb => mon_resume sb None 0 es os
          | _ => true
          end
      end
  end.

Definition known (i : input) : N := 0%N.

(* coverage tag: 0 trivial (no events) / 1 rejected configuration /
   bucket mode: 2 never throttled, 3 throttled (some Err deadline), 4 throttled with
     period count clamped or i64 saturation in play (huge parameters) /
   reader mode: 5 unlimited throughout, 6 limited never throttled,
     7 throttled and later read again, 8 throttled, 9 live reconfiguration applied while limited. *)
Definition has_deadline (l : list obs) : bool :=
  existsb (fun o => match o with OCons (Some _) => true | _ => false end) l.
Definition has_pending (l : list obs) : bool :=
  existsb (fun o => match o with OPoll None => true | _ => false end) l.
Fixpoint ready_after_pending (seen : bool) (l : list obs) : bool :=
  match l with
  | [] => false
  | OPoll None :: l' => ready_after_pending true l'
  | OPoll (Some _) :: l' => seen || ready_after_pending seen l'
  | _ :: l' => ready_after_pending seen l'
  end.

Definition tag (i : input) : N :=
  match i with
  | (_, []) => 0%N
  | (SBucket mx bps per, es) =>
      match model i with
      | Ok (l, _) =>
          if has_deadline l
          then (if (I64_MAX / 4 <? mx) || (I64_MAX / 4 <? bps) || (TWO32 * NS_PER_MS <=? per) then 4%N else 3%N)
          else 2%N
      | _ => 1%N
      end
  | (SReader c, es) =>
      match model i with
      | Ok (l, lc) =>
          if existsb (fun e => match e with Reconfig _ => true | _ => false end) es && (0 <? lc) then 9%N
          else if ready_after_pending false l && (0 <? lc) then 7%N
          else if 0 <? lc then 8%N
          else if match c with None => true | _ => false end then 5%N
          else 6%N
      | _ => 1%N
      end
  end.

Definition judge (i : input) (o : output) : bool * bool * N * N :=
  (agree i o, monitor i o, known i, tag i).

End C09.
