(* C32 — pkarr SignedPacket constructors and accessors (iroh-dns/src/pkarr.rs).
   Executable model, definitions only.

   Wire layout: 32 key | 64 signature | 8 timestamp (big endian) | DNS payload.
   Ed25519 verification (PublicKey::verify = verify_strict), "these 32 bytes are a
   curve point" (PublicKey::try_from) and the DNS parser (simple_dns::Packet::parse)
   are Section variables. *)
From V Require Import Lib.Base Lib.Dec Gen.Consts.
Open Scope N_scope.

Module C32.

Definition slice (a b : N) (l : bytes) : bytes := firstn (N.to_nat (b - a)) (skipn (N.to_nat a) l).

Definition be_u64 (l : bytes) : N := fold_left (fun a b => a * 256 + b) l 0.
Fixpoint be_bytes (n : nat) (v : N) : bytes :=
  match n with
  | O => []
  | S k => be_bytes k (v / 256) ++ [v mod 256]
  end.
Definition be8 (v : N) : bytes := be_bytes 8 v.        (* u64::to_be_bytes *)

(* signable (pkarr.rs:291-295), BEP44:
     format!("3:seqi{}e1:v{}:", timestamp, v.len()) ++ v *)
Definition signable (ts : N) (v : bytes) : bytes :=
  str_bytes "3:seqi" ++ dec ts ++ str_bytes "e1:v" ++ dec (len v) ++ str_bytes ":" ++ v.

Definition key_of (bs : bytes) : bytes := slice 0 32 bs.
Definition sig_of (bs : bytes) : bytes := slice 32 96 bs.
Definition ts_of (bs : bytes) : N := be_u64 (slice 96 104 bs).
Definition payload_of (bs : bytes) : bytes := skipn 104 bs.

(* SignedPacketVerifyError codes *)
Definition E_SHORT : N := 1.    (* TooShort *)
Definition E_LARGE : N := 2.    (* TooLarge *)
Definition E_SIG : N := 3.      (* SignatureError *)
Definition E_DNS : N := 4.      (* DnsError *)
Definition E_KEY : N := 5.      (* InvalidKey *)

Section Model.
  Variable is_point : bytes -> bool.                    (* PublicKey::try_from(32 bytes).is_ok() *)
  Variable verify : bytes -> bytes -> bytes -> bool.    (* key, message, signature *)
  Variable dns_ok : bytes -> bool.                      (* Packet::parse(payload).is_ok() *)

  (* a SignedPacket value is its byte vector *)

  (* from_bytes (pkarr.rs:91-117) *)
  Definition from_bytes (bs : bytes) : res bytes :=
    if len bs <? PKARR_HEADER_SIZE then Err E_SHORT
    else if PKARR_MAX_SIGNED_PACKET_SIZE <? len bs then Err E_LARGE
    else if negb (is_point (key_of bs)) then Err E_KEY
    else if negb (verify (key_of bs) (signable (ts_of bs) (payload_of bs)) (sig_of bs)) then Err E_SIG
    else if negb (dns_ok (payload_of bs)) then Err E_DNS
    else Ok bs.

  (* from_relay_payload (pkarr.rs:120-128); public_key is a PublicKey value (32 bytes, a point) *)
  Definition from_relay_payload (key payload : bytes) : res bytes := from_bytes (key ++ payload).

  (* from_bytes_unchecked (pkarr.rs:133-145).
     [check_key] = false is the code before the fix (no look at the key bytes at all),
     true is the fixed code (the key must be a curve point; the signature stays unchecked). *)
  Definition from_bytes_unchecked_with (check_key : bool) (bs : bytes) : res bytes :=
    if len bs <? PKARR_HEADER_SIZE then Err E_SHORT
    else if PKARR_MAX_SIGNED_PACKET_SIZE <? len bs then Err E_LARGE
    else if check_key && negb (is_point (key_of bs)) then Err E_KEY
    else if negb (dns_ok (payload_of bs)) then Err E_DNS
    else Ok bs.

  (* from_parts_unchecked (pkarr.rs:255-267): the parts are arbitrary slices, simply concatenated *)
  Definition from_parts_unchecked_with (check_key : bool) (key sig : bytes) (ts : N) (payload : bytes) : res bytes :=
    from_bytes_unchecked_with check_key (key ++ sig ++ be8 ts ++ payload).

  (* from_txt_strings (pkarr.rs:44-89).  [key] = secret_key.public() (32 bytes, a point).
     [build] is the DNS library's part, supplied as an oracle: None when TXT::add_string refuses a
     value or Packet::build_bytes_vec_compressed fails (both -> SignedPacketBuildError::DnsError, code 1),
     Some payload otherwise.  Name::new_unchecked never fails and the built payload is NOT parsed back.
     [ts] = Timestamp::now(), [sig] = secret_key.sign(signable ts payload): given (64 bytes). *)
  Definition EB_DNS : N := 1.     (* SignedPacketBuildError::DnsError *)
  Definition EB_LARGE : N := 2.   (* SignedPacketBuildError::PacketTooLarge *)
  Definition from_txt_strings (key sig : bytes) (ts : N) (build : option bytes) : res bytes :=
    match build with
    | None => Err EB_DNS
    | Some pl => if PKARR_MAX_DNS_PACKET_SIZE <? len pl then Err EB_LARGE
                 else Ok (key ++ sig ++ be8 ts ++ pl)
    end.

  Definition FIXED : bool := true.
  Definition from_bytes_unchecked := from_bytes_unchecked_with FIXED.
  Definition from_parts_unchecked := from_parts_unchecked_with FIXED.

  (* ---- accessors (pkarr.rs:147-183, 189-249, 270-288); slicing out of range panics ---- *)
  Definition public_key (p : bytes) : res bytes :=
    if len p <? 32 then Panic
    else if is_point (key_of p) then Ok (key_of p) else Panic.     (* .expect("valid public key") *)
  Definition signature (p : bytes) : res bytes :=
    if len p <? 96 then Panic else Ok (sig_of p).
  Definition timestamp (p : bytes) : res N :=
    if len p <? 104 then Panic else Ok (ts_of p).
  Definition encoded_packet (p : bytes) : res bytes :=
    if len p <? 104 then Panic else Ok (payload_of p).
  Definition to_relay_payload (p : bytes) : res bytes :=
    if len p <? 32 then Panic else Ok (skipn 32 p).
  (* txt_records / all_txt_records: public_key() first, then encoded_packet(); a payload that
     does not parse yields an empty list, never a panic.  The record contents are not modelled. *)
  Definition txt_records (p : bytes) : res unit :=
    match public_key p with
    | Ok _ => match encoded_packet p with Ok _ => Ok tt | Err e => Err e | Panic => Panic end
    | Err e => Err e
    | Panic => Panic
    end.
  (* Display: public_key, timestamp, all_txt_records;  Debug: public_key, timestamp *)
  Definition display (p : bytes) : res unit :=
    match public_key p with
    | Ok _ => match timestamp p with Ok _ => txt_records p | Err e => Err e | Panic => Panic end
    | Err e => Err e
    | Panic => Panic
    end.
  Definition debug (p : bytes) : res unit :=
    match public_key p with
    | Ok _ => match timestamp p with Ok _ => Ok tt | Err e => Err e | Panic => Panic end
    | Err e => Err e
    | Panic => Panic
    end.

  (* everything the harness observes of a constructed packet *)
  Record obs := mkObs {
    ob_bytes : bytes;            (* as_bytes *)
    ob_key : res bytes;          (* public_key().as_bytes() *)
    ob_sig : res bytes;          (* signature().to_bytes() *)
    ob_ts : res N;               (* timestamp().as_micros() *)
    ob_payload : res bytes;      (* encoded_packet() *)
    ob_relay : res bytes;        (* to_relay_payload() *)
    ob_txt : res unit;           (* txt_records("_iroh") and all_txt_records() *)
    ob_display : res unit;
    ob_debug : res unit
  }.

  Definition observe (p : bytes) : obs :=
    mkObs p (public_key p) (signature p) (timestamp p) (encoded_packet p) (to_relay_payload p)
          (txt_records p) (display p) (debug p).

  Definition obs_total (o : obs) : bool :=
    negb (is_panic (ob_key o)) && negb (is_panic (ob_sig o)) && negb (is_panic (ob_ts o)) &&
    negb (is_panic (ob_payload o)) && negb (is_panic (ob_relay o)) && negb (is_panic (ob_txt o)) &&
    negb (is_panic (ob_display o)) && negb (is_panic (ob_debug o)).
End Model.

Definition unit_eqb (a b : unit) : bool := true.
Definition obs_eqb (x y : obs) : bool :=
  bytes_eqb (ob_bytes x) (ob_bytes y) &&
  res_eqb bytes_eqb (ob_key x) (ob_key y) && res_eqb bytes_eqb (ob_sig x) (ob_sig y) &&
  res_eqb N.eqb (ob_ts x) (ob_ts y) && res_eqb bytes_eqb (ob_payload x) (ob_payload y) &&
  res_eqb bytes_eqb (ob_relay x) (ob_relay y) && res_eqb unit_eqb (ob_txt x) (ob_txt y) &&
  res_eqb unit_eqb (ob_display x) (ob_display y) && res_eqb unit_eqb (ob_debug x) (ob_debug y).

(* ---- the instance evaluated by the correspondence check ----
   The harness supplies, per case, the real answers of the three primitives for
   exactly the arguments the constructors can pass them (tables; anything else is false). *)
(* second case kind: SignedPacket::from_txt_strings(secret, name, values, ttl).  The harness supplies the
   public key of the secret and the DNS library's answer for the same name/values (computed with simple_dns
   directly); signature and timestamp of the produced packet are the case's in_sig / in_ts. *)
Record txt_in := mkTxt {
  t_key : bytes;             (* secret.public().as_bytes() *)
  t_build : option bytes     (* None: add_string / build failed; Some payload *)
}.

Record input := mkIn {
  in_key : bytes;        (* first part given to from_parts_unchecked (any length) *)
  in_sig : bytes;        (* second part (any length) *)
  in_ts : N;             (* timestamp (u64) *)
  in_payload : bytes;    (* last part *)
  in_key2 : bytes;       (* another PublicKey value (a valid point) for from_relay_payload *)
  in_points : list (bytes * bool);                       (* PublicKey::try_from answers *)
  in_verifs : list (bytes * bytes * bytes * bool);       (* PublicKey::verify answers: key, msg, sig *)
  in_dns : list (bytes * bool);                          (* Packet::parse answers *)
  in_txt : option txt_in                                 (* Some: the case is a from_txt_strings call *)
}.

Fixpoint look1 (t : list (bytes * bool)) (k : bytes) : bool :=
  match t with
  | [] => false
  | (x, b) :: r => if bytes_eqb x k then b else look1 r k
  end.
Fixpoint look3 (t : list (bytes * bytes * bytes * bool)) (k m s : bytes) : bool :=
  match t with
  | [] => false
  | (x, y, z, b) :: r => if bytes_eqb x k && bytes_eqb y m && bytes_eqb z s then b else look3 r k m s
  end.
Definition pt (k : bytes) (b : bool) : bytes * bool := (k, b).
Definition vf (k m s : bytes) (b : bool) : bytes * bytes * bytes * bool := (k, m, s, b).

Definition all_bytes (i : input) : bytes := in_key i ++ in_sig i ++ be8 (in_ts i) ++ in_payload i.

(* per case: every constructor applied to the same material *)
Record out := mkOut {
  r_from_bytes : res obs;        (* from_bytes(all) *)
  r_unchecked : res obs;         (* from_bytes_unchecked(all) *)
  r_parts : res obs;             (* from_parts_unchecked(key, sig, ts, payload) *)
  r_relay : option (res obs);    (* from_relay_payload(key, all[32..]) when all[..32] is a PublicKey *)
  r_relay2 : option (res obs);   (* from_relay_payload(key2, all[32..]) when all has >= 32 bytes *)
  r_txt : option (res obs)       (* from_txt_strings(...) for the second case kind *)
}.
Definition output := out.

Definition c_is_point (i : input) := look1 (in_points i).
Definition c_verify (i : input) := look3 (in_verifs i).
Definition c_dns_ok (i : input) := look1 (in_dns i).

Definition map_res {A B} (f : A -> B) (r : res A) : res B :=
  match r with Ok a => Ok (f a) | Err e => Err e | Panic => Panic end.

Definition c_observe (i : input) : bytes -> obs := observe (c_is_point i).

Definition model_txt (i : input) (t : txt_in) : res bytes :=
  from_txt_strings (t_key t) (in_sig i) (in_ts i) (t_build t).

(* the from_txt_strings case is inside the property's quantifier: the key is the key of a SecretKey
   (a point, 32 bytes) and the signature has 64 bytes *)
Definition txt_wf (i : input) : bool :=
  match in_txt i with
  | Some t => c_is_point i (t_key t) && (len (t_key t) =? 32) && (len (in_sig i) =? 64)
  | None => false
  end.

Definition model (i : input) : output :=
  let bs := all_bytes i in
  let ip := c_is_point i in let vf := c_verify i in let dn := c_dns_ok i in
  mkOut
    (map_res (c_observe i) (from_bytes ip vf dn bs))
    (map_res (c_observe i) (from_bytes_unchecked ip dn bs))
    (map_res (c_observe i) (from_parts_unchecked ip dn (in_key i) (in_sig i) (in_ts i) (in_payload i)))
    (if (32 <=? len bs) && ip (key_of bs)
     then Some (map_res (c_observe i) (from_relay_payload ip vf dn (key_of bs) (skipn 32 bs))) else None)
    (if 32 <=? len bs
     then Some (map_res (c_observe i) (from_relay_payload ip vf dn (in_key2 i) (skipn 32 bs))) else None)
    (match in_txt i with Some t => Some (map_res (c_observe i) (model_txt i t)) | None => None end).

Definition out_eqb (x y : out) : bool :=
  res_eqb obs_eqb (r_from_bytes x) (r_from_bytes y) &&
  res_eqb obs_eqb (r_unchecked x) (r_unchecked y) &&
  res_eqb obs_eqb (r_parts x) (r_parts y) &&
  opt_eqb (res_eqb obs_eqb) (r_relay x) (r_relay y) &&
  opt_eqb (res_eqb obs_eqb) (r_relay2 x) (r_relay2 y) &&
  opt_eqb (res_eqb obs_eqb) (r_txt x) (r_txt y).

(* a from_txt_strings case that produced a packet must be well-formed (key of a SecretKey, 64-byte signature)
   and the signature must verify over the model's signable(timestamp, payload) *)
Definition agree_txt (i : input) : bool :=
  match in_txt i with
  | Some t =>
      match model_txt i t with
      | Ok p => txt_wf i && c_verify i (key_of p) (signable (ts_of p) (payload_of p)) (sig_of p)
      | _ => true
      end
  | None => true
  end.

Definition agree (i : input) (o : output) : bool := out_eqb (model i) o && agree_txt i.

(* The property on observed outputs:
   - a packet accepted by from_bytes has a point key, a verifying signature over
     signable(timestamp, payload) under the embedded key, and a parsing payload,
     and is returned unchanged;
   - from_relay_payload for a given key: the same with the given key, which is the
     key the resulting packet reports;
   - every constructed packet can be inspected without panicking. *)
Definition accepted_ok (i : input) (key : bytes) (bs : bytes) (r : res obs) : bool :=
  match r with
  | Ok o =>
      bytes_eqb (ob_bytes o) bs &&
      c_is_point i key &&
      c_verify i key (signable (ts_of bs) (payload_of bs)) (sig_of bs) &&
      c_dns_ok i (payload_of bs) &&
      res_eqb bytes_eqb (ob_key o) (Ok key) &&
      obs_total o
  | Err _ => true
  | Panic => false
  end.
Definition inspect_ok (r : res obs) : bool :=
  match r with
  | Ok o => obs_total o
  | Err _ => true
  | Panic => false
  end.

Definition monitor (i : input) (o : output) : bool :=
  let bs := all_bytes i in
  accepted_ok i (key_of bs) bs (r_from_bytes o) &&
  inspect_ok (r_unchecked o) && inspect_ok (r_parts o) &&
  match r_relay o with Some r => accepted_ok i (key_of bs) bs r | None => true end &&
  match r_relay2 o with
  | Some r => negb (len (in_key2 i) =? 32) (* key2 is a PublicKey value: 32 bytes *)
              || accepted_ok i (in_key2 i) (in_key2 i ++ skipn 32 bs) r
  | None => true
  end &&
  match r_txt o with
  | Some r => negb (txt_wf i) || inspect_ok r
  | None => true
  end.

Definition known (i : input) : N := 0.

(* 0 wrong length / 1 accepted by from_bytes / 2 bad signature / 3 key not a point /
   4 signature fine, payload does not parse / 5 bad signature and payload does not parse /
   from_txt_strings cases: 6 packet whose payload parses / 7 packet whose payload does NOT parse / 8 Err *)
Definition tag (i : input) : N :=
  let bs := all_bytes i in
  match in_txt i with
  | Some t =>
      match model_txt i t with
      | Ok p => if c_dns_ok i (payload_of p) then 6 else 7
      | _ => 8
      end
  | None =>
  if (len bs <? PKARR_HEADER_SIZE) || (PKARR_MAX_SIGNED_PACKET_SIZE <? len bs) then 0
  else if negb (c_is_point i (key_of bs)) then 3
  else
    let v := c_verify i (key_of bs) (signable (ts_of bs) (payload_of bs)) (sig_of bs) in
    let d := c_dns_ok i (payload_of bs) in
    if v && d then 1 else if d then 2 else if v then 4 else 5
  end.

Definition judge (i : input) (o : output) : bool * bool * N * N :=
  (agree i o, monitor i o, known i, tag i).

End C32.
