(* C30 — AddressLookupServices::add_boxed / publish (iroh/src/address_lookup.rs).
   Interleaving transition system over the atomic steps of the two functions
   (one step per lock acquisition / lock scope / call into a service), for any
   number of concurrent calls.  Definitions only.

   Two transition systems over the same state:
     [step]      the code as it is in /repo now (after the fix recorded in notes/C30.md):
                 both functions hold `last_data` for their whole body;
     [Old.step]  the code as it was at the pinned commit (the race), kept for the
                 refutation theorems and so that the check can be pointed at it. *)
From V Require Import Lib.Base.
Open Scope N_scope.

Module C30.

(* ---- data ---- *)
Definition addr := (bool * N)%type.            (* (is_relay, id) *)
Definition data := (N * list addr)%type.       (* (user-data id, addresses in order) *)

Definition addr_eqb (a b : addr) : bool := Bool.eqb (fst a) (fst b) && N.eqb (snd a) (snd b).
Definition data_eqb (a b : data) : bool := N.eqb (fst a) (fst b) && list_eqb addr_eqb (snd a) (snd b).

(* addr_filter: 0 = none set, 1 = AddrFilter::unfiltered, 2 = relay_only, 3 = ip_only
   (address_lookup.rs publish, first statement; iroh-dns endpoint_info.rs apply_filter) *)
Definition apply_filter (f : N) (d : data) : data :=
  if f =? 2 then (fst d, filter (fun a => fst a) (snd d))
  else if f =? 3 then (fst d, filter (fun a => negb (fst a)) (snd d))
  else d.

(* ---- calls and program counters ---- *)
Inductive op :=
| Publish (d : data)      (* AddressLookupServices::publish(&d) *)
| Add (x : N)             (* AddressLookupServices::add_boxed(service x) *)
| Clear.                  (* AddressLookupServices::clear() *)

Inductive pc :=
| Idle                                   (* call not started *)
| PFiltered (fd : data)                  (* publish: filter applied, no lock held *)
| PLockedL (fd : data)                   (* publish: holds last_data (write) *)
| PLocked (fd : data) (todo : list N)    (* publish: holds services (read) [+ last_data]; services still to be served *)
| PStored                                (* publish: last_data written, locks still held *)
| PUnlockedS                             (* publish: services guard dropped, last_data still held *)
| ARead                                  (* add: last_data read and given to the new service *)
| APushed                                (* add: service pushed, last_data (read) still held *)
| Done.

Record st := mkSt {
  svcs : list N;               (* the `services` vector *)
  last : option data;          (* `last_data` *)
  evlog : list (N * data);     (* every service.publish(data) call, newest first *)
  pcs : list pc                (* one per call *)
}.

Definition init (prog : list op) : st := mkSt [] None [] (map (fun _ => Idle) prog).

Fixpoint upd {A} (n : nat) (a : A) (l : list A) : list A :=
  match l, n with
  | [], _ => []
  | _ :: r, O => a :: r
  | b :: r, S n' => b :: upd n' a r
  end.

Definition set_pc (s : st) (t : nat) (p : pc) : st := mkSt (svcs s) (last s) (evlog s) (upd t p (pcs s)).

(* Who holds which lock is a function of the program counters. *)
Definition holdsLw (p : pc) : bool :=
  match p with PLockedL _ | PLocked _ _ | PStored | PUnlockedS => true | _ => false end.
Definition holdsLr (p : pc) : bool :=
  match p with ARead | APushed => true | _ => false end.
Definition holdsSr (p : pc) : bool :=
  match p with PLocked _ _ | PStored => true | _ => false end.
Definition nobody (h : pc -> bool) (s : st) : bool := forallb (fun p => negb (h p)) (pcs s).

Definition log_to (x : N) (od : option data) (l : list (N * data)) : list (N * data) :=
  match od with Some d => (x, d) :: l | None => l end.

(* One atomic step of call t.  None = not enabled (lock not available) or nothing to do. *)
Definition step (f : N) (prog : list op) (s : st) (t : nat) : option st :=
  match nth_error prog t, nth_error (pcs s) t with
  | Some (Publish d), Some Idle =>
      (* publish: `let data = match &*self.addr_filter.read() { .. apply_filter .. }` *)
      Some (set_pc s t (PFiltered (apply_filter f d)))
  | Some (Publish _), Some (PFiltered fd) =>
      (* `let mut last_data = self.last_data.write()`: exclusive *)
      if nobody holdsLw s && nobody holdsLr s then Some (set_pc s t (PLockedL fd)) else None
  | Some (Publish _), Some (PLockedL fd) =>
      (* `let services = self.services.read()`; the write lock on `services` is only
         ever held inside one atomic step (push / clear), so this is always available *)
      Some (set_pc s t (PLocked fd (svcs s)))
  | Some (Publish _), Some (PLocked fd (x :: todo)) =>
      (* loop body: `service.publish(&data)` *)
      Some (mkSt (svcs s) (last s) ((x, fd) :: evlog s) (upd t (PLocked fd todo) (pcs s)))
  | Some (Publish _), Some (PLocked fd []) =>
      (* `last_data.replace(data.into_owned())` *)
      Some (mkSt (svcs s) (Some fd) (evlog s) (upd t PStored (pcs s)))
  | Some (Publish _), Some PStored =>
      (* end of function: `services` guard dropped first ... *)
      Some (set_pc s t PUnlockedS)
  | Some (Publish _), Some PUnlockedS =>
      (* ... then the `last_data` guard *)
      Some (set_pc s t Done)
  | Some (Add x), Some Idle =>
      (* add_boxed: `let data = self.last_data.read(); if let Some(data) = &*data { service.publish(data) }` *)
      if nobody holdsLw s
      then Some (mkSt (svcs s) (last s) (log_to x (last s) (evlog s)) (upd t ARead (pcs s)))
      else None
  | Some (Add x), Some ARead =>
      (* `self.services.write().push(service)` *)
      if nobody holdsSr s
      then Some (mkSt (svcs s ++ [x]) (last s) (evlog s) (upd t APushed (pcs s)))
      else None
  | Some (Add _), Some APushed =>
      (* end of function: `last_data` read guard dropped *)
      Some (set_pc s t Done)
  | Some Clear, Some Idle =>
      (* clear: `self.services.write().clear()` *)
      if nobody holdsSr s
      then Some (mkSt [] (last s) (evlog s) (upd t Done (pcs s)))
      else None
  | _, _ => None
  end.

(* ---- the pinned code (before the fix) ----
     add_boxed:  { let data = last_data.read(); if Some -> service.publish }   one step (ARead)
                 services.write().push(service)                                 one step
     publish:    filter; services.read() [held to the end]; loop; last_data.write().replace; end *)
Module Old.
Definition step (f : N) (prog : list op) (s : st) (t : nat) : option st :=
  match nth_error prog t, nth_error (pcs s) t with
  | Some (Publish d), Some Idle => Some (set_pc s t (PFiltered (apply_filter f d)))
  | Some (Publish _), Some (PFiltered fd) => Some (set_pc s t (PLocked fd (svcs s)))
  | Some (Publish _), Some (PLocked fd (x :: todo)) =>
      Some (mkSt (svcs s) (last s) ((x, fd) :: evlog s) (upd t (PLocked fd todo) (pcs s)))
  | Some (Publish _), Some (PLocked fd []) =>
      Some (mkSt (svcs s) (Some fd) (evlog s) (upd t PStored (pcs s)))
  | Some (Publish _), Some PStored => Some (set_pc s t Done)
  | Some (Add x), Some Idle =>
      Some (mkSt (svcs s) (last s) (log_to x (last s) (evlog s)) (upd t ARead (pcs s)))
  | Some (Add x), Some ARead =>
      if nobody holdsSr s
      then Some (mkSt (svcs s ++ [x]) (last s) (evlog s) (upd t Done (pcs s)))
      else None
  | Some Clear, Some Idle =>
      if nobody holdsSr s
      then Some (mkSt [] (last s) (evlog s) (upd t Done (pcs s)))
      else None
  | _, _ => None
  end.
End Old.

(* ---- traces of atomic steps ---- *)
Section Run.
Variable stepf : st -> nat -> option st.

Fixpoint run (s : st) (sched : list nat) : option st :=
  match sched with
  | [] => Some s
  | t :: r => match stepf s t with Some s' => run s' r | None => None end
  end.

(* ---- what the harness can observe: a call runs from one pause point to the next.
   Pause points of the real code: `lookup.publish.after_services`/the service double/
   `lookup.publish.before_store` (all at PLocked) and `lookup.add.after_read` (ARead). *)
Definition pc_of (s : st) (t : nat) : pc := nth t (pcs s) Done.
Definition stops (p : pc) : bool :=
  match p with PLocked _ _ | ARead | Done => true | _ => false end.

(* runs atomic steps of t until a pause point or the end (true), or until a step
   is not enabled (false) *)
Fixpoint adv (fuel : nat) (s : st) (t : nat) : st * bool :=
  match fuel with
  | O => (s, false)
  | S k => match stepf s t with
           | None => (s, false)
           | Some s' => if stops (pc_of s' t) then (s', true) else adv k s' t
           end
  end.

Inductive ev :=
| Go (t : nat)      (* call t was released and reached its next pause point / returned *)
| Blk (t : nat).    (* call t was released and did not get there: it waits for a lock *)

Definition is_done (p : pc) : bool := match p with Done => true | _ => false end.

Fixpoint run_ev (s : st) (evs : list ev) : option st :=
  match evs with
  | [] => Some s
  | Go t :: r =>
      match adv 4 s t with
      | (s', true) => run_ev s' r
      | (_, false) => None
      end
  | Blk t :: r =>
      if is_done (pc_of s t) then None else
      match adv 4 s t with
      | (s', false) => run_ev s' r
      | (_, true) => None
      end
  end.
End Run.

Definition quiescent (s : st) : bool := forallb is_done (pcs s).

(* the data a service was most recently given *)
Fixpoint last_recv (x : N) (l : list (N * data)) : option data :=
  match l with
  | [] => None
  | (y, d) :: r => if N.eqb y x then Some d else last_recv x r
  end.

Definition all_latest (svs : list N) (lst : option data) (log : list (N * data)) : bool :=
  forallb (fun x => opt_eqb data_eqb (last_recv x log) lst) svs.

(* ---- well-formed programs: every added service is a distinct object ---- *)
Fixpoint add_ids (prog : list op) : list N :=
  match prog with
  | [] => []
  | Add x :: r => x :: add_ids r
  | _ :: r => add_ids r
  end.
Fixpoint nodupb (l : list N) : bool :=
  match l with
  | [] => true
  | a :: r => negb (existsb (N.eqb a) r) && nodupb r
  end.
Definition wf (prog : list op) : bool := nodupb (add_ids prog).

(* ---- interface ---- *)
(* input: filter, the calls, and the observed schedule (which call was released when,
   and whether it got to its next pause point) *)
Definition input := (N * list op * list ev)%type.
(* output at quiescence: every service.publish call in order (oldest first), the
   services vector, last_data *)
Definition obs := (list (N * data) * list N * option data)%type.
Definition output := option obs.

Definition observe (s : st) : obs := (rev (evlog s), svcs s, last s).

Definition model_with (stepf : N -> list op -> st -> nat -> option st) (i : input) : output :=
  let '(f, prog, evs) := i in
  match run_ev (stepf f prog) (init prog) evs with
  | Some s => if quiescent s then Some (observe s) else None
  | None => None
  end.
Definition model := model_with step.

Definition ev_eqb (a b : N * data) : bool := N.eqb (fst a) (fst b) && data_eqb (snd a) (snd b).
Definition obs_eqb (a b : obs) : bool :=
  let '(la, sa, da) := a in let '(lb, sb, db) := b in
  list_eqb ev_eqb la lb && list_eqb N.eqb sa sb && opt_eqb data_eqb da db.

Definition agree_with stepf (i : input) (o : output) : bool := opt_eqb obs_eqb (model_with stepf i) o.
Definition agree := agree_with step.

(* The property on an observed end state: every registered service was most
   recently given exactly what `last_data` holds. *)
Definition monitor (i : input) (o : output) : bool :=
  let '(f, prog, evs) := i in
  if negb (wf prog) then true else
  match o with
  | Some (log, svs, lst) => all_latest svs lst (rev log)
  | None => true
  end.

Definition known (i : input) : N := 0.

(* coverage tag: 0 no call; 1 calls never overlap; 2 overlapping calls, nobody had to
   wait; 3 some call was observed waiting for a lock *)
Definition is_blk (e : ev) : bool := match e with Blk _ => true | _ => false end.
Definition ev_thread (e : ev) : nat := match e with Go t | Blk t => t end.

(* overlap: an event of call t while another call has started and not finished,
   judged on the model's own run *)
Definition mid (p : pc) : bool := match p with Idle | Done => false | _ => true end.
Fixpoint count_mid (l : list pc) : nat :=
  match l with [] => O | p :: r => (if mid p then 1 else 0)%nat + count_mid r end.
Fixpoint overlaps (stepf : st -> nat -> option st) (s : st) (evs : list ev) : bool :=
  match evs with
  | [] => false
  | e :: r =>
      let s' := fst (adv stepf 4 s (ev_thread e)) in
      Nat.ltb 1 (count_mid (pcs s')) || overlaps stepf s' r
  end.

Definition tag_with (stepf : N -> list op -> st -> nat -> option st) (i : input) : N :=
  let '(f, prog, evs) := i in
  match prog with
  | [] => 0
  | _ => if existsb is_blk evs then 3
         else if overlaps (stepf f prog) (init prog) evs then 2 else 1
  end.
Definition tag := tag_with step.

Definition judge (i : input) (o : output) : bool * bool * N * N :=
  (agree i o, monitor i o, known i, tag i).

(* The same interface over the pinned (pre-fix) transition system: `./check` can be
   pointed at it with "coq_module": "C30.OldJ" to replay the race on an unfixed tree. *)
Module OldJ.
Definition judge (i : input) (o : output) : bool * bool * N * N :=
  (agree_with Old.step i o, monitor i o, known i, tag_with Old.step i).
End OldJ.

End C30.
