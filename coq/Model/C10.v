(* C10 — relay frame codecs (iroh-relay/src/protos/relay.rs, protos/common.rs) and the
   two sink size checks (client/conn.rs, server/streams.rs).
   Executable model, definitions only.  Byte strings are [list N]; slicing and
   get_* primitives return [Panic] where the Rust operation would panic, so that
   "decoding is total" is a real statement about the guards in the code. *)
From V Require Import Lib.Base Lib.MachineInt Lib.Varint Model.C16.
From V Require Gen.Consts.
Open Scope N_scope.

Module C10.

(* ---- constants ---- *)
Definition MAXP : N := V.Gen.Consts.MAX_PACKET_SIZE.   (* relay.rs:23 *)
Definition KEY_LEN : N := 32.                          (* EndpointId::LENGTH = ed25519 PUBLIC_KEY_LENGTH *)
Definition PV_V1 : N := 1.                             (* http.rs ProtocolVersion, derived Ord: V1 < V2 *)
Definition PV_V2 : N := 2.

(* protos::relay::Error variants, as small codes *)
Definition E_TOO_LARGE : N := 1.      (* FrameTooLarge *)
Definition E_FT_END : N := 2.         (* FrameTypeError::UnexpectedEnd *)
Definition E_FT_UNKNOWN : N := 3.     (* FrameTypeError::UnknownFrameType *)
Definition E_KEY : N := 4.            (* InvalidPublicKey *)
Definition E_INVALID_FRAME : N := 5.  (* InvalidFrame *)
Definition E_INVALID_FT : N := 6.     (* InvalidFrameType *)
Definition E_UTF8 : N := 7.           (* InvalidProtocolMessageEncoding *)
Definition E_VERSION : N := 8.        (* FrameNotAllowedInVersion *)
(* SendError variants of the sinks *)
Definition S_TOO_LARGE : N := 21.     (* ExceedsMaxPacketSize *)
Definition S_EMPTY : N := 22.         (* EmptyPacket *)

Definition bind {A B} (x : res A) (f : A -> res B) : res B :=
  match x with Ok a => f a | Err e => Err e | Panic => Panic end.

Definition bytes_ok := Varint.bytes_ok.

(* ---- bytes::Buf / slice primitives (panic when out of range) ---- *)
Definition get_u8 (b : bytes) : res (N * bytes) :=
  match b with [] => Panic | x :: r => Ok (x, r) end.
Definition get_u16 (b : bytes) : res (N * bytes) :=
  match b with x :: y :: r => Ok (x * 256 + y, r) | _ => Panic end.
Definition slice_to (b : bytes) (n : N) : res bytes :=      (* &b[..n] *)
  if n <=? len b then Ok (firstn (N.to_nat n) b) else Panic.
Definition slice_from (b : bytes) (n : N) : res bytes :=    (* &b[n..] / b.slice(n..) *)
  if n <=? len b then Ok (skipn (N.to_nat n) b) else Panic.
Definition is_empty (b : bytes) : bool := match b with [] => true | _ => false end.

(* ---- core::str::from_utf8 validity ---- *)
Definition cont (x : N) : bool := (128 <=? x) && (x <=? 191).
Definition second3 (x y : N) : bool :=
  if x =? 224 then (160 <=? y) && (y <=? 191)
  else if x =? 237 then (128 <=? y) && (y <=? 159)
  else cont y.
Definition second4 (x y : N) : bool :=
  if x =? 240 then (144 <=? y) && (y <=? 191)
  else if x =? 244 then (128 <=? y) && (y <=? 143)
  else cont y.
Fixpoint utf8_valid (b : bytes) : bool :=
  match b with
  | [] => true
  | x :: r =>
      if x <? 128 then utf8_valid r
      else if (194 <=? x) && (x <=? 223) then
        match r with y :: r' => cont y && utf8_valid r' | _ => false end
      else if (224 <=? x) && (x <=? 239) then
        match r with y :: z :: r' => second3 x y && cont z && utf8_valid r' | _ => false end
      else if (240 <=? x) && (x <=? 244) then
        match r with y :: z :: w :: r' => second4 x y && cont z && cont w && utf8_valid r' | _ => false end
      else false
  end.

(* ---- FrameType (protos/common.rs:18-65) ---- *)
Inductive ftype :=
| ServerChallenge | ClientAuth | ServerConfirmsAuth | ServerDeniesAuth
| ClientToRelayDatagram | ClientToRelayDatagramBatch
| RelayToClientDatagram | RelayToClientDatagramBatch
| EndpointGone | Ping | Pong | Health | Restarting | FStatus.

Definition ft_code (t : ftype) : N :=
  match t with
  | ServerChallenge => 0 | ClientAuth => 1 | ServerConfirmsAuth => 2 | ServerDeniesAuth => 3
  | ClientToRelayDatagram => 4 | ClientToRelayDatagramBatch => 5
  | RelayToClientDatagram => 6 | RelayToClientDatagramBatch => 7
  | EndpointGone => 8 | Ping => 9 | Pong => 10 | Health => 11 | Restarting => 12 | FStatus => 13
  end.

Definition all_ftypes : list ftype :=
  [ServerChallenge; ClientAuth; ServerConfirmsAuth; ServerDeniesAuth;
   ClientToRelayDatagram; ClientToRelayDatagramBatch; RelayToClientDatagram; RelayToClientDatagramBatch;
   EndpointGone; Ping; Pong; Health; Restarting; FStatus].

(* strum::FromRepr *)
Definition ft_from_repr (n : N) : option ftype :=
  find (fun t => ft_code t =? n) all_ftypes.

Definition ft_eqb (a b : ftype) : bool := ft_code a =? ft_code b.

(* FrameType::write_to: VarInt::from(u32).encode  (common.rs:82) *)
Definition ft_write_to (t : ftype) : res bytes := Varint.encode (ft_code t).

(* FrameType::encoded_len (common.rs:88) *)
Definition ft_encoded_len (t : ftype) : res N :=
  let x := ft_code t in
  if x <? 64 then Ok 1 else if x <? 16384 then Ok 2 else if x <? 1073741824 then Ok 4 else Panic.

(* FrameType::from_bytes (common.rs:104): returns the type and the rest of the buffer *)
Definition ft_from_bytes (b : bytes) : res (ftype * bytes) :=
  match Varint.decode b with
  | Panic => Panic
  | Err _ => Err E_FT_END
  | Ok (tag, rest) =>
      if tag <=? U32_MAX then
        match ft_from_repr tag with
        | Some t => Ok (t, rest)
        | None => Err E_FT_UNKNOWN
        end
      else Err E_FT_UNKNOWN
  end.

(* ---- Datagrams (relay.rs:198, 263-303).  ecn: 0 = None, 1 = Ect1, 2 = Ect0, 3 = Ce ---- *)
Definition dg := C16.dg.
Definition mkDg := C16.mkDg.   (* constructor alias used by the harness *)

Definition dg_write_to (d : dg) : bytes :=
  [C16.ecn d] ++
  match C16.seg d with Some s => Varint.be_bytes 2 s | None => [] end ++
  C16.contents d.

Definition dg_encoded_len (d : dg) : N :=
  1 + match C16.seg d with Some _ => 2 | None => 0 end + len (C16.contents d).

Definition dg_from_bytes (b : bytes) (is_batch : bool) : res dg :=
  if negb ((if is_batch then 3 else 1) <=? len b) then Err E_INVALID_FRAME else
  bind (get_u8 b) (fun '(ecn_byte, b1) =>
  let ecn := ecn_byte mod 4 in          (* EcnCodepoint::from_bits: x & 0b11, 0 -> None *)
  if is_batch then
    bind (get_u16 b1) (fun '(s, b2) =>
    Ok (C16.mkDg ecn (if s =? 0 then None else Some s) b2))   (* NonZeroU16::new *)
  else Ok (C16.mkDg ecn None b1)).

(* ---- Status (relay.rs:122-172) ---- *)
Inductive status := Healthy | SameEndpointIdConnected | RateLimited | Unknown (n : N).

Definition status_write_to (s : status) : bytes :=
  [match s with Healthy => 0 | SameEndpointIdConnected => 1 | RateLimited => 2 | Unknown n => n end].
Definition status_encoded_len (s : status) : N := 1.
Definition status_from_bytes (b : bytes) : res status :=
  if is_empty b then Err E_INVALID_FRAME else
  bind (get_u8 b) (fun '(d, _) =>
  Ok (match d with 0 => Healthy | 1 => SameEndpointIdConnected | 2 => RateLimited | n => Unknown n end)).

(* ---- messages.  Durations are total nanoseconds. ---- *)
Inductive r2c :=
| RDatagrams (key : bytes) (d : dg)
| REndpointGone (key : bytes)
| RStatus (s : status)
| RRestarting (reconnect_in try_for : N)
| RPing (data : bytes)
| RPong (data : bytes)
| RHealth (problem : bytes).

Inductive c2r :=
| CPing (data : bytes)
| CPong (data : bytes)
| CDatagrams (key : bytes) (d : dg).

Definition NS_PER_MS : N := 1000000.
(* `d.as_millis() as u32` *)
Definition millis_u32 (ns : N) : N := u32_trunc (ns / NS_PER_MS).

(* RelayToClientMsg::typ (relay.rs:308) *)
Definition r2c_typ (m : r2c) : ftype :=
  match m with
  | RDatagrams _ d => match C16.seg d with Some _ => RelayToClientDatagramBatch | None => RelayToClientDatagram end
  | REndpointGone _ => EndpointGone
  | RPing _ => Ping
  | RPong _ => Pong
  | RStatus _ => FStatus
  | RRestarting _ _ => Restarting
  | RHealth _ => Health
  end.

Definition r2c_payload (m : r2c) : bytes :=
  match m with
  | RDatagrams k d => k ++ dg_write_to d
  | REndpointGone k => k
  | RPing d => d
  | RPong d => d
  | RHealth p => p
  | RRestarting a b => Varint.be_bytes 4 (millis_u32 a) ++ Varint.be_bytes 4 (millis_u32 b)
  | RStatus s => status_write_to s
  end.

Definition r2c_payload_len (m : r2c) : N :=
  match m with
  | RDatagrams _ d => 32 + dg_encoded_len d
  | REndpointGone _ => 32
  | RPing _ | RPong _ => 8
  | RStatus s => status_encoded_len s
  | RRestarting _ _ => 4 + 4
  | RHealth p => len p
  end.

(* write_to (relay.rs:335), encoded_len (relay.rs:372), to_bytes (relay.rs:327) *)
Definition r2c_write_to (m : r2c) : res bytes :=
  bind (ft_write_to (r2c_typ m)) (fun h => Ok (h ++ r2c_payload m)).
Definition r2c_encoded_len (m : r2c) : res N :=
  bind (ft_encoded_len (r2c_typ m)) (fun t => Ok (t + r2c_payload_len m)).
Definition r2c_to_bytes (m : r2c) : res bytes :=
  bind (r2c_encoded_len m) (fun _ => r2c_write_to m).

(* ClientToRelayMsg::typ / write_to / encoded_len / to_bytes (relay.rs:483-533) *)
Definition c2r_typ (m : c2r) : ftype :=
  match m with
  | CDatagrams _ d => match C16.seg d with Some _ => ClientToRelayDatagramBatch | None => ClientToRelayDatagram end
  | CPing _ => Ping
  | CPong _ => Pong
  end.
Definition c2r_payload (m : c2r) : bytes :=
  match m with
  | CDatagrams k d => k ++ dg_write_to d
  | CPing d => d
  | CPong d => d
  end.
Definition c2r_payload_len (m : c2r) : N :=
  match m with
  | CPing _ | CPong _ => 8
  | CDatagrams _ d => 32 + dg_encoded_len d
  end.
Definition c2r_write_to (m : c2r) : res bytes :=
  bind (ft_write_to (c2r_typ m)) (fun h => Ok (h ++ c2r_payload m)).
Definition c2r_encoded_len (m : c2r) : res N :=
  bind (ft_encoded_len (c2r_typ m)) (fun t => Ok (t + c2r_payload_len m)).
Definition c2r_to_bytes (m : c2r) : res bytes :=
  bind (c2r_encoded_len m) (fun _ => c2r_write_to m).

(* ---- decoders; public-key validity is abstract ---- *)
Section Decoders.
Variable is_point : bytes -> bool.

(* KeyCache::key_from_slice -> PublicKey::try_from(&[u8]): wrong length or not a point = error;
   the key keeps the bytes it was parsed from *)
Definition key_from_slice (s : bytes) : res bytes :=
  if (len s =? KEY_LEN) && is_point s then Ok s else Err E_KEY.

Definition ping_data (content : bytes) : res bytes :=
  if negb (len content =? 8) then Err E_INVALID_FRAME else slice_to content 8.

Definition datagrams_frame (content : bytes) (is_batch : bool) : res (bytes * dg) :=
  if negb (KEY_LEN <=? len content) then Err E_INVALID_FRAME else
  bind (slice_to content KEY_LEN) (fun ks =>
  bind (key_from_slice ks) (fun key =>
  bind (slice_from content KEY_LEN) (fun rest =>
  bind (dg_from_bytes rest is_batch) (fun d => Ok (key, d))))).

(* RelayToClientMsg::from_bytes (relay.rs:396-479) *)
Definition r2c_from_bytes (v : N) (content0 : bytes) : res r2c :=
  bind (ft_from_bytes content0) (fun '(ft, content) =>
  let frame_len := len content in
  if negb (frame_len <=? MAXP) then Err E_TOO_LARGE else
  match ft with
  | RelayToClientDatagram | RelayToClientDatagramBatch =>
      bind (datagrams_frame content (ft_eqb ft RelayToClientDatagramBatch)) (fun '(key, d) =>
      Ok (RDatagrams key d))
  | EndpointGone =>
      if negb (len content =? KEY_LEN) then Err E_INVALID_FRAME else
      bind (key_from_slice content) (fun key => Ok (REndpointGone key))
  | Ping => bind (ping_data content) (fun d => Ok (RPing d))
  | Pong => bind (ping_data content) (fun d => Ok (RPong d))
  | Health =>
      if negb (v =? PV_V1) then Err E_VERSION else
      if utf8_valid content then Ok (RHealth content) else Err E_UTF8
  | Restarting =>
      if negb (len content =? 4 + 4) then Err E_INVALID_FRAME else
      bind (slice_to content 4) (fun a =>
      if negb (len a =? 4) then Err E_INVALID_FRAME else       (* try_into::<[u8;4]> *)
      bind (slice_from content 4) (fun b =>
      if negb (len b =? 4) then Err E_INVALID_FRAME else
      Ok (RRestarting (Varint.be_val a * NS_PER_MS) (Varint.be_val b * NS_PER_MS))))
  | FStatus =>
      if negb (PV_V2 <=? v) then Err E_VERSION else
      bind (status_from_bytes content) (fun s => Ok (RStatus s))
  | _ => Err E_INVALID_FT
  end).

(* ClientToRelayMsg::from_bytes (relay.rs:540-579) *)
Definition c2r_from_bytes (content0 : bytes) : res c2r :=
  bind (ft_from_bytes content0) (fun '(ft, content) =>
  let frame_len := len content in
  if negb (frame_len <=? MAXP) then Err E_TOO_LARGE else
  match ft with
  | ClientToRelayDatagram | ClientToRelayDatagramBatch =>
      bind (datagrams_frame content (ft_eqb ft ClientToRelayDatagramBatch)) (fun '(key, d) =>
      Ok (CDatagrams key d))
  | Ping => bind (ping_data content) (fun d => Ok (CPing d))
  | Pong => bind (ping_data content) (fun d => Ok (CPong d))
  | _ => Err E_INVALID_FT
  end).

End Decoders.

(* ---- sinks: what start_send hands to the websocket, or the SendError ----
   Conn::start_send (client/conn.rs:147-160), RelayedStream::start_send (server/streams.rs:130-143) *)
Definition c2r_sink (m : c2r) : res bytes :=
  bind (c2r_encoded_len m) (fun size =>
  if negb (size <=? MAXP) then Err S_TOO_LARGE else
  if match m with CDatagrams _ d => is_empty (C16.contents d) | _ => false end then Err S_EMPTY else
  c2r_to_bytes m).

Definition r2c_sink (m : r2c) : res bytes :=
  bind (r2c_encoded_len m) (fun size =>
  if negb (size <=? MAXP) then Err S_TOO_LARGE else
  if match m with RDatagrams _ d => is_empty (C16.contents d) | _ => false end then Err S_EMPTY else
  r2c_to_bytes m).

(* ---- well-formedness: the ranges of the wire format ---- *)
Definition typed_dg (d : dg) : bool :=
  (C16.ecn d <? 4) &&
  match C16.seg d with None => true | Some s => (1 <=? s) && (s <=? U16_MAX) end &&
  bytes_ok (C16.contents d).

Definition typed_key (ip : bytes -> bool) (k : bytes) : bool :=
  (len k =? KEY_LEN) && bytes_ok k && ip k.

Definition typed_data8 (d : bytes) : bool := (len d =? 8) && bytes_ok d.

(* what the Rust types guarantee for any value of the message types *)
Definition typed_r2c (ip : bytes -> bool) (m : r2c) : bool :=
  match m with
  | RDatagrams k d => typed_key ip k && typed_dg d
  | REndpointGone k => typed_key ip k
  | RStatus (Unknown n) => n <? 256
  | RStatus _ => true
  | RRestarting _ _ => true
  | RPing d | RPong d => typed_data8 d
  | RHealth p => bytes_ok p && utf8_valid p
  end.

Definition typed_c2r (ip : bytes -> bool) (m : c2r) : bool :=
  match m with
  | CDatagrams k d => typed_key ip k && typed_dg d
  | CPing d | CPong d => typed_data8 d
  end.

(* the version in which a frame may be sent *)
Definition version_ok (v : N) (m : r2c) : bool :=
  match m with
  | RHealth _ => v =? PV_V1
  | RStatus _ => PV_V2 <=? v
  | _ => true
  end.

Definition whole_ms (ns : N) : bool := (ns mod NS_PER_MS =? 0) && (ns / NS_PER_MS <=? U32_MAX).

(* fields within the wire format's ranges *)
Definition wf_r2c (ip : bytes -> bool) (v : N) (m : r2c) : bool :=
  typed_r2c ip m && version_ok v m && (r2c_payload_len m <=? MAXP) &&
  match m with
  | RRestarting a b => whole_ms a && whole_ms b
  | RStatus (Unknown n) => 2 <? n
  | _ => true
  end.

Definition wf_c2r (ip : bytes -> bool) (m : c2r) : bool :=
  typed_c2r ip m && (c2r_payload_len m <=? MAXP).

(* what the decoder makes of the encoding of a typed message (identity on wf messages) *)
Definition norm_status (s : status) : status :=
  match s with
  | Unknown 0 => Healthy | Unknown 1 => SameEndpointIdConnected | Unknown 2 => RateLimited
  | s => s
  end.
Definition norm_r2c (m : r2c) : r2c :=
  match m with
  | RRestarting a b => RRestarting (millis_u32 a * NS_PER_MS) (millis_u32 b * NS_PER_MS)
  | RStatus s => RStatus (norm_status s)
  | m => m
  end.

(* ---- observation: long byte strings are compared by length, 64-byte prefix and checksum ---- *)
Definition cksum (b : bytes) : N :=
  let '(s1, s2) := fold_left (fun '(s1, s2) x => let t := s1 + x + 1 in (t, s2 + t)) b (0, 0) in
  s2 * 4294967296 + s1.
Definition digest (b : bytes) : bytes :=
  if len b <=? 64 then b else firstn 64 b ++ [len b; cksum b].
Definition digest_len (d : bytes) : N :=
  if len d <=? 64 then len d else nth 64 d 0.

Definition obs_dg (d : dg) : dg := C16.mkDg (C16.ecn d) (C16.seg d) (digest (C16.contents d)).
Definition obs_r2c (m : r2c) : r2c :=
  match m with
  | RDatagrams k d => RDatagrams k (obs_dg d)
  | RHealth p => RHealth (digest p)
  | m => m
  end.
Definition obs_c2r (m : c2r) : c2r :=
  match m with
  | CDatagrams k d => CDatagrams k (obs_dg d)
  | m => m
  end.
(* input helpers of the harness: 7-bit text from a fill recipe; n bytes cycling through a block
   (long payloads without per-byte arithmetic) *)
Definition ascii7 (b : bytes) : bytes := map (fun x => x mod 128) b.
Fixpoint rep_nat (blk cur : bytes) (n : nat) : bytes :=
  match n with
  | O => []
  | S k =>
      match cur with
      | x :: r => x :: rep_nat blk r k
      | [] => match blk with [] => [] | x :: r => x :: rep_nat blk r k end
      end
  end.
Definition rep (blk : bytes) (n : N) : bytes := rep_nat blk blk (N.to_nat n).
Definition rmap {A B} (f : A -> B) (x : res A) : res B :=
  match x with Ok a => Ok (f a) | Err e => Err e | Panic => Panic end.

(* ---- equality tests ---- *)
Definition status_eqb (a b : status) : bool :=
  match a, b with
  | Healthy, Healthy | SameEndpointIdConnected, SameEndpointIdConnected | RateLimited, RateLimited => true
  | Unknown x, Unknown y => x =? y
  | _, _ => false
  end.
Definition r2c_eqb (a b : r2c) : bool :=
  match a, b with
  | RDatagrams k d, RDatagrams k' d' => bytes_eqb k k' && C16.dg_eqb d d'
  | REndpointGone k, REndpointGone k' => bytes_eqb k k'
  | RStatus s, RStatus s' => status_eqb s s'
  | RRestarting x y, RRestarting x' y' => (x =? x') && (y =? y')
  | RPing d, RPing d' => bytes_eqb d d'
  | RPong d, RPong d' => bytes_eqb d d'
  | RHealth p, RHealth p' => bytes_eqb p p'
  | _, _ => false
  end.
Definition c2r_eqb (a b : c2r) : bool :=
  match a, b with
  | CDatagrams k d, CDatagrams k' d' => bytes_eqb k k' && C16.dg_eqb d d'
  | CPing d, CPing d' => bytes_eqb d d'
  | CPong d, CPong d' => bytes_eqb d d'
  | _, _ => false
  end.

(* ---- correspondence interface ---- *)
Inductive input :=
| IEncR (v : N) (m : r2c)                         (* server encodes + sink, client decodes under version v *)
| IEncC (m : c2r)                                 (* client encodes + sink, server decodes *)
| IDecR (v : N) (valid : list bytes) (b : bytes)  (* RelayToClientMsg::from_bytes; valid = the 32-byte strings that are points *)
| IDecC (valid : list bytes) (b : bytes)          (* ClientToRelayMsg::from_bytes *)
| ITable.                                         (* frame type numbers and constants *)

Inductive output :=
| OEncR (elen : res N) (enc : res bytes) (sink : res bytes) (dec : res r2c)
| OEncC (elen : res N) (enc : res bytes) (sink : res bytes) (dec : res c2r)
| ODecR (r : res r2c)
| ODecC (r : res c2r)
| OTable (t : list N).

Definition is_point_of (valid : list bytes) (k : bytes) : bool := existsb (bytes_eqb k) valid.

Definition r2c_keys (m : r2c) : list bytes :=
  match m with RDatagrams k _ | REndpointGone k => [k] | _ => [] end.
Definition c2r_keys (m : c2r) : list bytes :=
  match m with CDatagrams k _ => [k] | _ => [] end.

Definition table : list N := map ft_code all_ftypes ++ [KEY_LEN; MAXP; PV_V1; PV_V2].

Definition model (i : input) : output :=
  match i with
  | IEncR v m =>
      let enc := r2c_to_bytes m in
      OEncR (r2c_encoded_len m) (rmap digest enc) (rmap digest (r2c_sink m))
            (rmap obs_r2c (bind enc (r2c_from_bytes (is_point_of (r2c_keys m)) v)))
  | IEncC m =>
      let enc := c2r_to_bytes m in
      OEncC (c2r_encoded_len m) (rmap digest enc) (rmap digest (c2r_sink m))
            (rmap obs_c2r (bind enc (c2r_from_bytes (is_point_of (c2r_keys m)))))
  | IDecR v valid b => ODecR (rmap obs_r2c (r2c_from_bytes (is_point_of valid) v b))
  | IDecC valid b => ODecC (rmap obs_c2r (c2r_from_bytes (is_point_of valid) b))
  | ITable => OTable table
  end.

Definition output_eqb (a b : output) : bool :=
  match a, b with
  | OEncR l e s d, OEncR l' e' s' d' =>
      res_eqb N.eqb l l' && res_eqb bytes_eqb e e' && res_eqb bytes_eqb s s' && res_eqb r2c_eqb d d'
  | OEncC l e s d, OEncC l' e' s' d' =>
      res_eqb N.eqb l l' && res_eqb bytes_eqb e e' && res_eqb bytes_eqb s s' && res_eqb c2r_eqb d d'
  | ODecR r, ODecR r' => res_eqb r2c_eqb r r'
  | ODecC r, ODecC r' => res_eqb c2r_eqb r r'
  | OTable t, OTable t' => list_eqb N.eqb t t'
  | _, _ => false
  end.

Definition agree (i : input) (o : output) : bool := output_eqb (model i) o.

(* The property as a boolean function of an observed output. *)
Definition is_ok {A} (x : res A) : bool := match x with Ok _ => true | _ => false end.

Definition enc_monitor {M} (wf : bool) (sendable : bool) (expect : M) (meqb : M -> M -> bool)
    (elen : res N) (enc sink : res bytes) (dec : res M) : bool :=
  (* nothing panics *)
  negb (is_panic elen) && negb (is_panic enc) && negb (is_panic sink) && negb (is_panic dec) &&
  (* the predicted length is the actual length *)
  match elen, enc with Ok l, Ok e => l =? digest_len e | _, _ => false end &&
  (* the sink sends exactly the encoding *)
  match sink with Ok s => res_eqb bytes_eqb (Ok s) enc | _ => true end &&
  (* in-range messages decode back to themselves *)
  (if wf then res_eqb meqb dec (Ok expect) else true) &&
  (* what the sender's sink accepts, the receiver's decoder accepts *)
  (if is_ok sink && sendable then is_ok dec else true).

(* Inputs outside the quantifier (terms that are not values of the Rust message types: wrong key or
   ping length, non-byte elements, invalid UTF-8 text, segment size 0 ...) are vacuously fine. *)
Definition monitor (i : input) (o : output) : bool :=
  match i, o with
  | IEncR v m, OEncR elen enc sink dec =>
      let ip := is_point_of (r2c_keys m) in
      if negb (typed_r2c ip m) then true else
      enc_monitor (wf_r2c ip v m) (version_ok v m) (obs_r2c m) r2c_eqb elen enc sink dec &&
      (* frames of the other protocol version are rejected *)
      (if negb (version_ok v m) && (r2c_payload_len m <=? MAXP)
       then res_eqb r2c_eqb dec (Err E_VERSION) else true)
  | IEncC m, OEncC elen enc sink dec =>
      let ip := is_point_of (c2r_keys m) in
      if negb (typed_c2r ip m) then true else
      enc_monitor (wf_c2r ip m) true (obs_c2r m) c2r_eqb elen enc sink dec
  | IDecR v _ b, ODecR r =>
      (if bytes_ok b then negb (is_panic r) else true) &&
      match r with
      | Ok (RHealth _) => v =? PV_V1
      | Ok (RStatus _) => PV_V2 <=? v
      | _ => true
      end
  | IDecC _ b, ODecC r => if bytes_ok b then negb (is_panic r) else true
  | ITable, OTable t => list_eqb N.eqb t table
  | _, _ => false
  end.

Definition known (i : input) : N := 0.

(* Branch tags: 0 = empty byte string.
   1xx/3xx round trip of an in-range message (xx = frame type), 2xx/4xx message outside the ranges
   or refused by the sink; 5xx/7xx decoded frame of type xx; 6xx/8xx decoder error xx; 900 table. *)
Definition res_tag {M} (okb errb : N) (typ : M -> ftype) (r : res M) : N :=
  match r with Ok m => okb + ft_code (typ m) | Err e => errb + e | Panic => errb + 99 end.

Definition tag (i : input) : N :=
  match i with
  | IEncR v m =>
      (if wf_r2c (is_point_of (r2c_keys m)) v m && is_ok (r2c_sink m) then 100 else 200) + ft_code (r2c_typ m)
  | IEncC m =>
      (if wf_c2r (is_point_of (c2r_keys m)) m && is_ok (c2r_sink m) then 300 else 400) + ft_code (c2r_typ m)
  | IDecR v valid b =>
      match b with [] => 0 | _ => res_tag 500 600 r2c_typ (r2c_from_bytes (is_point_of valid) v b) end
  | IDecC valid b =>
      match b with [] => 0 | _ => res_tag 700 800 c2r_typ (c2r_from_bytes (is_point_of valid) b) end
  | ITable => 900
  end.

Definition judge (i : input) (o : output) : bool * bool * N * N :=
  (agree i o, monitor i o, known i, tag i).

End C10.
