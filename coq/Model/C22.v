(* C22 — address resolution of a remote:
   RemotePathState (iroh/src/socket/remote_map/remote_state/path_state.rs:57-218) and
   State::handle_msg_resolve_remote / trigger_address_lookup / handle_address_lookup_item
   (iroh/src/socket/remote_map/remote_state.rs, `impl State`).
   Executable model, definitions only.  Pruning is the model of C23. *)
From V Require Import Lib.Base Lib.Sorting Gen.Consts Model.C23.
Open Scope N_scope.

Module C22.
Import C23.

(* An address: (id, is_relay). *)
Definition addr := (N * bool)%type.

(* One atomic step of the RemoteStateActor (it handles one message / stream item /
   path event at a time) that touches the resolve machinery. *)
Inductive event : Type :=
| Resolve (req : N) (addrs : list addr)   (* RemoteStateMessage::ResolveRemote(addrs, tx); req names tx *)
| LookupItem (addrs : list addr)          (* lookup stream yields Some(Ok(item)) for this endpoint *)
| LookupItemOther                         (* ... an item for another endpoint id (ignored with a warning) *)
| LookupEnd (how : N)                     (* 0: stream yields None; 1: Some(Err(NoServiceConfigured));
                                             3: Some(Err(NoResults{errors non-empty})) *)
| OpenPath (a : N) (relay : bool) (sel : bool)
                                          (* register_and_configure_path -> insert_open_path(a);
                                             sel: select_path then makes it the selected path *)
| Abandon (a : N)                         (* handle_path_event(Abandoned) -> abandoned_path(a) *)
| ConnClosed.                             (* handle_connection_close, last connection: selected_path = None *)

Record state := mkSt {
  paths : list path;          (* RemotePathState::paths *)
  pending : list N;           (* RemotePathState::pending_resolve_requests (request ids, FIFO) *)
  lookup : bool;              (* State::address_lookup_stream.is_some() *)
  selected : option N;        (* State::selected_path (address id) *)
  was_emptied : bool              (* ghost: some prune so far turned a non-empty path set into the empty one *)
}.

Definition init : state := mkSt [] [] false None false.

(* reply codes: 0 Ok(()), 1 NoServiceConfigured, 2 NoResults{errors: []}, 3 NoResults{errors non-empty} *)
Definition reply := (N * N)%type.

Definition has (id : N) (ps : list path) : bool := existsb (fun p => pid p =? id) ps.
Definition nonempty {A} (l : list A) : bool := match l with [] => false | _ => true end.

(* the map in its current iteration order: stable sort of our list by position in `ord` *)
Fixpoint index_of (x : N) (l : list N) : N :=
  match l with [] => 0 | y :: r => if x =? y then 0 else 1 + index_of x r end.
Definition reorder (ord : list N) (ps : list path) : list path :=
  map snd (sort (fun a b => fst a <=? fst b) (map (fun p => (index_of (pid p) ord, p)) ps)).

(* emit_pending_resolve_requests (path_state.rs:195-207) *)
Definition emit (err : option N) (ps : list path) (pend : list N) : list reply * list N :=
  match pend with
  | [] => ([], [])
  | _ =>
    let code := if nonempty ps then 0 else match err with Some e => e | None => 2 end in
    (map (fun r => (r, code)) pend, [])
  end.

(* prune_paths, recording whether it emptied a non-empty set *)
Definition prune_flag (ps : list path) (f : bool) : list path * bool :=
  let ps' := prune ps in (ps', f || (nonempty ps && negb (nonempty ps'))).

(* the loop of insert_multiple: entry(addr).or_default() *)
Definition add_unknown (ps : list path) (a : addr) : list path :=
  if has (fst a) ps then ps else ps ++ [mkPath (fst a) (snd a) Unknown].

(* insert_multiple (path_state.rs:135-154) *)
Definition insert_multiple (addrs : list addr) (s : state) : list reply * state :=
  let was_empty := negb (nonempty (paths s)) in
  let ps1 := fold_left add_unknown addrs (paths s) in
  let '(rep, pend) := if was_empty && nonempty ps1 then emit None ps1 (pending s)
                      else ([], pending s) in
  let '(ps2, f) := prune_flag ps1 (was_emptied s) in
  (rep, mkSt ps2 pend (lookup s) (selected s) f).

(* resolve_remote (path_state.rs:161-167) *)
Definition resolve_remote (req : N) (s : state) : list reply * state :=
  if nonempty (paths s) then ([(req, 0)], s)
  else ([], mkSt (paths s) (pending s ++ [req]) (lookup s) (selected s) (was_emptied s)).

(* trigger_address_lookup (remote_state.rs) *)
Definition trigger_lookup (s : state) : state :=
  match selected s with
  | Some _ => s
  | None => if lookup s then s else mkSt (paths s) (pending s) true (selected s) (was_emptied s)
  end.

(* insert_open_path (path_state.rs:87-98) *)
Definition set_open (a : N) (relay : bool) (ps : list path) : list path :=
  if has a ps then map (fun p => if pid p =? a then mkPath (pid p) (C23.relay p) Open else p) ps
  else ps ++ [mkPath a relay Open].

Definition insert_open_path (a : N) (relay : bool) (s : state) : list reply * state :=
  let ps1 := set_open a relay (paths s) in
  let '(rep, pend) := emit None ps1 (pending s) in
  let '(ps2, f) := prune_flag ps1 (was_emptied s) in
  (rep, mkSt ps2 pend (lookup s) (selected s) f).

(* abandoned_path (path_state.rs:104-126) at time `now` *)
Definition abandon_status (now : N) (st : status) : status :=
  match st with
  | Open | Inactive _ => Inactive now
  | Unusable | Unknown => Unusable
  end.
Definition abandoned_path (now a : N) (ps : list path) : list path :=
  map (fun p => if pid p =? a then mkPath (pid p) (C23.relay p) (abandon_status now (st p)) else p) ps.

(* One step at time `now`, with the map's iteration order `ord` as observed before the step. *)
Definition step (now : N) (ord : list N) (e : event) (s0 : state) : list reply * state :=
  let s := mkSt (reorder ord (paths s0)) (pending s0) (lookup s0) (selected s0) (was_emptied s0) in
  match e with
  | Resolve req addrs =>
      (* handle_msg_resolve_remote: insert_multiple; resolve_remote; trigger_address_lookup *)
      let '(r1, s1) := insert_multiple addrs s in
      let '(r2, s2) := resolve_remote req s1 in
      (r1 ++ r2, trigger_lookup s2)
  | LookupItem addrs =>
      (* select! arm guarded by address_lookup_stream.is_some() *)
      if lookup s then insert_multiple addrs s else ([], s)
  | LookupItemOther => ([], s)
  | LookupEnd how =>
      if lookup s then
        (* address_lookup_finished(..); address_lookup_stream = None *)
        let '(rep, pend) := emit (if how =? 0 then None else Some how) (paths s) (pending s) in
        (rep, mkSt (paths s) pend false (selected s) (was_emptied s))
      else ([], s)
  | OpenPath a relay sel =>
      let '(rep, s1) := insert_open_path a relay s in
      (rep, if sel then mkSt (paths s1) (pending s1) (lookup s1) (Some a) (was_emptied s1) else s1)
  | Abandon a =>
      ([], mkSt (abandoned_path now a (paths s)) (pending s) (lookup s) (selected s) (was_emptied s))
  | ConnClosed =>
      ([], mkSt (paths s) (pending s) (lookup s) None (was_emptied s))
  end.

(* ---------------- interface ---------------- *)
(* observation after a step *)
Record obs := mkObs {
  o_replies : list reply;            (* replies that arrived during the step, by request id *)
  o_paths : list (N * N * N);        (* (id, status code, close time), by id *)
  o_pending : N;
  o_lookup : bool;
  o_selected : option N
}.

Definition input := list (list N * event).     (* per step: observed iteration order, event *)
Definition output := res (list obs).

Definition status_code (st : status) : N * N :=
  match st with Open => (0, 0) | Inactive t => (1, t) | Unusable => (2, 0) | Unknown => (3, 0) end.
Definition path_obs (p : path) : N * N * N := (pid p, fst (status_code (st p)), snd (status_code (st p))).
Definition sort_paths (ps : list path) : list path := sort (fun a b => pid a <=? pid b) ps.
Definition sort_replies (rs : list reply) : list reply := sort (fun a b => fst a <=? fst b) rs.

Definition obs_of (rs : list reply) (s : state) : obs :=
  mkObs (sort_replies rs) (map path_obs (sort_paths (paths s))) (len (pending s)) (lookup s) (selected s).

(* event k (k = 1, 2, ..) happens at time k *)
Fixpoint run (now : N) (i : input) (s : state) : list obs * state :=
  match i with
  | [] => ([], s)
  | (ord, e) :: rest =>
      let '(rs, s1) := step now ord e s in
      let '(os, s2) := run (now + 1) rest s1 in
      (obs_of rs s1 :: os, s2)
  end.

Definition model (i : input) : output := Ok (fst (run 1 i init)).

Definition opt_N_eqb := opt_eqb N.eqb.
Definition reply_eqb (a b : reply) : bool := (fst a =? fst b) && (snd a =? snd b).
Definition pobs_eqb (a b : N * N * N) : bool :=
  (fst (fst a) =? fst (fst b)) && (snd (fst a) =? snd (fst b)) && (snd a =? snd b).
Definition obs_eqb (a b : obs) : bool :=
  list_eqb reply_eqb (o_replies a) (o_replies b) && list_eqb pobs_eqb (o_paths a) (o_paths b) &&
  (o_pending a =? o_pending b) && Bool.eqb (o_lookup a) (o_lookup b) &&
  opt_N_eqb (o_selected a) (o_selected b).
Definition agree (i : input) (o : output) : bool := res_eqb (list_eqb obs_eqb) (model i) o.

(* ---------------- the property on observed outputs ---------------- *)
Definition memN (x : N) (l : list N) : bool := existsb (N.eqb x) l.
Fixpoint nodupN (l : list N) : bool :=
  match l with [] => true | x :: r => negb (memN x r) && nodupN r end.

Definition req_ids (i : input) : list N :=
  flat_map (fun oe => match snd oe with Resolve r _ => [r] | _ => [] end) i.

(* does the event itself carry an address of the remote? *)
Definition carries_addr (e : event) : bool :=
  match e with
  | Resolve _ a => nonempty a
  | LookupItem a => nonempty a
  | OpenPath _ _ _ => true
  | _ => false
  end.

(* monitor state: previous observation's (paths non-empty, lookup running), requested and answered ids *)
Record mstate := mkM { m_known : bool; m_lookup : bool; m_asked : list N; m_answered : list N }.

(* strict = false leaves out the three conclusions that depend on pruning never emptying the set *)
Definition monitor_step (strict : bool) (e : event) (o : obs) (m : mstate) : bool * mstate :=
  let asked := match e with Resolve r _ => r :: m_asked m | _ => m_asked m end in
  let known_after := nonempty (o_paths o) in
  let ok :=
    (* every reply answers a request that was made and not answered before *)
    forallb (fun r => memN (fst r) asked && negb (memN (fst r) (m_answered m))) (o_replies o) &&
    nodupN (map fst (o_replies o)) &&
    (* a request is answered Ok at once when a path is known or it brings an address *)
    match e with
    | Resolve r a => negb strict ||
                     implb (m_known m || nonempty a) (existsb (fun x => reply_eqb x (r, 0)) (o_replies o))
    | _ => true
    end &&
    forallb (fun r =>
      if snd r =? 0
      (* Ok only when a path is known *)
      then m_known m || carries_addr e
      (* failure only when a running lookup ends while no path is known, with the lookup's error *)
      else match e with
           | LookupEnd how => m_lookup m && negb (m_known m) && negb known_after &&
                              (snd r =? (if how =? 0 then 2 else how))
           | _ => false
           end) (o_replies o) &&
    (* when a running lookup ends every waiting request is answered *)
    match e with LookupEnd _ => implb (m_lookup m) (o_pending o =? 0) | _ => true end &&
    (* requests only wait while no path is known, and then a lookup is running *)
    implb (0 <? o_pending o) (negb known_after && (negb strict || o_lookup o)) &&
    (* once a path is known, the remote never loses all of them *)
    (negb strict || implb (m_known m) known_after) in
  (ok, mkM known_after (o_lookup o) asked (map fst (o_replies o) ++ m_answered m)).

Fixpoint monitor_run (strict : bool) (i : input) (os : list obs) (m : mstate) : bool :=
  match i, os with
  | [], [] => true
  | (_, e) :: i', o :: os' =>
      let '(ok, m') := monitor_step strict e o m in ok && monitor_run strict i' os' m'
  | _, _ => false
  end.

Definition monitor_gen (strict : bool) (i : input) (o : output) : bool :=
  if negb (nodupN (req_ids i)) then true else
  match o with
  | Ok os => monitor_run strict i os (mkM false false [] [])
  | _ => false
  end.
Definition monitor := monitor_gen true.

(* Known finding (root cause: C23 class 2): some prune during the history empties a non-empty path set. *)
Definition known_of (i : input) (r : list obs * state) : N :=
  if nodupN (req_ids i) && was_emptied (snd r) then 1 else 0.
Definition known (i : input) : N := known_of i (run 1 i init).

(* Branch tags: 0 empty history / 1 no request waited / 2 a request waited and was answered Ok /
   3 a request was answered with a failure / 4 pruning removed something / 5 pruning emptied the set *)
Fixpoint shrinks (prev : N) (os : list obs) : bool :=
  match os with [] => false | o :: r => (len (o_paths o) <? prev) || shrinks (len (o_paths o)) r end.
Definition tag_of (i : input) (r : list obs * state) : N :=
  match i with
  | [] => 0
  | _ =>
    if was_emptied (snd r) then 5
    else if shrinks 0 (fst r) then 4
    else if existsb (fun o => existsb (fun r => negb (snd r =? 0)) (o_replies o)) (fst r) then 3
    else if existsb (fun o => 0 <? o_pending o) (fst r) then 2
    else 1
  end.
Definition tag (i : input) : N := tag_of i (run 1 i init).

(* the model is run once per case *)
Definition judge (i : input) (o : output) : bool * bool * N * N :=
  let r := run 1 i init in
  (res_eqb (list_eqb obs_eqb) (Ok (fst r)) o, monitor i o, known_of i r, tag_of i r).

End C22.
