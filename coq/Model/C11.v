(* C11 — relay protocol version negotiation.
   Server: handle_relay_ws_upgrade (iroh-relay/src/server/http_server.rs:603-622, 668):
     header(Sec-WebSocket-Protocol) [first line only] .to_str() .split(",") .map(trim)
     .filter_map(ProtocolVersion::match_from_str) .max()  -> 101 + to_header_value, else 400.
   Client: ClientBuilder::connect (iroh-relay/src/client.rs:338-355): status must be 101,
     answer header .to_str() then match_from_str (no trimming, no splitting).
   ProtocolVersion (iroh-relay/src/http.rs:47-58): identifier strings, derived Ord.
   Executable model, definitions only. *)
From V Require Import Lib.Base.
Open Scope N_scope.

Module C11.

(* The version table: (rank in the derived Ord, identifier).  Checked against the compiled
   crate by the `T` case on every run. *)
Definition versions : list (N * bytes) :=
  [ (1, str_bytes "iroh-relay-v1"); (2, str_bytes "iroh-relay-v2") ].

Definition version_str (v : N) : option bytes :=
  option_map snd (find (fun p => fst p =? v) versions).

(* ProtocolVersion::match_from_str: exact, case-sensitive match of an identifier *)
Definition match_from_str (s : bytes) : option N :=
  option_map fst (find (fun p => bytes_eqb (snd p) s) versions).

(* HeaderValue::to_str: only visible ASCII and tab *)
Definition visible (b : N) : bool := ((32 <=? b) && (b <? 127)) || (b =? 9).
Definition to_str_ok (h : bytes) : bool := forallb visible h.

(* str::split(",") *)
Fixpoint split_on (sep : N) (b cur : bytes) : list bytes :=
  match b with
  | [] => [rev cur]
  | x :: r => if x =? sep then rev cur :: split_on sep r [] else split_on sep r (x :: cur)
  end.
Definition COMMA : N := 44.
Definition split_comma (b : bytes) : list bytes := split_on COMMA b [].

(* str::trim on ASCII text: White_Space = U+0009..U+000D, U+0020 *)
Definition is_ws (b : N) : bool := (b =? 32) || ((9 <=? b) && (b <=? 13)).
Fixpoint trim_start (b : bytes) : bytes :=
  match b with
  | x :: r => if is_ws x then trim_start r else b
  | [] => []
  end.
Definition trim (b : bytes) : bytes := rev (trim_start (rev (trim_start b))).

Fixpoint filter_map {A B} (f : A -> option B) (l : list A) : list B :=
  match l with
  | [] => []
  | a :: r => match f a with Some b => b :: filter_map f r | None => filter_map f r end
  end.

(* Iterator::max: the last maximal element; for N that is just the maximum *)
Definition max_list (l : list N) : option N :=
  match l with [] => None | x :: r => Some (fold_left N.max r x) end.

(* the versions the header offers, in order *)
Definition offered (h : bytes) : list N :=
  filter_map match_from_str (map trim (split_comma h)).

(* RelayUpgradeReqError for this header *)
Definition E_MISSING : N := 1.       (* MissingHeader *)
Definition E_NOT_ASCII : N := 2.     (* InvalidHeader "header value is not ascii" *)
Definition E_UNSUPPORTED : N := 3.   (* UnsupportedRelayVersion *)

Definition server_pick (h : bytes) : res N :=
  if negb (to_str_ok h) then Err E_NOT_ASCII else
  match max_list (offered h) with
  | Some v => Ok v
  | None => Err E_UNSUPPORTED
  end.

(* the request's Sec-WebSocket-Protocol header lines; HeaderMap::get looks at the first only *)
Definition server (lines : list bytes) : res N :=
  match lines with
  | [] => Err E_MISSING
  | h :: _ => server_pick h
  end.

(* what the server answers: Ok = 101 with this Sec-WebSocket-Protocol value; Err = 400 *)
Definition server_answer (lines : list bytes) : res bytes :=
  match server lines with
  | Ok v => match version_str v with Some s => Ok s | None => Panic end
  | Err e => Err e
  | Panic => Panic
  end.

(* ConnectError of the client for a server answer *)
Definition E_STATUS : N := 10.       (* UnexpectedUpgradeStatus / failed upgrade *)
Definition E_BAD_VERSION : N := 11.  (* BadVersionHeader *)

Definition client (status : N) (answer : option bytes) : res N :=
  if negb (status =? 101) then Err E_STATUS else
  match answer with
  | None => Err E_BAD_VERSION
  | Some a =>
      if negb (to_str_ok a) then Err E_BAD_VERSION else
      match match_from_str a with Some v => Ok v | None => Err E_BAD_VERSION end
  end.

(* ---- correspondence interface ---- *)
Inductive input :=
| IServer (lines : list bytes)                    (* real HTTP upgrade request on loopback *)
| IMatch (s : bytes)                              (* ProtocolVersion::match_from_str *)
| IClient (status : N) (answer : option bytes)    (* real ClientBuilder::connect against a scripted answer *)
| ITable.

Inductive output :=
| OServer (r : res bytes)      (* Ok answer-header / Err kind *)
| OMatch (r : option N)
| OClient (r : res N)          (* Ok v is observed only as "accepted" by the harness: see agree *)
| OTable (t : list (N * bytes)).

Definition model (i : input) : output :=
  match i with
  | IServer lines => OServer (server_answer lines)
  | IMatch s => OMatch (match_from_str s)
  | IClient st a => OClient (client st a)
  | ITable => OTable versions
  end.

Definition pair_eqb (x y : N * bytes) : bool := (fst x =? fst y) && bytes_eqb (snd x) (snd y).

(* The client harness cannot see which version the client adopted (the connection fails later,
   in the handshake with the scripted server): it reports Ok 0 for "version header accepted". *)
Definition client_obs (r : res N) : res N := match r with Ok _ => Ok 0 | r => r end.

Definition agree (i : input) (o : output) : bool :=
  match model i, o with
  | OServer r, OServer r' => res_eqb bytes_eqb r r'
  | OMatch r, OMatch r' => opt_eqb N.eqb r r'
  | OClient r, OClient r' => res_eqb N.eqb (client_obs r) (client_obs r')
  | OTable t, OTable t' => list_eqb pair_eqb t t'
  | _, _ => false
  end.

(* The property on an observed output.  Quantifier: one Sec-WebSocket-Protocol header line that is
   text (several lines / non-text values are outside: true). *)
Definition supported (v : N) : bool := existsb (fun p => fst p =? v) versions.

Definition monitor (i : input) (o : output) : bool :=
  match i, o with
  | IServer [h], OServer r =>
      if negb (to_str_ok h) then true else
      match r with
      | Ok a =>
          (* upgraded: the answer names a version the client offered, and none offered is newer;
             the client accepts that answer as the same version *)
          match match_from_str a with
          | Some v => existsb (N.eqb v) (offered h) && forallb (fun w => w <=? v) (offered h) &&
                      res_eqb N.eqb (client 101 (Some a)) (Ok v)
          | None => false
          end
      | Err _ => match offered h with [] => true | _ => false end   (* refused only if nothing supported was offered *)
      | Panic => false
      end
  | IServer _, OServer r => negb (is_panic r)
  | IMatch s, OMatch r =>
      match r with Some v => opt_eqb bytes_eqb (version_str v) (Some s) | None => negb (existsb (fun p => bytes_eqb (snd p) s) versions) end
  | IClient st a, OClient r =>
      (* the client accepts only a 101 answer naming exactly one supported version *)
      match r with
      | Ok _ => (st =? 101) && match a with Some s => match match_from_str s with Some _ => true | None => false end | None => false end
      | Err _ => true
      | Panic => false
      end
  | ITable, OTable t => list_eqb pair_eqb t versions
  | _, _ => false
  end.

Definition known (i : input) : N := 0.

(* tags: 0 trivial (no header line); 1 upgraded to v1; 2 upgraded to v2; 3 refused: nothing supported;
   4 refused: not text; 5 several header lines; 10/11 match_from_str hit/miss; 20/21 client accepts/refuses; 30 table *)
Definition tag (i : input) : N :=
  match i with
  | IServer [] => 0
  | IServer [h] => match server_pick h with Ok v => v | Err e => if e =? E_NOT_ASCII then 4 else 3 | Panic => 9 end
  | IServer _ => 5
  | IMatch s => match match_from_str s with Some _ => 10 | None => 11 end
  | IClient st a => match client st a with Ok _ => 20 | _ => 21 end
  | ITable => 30
  end.

Definition judge (i : input) (o : output) : bool * bool * N * N :=
  (agree i o, monitor i o, known i, tag i).

End C11.
