(* C20 — Builder::bind_addr_with_opts (iroh/src/endpoint.rs), BindOpts::is_default_route
   (iroh/src/endpoint/bind.rs), TransportConfig::{default_ipv4,default_ipv6,is_ipv4_default,
   is_ipv6_default,is_user_defined} (iroh/src/socket/transports.rs), IpNet::new prefix validity.
   Executable model, definitions only. *)
From V Require Import Lib.Base.
Open Scope N_scope.

Module C20.

Inductive fam := V4 | V6.

Definition fam_eqb (a b : fam) : bool :=
  match a, b with V4, V4 => true | V6, V6 => true | _, _ => false end.

(* A bind request: address family of the socket address, BindOpts.prefix_len (u8),
   BindOpts.is_default_route (Option<bool>).  The address bits, the port and
   is_required do not influence the result. *)
Record req := mkReq { rfam : fam; rprefix : N; rdefault : option bool }.

(* TransportConfig::Ip { config: ip::Config::{V4,V6}{ip_net, is_default, ..}, is_user_defined } *)
Record cfg := mkCfg { cfam : fam; cprefix : N; cdefault : bool; cuser : bool }.

(* BindOpts::is_default_route: the explicit value, else prefix_len == 0 *)
Definition is_default_route (r : req) : bool :=
  match rdefault r with
  | Some b => b
  | None => N.eqb (rprefix r) 0
  end.

(* Ipv4Net::new / Ipv6Net::new fail iff prefix_len > 32 / 128 *)
Definition max_prefix (f : fam) : N := match f with V4 => 32 | V6 => 128 end.
Definition prefix_ok (r : req) : bool := rprefix r <=? max_prefix (rfam r).

(* t.is_ipv4_default() && t.is_user_defined()   (resp. ipv6) *)
Definition user_default (f : fam) (c : cfg) : bool :=
  (cdefault c && fam_eqb (cfam c) f) && cuser c.

(* Error codes: 1 = InvalidPrefixLength, 2 = DuplicateDefaultAddr. *)
Definition E_PREFIX : N := 1.
Definition E_DUP : N := 2.

(* bind_addr_with_opts for an already parsed socket address:
     match addr { V4 => { if opts.is_default_route()
                             && self.transports.iter().any(|t| t.is_ipv4_default() && t.is_user_defined())
                             { bail!(DuplicateDefaultAddr) }
                          let ip_net = Ipv4Net::new(ip, opts.prefix_len()).map_err(InvalidPrefixLength)?;
                          self.transports.push(Ip { V4 { ip_net, is_default: opts.is_default_route(), .. },
                                                    is_user_defined: true }) }
                  V6 => the same with ipv6 } *)
Definition builder_add (cs : list cfg) (r : req) : res (list cfg) :=
  if is_default_route r && existsb (user_default (rfam r)) cs then Err E_DUP
  else if negb (prefix_ok r) then Err E_PREFIX
  else Ok (cs ++ [mkCfg (rfam r) (rprefix r) (is_default_route r) true]).

(* Builder::empty(): [default_ipv4(), default_ipv6()], both with is_default = false and
   is_user_defined = false.  clear_ip_transports() removes every Ip transport. *)
Definition init (clear : bool) : list cfg :=
  if clear then [] else [mkCfg V4 0 false false; mkCfg V6 0 false false].

(* Adding a sequence of requests; the builder is consumed by the first error.
   Result: (number of requests accepted before stopping, error code or 0). *)
Fixpoint run_seq (cs : list cfg) (rs : list req) (k : N) : N * N :=
  match rs with
  | [] => (k, 0)
  | r :: rs' =>
      match builder_add cs r with
      | Ok cs' => run_seq cs' rs' (k + 1)
      | Err e => (k, e)
      | Panic => (k, 99)
      end
  end.

Definition accepts_from (cs : list cfg) (rs : list req) : bool := N.eqb (snd (run_seq cs rs 0)) 0.
Definition accepts (rs : list req) : bool := accepts_from (init false) rs.

(* The 18 request kinds of the exhaustive part: family x prefix class (0, 24/64, 33/129) x
   default flag (unset, true, false); same order as the harness. *)
Definition kinds : list req :=
  flat_map (fun f =>
    flat_map (fun p =>
      map (fun d => mkReq f p d) [None; Some true; Some false])
      (match f with V4 => [0; 24; 33] | V6 => [0; 64; 129] end))
    [V4; V6].

(* all sequences over kinds of length <= d, depth-first preorder *)
Fixpoint exts (d : nat) : list (list req) :=
  match d with
  | O => [[]]
  | S d' => [] :: flat_map (fun k => map (cons k) (exts d')) kinds
  end.

(* A case: (clear_ip_transports first?, fixed prefix of requests, depth of the exhaustive
   extension).  The result lists run_seq for prefix ++ s, s in exts depth. *)
Definition input := (bool * list req * N)%type.
Definition output := list (N * N).

Definition seqs (i : input) : list (list req) :=
  let '(_, pre, d) := i in map (fun s => pre ++ s) (exts (N.to_nat d)).

Definition model (i : input) : output :=
  let '(clear, _, _) := i in map (fun s => run_seq (init clear) s 0) (seqs i).

Definition nn_eqb (x y : N * N) : bool := N.eqb (fst x) (fst y) && N.eqb (snd x) (snd y).
Definition agree (i : input) (o : output) : bool := list_eqb nn_eqb (model i) o.

(* The property: a set of requests is rejected exactly when it marks more than one socket
   per family as default route or contains an invalid prefix length (a function of the
   multiset of requests, hence independent of the order). *)
Definition ndef (f : fam) (rs : list req) : nat :=
  length (filter (fun r => is_default_route r && fam_eqb (rfam r) f) rs).
Definition spec (rs : list req) : bool :=
  (ndef V4 rs <=? 1)%nat && (ndef V6 rs <=? 1)%nat && forallb prefix_ok rs.

Fixpoint monitor_list (ss : list (list req)) (o : output) : bool :=
  match ss, o with
  | [], [] => true
  | s :: ss', r :: o' => Bool.eqb (N.eqb (snd r) 0) (spec s) && monitor_list ss' o'
  | _, _ => false
  end.
Definition monitor (i : input) (o : output) : bool := monitor_list (seqs i) o.

Definition known (i : input) : N := 0.

(* 0 trivial (no request) / 1 accepted / 2 rejected: prefix / 3 rejected: duplicate default /
   4 exhaustive block *)
Definition tag (i : input) : N :=
  let '(clear, pre, d) := i in
  if negb (N.eqb d 0) then 4 else
  match pre with
  | [] => 0
  | _ => match snd (run_seq (init clear) pre 0) with
         | 0 => 1
         | 1 => 2
         | _ => 3
         end
  end.

Definition judge (i : input) (o : output) : bool * bool * N * N :=
  (agree i o, monitor i o, known i, tag i).

End C20.
