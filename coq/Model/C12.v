(* C12 — ClientRequest::auth_token (iroh-relay/src/server.rs:264-277).
   Executable model, definitions only.

     for value in headers.get_all(AUTHORIZATION) {
         let value = value.to_str().ok()?;                          (http HeaderValue::to_str)
         if let Some((scheme, token)) = value.split_once(' ')
             && scheme.eq_ignore_ascii_case("Bearer") { return Some(token.to_string()); }
     }
     form_urlencoded::parse(uri.query().unwrap_or("").as_bytes())
         .find(|(name, _)| name == "token").map(|(_, value)| value.into_owned())

   Header values and the query are byte strings; the result is the UTF-8 byte
   string of the returned String. *)
From V Require Import Lib.Base.
Open Scope N_scope.

Module C12.

(* http::header::value::is_visible_ascii *)
Definition visible (b : N) : bool := ((32 <=? b) && (b <? 127)) || (b =? 9).
(* HeaderValue::to_str: Ok iff every byte is visible ASCII or tab *)
Definition to_str (v : bytes) : option bytes := if forallb visible v then Some v else None.

(* str::split_once(sep) for a one-byte separator *)
Fixpoint split_once (sep : N) (l : bytes) : option (bytes * bytes) :=
  match l with
  | [] => None
  | b :: r =>
      if b =? sep then Some ([], r)
      else match split_once sep r with
           | Some (a, c) => Some (b :: a, c)
           | None => None
           end
  end.

(* u8::to_ascii_lowercase / str::eq_ignore_ascii_case *)
Definition lower (b : N) : N := if (65 <=? b) && (b <=? 90) then b + 32 else b.
Definition eq_ignore_case (a b : bytes) : bool := bytes_eqb (map lower a) (map lower b).

Definition BEARER : bytes := str_bytes "Bearer".
Definition TOKEN : bytes := str_bytes "token".   (* http.rs: AUTH_TOKEN_URL_QUERY_PARAM *)
Definition SP : N := 32.
Definition AMP : N := 38.
Definition EQS : N := 61.
Definition PLUS : N := 43.
Definition PCT : N := 37.

(* the header loop: Some r = `return r`; None = loop ended, go on to the query *)
Fixpoint scan_headers (hs : list bytes) : option (option bytes) :=
  match hs with
  | [] => None
  | v :: r =>
      match to_str v with
      | None => Some None                                   (* `.ok()?` *)
      | Some s =>
          match split_once SP s with
          | Some (scheme, tok) =>
              if eq_ignore_case scheme BEARER then Some (Some tok) else scan_headers r
          | None => scan_headers r
          end
      end
  end.

(* ---- form_urlencoded::parse ---- *)

(* slice::splitn(2, == sep): (before first sep, after it) or (all, []) *)
Definition split2 (sep : N) (l : bytes) : bytes * bytes :=
  match split_once sep l with Some p => p | None => (l, []) end.

(* all sequences between '&' (slice::split) *)
Fixpoint split_on (sep : N) (l : bytes) : list bytes :=
  match l with
  | [] => [[]]
  | b :: r =>
      if b =? sep then [] :: split_on sep r
      else match split_on sep r with
           | s :: ss => (b :: s) :: ss
           | [] => [[b]]          (* unreachable: split_on never returns [] *)
           end
  end.

Definition replace_plus (l : bytes) : bytes := map (fun b => if b =? PLUS then SP else b) l.

(* char::to_digit(16) *)
Definition hexval (c : N) : option N :=
  if (48 <=? c) && (c <=? 57) then Some (c - 48)
  else if (97 <=? c) && (c <=? 102) then Some (c - 87)
  else if (65 <=? c) && (c <=? 70) then Some (c - 55)
  else None.

(* percent_encoding::percent_decode: "%XY" with two hex digits -> byte, any other '%' literal *)
Fixpoint pct (l : bytes) : bytes :=
  match l with
  | [] => []
  | b :: r =>
      if b =? PCT then
        match r with
        | h :: r1 =>
            match r1 with
            | lo :: r2 =>
                match hexval h, hexval lo with
                | Some x, Some y => (x * 16 + y) :: pct r2
                | _, _ => b :: pct r
                end
            | [] => b :: pct r
            end
        | [] => [b]
        end
      else b :: pct r
  end.

(* String::from_utf8_lossy (core::str::lossy::Utf8Chunks): every maximal
   invalid prefix of a sequence is replaced by U+FFFD = EF BF BD. *)
Definition FFFD : bytes := [239; 191; 189].
Definition is_cont (c : N) : bool := (128 <=? c) && (c <=? 191).
Definition width (b : N) : N :=
  if (194 <=? b) && (b <=? 223) then 2
  else if (224 <=? b) && (b <=? 239) then 3
  else if (240 <=? b) && (b <=? 244) then 4
  else 0.
Definition ok3 (b c : N) : bool :=
  ((b =? 224) && (160 <=? c) && (c <=? 191))
  || ((225 <=? b) && (b <=? 236) && (128 <=? c) && (c <=? 191))
  || ((b =? 237) && (128 <=? c) && (c <=? 159))
  || ((238 <=? b) && (b <=? 239) && (128 <=? c) && (c <=? 191)).
Definition ok4 (b c : N) : bool :=
  ((b =? 240) && (144 <=? c) && (c <=? 191))
  || ((241 <=? b) && (b <=? 243) && (128 <=? c) && (c <=? 191))
  || ((b =? 244) && (128 <=? c) && (c <=? 143)).

Fixpoint lossy_f (fuel : nat) (l : bytes) : bytes :=
  match fuel with
  | O => []
  | S f =>
      match l with
      | [] => []
      | b :: r =>
          if b <? 128 then b :: lossy_f f r
          else if width b =? 2 then
            match r with
            | c :: r1 => if is_cont c then b :: c :: lossy_f f r1 else FFFD ++ lossy_f f r
            | [] => FFFD
            end
          else if width b =? 3 then
            match r with
            | c :: r1 =>
                if ok3 b c then
                  match r1 with
                  | d :: r2 => if is_cont d then b :: c :: d :: lossy_f f r2 else FFFD ++ lossy_f f r1
                  | [] => FFFD
                  end
                else FFFD ++ lossy_f f r
            | [] => FFFD
            end
          else if width b =? 4 then
            match r with
            | c :: r1 =>
                if ok4 b c then
                  match r1 with
                  | d :: r2 =>
                      if is_cont d then
                        match r2 with
                        | e :: r3 => if is_cont e then b :: c :: d :: e :: lossy_f f r3 else FFFD ++ lossy_f f r2
                        | [] => FFFD
                        end
                      else FFFD ++ lossy_f f r1
                  | [] => FFFD
                  end
                else FFFD ++ lossy_f f r
            | [] => FFFD
            end
          else FFFD ++ lossy_f f r
      end
  end.
Definition lossy (l : bytes) : bytes := lossy_f (S (length l)) l.

(* form_urlencoded::decode *)
Definition decode (l : bytes) : bytes := lossy (pct (replace_plus l)).

(* Parse::next over the remaining sequences + Iterator::find(name == "token") *)
Fixpoint find_token (seqs : list bytes) : option bytes :=
  match seqs with
  | [] => None
  | s :: r =>
      match s with
      | [] => find_token r                                  (* `if sequence.is_empty() { continue }` *)
      | _ :: _ =>
          let (name, value) := split2 EQS s in
          if bytes_eqb (decode name) TOKEN then Some (decode value) else find_token r
      end
  end.

Definition query_token (q : bytes) : option bytes :=
  match q with
  | [] => None                                              (* `if self.input.is_empty() { return None }` *)
  | _ => find_token (split_on AMP q)
  end.

Definition auth_token (hs : list bytes) (q : option bytes) : option bytes :=
  match scan_headers hs with
  | Some r => r
  | None => query_token (match q with Some b => b | None => [] end)
  end.

(* ---- interface ---- *)
Definition input := (list bytes * option bytes)%type.
Definition output := res (option bytes).

Definition model (i : input) : output := Ok (auth_token (fst i) (snd i)).

Definition agree (i : input) (o : output) : bool := res_eqb (opt_eqb bytes_eqb) (model i) o.

(* The property is functional (the result is THE token the documented rules
   select), so its conclusion on an observed output is equality with that
   token; C12_monitor_is_property states this against the declarative rules. *)
Definition monitor (i : input) (o : output) : bool := res_eqb (opt_eqb bytes_eqb) (model i) o.

Definition known (i : input) : N := 0.

(* Branch tag: 1 Bearer header wins / 2 non-text header ends the search /
   3 query token found / 4 headers present, none decisive, no query token /
   0 no header and no query token. *)
Definition tag (i : input) : N :=
  let (hs, q) := i in
  match scan_headers hs with
  | Some (Some _) => 1
  | Some None => 2
  | None =>
      match query_token (match q with Some b => b | None => [] end) with
      | Some _ => 3
      | None => match hs with [] => 0 | _ => 4 end
      end
  end.

Definition judge (i : input) (o : output) : bool * bool * N * N :=
  (agree i o, monitor i o, known i, tag i).

End C12.
