(* C40 — the router hands each connection only to the handler for its protocol
   (iroh/src/protocol.rs, line numbers of the tree with the C41 fix: RouterBuilder::accept
   :495-503, spawn :512-522, run loop filter handling :579-602, handle_connection :643-679;
   Endpoint::set_alpns endpoint.rs:970).
   Executable model, definitions only.

   ALPNs are byte strings (`bytes` = list of byte values), compared bytewise: equality is
   `bytes_eqb`, the BTreeMap key order is the lexicographic order of `Vec<u8>` (`bytes_ltb`).
   Nothing in the model looks at an ALPN as text.
   ASSUMED, not verified: the TLS stack negotiates the first protocol of the SERVER's list
   that the client offers (rustls), and fails the handshake when there is none; QUIC retry
   makes the client come back once with a validated address. *)
From V Require Import Lib.Base.
Open Scope N_scope.

Module C40.

Inductive verdict := VAccept | VRetry | VReject | VIgnore.

Definition alpn := bytes.
Definition alpn_eqb : alpn -> alpn -> bool := bytes_eqb.

(* Ord for Vec<u8> / [u8]: lexicographic, a proper prefix is smaller *)
Fixpoint bytes_ltb (x y : bytes) : bool :=
  match x, y with
  | [], [] => false
  | [], _ :: _ => true
  | _ :: _, [] => false
  | a :: x', b :: y' => if a <? b then true else if N.eqb a b then bytes_ltb x' y' else false
  end.

Record input := mkIn {
  regs : list alpn;                      (* RouterBuilder::accept calls, in order; handler id = position *)
  setalpns : option (list alpn);         (* Endpoint::set_alpns called after spawn *)
  filter : option (verdict * verdict);   (* verdict for an unvalidated / a validated incoming *)
  offer : list alpn                      (* ALPNs offered by the dialer, primary first *)
}.

(* ProtocolMap = BTreeMap<alpn, handler>: a later insert of the same key replaces *)
Fixpoint lookup_from (k : N) (a : alpn) (rs : list alpn) (found : option N) : option N :=
  match rs with
  | [] => found
  | x :: r => lookup_from (k + 1) a r (if alpn_eqb x a then Some k else found)
  end.
Definition lookup (a : alpn) (rs : list alpn) : option N := lookup_from 0 a rs None.

(* keys of the BTreeMap in order *)
Fixpoint insert_sorted (a : alpn) (l : list alpn) : list alpn :=
  match l with
  | [] => [a]
  | x :: r => if bytes_ltb a x then a :: l else if alpn_eqb a x then l else x :: insert_sorted a r
  end.
Definition keys (rs : list alpn) : list alpn := fold_left (fun l a => insert_sorted a l) rs [].

(* the ALPN list of the endpoint: spawn() sets the registry's keys (:514-522) unless
   set_alpns is called afterwards *)
Definition ep_alpns (i : input) : list alpn :=
  match setalpns i with Some l => l | None => keys (regs i) end.

Definition mem (a : alpn) (l : list alpn) : bool := existsb (alpn_eqb a) l.

(* ASSUMED negotiation rule *)
Definition negotiate (server offered : list alpn) : option alpn := find (fun a => mem a offered) server.

Inductive admission := AdmOk | Refused | Ignored.

(* run loop, :579-602.  Returns (the `validated` flag the filter saw on each call, admission) *)
Definition filter_phase (f : option (verdict * verdict)) : list bool * admission :=
  match f with
  | None => ([], AdmOk)
  | Some (v1, v2) =>
      match v1 with
      | VAccept => ([false], AdmOk)                   (* :581 *)
      | VReject => ([false], Refused)                    (* :593-596 *)
      | VIgnore => ([false], Ignored)                    (* :597-600 *)
      | VRetry =>                                        (* :582-592: retry(), client comes back validated *)
          match v2 with
          | VAccept => ([false; true], AdmOk)
          | VReject => ([false; true], Refused)
          | VIgnore => ([false; true], Ignored)
          | VRetry => ([false; true], Refused)           (* :588-590 retry() fails -> refuse() *)
          end
      end
  end.

(* handle_connection :643-679: which handler gets the connection *)
Definition dispatch (rs : list alpn) (adm : admission) (negotiated : option alpn) : option N :=
  match adm with
  | AdmOk => match negotiated with Some a => lookup a rs | None => None end
  | _ => None
  end.

Inductive dial :=
| DGreeted (h : N) (neg : option alpn)   (* a handler answered; negotiated ALPN *)
| DDropped (neg : option alpn)           (* handshake completed, connection dropped without a handler *)
| DRefused
| DTimedOut
| DHandshake
| DPre.

Definition out := (list bool * list (N * option alpn) * dial)%type.   (* filter log, handler log, dialer *)
Definition output := res out.

Definition run_case (i : input) : out :=
  let '(flog, adm) := filter_phase (filter i) in
  let neg := negotiate (ep_alpns i) (offer i) in
  match adm with
  | Refused => (flog, [], DRefused)
  | Ignored => (flog, [], DTimedOut)
  | AdmOk =>
      match neg with
      | None => (flog, [], DHandshake)
      | Some a =>
          match dispatch (regs i) adm neg with
          | Some h => (flog, [(h, Some a)], DGreeted h (Some a))
          | None => (flog, [], DDropped (Some a))
          end
      end
  end.

Definition model (i : input) : output := Ok (run_case i).

(* an ignored Initial is retransmitted by the client, so the filter sees it again and again:
   compare filter logs up to consecutive repeats *)
Fixpoint dedup (l : list bool) : list bool :=
  match l with
  | a :: ((b :: _) as r) => if Bool.eqb a b then dedup r else a :: dedup r
  | _ => l
  end.

Definition oN_eqb := opt_eqb alpn_eqb.

Definition dial_eqb (a b : dial) : bool :=
  match a, b with
  | DGreeted h n, DGreeted h' n' => N.eqb h h' && oN_eqb n n'
  | DDropped n, DDropped n' => oN_eqb n n'
  | DRefused, DRefused | DTimedOut, DTimedOut | DHandshake, DHandshake | DPre, DPre => true
  | _, _ => false
  end.

Definition hentry_eqb (x y : N * option alpn) : bool := N.eqb (fst x) (fst y) && oN_eqb (snd x) (snd y).

Definition is_ignored (i : input) : bool :=
  match snd (filter_phase (filter i)) with Ignored => true | _ => false end.

Definition agree (i : input) (o : output) : bool :=
  match o with
  | Ok (fl, hl, d) =>
      let '(mfl, mhl, md) := run_case i in
      (if is_ignored i then list_eqb Bool.eqb (dedup fl) (dedup mfl) else list_eqb Bool.eqb fl mfl) &&
      list_eqb hentry_eqb hl mhl && dial_eqb d md
  | _ => false
  end.

(* ---- the property as a boolean function of an observed output ---- *)

(* did the filter, as observed through its call log, let the connection through? *)
Definition admitted_by_log (f : option (verdict * verdict)) (fl : list bool) : bool :=
  match f with
  | None => match fl with [] => true | _ => false end
  | Some (v1, v2) =>
      match v1 with
      | VAccept => true
      | VRetry => match v2 with VAccept => existsb (fun b => b) fl | _ => false end
      | _ => false
      end
  end.

Definition monitor (i : input) (o : output) : bool :=
  match o with
  | Ok (fl, hl, d) =>
      (* at most one handler invocation *)
      (match hl with [] | [_] => true | _ => false end) &&
      (* every invocation: the handler registered (last) for the connection's ALPN, the ALPN
         was offered by the dialer, and the filter admitted the connection — after a Retry,
         only through an Accept of the validated retry *)
      forallb (fun e =>
                 match snd e with
                 | Some a => opt_eqb N.eqb (lookup a (regs i)) (Some (fst e)) && mem a (offer i)
                 | None => false
                 end && admitted_by_log (filter i) fl) hl &&
      (* the dialer is answered only by that handler *)
      (match d with
       | DGreeted h n => list_eqb hentry_eqb hl [(h, n)]
       | _ => true
       end) &&
      (* a connection whose negotiated ALPN has a registered handler and that the filter
         admits does reach that handler *)
      (match d with
       | DDropped (Some a) => match lookup a (regs i) with None => true | Some _ => false end
       | DDropped None => false
       | _ => true
       end)
  | _ => false
  end.

Definition known (i : input) : N := 0.

(* 1 handler reached, no filter / 2 reached through Accept / 3 reached through Retry->Accept /
   4 refused / 5 ignored / 6 no common ALPN / 7 negotiated ALPN without handler;
   +10 when the negotiated ALPN contains a byte >= 0x80 (not plain ASCII) *)
Definition high_byte (a : alpn) : bool := existsb (fun b => 128 <=? b) a.
Definition tag_hi (i : input) : N :=
  match negotiate (ep_alpns i) (offer i) with
  | Some a => if high_byte a then 10 else 0
  | None => 0
  end.
Definition tag0 (i : input) : N :=
  match run_case i with
  | (_, _, DGreeted _ _) =>
      match filter i with
      | None => 1
      | Some (VRetry, _) => 3
      | Some _ => 2
      end
  | (_, _, DRefused) => 4
  | (_, _, DTimedOut) => 5
  | (_, _, DHandshake) => 6
  | (_, _, DDropped _) => 7
  | (_, _, DPre) => 0
  end.
Definition tag (i : input) : N := tag0 i + tag_hi i.

Definition judge (i : input) (o : output) : bool * bool * N * N :=
  (agree i o, monitor i o, known i, tag i).

End C40.
