(* C34 — staggered DNS lookups: add_jitter and stagger_call
   (iroh-dns/src/dns.rs).  Executable model, definitions only. *)
From V Require Import Lib.Base Lib.MachineInt Gen.Consts.
Open Scope N_scope.

Module C34.

(* const MAX_JITTER_PERCENT: u64 = 20;   (dns.rs:50, regenerated from the source) *)
Definition MAX_JITTER_PERCENT : N := C34_MAX_JITTER_PERCENT.

(* ---- add_jitter (dns.rs:970-981), the random u64 as explicit input r ----
     if *delay == 0 { return Duration::ZERO; }
     let max_jitter = delay.saturating_mul(MAX_JITTER_PERCENT * 2) / 100;
     if max_jitter == 0 { return Duration::from_millis( *delay ); }    // added by the fix; before it the next line panicked: rand % 0
     let jitter = rand::random::<u64>() % max_jitter;
     Duration::from_millis(delay.saturating_sub(max_jitter / 2).saturating_add(jitter))
   Result in milliseconds. *)
Definition max_jitter (d : N) : N := u64_sat_mul d (MAX_JITTER_PERCENT * 2) / 100.

Definition add_jitter (d r : N) : res N :=
  if d =? 0 then Ok 0 else
  let mj := max_jitter d in
  if mj =? 0 then Ok d
  else Ok (u64_sat_add (u64_sat_sub d (mj / 2)) (r mod mj)).

(* Is t a possible value of add_jitter d (for some random r)?  With r := t - base. *)
Definition admissible (d : N) (o : res N) : bool :=
  match o with
  | Ok t => let base := u64_sat_sub d (max_jitter d / 2) in
            (base <=? t) && res_eqb N.eqb (add_jitter d (t - base)) (Ok t) &&
            ((t - base <? max_jitter d) || (max_jitter d =? 0))
  | Panic => is_panic (add_jitter d 0)
  | Err _ => false
  end.

(* The jitter window [lo, hi] of a delay (None: add_jitter panics). *)
Definition window (d : N) : option (N * N) :=
  match add_jitter d 0, add_jitter d (max_jitter d - 1) with
  | Ok lo, Ok hi => Some (lo, hi)
  | _, _ => None
  end.

(* within +/- MAX_JITTER_PERCENT of the delay *)
Definition within_pct (d t : N) : bool :=
  ((100 - MAX_JITTER_PERCENT) * d <=? 100 * t) && (100 * t <=? (100 + MAX_JITTER_PERCENT) * d).

(* ---- one attempt: DnsResolver::lookup_ipv4 -> Inner::op (dns.rs:311-337):
   biased select of the lookup against sleep(timeout); the lookup wins a tie.
   A script entry is (duration of the resolver's answer, its answer);
   answers: Ok addresses / Err code (1 Timeout 2 NoResponse 3 MissingHost 4 InvalidResponse). *)
Definition outcome := res (list N).
Definition entry := (N * outcome)%type.

Definition eff (timeout : N) (e : entry) : entry :=
  if fst e <=? timeout then e else (timeout, Err 1).

(* ---- stagger_call (dns.rs:937-968): result as a function of the attempts'
   outcomes in completion order:
     while let Some(r) = calls.next().await { match r { Ok(t) => return Ok(t), Err(e) => errors.push(e) } }
     Err(StaggeredError { errors })                                            *)
Inductive sres := SOk (v : list N) | SErr (es : list N) | SPending.

Fixpoint stagger_result (outs : list outcome) : sres :=
  match outs with
  | [] => SErr []
  | Ok v :: _ => SOk v
  | Err e :: rest =>
      match stagger_result rest with
      | SErr es => SErr (e :: es)
      | r => r
      end
  | Panic :: _ => SPending   (* not used: scripted attempts never panic *)
  end.

(* ---- timing.  All attempts are created up front (dns.rs:949-957):
   attempt i sleeps add_jitter(delay_i) and then runs the lookup; the lookup
   closure is the same for every attempt, so the k-th resolver call (in start
   order) is answered by the k-th script entry. *)
Fixpoint jitters (ds rs : list N) : res (list N) :=
  match ds with
  | [] => Ok []
  | d :: ds' =>
      match add_jitter d (hd 0 rs) with
      | Ok t => match jitters ds' (tl rs) with
                | Ok l => Ok (t :: l)
                | Err e => Err e
                | Panic => Panic
                end
      | Err e => Err e
      | Panic => Panic
      end
  end.

Fixpoint insert_by {A} (key : A -> N) (x : A) (l : list A) : list A :=
  match l with
  | [] => [x]
  | y :: l' => if key x <=? key y then x :: l else y :: insert_by key x l'
  end.
Definition sort_by {A} (key : A -> N) (l : list A) : list A := fold_right (insert_by key) [] l.

Definition default_entry : entry := (0, Err 9).

(* completion (time, outcome) of the k-th call, started at s *)
Fixpoint completions (timeout : N) (ss : list N) (script : list entry) : list entry :=
  match ss with
  | [] => []
  | s :: ss' =>
      let e := eff timeout (hd default_entry script) in
      (s + fst e, snd e) :: completions timeout ss' (tl script)
  end.

(* earliest completion time of a successful attempt *)
Fixpoint first_ok_time (cs : list entry) : option N :=
  match cs with
  | [] => None
  | (c, Ok _) :: r => match first_ok_time r with Some c' => Some (N.min c c') | None => Some c end
  | _ :: r => first_ok_time r
  end.

(* The harness gives up at virtual time H (horizon); what is not decided by then is SPending. *)
Definition timed_result (H : N) (cs : list entry) : sres :=
  let vis := filter (fun c => fst c <=? H) (sort_by fst cs) in
  match stagger_result (map snd vis) with
  | SOk v => SOk v
  | SErr es => if (length vis =? length cs)%nat then SErr es else SPending
  | SPending => SPending
  end.

Definition decision_time (H : N) (cs : list entry) : N :=
  match first_ok_time cs with Some t => N.min t H | None => H end.

(* ---- interface ---- *)
Inductive input :=
| J (d k : N)                                       (* k direct calls of add_jitter d *)
| S (api timeout H : N) (delays : list N) (script : list entry).
      (* lookup_ipv{4,6}_staggered(host, timeout, delays) with a scripted resolver *)

Inductive output :=
| OJ (l : list (res N))
| OS (r : res (list N * sres)).       (* resolver call times (ms since start), result *)

(* Deterministic model, the random values explicit (rs); simultaneous events are
   ordered by start order, and a call due exactly at the decision time is made. *)
Definition model_S (timeout H : N) (delays : list N) (script : list entry) (rs : list N) : res (list N * sres) :=
  match jitters (0 :: delays) rs with
  | Ok starts =>
      let ss := sort_by (fun x => x) starts in
      let cs := completions timeout ss script in
      let D := decision_time H cs in
      Ok (filter (fun s => s <=? D) ss, timed_result H cs)
  | Err e => Err e
  | Panic => Panic
  end.

Definition model (i : input) (rs : list N) : output :=
  match i with
  | J d k => OJ (map (add_jitter d) (firstn (N.to_nat k) rs))
  | S _ timeout H delays script => OS (model_S timeout H delays script rs)
  end.

(* --- checks on an observed run of S --- *)
Fixpoint sorted (l : list N) : bool :=
  match l with
  | a :: ((b :: _) as r) => (a <=? b) && sorted r
  | _ => true
  end.

(* pointwise: the j-th call (sorted) lies in the window of the j-th smallest delay *)
Fixpoint calls_in_windows (ds calls : list N) : bool :=
  match calls, ds with
  | [], _ => true
  | t :: calls', d :: ds' =>
      match window d with
      | Some (lo, hi) => (lo <=? t) && (t <=? hi) && calls_in_windows ds' calls'
      | None => false
      end
  | _ :: _, [] => false
  end.

(* attempts that were never started must be able to start at/after the decision time D *)
Definition uncalled_ok (ds : list N) (m : nat) (D : N) : bool :=
  forallb (fun d => match window d with Some (_, hi) => D <=? hi | None => false end) (skipn m ds).

Definition key_of (c : N) (code : N) : N := c * 16 + code.
Definition err_code (o : outcome) : N := match o with Err e => e | _ => 15 end.

(* The observed result against the observed call times.  Simultaneous
   completions may be reported in either order. *)
Definition result_ok (timeout H : N) (n1 : nat) (script : list entry) (calls : list N) (r : sres) : bool :=
  let cs := completions timeout calls script in
  let vis := filter (fun c => fst c <=? H) cs in
  match first_ok_time vis with
  | Some T =>
      forallb (fun s => s <=? T) calls &&
      match r with
      | SOk v => existsb (fun c => (fst c =? T) && res_eqb (list_eqb N.eqb) (snd c) (Ok v)) vis
      | _ => false
      end
  | None =>
      if (length calls =? n1)%nat && (length vis =? n1)%nat then
        match r with
        | SErr es =>
            let sc := sort_by fst cs in
            (length es =? n1)%nat &&
            list_eqb N.eqb (sort_by (fun x => x) (map (fun c => key_of (fst c) (err_code (snd c))) sc))
                           (sort_by (fun x => x) (map (fun p => key_of (fst (fst p)) (snd p)) (combine sc es)))
        | _ => false
        end
      else match r with SPending => forallb (fun s => s <=? H) calls | _ => false end
  end.

Definition all_delays (delays : list N) : list N := 0 :: delays.

Definition agree (i : input) (o : output) : bool :=
  match i, o with
  | J d k, OJ l => N.eqb (len l) k && forallb (admissible d) l
  | S _ timeout H delays script, OS r =>
      let ds := sort_by (fun x => x) (all_delays delays) in
      match r with
      | Panic => existsb (fun d => is_panic (add_jitter d 0)) ds
      | Err _ => false
      | Ok (calls, sr) =>
          negb (existsb (fun d => is_panic (add_jitter d 0)) ds) &&
          sorted calls && calls_in_windows ds calls &&
          result_ok timeout H (length ds) script calls sr &&
          uncalled_ok ds (length calls)
            (decision_time H (filter (fun c => fst c <=? H) (completions timeout calls script)))
      end
  | _, _ => false
  end.

(* The property on an observed output: no panic; the first attempt starts
   immediately and every attempt that starts does so within +/-20% of one of the
   delays; the result is the earliest success, else every attempt's error.
   (Delays are u64: inputs with larger numbers are outside the quantifier.) *)
Definition wf (i : input) : bool :=
  match i with
  | J d _ => d <=? U64_MAX
  | S _ _ _ delays script =>
      forallb (fun d => d <=? U64_MAX) delays && forallb (fun e => negb (is_panic (snd e))) script
  end.

Definition calls_ok (ds calls : list N) : bool :=
  sorted calls && (length calls <=? length ds)%nat &&
  match calls with t0 :: _ => t0 =? 0 | [] => false end &&
  forallb (fun t => existsb (fun d => within_pct d t) ds) calls.

Definition monitor (i : input) (o : output) : bool :=
  if negb (wf i) then true else
  match i, o with
  | J d k, OJ l => forallb (fun x => match x with Ok t => within_pct d t | _ => false end) l
  | S _ timeout H delays script, OS (Ok (calls, sr)) =>
      let ds := all_delays delays in
      calls_ok ds calls && result_ok timeout H (length ds) script calls sr
  | _, _ => false
  end.

Definition known (i : input) : N := 0.

(* 0 trivial (J with delay 0) / 1 J unsaturated / 2 J with 40*d saturating / 3 J with max_jitter = 0 /
   4 S with a delay whose max_jitter = 0 / 5 S, some success visible / 6 S, all attempts fail / 7 S undecided at the horizon *)
Definition tag (i : input) : N :=
  match i with
  | J d _ => if d =? 0 then 0 else if max_jitter d =? 0 then 3
             else if U64_MAX <? d * (MAX_JITTER_PERCENT * 2) then 2 else 1
  | S _ timeout H delays script =>
      if existsb (fun d => negb (d =? 0) && (max_jitter d =? 0)) delays then 4
      else match model_S timeout H delays script [] with
           | Ok (_, SOk _) => 5
           | Ok (_, SErr _) => 6
           | _ => 7
           end
  end.

Definition judge (i : input) (o : output) : bool * bool * N * N :=
  (agree i o, monitor i o, known i, tag i).

End C34.
