(* C17 — RelayTransport::poll_recv / poll_recv_queue (iroh/src/socket/transports/relay.rs),
   on top of Datagrams::take_segments (model: Model/C16.v).
   Executable model, definitions only. *)
From V Require Import Lib.Base Lib.MachineInt Model.C16.
Open Scope N_scope.

Module C17.
Import C16.

(* RelayRecvDatagram { url, src, datagrams }: (url, src) abstracted to one number *)
Record item := mkItem { src : N; dgs : dg }.

(* RelayTransport as far as the receive path goes:
     pending_item, the mpsc queue (items sent and not yet received), whether every sender
     is gone, and whether the queue holds a waker (registered by a poll that found it
     empty, consumed by the next send / close). *)
Record st := mkSt { pending : option item; chan : list item; closed : bool; wk : bool }.

Definition st0 : st := mkSt None [] false false.

(* one filled slot: recv_info source, meta.len, meta.stride, buf[..len] *)
Record slot := mkSlot { s_src : N; s_len : N; s_stride : N; s_data : bytes }.

Inductive presult :=
| Ready (slots : list slot)     (* Poll::Ready(Ok(slots.len())) *)
| Pending
| ErrClosed                      (* Poll::Ready(Err(NotConnected)) *)
| Stuck.                         (* loop fuel exhausted / take_segments panicked: never for real *)

(* the end of poll_recv:  if num_msgs > 0 { Ready(Ok(num_msgs)) } else { Pending } *)
Definition finish (s : st) (acc : list slot) (reg : bool) : st * presult * bool :=
  (s, match acc with [] => Pending | _ => Ready acc end, reg).

(* poll_recv_queue: the pending item, else the next queued item (stored as pending) *)
Definition next_item (s : st) : option (item * st) :=
  match pending s with
  | Some it => Some (it, s)
  | None =>
      match chan s with
      | it :: ch => Some (it, mkSt (Some it) ch (closed s) (wk s))
      | [] => None
      end
  end.

(* num_segments = segment_size.map_or(1, |ss| (buf_out.len() / ss).max(1)) *)
Definition num_segments (b : N) (d : dg) : N :=
  match seg d with
  | None => 1
  | Some ss => N.max (b / ss) 1
  end.

Definition slot_of (it : item) (piece : dg) : slot :=
  mkSlot (src it) (len (contents piece))
         (match seg piece with None => len (contents piece) | Some ss => ss end)
         (contents piece).

(* The receive loop.  bufs = sizes of the output buffers not yet filled, acc = slots filled
   so far (num_msgs = length acc; the loop runs while num_msgs < bufs.len()).
   Result: (state, poll result, whether THIS poll registered the waker with the queue).
     while num_msgs < bufs.len() {
       let dm = match self.poll_recv_queue(cx) {
           Ready(Some(recv)) => recv, Ready(None) => return Ready(Err(NotConnected)), Pending => break };
       let datagrams = dm.datagrams.take_segments(num_segments);
       if dm.datagrams.contents.is_empty() { self.pending_item = None }
       if buf_out.len() < datagrams.contents.len() { warn!(..); continue }   // dropped
       copy; meta.len; meta.stride; recv_info; num_msgs += 1 }                                *)
Fixpoint poll_loop (fuel : nat) (s : st) (bufs : list N) (acc : list slot) : st * presult * bool :=
  match bufs with
  | [] => finish s acc false
  | b :: bs =>
      match fuel with
      | O => (s, Stuck, false)
      | S f =>
          match next_item s with
          | None =>
              if closed s then (s, ErrClosed, false)
              else finish (mkSt (pending s) (chan s) (closed s) true) acc true
          | Some (it, s1) =>
              match take_segments (dgs it) (num_segments b (dgs it)) with
              | Ok (piece, rest) =>
                  let s2 := mkSt (match contents rest with
                                  | [] => None
                                  | _ :: _ => Some (mkItem (src it) rest)
                                  end) (chan s1) (closed s1) (wk s1) in
                  if b <? len (contents piece)
                  then poll_loop f s2 (b :: bs) acc
                  else poll_loop f s2 bs (acc ++ [slot_of it piece])
              | _ => (s, Stuck, false)
              end
          end
      end
  end.

(* every iteration that does not end the loop removes an item or at least one byte *)
Definition item_size (it : item) : nat := S (length (contents (dgs it))).
Definition qsize (s : st) : nat :=
  (match pending s with Some it => item_size it | None => O end
   + fold_right (fun it a => item_size it + a) O (chan s))%nat.

Definition poll_recv (s : st) (bufs : list N) : st * presult * bool :=
  poll_loop (S (qsize s)) s bufs [].

(* ---- histories: arrivals (the relay actor sends into the queue), polls, close ---- *)
Inductive ev :=
| Arrive (it : item)
| Poll (bufs : list N)
| Close.

Definition pdigest := option (N * option N * N).   (* pending item: src, segment size, length *)
Inductive obs :=
| OArrive (woken : bool)
| OPoll (r : presult) (reg : bool) (p : pdigest)
| OClose (woken : bool).

Definition digest (s : st) : pdigest :=
  match pending s with
  | None => None
  | Some it => Some (src it, seg (dgs it), len (contents (dgs it)))
  end.

Definition step (s : st) (e : ev) : st * obs :=
  match e with
  | Arrive it =>
      if closed s then (s, OArrive false)
      else (mkSt (pending s) (chan s ++ [it]) false false, OArrive (wk s))
  | Close =>
      if closed s then (s, OClose false)
      else (mkSt (pending s) (chan s) true false, OClose (wk s))
  | Poll bufs =>
      let '(s', r, reg) := poll_recv s bufs in (s', OPoll r reg (digest s'))
  end.

Fixpoint run (s : st) (evs : list ev) : list obs :=
  match evs with
  | [] => []
  | e :: evs' => let '(s', o) := step s e in o :: run s' evs'
  end.

Definition input := list ev.
Definition output := list obs.
Definition model (i : input) : output := run st0 i.

(* ---- comparison ---- *)
Definition slot_eqb (a b : slot) : bool :=
  N.eqb (s_src a) (s_src b) && N.eqb (s_len a) (s_len b) && N.eqb (s_stride a) (s_stride b)
  && bytes_eqb (s_data a) (s_data b).
Definition presult_eqb (a b : presult) : bool :=
  match a, b with
  | Ready x, Ready y => list_eqb slot_eqb x y
  | Pending, Pending => true
  | ErrClosed, ErrClosed => true
  | Stuck, Stuck => true
  | _, _ => false
  end.
Definition pd_eqb (a b : pdigest) : bool :=
  opt_eqb (fun x y => N.eqb (fst (fst x)) (fst (fst y)) && opt_eqb N.eqb (snd (fst x)) (snd (fst y))
                      && N.eqb (snd x) (snd y)) a b.
Definition obs_eqb (a b : obs) : bool :=
  match a, b with
  | OArrive x, OArrive y => Bool.eqb x y
  | OClose x, OClose y => Bool.eqb x y
  | OPoll r g p, OPoll r' g' p' => presult_eqb r r' && Bool.eqb g g' && pd_eqb p p'
  | _, _ => false
  end.
Definition agree (i : input) (o : output) : bool := list_eqb obs_eqb (model i) o.

(* ---- the property on observed histories ---- *)
(* a datagram as QUIC sees it: source and bytes *)
Definition tdg := (N * bytes)%type.
Definition tdg_eqb (a b : tdg) : bool := N.eqb (fst a) (fst b) && bytes_eqb (snd a) (snd b).

(* cutting a buffer / batch at stride boundaries; the last piece may be shorter *)
Fixpoint chunks (fuel : nat) (ss : N) (c : bytes) : list bytes :=
  match fuel with
  | O => [c]
  | S f => if len c <=? ss then [c]
           else firstn (N.to_nat ss) c :: chunks f ss (skipn (N.to_nat ss) c)
  end.
Definition split (ss : N) (c : bytes) : list bytes := chunks (length c) ss c.

(* the datagrams a batch consists of *)
Definition dgs_of (d : dg) : list bytes :=
  match seg d with
  | None => [contents d]
  | Some ss => split ss (contents d)
  end.
Definition item_dgs (it : item) : list tdg := map (pair (src it)) (dgs_of (dgs it)).
(* the datagrams QUIC reads out of a filled slot *)
Definition slot_dgs (sl : slot) : list tdg := map (pair (s_src sl)) (split (s_stride sl) (s_data sl)).

Definition fits (B : N) (t : tdg) : bool := len (snd t) <=? B.

Fixpoint is_prefix (a b : list tdg) : bool :=
  match a, b with
  | [], _ => true
  | x :: a', y :: b' => tdg_eqb x y && is_prefix a' b'
  | _ :: _, [] => false
  end.

(* quantifier: the queue stays open (the check stops at Close), every poll has at least one
   buffer and all buffers of the history have one size B. *)
Fixpoint buf_sizes (evs : list ev) : list N :=
  match evs with
  | [] => []
  | Poll bufs :: evs' => bufs ++ buf_sizes evs'
  | Close :: _ => []
  | _ :: evs' => buf_sizes evs'
  end.
Definition uniform (evs : list ev) : option N :=
  match buf_sizes evs with
  | [] => None
  | b :: bs => if forallb (N.eqb b) bs then Some b else None
  end.

(* arrived = fitting datagrams of all arrivals so far, delivered = datagrams handed out so
   far, waiting = the last poll returned Pending and nothing has arrived since.
   - Ready: at least one slot, meta.len = data length, and what has been delivered is a
     prefix of what arrived and fits (order, exactly once, nothing that does not fit, no
     invented datagrams);
   - Pending: a waker was registered and everything that arrived and fits has been delivered
     (nothing is left behind in the queue);
   - an arrival after Pending wakes the poller. *)
Fixpoint mon (B : N) (evs : list ev) (os : list obs) (arrived delivered : list tdg) (waiting : bool) : bool :=
  match evs, os with
  | [], [] => true
  | Close :: _, _ => true
  | Arrive it :: evs', OArrive w :: os' =>
      (if waiting then w else true) &&
      mon B evs' os' (arrived ++ filter (fits B) (item_dgs it)) delivered false
  | Poll [] :: evs', OPoll _ _ _ :: os' => mon B evs' os' arrived delivered waiting
  | Poll (_ :: _) :: evs', OPoll r reg _ :: os' =>
      match r with
      | Ready slots =>
          let d' := delivered ++ flat_map slot_dgs slots in
          negb (match slots with [] => true | _ => false end) &&
          forallb (fun sl => N.eqb (s_len sl) (len (s_data sl))) slots &&
          is_prefix d' arrived && mon B evs' os' arrived d' false
      | Pending =>
          reg && list_eqb tdg_eqb delivered arrived && mon B evs' os' arrived delivered true
      | _ => false
      end
  | _, _ => false
  end.

(* ---- vocabulary of the theorems (Props/C17.v) ---- *)
(* state after a history *)
Fixpoint final (s : st) (evs : list ev) : st :=
  match evs with
  | [] => s
  | e :: evs' => final (fst (step s e)) evs'
  end.
(* every datagram handed to QUIC during a history, in order *)
Definition delivered_of (os : list obs) : list tdg :=
  flat_map (fun o => match o with OPoll (Ready sl) _ _ => flat_map slot_dgs sl | _ => [] end) os.
(* every datagram that arrived during a history, in order *)
Definition arrivals_of (evs : list ev) : list tdg :=
  flat_map (fun e => match e with Arrive it => item_dgs it | _ => [] end) evs.
(* the datagrams still held by the transport: pending item first, then the queue *)
Definition queue_dgs (s : st) : list tdg :=
  (match pending s with Some it => item_dgs it | None => [] end) ++ flat_map item_dgs (chan s).

Definition wf_dg (d : dg) : bool :=
  match seg d with None => true | Some ss => (1 <=? ss) && (ss <=? U16_MAX) end.
Definition wf_ev (e : ev) : bool := match e with Arrive it => wf_dg (dgs it) | _ => true end.

Definition monitor (i : input) (o : output) : bool :=
  if negb (forallb wf_ev i) then true else
  match uniform i with
  | None => true
  | Some B => if U64_MAX <? B then true (* buffer lengths are usize *) else mon B i o [] [] false
  end.

Definition known (i : input) : N := 0.

(* coverage tag (bit mask over the model's run):
   1 a slot was filled / 2 an item was kept as pending item after a poll / 4 a poll returned
   Pending / 8 ErrClosed / 16 some datagram without segment size does not fit some buffer /
   32 some batch has a segment size larger than some buffer / 64 a poll filled several slots.
   0 = no poll in the history. *)
Definition obs_tag (o : obs) : N :=
  match o with
  | OPoll r _ p =>
      (match r with
       | Ready [_] => 1 | Ready _ => 65 | Pending => 4 | ErrClosed => 8 | Stuck => 0 end)
      + (match p with Some _ => 2 | None => 0 end)
  | _ => 0
  end.
Definition all_bufs (evs : list ev) : list N :=
  flat_map (fun e => match e with Poll bufs => bufs | _ => [] end) evs.
Definition ev_tag (bufs : list N) (e : ev) : N :=
  match e with
  | Arrive it =>
      match seg (dgs it) with
      | None => if existsb (fun b => b <? len (contents (dgs it))) bufs then 16 else 0
      | Some ss => if existsb (fun b => b <? ss) bufs then 32 else 0
      end
  | _ => 0
  end.
Definition tag (i : input) : N :=
  fold_right N.lor 0 (map obs_tag (model i) ++ map (ev_tag (all_bufs i)) i).

Definition judge (i : input) (o : output) : bool * bool * N * N :=
  (agree i o, monitor i o, known i, tag i).

End C17.
