(* C26 — HomeRelayWatch (iroh/src/socket/transports/relay/actor.rs): the published home
   relay is the relay most recently chosen.
   Interleaving transition system over the atomic steps of
     HomeRelayWatch::set_status        (used by every ActiveRelayActor)
     RelayActor::on_network_change     (get; compare; HomeRelayWatch::set / clear)
   for any number of concurrent calls.  The `Watchable` is a register with atomic
   get / set.  Definitions only.

     [step]      the code as it is in /repo now (after the fix recorded in notes/C26.md):
                 set / clear / set_status serialize on a writer mutex;
     [Old.step]  the code at the pinned commit (get-then-set without a lock).

   On top of it, the ACTOR LEVEL ([astep], second half of this file): the RelayActor's
   on_network_change / set_home_relay / active_relay_handle and every ActiveRelayActor with
   its inbox of SetHomeRelay(b) messages, its connection phase and the watch writer used at
   each of its call sites.  There each call of set / clear / set_status is one atomic step
   (that is what the writer mutex of the first half provides). *)
From V Require Import Lib.Base.
Open Scope N_scope.

Module C26.

(* relay URL = id; connection state: 0 Connecting, 1 Connected, 2 Disconnected (no error),
   3 Disconnected (error) *)
Definition status := (N * N)%type.
Definition status_eqb (a b : status) : bool := N.eqb (fst a) (fst b) && N.eqb (snd a) (snd b).

Inductive op :=
| Choose (pref : option N)      (* RelayActor::on_network_change with report.preferred_relay = pref *)
| SetStatus (u : N) (c : N).    (* the ActiveRelayActor for URL u: my_relay.set_status(&u, c) *)

Inductive pc :=
| Idle
| RGot (prev : option N)    (* on_network_change: `prev` read, URL compared, about to write *)
| SGot                      (* set_status: URL read and equal to own, about to write *)
| Done.

Record st := mkSt {
  watch : option status;     (* the Watchable's value *)
  chosen : option N;         (* ghost: the relay most recently chosen as home by the RelayActor *)
  pcs : list pc
}.

Definition init (prog : list op) : st := mkSt None None (map (fun _ => Idle) prog).

Fixpoint upd {A} (n : nat) (a : A) (l : list A) : list A :=
  match l, n with
  | [], _ => []
  | _ :: r, O => a :: r
  | b :: r, S n' => b :: upd n' a r
  end.

Definition url_of (w : option status) : option N := option_map fst w.

(* the writer mutex is held by a set_status call between its read and its write *)
Definition holdsW (p : pc) : bool := match p with SGot => true | _ => false end.
Definition nobodyW (s : st) : bool := forallb (fun p => negb (holdsW p)) (pcs s).

Definition write_of (pref : option N) : option status :=
  match pref with Some u => Some (u, 0) | None => None end.

(* `locked` = true: the repaired code; false: the pinned code *)
Definition step_gen (locked : bool) (prog : list op) (s : st) (t : nat) : option st :=
  match nth_error prog t, nth_error (pcs s) t with
  | Some (Choose pref), Some Idle =>
      (* on_network_change: `let prev = self.config.my_relay.get(); let prev_url = ..url` *)
      Some (mkSt (watch s) (chosen s) (upd t (RGot (url_of (watch s))) (pcs s)))
  | Some (Choose pref), Some (RGot prev) =>
      if opt_eqb N.eqb pref prev then
        (* `if report.preferred_relay.as_ref() == prev_url { return }` *)
        Some (mkSt (watch s) (chosen s) (upd t Done (pcs s)))
      else if negb locked || nobodyW s then
        (* `my_relay.set(relay_url, Connecting)` / `my_relay.clear()`: lock; inner.set; unlock *)
        Some (mkSt (write_of pref) pref (upd t Done (pcs s)))
      else None
  | Some (SetStatus u c), Some Idle =>
      (* set_status: [lock;] `if self.inner.get().as_ref().map(RelayStatus::url) == Some(url)` *)
      if negb locked || nobodyW s then
        if opt_eqb N.eqb (url_of (watch s)) (Some u)
        then Some (mkSt (watch s) (chosen s) (upd t SGot (pcs s)))
        else Some (mkSt (watch s) (chosen s) (upd t Done (pcs s)))
      else None
  | Some (SetStatus u c), Some SGot =>
      (* `self.inner.set(Some(RelayStatus::new(url.clone(), state)))` [; unlock] *)
      Some (mkSt (Some (u, c)) (chosen s) (upd t Done (pcs s)))
  | _, _ => None
  end.

Definition step := step_gen true.
Module Old.
Definition step := step_gen false.
End Old.

Section Run.
Variable stepf : st -> nat -> option st.

Fixpoint run (s : st) (sched : list nat) : option st :=
  match sched with
  | [] => Some s
  | t :: r => match stepf s t with Some s' => run s' r | None => None end
  end.

Definition pc_of (s : st) (t : nat) : pc := nth t (pcs s) Done.
Definition is_done (p : pc) : bool := match p with Done => true | _ => false end.

(* Every program counter is a pause point of the harness (`between_get_set` inside
   set_status, and between the get and the set of the re-enacted on_network_change), so an
   observed release is exactly one atomic step. *)
Inductive ev :=
| Go (t : nat)      (* call t was released and reached its next pause point / returned *)
| Blk (t : nat).    (* call t was released and waits for the writer mutex *)

(* the harness reads (watch value, chosen) after every event *)
Definition snap (s : st) : option status * option N := (watch s, chosen s).

Fixpoint run_ev (s : st) (evs : list ev) : option (list (option status * option N) * st) :=
  match evs with
  | [] => Some ([], s)
  | Go t :: r =>
      match stepf s t with
      | Some s' => match run_ev s' r with
                   | Some (l, s2) => Some (snap s' :: l, s2)
                   | None => None
                   end
      | None => None
      end
  | Blk t :: r =>
      if is_done (pc_of s t) then None else
      match stepf s t with
      | Some _ => None
      | None => match run_ev s r with
                | Some (l, s2) => Some (snap s :: l, s2)
                | None => None
                end
      end
  end.
End Run.

Definition quiescent (s : st) : bool := forallb is_done (pcs s).

(* ---- interface of the lock level ---- *)
Definition linput := (list op * list ev)%type.
(* The register and the most recent choice read after every event.  `None` = not read:
   after an event that released the mutex while another call was waiting for it, the
   waiting call runs on at once and a read would race with it. *)
Definition obs_snap := option (option status * option N).
Definition output := option (list obs_snap).

Definition model_with (stepf : list op -> st -> nat -> option st) (i : linput) : output :=
  let '(prog, evs) := i in
  match run_ev (stepf prog) (init prog) evs with
  | Some (l, s) => if quiescent s then Some (map Some l) else None
  | None => None
  end.

Definition snap_eqb (a b : option status * option N) : bool :=
  opt_eqb status_eqb (fst a) (fst b) && opt_eqb N.eqb (snd a) (snd b).

(* model snapshot vs observed snapshot *)
Definition osnap_agree (m o : obs_snap) : bool :=
  match o, m with
  | None, _ => true
  | Some x, Some y => snap_eqb y x
  | Some _, None => false
  end.

Definition agree_with stepf (i : linput) (o : output) : bool :=
  opt_eqb (list_eqb osnap_agree) (model_with stepf i) o.

(* coverage: 0 no call; 1 no set_status passed its guard; 2 some set_status passed its guard
   (stopped between get and set) and nobody had to wait; 3 some call observed waiting *)
Definition is_blk (e : ev) : bool := match e with Blk _ => true | _ => false end.
Fixpoint guard_passed (stepf : st -> nat -> option st) (s : st) (evs : list ev) : bool :=
  match evs with
  | [] => false
  | Go t :: r => match stepf s t with
                 | Some s' => holdsW (pc_of s' t) || guard_passed stepf s' r
                 | None => false
                 end
  | Blk _ :: r => guard_passed stepf s r
  end.
Definition tag_with (stepf : list op -> st -> nat -> option st) (i : linput) : N :=
  let '(prog, evs) := i in
  match prog with
  | [] => 0
  | _ => if existsb is_blk evs then 3
         else if guard_passed (stepf prog) (init prog) evs then 2 else 1
  end.

(* ======================================================================================
   ACTOR LEVEL.  iroh/src/socket/transports/relay/actor.rs (line numbers of the working tree
   with the hooks in place):
     RelayActor::on_network_change      l.1285-1310   (AHome)
     RelayActor::set_home_relay         l.1312-1325   (the SetHomeRelay(url == home) fan-out)
     RelayActor::active_relay_handle    l.1375-1392   (AStart; also the tail of set_home_relay)
     ActiveRelayActor::run / run_once   l.323-358, 404-430   (AReport: the three status reports)
     ActiveRelayActor::run_dialing      SetHomeRelay arm l.501-505   (AHandle _ false _)
     ActiveRelayActor::run_connected    SetHomeRelay arm l.631-643   (AHandle _ true _)
   Each event is atomic: the RelayActor handles one message at a time, every connection
   actor is one task, and their only shared state is the HomeRelayWatch, whose three
   writers are atomic under the writer mutex (lock level above).
   ====================================================================================== *)

(* the three writers of HomeRelayWatch as atomic functions on the register *)
Definition w_set (u c : N) (w : option status) : option status := Some (u, c).
Definition w_clear (w : option status) : option status := None.
Definition w_set_status (u c : N) (w : option status) : option status :=
  if opt_eqb N.eqb (url_of w) (Some u) then Some (u, c) else w.

(* which writer a call site of a connection actor uses *)
Inductive writer :=
| WNone                 (* publishes nothing *)
| WGuarded (c : N)      (* my_relay.set_status(&self.url, c) — dropped unless self.url is advertised *)
| WUnguarded (c : N).   (* my_relay.set(self.url.clone(), c) — the RelayActor's writer *)

Definition apply_writer (u : N) (wr : writer) (w : option status) : option status :=
  match wr with
  | WNone => w
  | WGuarded c => w_set_status u c w
  | WUnguarded c => w_set u c w
  end.

(* The call sites of the code as it is.
   SetHomeRelay(is_home) handler: in run_connected `if is_home { my_relay.set_status(&url,
   Connected) }` (l.639-642); in run_dialing nothing is published (l.501-505).
   Status reports (run l.332-333, run_once l.407-408 and l.419-420): always set_status. *)
Definition handler_writer (conn is_home : bool) : writer :=
  if conn && is_home then WGuarded 1 else WNone.
Definition report_writer (c : N) : writer := WGuarded c.

(* connection actor: where it is in ActiveRelayActor::run *)
Inductive phase :=
| PStart       (* about to report Connecting: just spawned, or after a Disconnected report
                  (backoff sleep or immediate retry); the inbox is not read here *)
| PDialing     (* in run_dialing (inbox is read) or dial finished and not yet reported *)
| PConnected.  (* in run_connected *)

Record actor := mkActor {
  a_url : N;
  a_phase : phase;
  a_home : bool;          (* is_home_relay *)
  a_inbox : list bool     (* queued SetHomeRelay(b), oldest first *)
}.

Record ast := mkASt {
  awatch : option status;
  achosen : option N;     (* ghost: report.preferred_relay of the latest on_network_change *)
  actors : list actor     (* RelayActor::active_relays *)
}.

Definition ainit : ast := mkASt None None [].

Inductive aev :=
| AHome (pref : option N)               (* RelayActorMessage::NetworkChange, preferred_relay = pref *)
| AStart (u : N)                        (* active_relay_handle(u), e.g. a datagram to send via u *)
| AHandle (u : N) (conn : bool) (b : bool)
      (* actor u takes SetHomeRelay(b) from its inbox, in run_connected (conn) / run_dialing *)
| AReport (u : N) (c : N).              (* actor u reports 0 Connecting / 1 Connected / 3 Disconnected *)

Fixpoint find_actor (u : N) (l : list actor) : option actor :=
  match l with
  | [] => None
  | a :: r => if N.eqb (a_url a) u then Some a else find_actor u r
  end.

Fixpoint put_actor (a : actor) (l : list actor) : list actor :=
  match l with
  | [] => [a]
  | x :: r => if N.eqb (a_url x) (a_url a) then a :: r else x :: put_actor a r
  end.

Definition enqueue (b : bool) (a : actor) : actor :=
  mkActor (a_url a) (a_phase a) (a_home a) (a_inbox a ++ [b]).

(* active_relay_handle(u): an existing actor is left alone; a new one is spawned and, if u
   is the advertised home relay, sent SetHomeRelay(true) (try_send, l.1379-1386) *)
Definition ensure_actor (u : N) (w : option status) (l : list actor) : list actor :=
  match find_actor u l with
  | Some _ => l
  | None => l ++ [mkActor u PStart false (if opt_eqb N.eqb (url_of w) (Some u) then [true] else [])]
  end.

Definition phase_eqb (a b : phase) : bool :=
  match a, b with
  | PStart, PStart | PDialing, PDialing | PConnected, PConnected => true
  | _, _ => false
  end.

(* status-report call sites: which phase they leave and enter *)
Definition report_next (p : phase) (c : N) : option phase :=
  match c, p with
  | 0, PStart => Some PDialing                  (* run_once: set_status(Connecting), run_dialing *)
  | 1, PDialing => Some PConnected              (* run_once: dialed; set_status(Connected), run_connected *)
  | 3, PDialing => Some PStart                  (* run: dialing failed; set_status(Disconnected{err}) *)
  | 3, PConnected => Some PStart                (* run: connection lost; set_status(Disconnected{err}) *)
  | _, _ => None
  end.

(* `hw` = the writer table of the SetHomeRelay handler (the code as it is: handler_writer) *)
Definition astep_gen (hw : bool -> bool -> writer) (s : ast) (e : aev) : option ast :=
  match e with
  | AHome pref =>
      (* `let prev = my_relay.get(); if report.preferred_relay == prev_url { return }` *)
      if opt_eqb N.eqb pref (url_of (awatch s)) then Some (mkASt (awatch s) pref (actors s))
      else match pref with
           | Some n =>
               (* `my_relay.set(n, Connecting)`; set_home_relay: SetHomeRelay(url == n) to every
                  active relay; active_relay_handle(n) *)
               let w := w_set n 0 (awatch s) in
               let l := map (fun a => enqueue (N.eqb (a_url a) n) a) (actors s) in
               Some (mkASt w (Some n) (ensure_actor n w l))
           | None =>
               (* `my_relay.clear()`; nobody is told *)
               Some (mkASt (w_clear (awatch s)) None (actors s))
           end
  | AStart u => Some (mkASt (awatch s) (achosen s) (ensure_actor u (awatch s) (actors s)))
  | AHandle u conn b =>
      match find_actor u (actors s) with
      | Some a =>
          match a_inbox a with
          | b' :: rest =>
              if Bool.eqb b b' && phase_eqb (a_phase a) (if conn then PConnected else PDialing) then
                Some (mkASt (apply_writer u (hw conn b) (awatch s)) (achosen s)
                            (put_actor (mkActor u (a_phase a) b rest) (actors s)))
              else None
          | [] => None
          end
      | None => None
      end
  | AReport u c =>
      match find_actor u (actors s) with
      | Some a =>
          match report_next (a_phase a) c with
          | Some p' =>
              Some (mkASt (apply_writer u (report_writer c) (awatch s)) (achosen s)
                          (put_actor (mkActor u p' (a_home a) (a_inbox a)) (actors s)))
          | None => None
          end
      | None => None
      end
  end.

Definition astep := astep_gen handler_writer.

(* the seeded variant: the run_connected handler publishes with the RelayActor's unguarded
   writer `set` *)
Module Unguarded.
Definition handler_writer (conn is_home : bool) : writer :=
  if conn && is_home then WUnguarded 1 else WNone.
Definition astep := astep_gen handler_writer.
End Unguarded.

Definition asnap (s : ast) : option status * option N := (awatch s, achosen s).

Section ARun.
Variable stepf : ast -> aev -> option ast.
Fixpoint arun (s : ast) (evs : list aev) : option ast :=
  match evs with
  | [] => Some s
  | e :: r => match stepf s e with Some s' => arun s' r | None => None end
  end.
(* the (watch, chosen) pair after every event *)
Fixpoint arun_snaps (s : ast) (evs : list aev) : option (list (option status * option N)) :=
  match evs with
  | [] => Some []
  | e :: r => match stepf s e with
              | Some s' => match arun_snaps s' r with
                           | Some l => Some (asnap s' :: l)
                           | None => None
                           end
              | None => None
              end
  end.
End ARun.

Definition amodel (evs : list aev) : output :=
  match arun_snaps astep ainit evs with
  | Some l => Some (map Some l)
  | None => None
  end.

(* coverage of an actor-level case: 4 no inbox message handled; 5 a SetHomeRelay(true) was
   handled in run_connected while its relay was the chosen home (status published); 7 some
   Disconnected report; 6 a SetHomeRelay(true) was handled in run_connected by an actor whose
   relay was NOT the chosen home any more (late message of a demoted connection) *)
Fixpoint atag_from (s : ast) (evs : list aev) (acc : N) : N :=
  match evs with
  | [] => acc
  | e :: r =>
      let k := match e with
               | AHandle u true true => if opt_eqb N.eqb (achosen s) (Some u) then 5 else 6
               | AReport _ 3 => 7
               | AHandle _ _ _ => 4
               | _ => 0
               end in
      let acc' := if (acc =? 6) || (k =? 6) then 6
                  else if (acc =? 7) || (k =? 7) then 7
                  else N.max acc k in
      match astep s e with
      | Some s' => atag_from s' r acc'
      | None => acc'
      end
  end.
Definition atag (evs : list aev) : N :=
  match evs with [] => 0 | _ => N.max 4 (atag_from ainit evs 0) end.

(* ---- interface ---- *)
Inductive input :=
| ILow (p : linput)          (* lock level: programs of set_status / on_network_change calls *)
| IAct (evs : list aev).     (* actor level: observed events of a real RelayActor with its actors *)

Definition model (i : input) : output :=
  match i with ILow p => model_with step p | IAct evs => amodel evs end.

Definition agree (i : input) (o : output) : bool :=
  opt_eqb (list_eqb osnap_agree) (model i) o.

(* The property on an observed run: at every observation point the advertised URL is the
   relay most recently chosen. *)
Definition snap_ok (x : option status * option N) : bool := opt_eqb N.eqb (url_of (fst x)) (snd x).
Definition osnap_ok (x : obs_snap) : bool := match x with Some p => snap_ok p | None => true end.
Definition monitor (i : input) (o : output) : bool :=
  match o with
  | Some l => forallb osnap_ok l
  | None => true
  end.

Definition known (i : input) : N := 0.

Definition tag (i : input) : N :=
  match i with ILow p => tag_with step p | IAct evs => atag evs end.

Definition judge (i : input) (o : output) : bool * bool * N * N :=
  (agree i o, monitor i o, known i, tag i).

(* the same interface over the pinned transition system ("coq_module": "C26.OldJ") *)
Module OldJ.
Definition judge (i : input) (o : output) : bool * bool * N * N :=
  match i with
  | ILow p => (agree_with Old.step p o, monitor i o, known i, tag_with Old.step p)
  | IAct _ => (agree i o, monitor i o, known i, tag i)
  end.
End OldJ.

End C26.
