(* C26 — HomeRelayWatch (iroh/src/socket/transports/relay/actor.rs): the published home
   relay is the relay most recently chosen.
   Interleaving transition system over the atomic steps of
     HomeRelayWatch::set_status        (used by every ActiveRelayActor)
     RelayActor::on_network_change     (get; compare; HomeRelayWatch::set / clear)
   for any number of concurrent calls.  The `Watchable` is a register with atomic
   get / set.  Definitions only.

     [step]      the code as it is in /repo now (after the fix recorded in notes/C26.md):
                 set / clear / set_status serialize on a writer mutex;
     [Old.step]  the code at the pinned commit (get-then-set without a lock). *)
From V Require Import Lib.Base.
Open Scope N_scope.

Module C26.

(* relay URL = id; connection state: 0 Connecting, 1 Connected, 2 Disconnected (no error),
   3 Disconnected (error) *)
Definition status := (N * N)%type.
Definition status_eqb (a b : status) : bool := N.eqb (fst a) (fst b) && N.eqb (snd a) (snd b).

Inductive op :=
| Choose (pref : option N)      (* RelayActor::on_network_change with report.preferred_relay = pref *)
| SetStatus (u : N) (c : N).    (* the ActiveRelayActor for URL u: my_relay.set_status(&u, c) *)

Inductive pc :=
| Idle
| RGot (prev : option N)    (* on_network_change: `prev` read, URL compared, about to write *)
| SGot                      (* set_status: URL read and equal to own, about to write *)
| Done.

Record st := mkSt {
  watch : option status;     (* the Watchable's value *)
  chosen : option N;         (* ghost: the relay most recently chosen as home by the RelayActor *)
  pcs : list pc
}.

Definition init (prog : list op) : st := mkSt None None (map (fun _ => Idle) prog).

Fixpoint upd {A} (n : nat) (a : A) (l : list A) : list A :=
  match l, n with
  | [], _ => []
  | _ :: r, O => a :: r
  | b :: r, S n' => b :: upd n' a r
  end.

Definition url_of (w : option status) : option N := option_map fst w.

(* the writer mutex is held by a set_status call between its read and its write *)
Definition holdsW (p : pc) : bool := match p with SGot => true | _ => false end.
Definition nobodyW (s : st) : bool := forallb (fun p => negb (holdsW p)) (pcs s).

Definition write_of (pref : option N) : option status :=
  match pref with Some u => Some (u, 0) | None => None end.

(* `locked` = true: the repaired code; false: the pinned code *)
Definition step_gen (locked : bool) (prog : list op) (s : st) (t : nat) : option st :=
  match nth_error prog t, nth_error (pcs s) t with
  | Some (Choose pref), Some Idle =>
      (* on_network_change: `let prev = self.config.my_relay.get(); let prev_url = ..url` *)
      Some (mkSt (watch s) (chosen s) (upd t (RGot (url_of (watch s))) (pcs s)))
  | Some (Choose pref), Some (RGot prev) =>
      if opt_eqb N.eqb pref prev then
        (* `if report.preferred_relay.as_ref() == prev_url { return }` *)
        Some (mkSt (watch s) (chosen s) (upd t Done (pcs s)))
      else if negb locked || nobodyW s then
        (* `my_relay.set(relay_url, Connecting)` / `my_relay.clear()`: lock; inner.set; unlock *)
        Some (mkSt (write_of pref) pref (upd t Done (pcs s)))
      else None
  | Some (SetStatus u c), Some Idle =>
      (* set_status: [lock;] `if self.inner.get().as_ref().map(RelayStatus::url) == Some(url)` *)
      if negb locked || nobodyW s then
        if opt_eqb N.eqb (url_of (watch s)) (Some u)
        then Some (mkSt (watch s) (chosen s) (upd t SGot (pcs s)))
        else Some (mkSt (watch s) (chosen s) (upd t Done (pcs s)))
      else None
  | Some (SetStatus u c), Some SGot =>
      (* `self.inner.set(Some(RelayStatus::new(url.clone(), state)))` [; unlock] *)
      Some (mkSt (Some (u, c)) (chosen s) (upd t Done (pcs s)))
  | _, _ => None
  end.

Definition step := step_gen true.
Module Old.
Definition step := step_gen false.
End Old.

Section Run.
Variable stepf : st -> nat -> option st.

Fixpoint run (s : st) (sched : list nat) : option st :=
  match sched with
  | [] => Some s
  | t :: r => match stepf s t with Some s' => run s' r | None => None end
  end.

Definition pc_of (s : st) (t : nat) : pc := nth t (pcs s) Done.
Definition is_done (p : pc) : bool := match p with Done => true | _ => false end.

(* Every program counter is a pause point of the harness (`between_get_set` inside
   set_status, and between the get and the set of the re-enacted on_network_change), so an
   observed release is exactly one atomic step. *)
Inductive ev :=
| Go (t : nat)      (* call t was released and reached its next pause point / returned *)
| Blk (t : nat).    (* call t was released and waits for the writer mutex *)

(* the harness reads (watch value, chosen) after every event *)
Definition snap (s : st) : option status * option N := (watch s, chosen s).

Fixpoint run_ev (s : st) (evs : list ev) : option (list (option status * option N) * st) :=
  match evs with
  | [] => Some ([], s)
  | Go t :: r =>
      match stepf s t with
      | Some s' => match run_ev s' r with
                   | Some (l, s2) => Some (snap s' :: l, s2)
                   | None => None
                   end
      | None => None
      end
  | Blk t :: r =>
      if is_done (pc_of s t) then None else
      match stepf s t with
      | Some _ => None
      | None => match run_ev s r with
                | Some (l, s2) => Some (snap s :: l, s2)
                | None => None
                end
      end
  end.
End Run.

Definition quiescent (s : st) : bool := forallb is_done (pcs s).

(* ---- interface ---- *)
Definition input := (list op * list ev)%type.
(* The register and the most recent choice read after every event.  `None` = not read:
   after an event that released the mutex while another call was waiting for it, the
   waiting call runs on at once and a read would race with it. *)
Definition obs_snap := option (option status * option N).
Definition output := option (list obs_snap).

Definition model_with (stepf : list op -> st -> nat -> option st) (i : input) : output :=
  let '(prog, evs) := i in
  match run_ev (stepf prog) (init prog) evs with
  | Some (l, s) => if quiescent s then Some (map Some l) else None
  | None => None
  end.
Definition model := model_with step.

Definition snap_eqb (a b : option status * option N) : bool :=
  opt_eqb status_eqb (fst a) (fst b) && opt_eqb N.eqb (snd a) (snd b).

(* model snapshot vs observed snapshot *)
Definition osnap_agree (m o : obs_snap) : bool :=
  match o, m with
  | None, _ => true
  | Some x, Some y => snap_eqb y x
  | Some _, None => false
  end.

Definition agree_with stepf (i : input) (o : output) : bool :=
  opt_eqb (list_eqb osnap_agree) (model_with stepf i) o.
Definition agree := agree_with step.

(* The property on an observed run: at every observation point the advertised URL is the
   relay most recently chosen. *)
Definition snap_ok (x : option status * option N) : bool := opt_eqb N.eqb (url_of (fst x)) (snd x).
Definition osnap_ok (x : obs_snap) : bool := match x with Some p => snap_ok p | None => true end.
Definition monitor (i : input) (o : output) : bool :=
  match o with
  | Some l => forallb osnap_ok l
  | None => true
  end.

Definition known (i : input) : N := 0.

(* coverage: 0 no call; 1 no set_status passed its guard; 2 some set_status passed its guard
   (stopped between get and set) and nobody had to wait; 3 some call observed waiting *)
Definition is_blk (e : ev) : bool := match e with Blk _ => true | _ => false end.
Fixpoint guard_passed (stepf : st -> nat -> option st) (s : st) (evs : list ev) : bool :=
  match evs with
  | [] => false
  | Go t :: r => match stepf s t with
                 | Some s' => holdsW (pc_of s' t) || guard_passed stepf s' r
                 | None => false
                 end
  | Blk _ :: r => guard_passed stepf s r
  end.
Definition tag_with (stepf : list op -> st -> nat -> option st) (i : input) : N :=
  let '(prog, evs) := i in
  match prog with
  | [] => 0
  | _ => if existsb is_blk evs then 3
         else if guard_passed (stepf prog) (init prog) evs then 2 else 1
  end.
Definition tag := tag_with step.

Definition judge (i : input) (o : output) : bool * bool * N * N :=
  (agree i o, monitor i o, known i, tag i).

(* the same interface over the pinned transition system ("coq_module": "C26.OldJ") *)
Module OldJ.
Definition judge (i : input) (o : output) : bool * bool * N * N :=
  (agree_with Old.step i o, monitor i o, known i, tag_with Old.step i).
End OldJ.

End C26.
