(* C01 — proofs about the TLS name / verifier model. *)
From V Require Import Lib.Base Lib.BaseN Model.C01.
From Coq Require Import Lia ZifyBool PeanoNat.
Import C01.
Open Scope N_scope.

Lemma B32_ok : codec_ok BASE32_DNSSEC = true.
Proof. reflexivity. Qed.

(* ------------------------------------------------------------------ *)
(** * generic list / bytes helpers *)

Lemma bytes_eqb_true_iff x y : bytes_eqb x y = true <-> x = y.
Proof. split; [apply bytes_eqb_eq|intros ->; apply bytes_eqb_refl]. Qed.

Lemma len_app {A} (a b : list A) : len (a ++ b) = len a + len b.
Proof. unfold len. rewrite app_length. lia. Qed.

Lemma len_length {A} (l : list A) n : len l = N.of_nat n -> length l = n.
Proof. unfold len. lia. Qed.

(* turn [H : len k = 32] into k = [k0; ...; k31] *)
Ltac explode k H :=
  apply (len_length k 32) in H;
  do 32 (destruct k as [|? k]; [cbn in H; discriminate H|]);
  destruct k; [|cbn in H; discriminate H]; clear H.

(* ------------------------------------------------------------------ *)
(** * split on dots *)

Fixpoint join_dot (ps : list bytes) : bytes :=
  match ps with
  | [] => []
  | [p] => p
  | p :: r => p ++ DOT :: join_dot r
  end.

Lemma split_dot_nonempty s : split_dot s <> [].
Proof.
  destruct s as [|c r]; cbn [split_dot]; [discriminate|].
  destruct (c =? DOT); [discriminate|]. destruct (split_dot r); discriminate.
Qed.

Lemma split_dot_join s : join_dot (split_dot s) = s.
Proof.
  induction s as [|c r IH]; [reflexivity|].
  cbn [split_dot]. destruct (c =? DOT) eqn:E.
  - apply N.eqb_eq in E. subst c.
    pose proof (split_dot_nonempty r) as NE.
    destruct (split_dot r) as [|h t] eqn:S; [contradiction|].
    cbn [join_dot app]. cbn [join_dot] in IH. now rewrite IH.
  - pose proof (split_dot_nonempty r) as NE.
    destruct (split_dot r) as [|h t] eqn:S; [contradiction|].
    destruct t as [|h' t]; cbn [join_dot app] in *; now rewrite IH.
Qed.

Lemma split_dot_app l r :
  Forall (fun c => c <> DOT) l -> split_dot (l ++ DOT :: r) = l :: split_dot r.
Proof.
  induction 1 as [|c l Hc _ IH]; cbn [app split_dot].
  - now rewrite N.eqb_refl.
  - apply N.eqb_neq in Hc. rewrite Hc, IH. reflexivity.
Qed.

(* ------------------------------------------------------------------ *)
(** * the base32 alphabet: no dots, fixed by the case folding *)

Lemma sym_in_alphabet al v : sym_of al v = 0 \/ In (sym_of al v) al.
Proof.
  unfold sym_of. destruct (Nat.lt_ge_cases (N.to_nat v) (length al)) as [L|L].
  - right. now apply nth_In.
  - left. now apply nth_overflow.
Qed.

Lemma encode_forall (P : N -> bool) bs :
  forallb P (0 :: alphabet BASE32_DNSSEC) = true ->
  Forall (fun c => P c = true) (b32_encode bs).
Proof.
  intros H. rewrite forallb_forall in H.
  unfold b32_encode, encode. apply Forall_forall. intros c Hc.
  apply in_map_iff in Hc as (v & <- & _).
  destruct (sym_in_alphabet (alphabet BASE32_DNSSEC) v) as [E|I].
  - rewrite E. apply H. now left.
  - apply H. now right.
Qed.

Lemma encode_no_dot bs : Forall (fun c => c <> DOT) (b32_encode bs).
Proof.
  pose proof (encode_forall (fun c => negb (c =? DOT)) bs eq_refl) as H.
  eapply Forall_impl; [|exact H]. cbn beta. intros c Hc. lia.
Qed.

Lemma encode_fold bs : map fold_sym (b32_encode bs) = b32_encode bs.
Proof.
  pose proof (encode_forall (fun c => fold_sym c =? c) bs eq_refl) as H.
  induction H as [|c l Hc _ IH]; cbn [map]; [reflexivity|].
  apply N.eqb_eq in Hc. now rewrite Hc, IH.
Qed.

Lemma split_name_encode bs :
  split_dot (b32_encode bs ++ SUFFIX) = [b32_encode bs; IROH; INVALID].
Proof.
  change SUFFIX with (DOT :: str_bytes "iroh.invalid").
  rewrite split_dot_app by apply encode_no_dot. reflexivity.
Qed.

(* ------------------------------------------------------------------ *)
(** * DER: what the webpki reader accepts is canonical *)

Lemma take_value_inv t n r t' v r' :
  take_value t n r = Some (t', v, r') ->
  t' = t /\ r = v ++ r' /\ len v = n /\ n < 65535.
Proof.
  unfold take_value.
  destruct (65535 <=? n) eqn:E1; [discriminate|].
  destruct (len r <? n) eqn:E2; [discriminate|].
  intros [= <- <- <-]. repeat split.
  - symmetry. apply firstn_skipn.
  - unfold len in *. rewrite firstn_length. lia.
  - lia.
Qed.

Lemma read_tlv_short l t v r :
  read_tlv l = Some (t, v, r) -> len v < 128 -> l = t :: len v :: v ++ r.
Proof.
  destruct l as [|tag [|n r0]]; cbn [read_tlv]; try discriminate.
  destruct (N.land tag 31 =? 31); [discriminate|].
  destruct (N.land n 128 =? 0) eqn:E0.
  { intros H _. apply take_value_inv in H as (-> & -> & <- & _). reflexivity. }
  destruct (n =? 129).
  { destruct r0 as [|b r']; [discriminate|].
    destruct (b <? 128) eqn:Eb; [discriminate|].
    intros H L. apply take_value_inv in H as (_ & _ & Hv & _). lia. }
  destruct (n =? 130).
  { destruct r0 as [|b1 [|b2 r']]; try discriminate.
    cbv zeta. destruct (b1 * 256 + b2 <=? 255) eqn:Eb; [discriminate|].
    intros H L. apply take_value_inv in H as (_ & _ & Hv & _). lia. }
  destruct (n =? 131).
  { destruct r0 as [|b1 [|b2 [|b3 r']]]; try discriminate.
    cbv zeta. destruct (b1 * 65536 + b2 * 256 + b3 <=? 65535) eqn:Eb; [discriminate|].
    intros H L. apply take_value_inv in H as (_ & _ & Hv & _). lia. }
  destruct (n =? 132).
  { destruct r0 as [|b1 [|b2 [|b3 [|b4 r']]]]; try discriminate.
    cbv zeta.
    destruct (b1 * 16777216 + b2 * 65536 + b3 * 256 + b4 <=? 16777215) eqn:Eb; [discriminate|].
    intros H L. apply take_value_inv in H as (_ & _ & Hv & _). lia. }
  discriminate.
Qed.

Lemma expect_tag_short t l v r :
  expect_tag t l = Some (v, r) -> len v < 128 -> l = t :: len v :: v ++ r.
Proof.
  unfold expect_tag. destruct (read_tlv l) as [[[tag v'] r']|] eqn:E; [|discriminate].
  destruct (tag =? t) eqn:Et; [|discriminate]. intros [= <- <-] L.
  apply N.eqb_eq in Et. subst tag. now apply read_tlv_short.
Qed.

Lemma spki_inner_inv v alg key :
  spki_inner v = Some (alg, key) -> len alg = 5 -> len key = 32 ->
  v = 48 :: 5 :: alg ++ 3 :: 33 :: 0 :: key.
Proof.
  unfold spki_inner.
  destruct (expect_tag 48 v) as [[alg' r]|] eqn:E1; [|discriminate].
  destruct (expect_tag 3 r) as [[bs r2]|] eqn:E2; [|discriminate].
  destruct bs as [|z key']; [discriminate|].
  destruct z; [|discriminate]. destruct r2; [|discriminate].
  intros [= <- <-] La Lk.
  apply expect_tag_short in E1; [|lia].
  apply expect_tag_short in E2; [|unfold len in *; cbn [length]; lia].
  rewrite E1, E2, La. rewrite app_nil_r.
  replace (len (0 :: key')) with 33 by (unfold len in *; cbn [length]; lia).
  reflexivity.
Qed.

Lemma raw_entity_inv cert v alg key :
  raw_public_key_entity cert = Some v -> spki_inner v = Some (alg, key) ->
  len alg = 5 -> len key = 32 ->
  cert = 48 :: 42 :: 48 :: 5 :: alg ++ 3 :: 33 :: 0 :: key.
Proof.
  unfold raw_public_key_entity.
  destruct (expect_tag 48 cert) as [[v' r]|] eqn:E; [|discriminate].
  destruct r; [|discriminate].
  destruct (spki_inner v'); [|discriminate].
  intros [= ->] Hs La Lk.
  pose proof (spki_inner_inv _ _ _ Hs La Lk) as Hv.
  assert (Lv : len v = 42).
  { rewrite Hv. unfold len in *. cbn [length]. rewrite app_length. cbn [length]. lia. }
  apply expect_tag_short in E; [|lia].
  rewrite E, Lv, app_nil_r, Hv. reflexivity.
Qed.

Lemma spki_of_key_32 k : len k = 32 -> spki_of_key k = SPKI_PREFIX ++ k.
Proof. intros H. explode k H. reflexivity. Qed.

Lemma spki_of_key_inj k k' :
  len k = 32 -> len k' = 32 -> spki_of_key k = spki_of_key k' -> k = k'.
Proof.
  intros H H' E. rewrite !spki_of_key_32 in E by assumption.
  now apply app_inv_head in E.
Qed.

Lemma prefix_split c k :
  len c = 44 -> firstn 12 c = SPKI_PREFIX -> skipn 12 c = k -> c = SPKI_PREFIX ++ k /\ len k = 32.
Proof.
  intros L F S. split.
  - now rewrite <- F, <- S, firstn_skipn.
  - subst k. unfold len in *. rewrite skipn_length. lia.
Qed.

Lemma prefix_parts k : len k = 32 ->
  len (SPKI_PREFIX ++ k) = 44 /\ firstn 12 (SPKI_PREFIX ++ k) = SPKI_PREFIX /\
  skipn 12 (SPKI_PREFIX ++ k) = k.
Proof. intros H. rewrite len_app, H. repeat split. Qed.

(* ------------------------------------------------------------------ *)
Section Crypto.
Variable is_point : bytes -> bool.
Variable verify : bytes -> bytes -> bytes -> bool.

Notation name_decode := (name_decode is_point).
Notation verify_server_cert := (verify_server_cert is_point).
Notation tls13_sig := (tls13_sig is_point verify).
Notation remote_id_of_certs := (remote_id_of_certs is_point).
Notation key_of_spki_der := (key_of_spki_der is_point).
Notation client_accepts := (client_accepts is_point verify).
Notation server_accepts := (server_accepts is_point verify).

(** ** names *)

Lemma name_decode_encode k :
  bytes_ok k = true ->
  name_decode (name_encode k) = if (len k =? 32) && is_point k then Some k else None.
Proof.
  intros Hk. unfold C01.name_decode, name_encode.
  rewrite split_name_encode.
  replace (bytes_eqb IROH IROH && bytes_eqb INVALID INVALID) with true by reflexivity.
  unfold b32_decode. rewrite encode_fold. unfold b32_encode.
  rewrite (decode_encode _ B32_ok) by exact Hk. reflexivity.
Qed.

Lemma name_roundtrip k :
  key_ok k = true -> is_point k = true -> name_decode (name_encode k) = Some k.
Proof.
  unfold key_ok. intros H P. apply andb_prop in H as (L & B).
  rewrite name_decode_encode by exact B. now rewrite L, P.
Qed.

(* whatever the name of K decodes to, it is K *)
Lemma name_decode_encode_some K k :
  key_ok K = true -> name_decode (name_encode K) = Some k -> k = K /\ is_point K = true.
Proof.
  unfold key_ok. intros H. apply andb_prop in H as (L & B).
  rewrite name_decode_encode by exact B. rewrite L. cbn [andb].
  destruct (is_point K); [|discriminate]. now intros [= <-].
Qed.

Lemma name_decode_shape s k :
  name_decode s = Some k ->
  exists l, s = l ++ SUFFIX /\ length l = 52%nat /\
            map fold_sym l = b32_encode k /\ len k = 32 /\ is_point k = true.
Proof.
  unfold C01.name_decode.
  pose proof (split_dot_join s) as J.
  destruct (split_dot s) as [|l [|a [|b [|? ?]]]]; try discriminate.
  destruct (bytes_eqb a IROH && bytes_eqb b INVALID) eqn:E; [|discriminate].
  apply andb_prop in E as (Ea & Eb).
  apply bytes_eqb_eq in Ea. apply bytes_eqb_eq in Eb. subst a b.
  unfold b32_decode.
  destruct (decode BASE32_DNSSEC (map fold_sym l)) as [k'| |] eqn:D; try discriminate.
  destruct ((len k' =? 32) && is_point k') eqn:E; [|discriminate].
  intros [= ->]. apply andb_prop in E as (L & P). apply N.eqb_eq in L.
  exists l. repeat split; auto.
  - pose proof (decode_length _ B32_ok _ _ D) as ((A & B) & _).
    rewrite map_length in *. cbn [bitw BASE32_DNSSEC] in *.
    apply (len_length k 32) in L. lia.
  - symmetry. apply (encode_decode _ B32_ok); [reflexivity|exact D].
Qed.

(** ** signatures *)

Lemma tls13_sig_ok_inv cert sch m s :
  tls13_sig cert sch m s = V_OK ->
  exists k, cert = SPKI_PREFIX ++ k /\ len k = 32 /\ is_point k = true /\
            len s = 64 /\ verify k m s = true /\ sch = SCHEME_ED25519.
Proof.
  unfold C01.tls13_sig.
  destruct (negb (scheme_tls13 sch)); [discriminate|].
  destruct (raw_public_key_entity cert) as [v|] eqn:R; [|discriminate].
  destruct (negb (sch =? SCHEME_ED25519)) eqn:Es; [discriminate|].
  destruct (spki_inner v) as [[alg key]|] eqn:S; [|discriminate].
  destruct (negb (bytes_eqb alg ED25519_ALG_ID)) eqn:Ea; [discriminate|].
  destruct (ed25519_verify_signature is_point verify key m s) eqn:Ev; [|discriminate].
  intros _.
  apply negb_false_iff in Ea. apply bytes_eqb_eq in Ea. subst alg.
  unfold ed25519_verify_signature in Ev.
  apply andb_prop in Ev as (Ev & V). apply andb_prop in Ev as (Ev & Ls).
  apply andb_prop in Ev as (Lk & P).
  apply N.eqb_eq in Lk. apply N.eqb_eq in Ls.
  exists key. repeat split; auto.
  - exact (raw_entity_inv _ _ _ _ R S eq_refl Lk).
  - lia.
Qed.

Lemma tls12_refused cert sch m s : tls12_sig cert sch m s <> V_OK.
Proof. discriminate. Qed.

(** ** remote id *)

Lemma key_of_spki_der_inv c k :
  key_of_spki_der c = Some k -> c = SPKI_PREFIX ++ k /\ len k = 32 /\ is_point k = true.
Proof.
  unfold C01.key_of_spki_der.
  destruct ((len c =? 44) && bytes_eqb (firstn 12 c) SPKI_PREFIX) eqn:E; [|discriminate].
  apply andb_prop in E as (L & F). apply N.eqb_eq in L. apply bytes_eqb_eq in F.
  destruct (is_point (skipn 12 c)) eqn:P; [|discriminate].
  intros [= <-]. destruct (prefix_split c _ L F eq_refl) as (E & Lk). auto.
Qed.

Lemma key_of_spki_der_prefix k :
  len k = 32 -> key_of_spki_der (SPKI_PREFIX ++ k) = if is_point k then Some k else None.
Proof.
  intros L. unfold C01.key_of_spki_der.
  destruct (prefix_parts k L) as (A & B & C). rewrite A, B, C. reflexivity.
Qed.

Lemma remote_id_spki k :
  len k = 32 -> is_point k = true -> remote_id_of_certs [spki_of_key k] = Some k.
Proof.
  intros L P. cbn [C01.remote_id_of_certs]. rewrite spki_of_key_32 by exact L.
  rewrite key_of_spki_der_prefix by exact L. now rewrite P.
Qed.

(** ** the certificate check *)

Lemma verify_server_cert_ok_inv e ins sn :
  verify_server_cert e ins sn = V_OK ->
  exists s k, sn = SnDns s /\ name_decode s = Some k /\ ins = [] /\ e = spki_of_key k.
Proof.
  unfold C01.verify_server_cert.
  destruct sn as [s| |]; try discriminate.
  destruct (name_decode s) as [k|] eqn:D; [|discriminate].
  destruct ins; [|discriminate].
  destruct (bytes_eqb (spki_of_key k) e) eqn:E; [|discriminate].
  intros _. apply bytes_eqb_eq in E. exists s, k. auto.
Qed.

(** ** the handshake acceptance predicates *)

Lemma accepts_split (a b : N) : (a =? V_OK) && (b =? V_OK) = true -> a = V_OK /\ b = V_OK.
Proof. intros H. apply andb_prop in H as (A & B). split; now apply N.eqb_eq. Qed.

Theorem dial_authenticates K h :
  key_ok K = true -> client_accepts K h = true ->
  verify K (msg h) (sg h) = true /\ inters h = [] /\ ee h = spki_of_key K /\
  is_point K = true /\ scheme h = SCHEME_ED25519 /\ len (sg h) = 64.
Proof.
  intros HK H. unfold C01.client_accepts, client_verdicts in H. cbn [fst snd] in H.
  apply accepts_split in H as (Hc & Hs).
  apply verify_server_cert_ok_inv in Hc as (s & k & Es & D & I & E).
  injection Es as <-.
  destruct (name_decode_encode_some K k HK D) as (-> & P).
  apply tls13_sig_ok_inv in Hs as (k' & Ec & Lk' & P' & Ls & V & Sch).
  assert (LK : len K = 32).
  { unfold key_ok in HK. apply andb_prop in HK as (L & _). now apply N.eqb_eq in L. }
  assert (k' = K).
  { rewrite E, spki_of_key_32 in Ec by exact LK. now apply app_inv_head in Ec. }
  subst k'. auto 10.
Qed.

Theorem remote_id_client K h :
  key_ok K = true -> client_accepts K h = true -> remote_id_of_certs [ee h] = Some K.
Proof.
  intros HK H. destruct (dial_authenticates K h HK H) as (_ & _ & E & P & _).
  rewrite E. apply remote_id_spki; auto.
  unfold key_ok in HK. apply andb_prop in HK as (L & _). now apply N.eqb_eq in L.
Qed.

Theorem remote_id_server h :
  server_accepts h = true ->
  exists k, remote_id_of_certs [ee h] = Some k /\ ee h = spki_of_key k /\ inters h = [] /\
            len k = 32 /\ is_point k = true /\ verify k (msg h) (sg h) = true /\
            scheme h = SCHEME_ED25519.
Proof.
  intros H. unfold C01.server_accepts, server_verdicts in H. cbn [fst snd] in H.
  apply accepts_split in H as (Hc & Hs).
  apply tls13_sig_ok_inv in Hs as (k & Ec & Lk & P & Ls & V & Sch).
  exists k. rewrite <- (spki_of_key_32 k Lk) in Ec. rewrite Ec.
  repeat split; auto.
  - now apply remote_id_spki.
  - unfold verify_client_cert in Hc. destruct (inters h); [reflexivity|discriminate].
Qed.

(* the dial between honest endpoints succeeds only towards the key that is held *)
Lemma dial_outcome_ok K Kp KA ra rb :
  key_ok K = true -> key_ok Kp = true -> key_ok KA = true ->
  is_point Kp = true -> is_point KA = true ->
  dial_outcome is_point K Kp KA = (true, ra, rb) ->
  K = Kp /\ ra = Some Kp /\ rb = Some KA.
Proof.
  intros HK HKp HKA Pp Pa. unfold dial_outcome, own_certs.
  destruct (verify_server_cert (spki_of_key Kp) [] (SnDns (name_encode K)) =? V_OK) eqn:E;
    cbn [andb]; [|discriminate].
  destruct (verify_client_cert (spki_of_key KA) [] =? V_OK); [|discriminate].
  intros [= <- <-].
  apply N.eqb_eq in E. apply verify_server_cert_ok_inv in E as (s & k & Es & D & _ & E).
  injection Es as <-.
  destruct (name_decode_encode_some K k HK D) as (-> & _).
  assert (L : forall x, key_ok x = true -> len x = 32).
  { intros x Hx. unfold key_ok in Hx. apply andb_prop in Hx as (L & _). now apply N.eqb_eq in L. }
  apply spki_of_key_inj in E; auto. subst Kp.
  repeat split; apply remote_id_spki; auto.
Qed.

(** ** the monitor holds of the model's own output *)

Lemma obytes_eqb_refl o : obytes_eqb o o = true.
Proof. destruct o; cbn; [apply bytes_eqb_refl|reflexivity]. Qed.

Lemma monitor_decode s k :
  name_decode s = Some k -> monitor_op is_point verify (OpDecode s) (OOpt (Some k)) = true.
Proof.
  intros D. apply name_decode_shape in D as (l & -> & Ll & F & Lk & P).
  cbn [monitor_op]. cbv zeta.
  rewrite app_length, Nat.add_sub, firstn_app_exact.
  rewrite bytes_eqb_refl, F, bytes_eqb_refl, Lk, P.
  unfold len. rewrite Ll. reflexivity.
Qed.

Lemma run_monitor o : monitor_op is_point verify o (run is_point verify o) = true.
Proof.
  destruct o as [k|s|e ins sn|e ins|cs tls12 cert sch m s|cs|k|K h|h|K Kp KA]; cbn [run].
  - (* encode *)
    cbn [monitor_op]. destruct (key_ok k && is_point k) eqn:E; [|reflexivity].
    apply andb_prop in E as (HK & P). rewrite name_roundtrip by assumption. apply obytes_eqb_refl.
  - (* decode *)
    destruct (name_decode s) as [k|] eqn:D; [now apply monitor_decode|reflexivity].
  - (* server cert *)
    cbn [monitor_op]. destruct (verify_server_cert e ins sn =? V_OK) eqn:E; [|reflexivity].
    apply N.eqb_eq in E. apply verify_server_cert_ok_inv in E as (s & k & -> & D & -> & ->).
    rewrite D. apply bytes_eqb_refl.
  - (* client cert *)
    cbn [monitor_op]. unfold verify_client_cert. destruct ins; reflexivity.
  - (* signatures *)
    destruct tls12; cbn [monitor_op]; [reflexivity|].
    destruct (tls13_sig cert sch m s =? V_OK) eqn:E; [|reflexivity].
    apply N.eqb_eq in E. apply tls13_sig_ok_inv in E as (k & -> & Lk & P & Ls & V & ->).
    destruct (prefix_parts k Lk) as (A & B & C). rewrite A, B, C, P, V. reflexivity.
  - (* remote id *)
    destruct (remote_id_of_certs cs) as [k|] eqn:R; [|reflexivity].
    cbn [monitor_op]. destruct cs as [|c [|? ?]]; try discriminate.
    cbn [C01.remote_id_of_certs] in R. apply key_of_spki_der_inv in R as (-> & _ & P).
    now rewrite bytes_eqb_refl, P.
  - (* own certs *)
    cbn [monitor_op]. destruct (key_ok k && is_point k) eqn:E; [|reflexivity].
    apply andb_prop in E as (HK & P). unfold own_certs.
    rewrite remote_id_spki; auto; [apply obytes_eqb_refl|].
    unfold key_ok in HK. apply andb_prop in HK as (L & _). now apply N.eqb_eq in L.
  - (* client handshake *)
    destruct (client_verdicts is_point verify K h) as [c s] eqn:CV. cbn [monitor_op].
    destruct (key_ok K && (c =? V_OK) && (s =? V_OK)) eqn:E; [|reflexivity].
    apply andb_prop in E as (E & Es). apply andb_prop in E as (HK & Ec).
    assert (A : client_accepts K h = true).
    { unfold C01.client_accepts. rewrite CV. cbn [fst snd]. now rewrite Ec, Es. }
    destruct (dial_authenticates K h HK A) as (V & I & Ee & _).
    rewrite (remote_id_client K h HK A), V, I, Ee, bytes_eqb_refl, obytes_eqb_refl. reflexivity.
  - (* server handshake *)
    destruct (server_verdicts is_point verify h) as [c s] eqn:SV. cbn [monitor_op].
    destruct ((c =? V_OK) && (s =? V_OK)) eqn:E; [|reflexivity].
    assert (A : server_accepts h = true).
    { unfold C01.server_accepts. rewrite SV. cbn [fst snd]. exact E. }
    destruct (remote_id_server h A) as (k & R & Ee & I & Lk & P & V & _).
    rewrite R, V, I, Ee, bytes_eqb_refl, Lk, P. reflexivity.
  - (* dial *)
    destruct (dial_outcome is_point K Kp KA) as [[ok ra] rb] eqn:D. cbn [monitor_op].
    destruct (key_ok K && key_ok Kp && key_ok KA && is_point Kp && is_point KA && ok) eqn:E;
      [|reflexivity].
    do 5 (apply andb_prop in E; destruct E as (E & ?)). subst ok.
    destruct (dial_outcome_ok K Kp KA ra rb) as (-> & -> & ->); auto.
    now rewrite bytes_eqb_refl, !obytes_eqb_refl.
Qed.

End Crypto.

(* name_decode does not use the signature primitive *)
Lemma name_decode_shape_ip is_point s k :
  name_decode is_point s = Some k ->
  exists l, s = l ++ SUFFIX /\ length l = 52%nat /\
            map fold_sym l = b32_encode k /\ len k = 32 /\ is_point k = true.
Proof. exact (name_decode_shape is_point (fun _ _ _ => true) s k). Qed.

Theorem model_monitor i : monitor i (model i) = true.
Proof. destruct i as [o p]. unfold monitor, model. cbn [fst snd]. apply run_monitor. Qed.

(* The monitor of a client handshake, read as a statement. *)
Theorem monitor_client_hs_spec or K h c s rid :
  key_ok K = true ->
  (monitor (or, OpClientHs K h) (Ok (OHs c s rid)) = true <->
   (c = V_OK -> s = V_OK ->
    o_verify or K (msg h) (sg h) = true /\ inters h = [] /\ ee h = spki_of_key K /\ rid = Some K)).
Proof.
  intros HK. unfold monitor. cbn [fst snd monitor_op]. rewrite HK. cbn [andb].
  destruct (c =? V_OK) eqn:Ec; cbn [andb].
  2:{ split; [intros _ Hc; apply N.eqb_neq in Ec; contradiction|reflexivity]. }
  destruct (s =? V_OK) eqn:Es.
  2:{ split; [intros _ _ Hs; apply N.eqb_neq in Es; contradiction|reflexivity]. }
  apply N.eqb_eq in Ec. apply N.eqb_eq in Es. split.
  - intros H _ _.
    apply andb_prop in H as (H & R). apply andb_prop in H as (H & E).
    apply andb_prop in H as (V & I).
    apply bytes_eqb_eq in E. destruct (inters h); [|discriminate].
    destruct rid as [r|]; [|discriminate]. cbn in R. apply bytes_eqb_eq in R. subst r. auto.
  - intros H. destruct (H Ec Es) as (V & I & E & R).
    rewrite V, I, <- E, R, bytes_eqb_refl. cbn. now rewrite bytes_eqb_refl.
Qed.

(* ------------------------------------------------------------------ *)
(** * Non-vacuity and witnesses *)

(* a test oracle: every 32-byte string is a point, the only valid signature is 64 zero
   bytes over the empty message under key K0 *)
Definition K0 : bytes := fill 32 1.
Definition SIG0 : bytes := repeat 0 64.
Definition or0 : oracle := mkOracle [K0] [(K0, [], SIG0)].
Definition h0 : hs := mkHs (spki_of_key K0) [] SCHEME_ED25519 [] SIG0.

Example key_ok_K0 : key_ok K0 = true.
Proof. vm_compute. reflexivity. Qed.

(* the hypotheses of dial_authenticates are satisfiable *)
Example client_accepts_h0 : client_accepts (o_is_point or0) (o_verify or0) K0 h0 = true.
Proof. vm_compute. reflexivity. Qed.

Example server_accepts_h0 : server_accepts (o_is_point or0) (o_verify or0) h0 = true.
Proof. vm_compute. reflexivity. Qed.

(* ... and fail for another dialed key, a chain, a TLS 1.2-only scheme *)
Example client_rejects_other_key :
  client_accepts (fun _ => true) (fun _ _ _ => true) (fill 32 2) h0 = false.
Proof. vm_compute. reflexivity. Qed.

Example client_rejects_chain :
  client_accepts (fun _ => true) (fun _ _ _ => true) K0
    (mkHs (spki_of_key K0) [spki_of_key K0] SCHEME_ED25519 [] SIG0) = false.
Proof. vm_compute. reflexivity. Qed.

(* the snapshot of iroh's own unit test (tls/name.rs test_snapshot) *)
Example name_snapshot :
  name_encode (hex "3b6a27bcceb6a42d62a3a8d02a6f0d73653215771de243a63ac048a18b59da29")
  = str_bytes "7dl2ff6emqi2qol3l382krodedij45bn3nh479hqo14a32qpr8kg.iroh.invalid".
Proof. vm_compute. reflexivity. Qed.

(* upper case is accepted: the shape theorem cannot be stated without the folding *)
Example upper_case_decodes :
  name_decode (fun _ => true)
    (str_bytes "7DL2FF6EMQI2QOL3L382KRODEDIJ45BN3NH479HQO14A32QPR8KG.iroh.invalid")
  = Some (hex "3b6a27bcceb6a42d62a3a8d02a6f0d73653215771de243a63ac048a18b59da29").
Proof. vm_compute. reflexivity. Qed.

Example suffix_case_sensitive :
  name_decode (fun _ => true)
    (str_bytes "7dl2ff6emqi2qol3l382krodedij45bn3nh479hqo14a32qpr8kg.IROH.invalid") = None.
Proof. vm_compute. reflexivity. Qed.

(* a non-canonical DER length is refused by the signature path *)
Example long_form_length_refused :
  tls13_sig (fun _ => true) (fun _ _ _ => true)
    (48 :: 129 :: 42 :: skipn 2 (spki_of_key K0)) SCHEME_ED25519 [] SIG0 = V_ENCODING.
Proof. vm_compute. reflexivity. Qed.
