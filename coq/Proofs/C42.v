(* C42 — proofs about the hook folds and the connect preconditions. *)
From V Require Import Lib.Base Model.C42.
From Coq Require Import ZifyBool.
Import C42.
Open Scope N_scope.

Definition idxs (i : N) (m : nat) : list N := map (fun k => i + N.of_nat k) (seq 0 m).

Lemma idxs_S i m : idxs i (S m) = i :: idxs (i + 1) m.
Proof.
  unfold idxs. cbn [seq map]. f_equal; [lia|].
  rewrite <- seq_shift, map_map. apply map_ext. intros k. lia.
Qed.

Lemma idxs_0 m : idxs 0 m = map N.of_nat (seq 0 m).
Proof. unfold idxs. apply map_ext. intros; lia. Qed.

(* before_connect: the hooks called are exactly those up to and including the first
   rejecting one; the attempt is accepted iff no hook rejects *)
Lemma before_fold_gen hs : forall i,
  before_fold i hs = (idxs i (Nat.min (S (lead_before hs)) (length hs)), all_before hs).
Proof.
  induction hs as [|[b a] r IH]; intros i; [reflexivity|].
  cbn [before_fold lead_before length all_before forallb fst]. destruct b.
  - rewrite IH. cbn [andb]. rewrite <- Nat.succ_min_distr, idxs_S. reflexivity.
  - cbn [andb]. replace (Nat.min 1 (S (length r))) with 1%nat by lia. rewrite idxs_S. reflexivity.
Qed.

Lemma after_fold_gen hs : forall i,
  after_fold i hs = (idxs i (Nat.min (S (lead_after hs)) (length hs)), first_code hs).
Proof.
  induction hs as [|[b [c|]] r IH]; intros i; [reflexivity| |].
  - cbn [after_fold lead_after length first_code].
    replace (Nat.min 1 (S (length r))) with 1%nat by lia. rewrite idxs_S. reflexivity.
  - cbn [after_fold lead_after length first_code]. rewrite IH.
    rewrite <- Nat.succ_min_distr, idxs_S. reflexivity.
Qed.

Lemma before_fold_eq hs :
  before_fold 0 hs = (prefix_through (lead_before hs) (length hs), all_before hs).
Proof. rewrite before_fold_gen, idxs_0. reflexivity. Qed.

Lemma after_fold_eq hs :
  after_fold 0 hs = (prefix_through (lead_after hs) (length hs), first_code hs).
Proof. rewrite after_fold_gen, idxs_0. reflexivity. Qed.

Lemma all_after_first_code hs :
  all_after hs = match first_code hs with None => true | Some _ => false end.
Proof. induction hs as [|[b [c|]] r IH]; cbn in *; auto. Qed.

Lemma all_before_lead hs : all_before hs = Nat.eqb (lead_before hs) (length hs).
Proof.
  induction hs as [|[[|] a] r IH]; cbn [all_before forallb fst lead_before length andb] in *; auto.
Qed.

Lemma all_after_lead hs : all_after hs = Nat.eqb (lead_after hs) (length hs).
Proof.
  induction hs as [|[b [c|]] r IH]; cbn [all_after forallb snd lead_after length andb] in *; auto.
Qed.

(* the first rejecting hook is really there, with that verdict *)
Lemma lead_before_reject hs :
  all_before hs = false -> exists a, nth_error hs (lead_before hs) = Some (false, a).
Proof.
  induction hs as [|[[|] a] r IH]; cbn [all_before forallb fst lead_before andb nth_error] in *;
    intros H; [discriminate | auto | eauto].
Qed.

Lemma lead_after_reject hs c :
  first_code hs = Some c -> exists b, nth_error hs (lead_after hs) = Some (b, Some c).
Proof.
  induction hs as [|[b [c'|]] r IH]; cbn [first_code lead_after nth_error] in *; intros H;
    [discriminate | inversion H; subst; eauto | auto].
Qed.

Lemma lN_eqb_refl l : lN_eqb l l = true.
Proof. apply list_eqb_refl, N.eqb_refl. Qed.

Lemma log_ok_self k n : log_ok k n (prefix_through k n) = true.
Proof. unfold log_ok. destruct (prefix_through k n) eqn:E; [reflexivity|]. apply lN_eqb_refl. Qed.

(* connect, with the folds replaced by their closed forms *)
Lemma connect_eq i :
  connect i =
  let bl := prefix_through (lead_before (dhooks i)) (length (dhooks i)) in
  let dl := prefix_through (lead_after (dhooks i)) (length (dhooks i)) in
  let al := prefix_through (lead_after (ahooks i)) (length (ahooks i)) in
  if closed i then mkOut [] [] (DPre 1) [] [] ANoIncoming
  else if negb (all_before (dhooks i)) then mkOut bl [] (DPre 2) [] [] ANoIncoming
  else if to_self i then mkOut bl [] (DPre 3) [] [] ANoIncoming
  else match alpn_kind i with
       | AlpnEmpty => mkOut bl [] (DPre 4) [] [] ANoIncoming
       | AlpnUnserved => mkOut bl [] DHandshake [] [] AHandshake
       | AlpnServed =>
           match first_code (dhooks i) with
           | Some c => mkOut bl dl DRejected [] al
                         (match first_code (ahooks i) with Some _ => ARejected | None => AClosed c end)
           | None => match first_code (ahooks i) with
                     | Some c => mkOut bl dl (DPeerClosed c) [] al ARejected
                     | None => mkOut bl dl DEstablished [] al (AClosed done_code)
                     end
           end
       end.
Proof.
  unfold connect. rewrite before_fold_eq, !after_fold_eq. cbv zeta.
  destruct (closed i), (all_before (dhooks i)), (to_self i), (alpn_kind i); reflexivity.
Qed.

(* ------------------------------------------------------------------ *)

Lemma established_iff_all_accept i :
  d_res (connect i) = DEstablished <->
  closed i = false /\ to_self i = false /\ alpn_kind i = AlpnServed /\
  all_before (dhooks i) = true /\ all_after (dhooks i) = true /\ all_after (ahooks i) = true.
Proof.
  rewrite connect_eq, !all_after_first_code. cbv zeta.
  destruct (closed i), (all_before (dhooks i)), (to_self i), (alpn_kind i),
    (first_code (dhooks i)), (first_code (ahooks i)); cbn; split; intros H;
    try discriminate; try (now repeat split); destruct H as (?&?&?&?&?&?); discriminate.
Qed.

Lemma acceptor_established_only_if_all_accept i :
  first_code (dhooks i) <> Some done_code ->
  a_res (connect i) = AClosed done_code ->
  closed i = false /\ to_self i = false /\ alpn_kind i = AlpnServed /\
  all_before (dhooks i) = true /\ all_after (dhooks i) = true /\ all_after (ahooks i) = true.
Proof.
  rewrite connect_eq, !all_after_first_code. cbv zeta.
  destruct (closed i), (all_before (dhooks i)), (to_self i), (alpn_kind i),
    (first_code (dhooks i)) eqn:Fd, (first_code (ahooks i)); cbn; intros Hn H;
    try discriminate; try (now repeat split).
  inversion H; subst. now elim Hn.
Qed.

Lemma first_reject_stops hs :
  before_fold 0 hs = (prefix_through (lead_before hs) (length hs),
                      Nat.eqb (lead_before hs) (length hs)) /\
  after_fold 0 hs = (prefix_through (lead_after hs) (length hs), first_code hs) /\
  (first_code hs = None <-> lead_after hs = length hs).
Proof.
  split; [rewrite before_fold_eq, all_before_lead; reflexivity|].
  split; [apply after_fold_eq|].
  assert (H := all_after_lead hs). rewrite all_after_first_code in H.
  destruct (first_code hs); split; intros E; try discriminate; auto.
  - symmetry in H. apply Nat.eqb_neq in H. contradiction.
  - symmetry in H. now apply Nat.eqb_eq in H.
Qed.

Lemma self_and_empty_alpn_fail i :
  to_self i = true \/ alpn_kind i = AlpnEmpty ->
  (exists k, d_res (connect i) = DPre k /\ 1 <= k <= 4) /\
  a_res (connect i) = ANoIncoming /\ d_after (connect i) = [] /\ a_after (connect i) = [].
Proof.
  rewrite connect_eq. cbv zeta.
  destruct (closed i), (all_before (dhooks i)), (to_self i), (alpn_kind i); cbn;
    intros [H|H]; try discriminate; (split; [eexists; split; [reflexivity|lia] | auto]).
Qed.

Lemma before_reject_stops i :
  closed i = false -> all_before (dhooks i) = false ->
  d_res (connect i) = DPre 2 /\ a_res (connect i) = ANoIncoming /\
  d_after (connect i) = [] /\ a_after (connect i) = [] /\
  d_before (connect i) = prefix_through (lead_before (dhooks i)) (length (dhooks i)).
Proof. rewrite connect_eq. cbv zeta. intros -> ->. cbn. auto. Qed.

Lemma after_reject_closes_with_code i :
  closed i = false -> all_before (dhooks i) = true -> to_self i = false -> alpn_kind i = AlpnServed ->
  (forall c, first_code (dhooks i) = Some c ->
     d_res (connect i) = DRejected /\
     (a_res (connect i) = AClosed c \/ a_res (connect i) = ARejected)) /\
  (forall c, first_code (dhooks i) = None -> first_code (ahooks i) = Some c ->
     d_res (connect i) = DPeerClosed c /\ a_res (connect i) = ARejected).
Proof.
  rewrite connect_eq. cbv zeta. intros -> -> -> ->. cbn. split.
  - intros c ->. cbn. split; [reflexivity|]. destruct (first_code (ahooks i)); auto.
  - intros c -> ->. cbn. auto.
Qed.

(* the alternative admissible outcome differs only in what the acceptor got to do *)
Lemma connect_alt_same_dialer i y :
  connect_alt i = Some y ->
  d_res y = d_res (connect i) /\ d_before y = d_before (connect i) /\ d_after y = d_after (connect i) /\
  d_res y = DRejected /\ a_after y = [].
Proof.
  unfold connect_alt. rewrite connect_eq, before_fold_eq, after_fold_eq. cbv zeta.
  destruct (closed i); [discriminate|].
  destruct (all_before (dhooks i)); cbn [negb orb]; [|discriminate].
  destruct (to_self i); [discriminate|].
  destruct (alpn_kind i); try discriminate.
  destruct (first_code (dhooks i)); [|discriminate]. intros H; inversion H; subst. cbn. auto.
Qed.

Lemma model_monitor i : monitor i (model i) = true.
Proof.
  unfold model, monitor. rewrite connect_eq, !all_after_first_code. cbv zeta.
  destruct (closed i), (all_before (dhooks i)), (to_self i), (alpn_kind i),
    (first_code (dhooks i)) as [c|] eqn:Fd, (first_code (ahooks i)) as [c'|] eqn:Fa;
    cbn [d_res a_res d_before d_after a_before a_after negb andb orb is_pre no_incoming
         dial_eqb acc_eqb opt_eqb];
    rewrite ?log_ok_self, ?lN_eqb_refl, ?N.eqb_refl; cbn [andb orb negb];
    try reflexivity;
    try (destruct (N.eqb c done_code); reflexivity).
Qed.

(* Non-vacuity / witnesses *)
Example ex_established :
  connect (mkIn false false AlpnServed [(true, None); (true, None)] [(true, None)]) =
  mkOut [0; 1] [0; 1] DEstablished [] [0] (AClosed 99).
Proof. vm_compute. reflexivity. Qed.

Example ex_before_reject :
  connect (mkIn false false AlpnServed [(true, None); (false, None); (true, None)] [(true, None)]) =
  mkOut [0; 1] [] (DPre 2) [] [] ANoIncoming.
Proof. vm_compute. reflexivity. Qed.

Example ex_acceptor_reject :
  connect (mkIn false false AlpnServed [(true, None)] [(true, None); (true, Some 17); (true, Some 18)]) =
  mkOut [0] [0] (DPeerClosed 17) [] [0; 1] ARejected.
Proof. vm_compute. reflexivity. Qed.

Example ex_order : (* closed beats hooks beats self beats empty ALPN *)
  d_res (connect (mkIn true true AlpnEmpty [(false, None)] [])) = DPre 1 /\
  d_res (connect (mkIn true false AlpnEmpty [(false, None)] [])) = DPre 2 /\
  d_res (connect (mkIn true false AlpnEmpty [(true, None)] [])) = DPre 3 /\
  d_res (connect (mkIn false false AlpnEmpty [(true, None)] [])) = DPre 4.
Proof. vm_compute. auto. Qed.

Example mon_rejects :
  let i := mkIn false false AlpnServed [(true, None); (false, None)] [(true, Some 12)] in
  (* established although a hook rejects *)
  monitor i (Ok (mkOut [0; 1] [0; 1] DEstablished [] [0] (AClosed 99))) = false /\
  (* hooks called past the first reject *)
  monitor (mkIn false false AlpnServed [(false, None); (true, None)] [])
          (Ok (mkOut [0; 1] [] (DPre 2) [] [] ANoIncoming)) = false /\
  (* rejected, but the peer saw a handshake *)
  monitor i (Ok (mkOut [0; 1] [] (DPre 2) [] [0] ARejected)) = false /\
  (* wrong close code at the peer *)
  monitor (mkIn false false AlpnServed [] [(true, Some 12)])
          (Ok (mkOut [] [] (DPeerClosed 13) [] [0] ARejected)) = false.
Proof. vm_compute. auto. Qed.
