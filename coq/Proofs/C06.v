(* C06 — proofs about the relay registry model. *)
From V Require Import Lib.Base Model.C06.
From Coq Require Import ZifyBool.
Import C06.
Open Scope N_scope.

(* ---------------------------------------------------------------- basics *)
Lemma fupd_same {A} (f : N -> A) k v : fupd f k v k = v.
Proof. unfold fupd. now rewrite N.eqb_refl. Qed.
Lemma fupd_other {A} (f : N -> A) k v x : x <> k -> fupd f k v x = f x.
Proof. unfold fupd. intros H. destruct (x =? k) eqn:E; [apply N.eqb_eq in E; contradiction|reflexivity]. Qed.

Lemma filter_filter_and {A} (p q : A -> bool) l :
  filter q (filter p l) = filter (fun x => p x && q x) l.
Proof.
  induction l as [|a l IH]; cbn; [reflexivity|].
  destruct (p a) eqn:Ep; cbn; [destruct (q a); now rewrite IH | exact IH].
Qed.

Lemma filter_id_notin (c : N) l : ~ In c l -> filter (fun y => negb (y =? c)) l = l.
Proof.
  induction l as [|a l IH]; cbn; intros H; [reflexivity|].
  destruct (a =? c) eqn:E.
  - apply N.eqb_eq in E. exfalso; apply H; now left.
  - cbn. f_equal. apply IH. intros Hc; apply H; now right.
Qed.

Lemma NoDup_filter {A} (p : A -> bool) l : NoDup l -> NoDup (filter p l).
Proof.
  induction 1 as [|a l Hn Hd IH]; cbn; [constructor|].
  destruct (p a); [constructor; [|exact IH]|exact IH].
  intros Hin. apply filter_In in Hin. tauto.
Qed.

(* ---------------------------------------------------------------- invariant *)
Definition live_for (s : state) (id c : N) : bool :=
  (eid (conns s c) =? id) && negb (is_done (cstate (conns s c))).

Record Inv (s : state) : Prop := {
  inv_nodup : NoDup (order s);
  inv_order : forall c, In c (order s) <-> inserted (conns s c) = true;
  inv_fresh : forall c, nconns s <= c -> inserted (conns s c) = false /\ cstate (conns s c) = Fresh;
  inv_done : forall c, cstate (conns s c) = Done -> inserted (conns s c) = true;
  inv_reg : forall id, reg s id = filter (live_for s id) (order s)
}.

(* changes that leave the registry-relevant part of every connection alone *)
Definition sim (x y : conn) : Prop :=
  eid x = eid y /\ inserted x = inserted y /\ is_done (cstate x) = is_done (cstate y) /\
  (cstate x = Fresh -> cstate y = Fresh).

Lemma sim_refl x : sim x x.
Proof. repeat split; auto. Qed.
Lemma sim_trans x y z : sim x y -> sim y z -> sim x z.
Proof. intros (a & b & c & d) (a' & b' & c' & d'). repeat split; try congruence. auto. Qed.

Definition same_reg (s s' : state) : Prop :=
  nconns s' = nconns s /\ order s' = order s /\ (forall id, reg s' id = reg s id) /\
  (forall c, sim (conns s c) (conns s' c)).

Lemma same_reg_refl s : same_reg s s.
Proof. repeat split; auto. Qed.
Lemma same_reg_trans s t u : same_reg s t -> same_reg t u -> same_reg s u.
Proof.
  intros (a & b & c & d) (a' & b' & c' & d'). split; [congruence|]. split; [congruence|].
  split; [intros; now rewrite c'|]. intros x. eapply sim_trans; eauto.
Qed.

Lemma Inv_same_reg s s' : same_reg s s' -> Inv s -> Inv s'.
Proof.
  intros (Hn & Ho & Hr & Hs) [I1 I2 I3 I4 I5].
  assert (Hlive : forall id c, live_for s' id c = live_for s id c).
  { intros id c. unfold live_for. destruct (Hs c) as (e1 & _ & e3 & _). now rewrite e1, e3. }
  constructor.
  - now rewrite Ho.
  - intros c. rewrite Ho. destruct (Hs c) as (_ & e2 & _). rewrite <- e2. apply I2.
  - intros c Hc. rewrite Hn in Hc. destruct (I3 c Hc) as [a b].
    destruct (Hs c) as (_ & e2 & _ & e4). split; [congruence|auto].
  - intros c Hd. destruct (Hs c) as (_ & e2 & e3 & _). rewrite <- e2. apply I4.
    rewrite Hd in e3. cbn in e3. destruct (cstate (conns s c)); cbn in e3; congruence.
  - intros id. rewrite Hr, Ho, I5. apply filter_ext. intros c. now rewrite Hlive.
Qed.

Lemma same_reg_set_conn s c x : sim (conns s c) x -> same_reg s (set_conn s c x).
Proof.
  intros H. repeat split; auto; cbn.
  all: destruct (N.eq_dec c0 c) as [->|Hne];
    [rewrite fupd_same; apply H | rewrite fupd_other by assumption; auto].
Qed.

Lemma same_reg_set_sent s id l : same_reg s (set_sent s id l).
Proof. repeat split; auto. Qed.
Lemma same_reg_set_pending s p : same_reg s (set_pending s p).
Proof. repeat split; auto. Qed.

Lemma same_reg_enqueue_m s a f : same_reg s (enqueue_m s a f).
Proof.
  unfold enqueue_m. destruct (is_done _); [apply same_reg_refl|].
  destruct (_ <? _); [|apply same_reg_refl].
  apply same_reg_set_conn. repeat split; auto.
Qed.

Lemma same_reg_cancel s c : same_reg s (cancel s c).
Proof. apply same_reg_set_conn. repeat split; auto. Qed.

Lemma same_reg_fold_cancel l : forall s, same_reg s (fold_left cancel l s).
Proof.
  induction l as [|a l IH]; intros s; cbn; [apply same_reg_refl|].
  eapply same_reg_trans; [apply same_reg_cancel|apply IH].
Qed.

(* other fields under these helpers *)
Lemma enqueue_m_fields s a f :
  sent (enqueue_m s a f) = sent s /\ pending (enqueue_m s a f) = pending s /\
  cap (enqueue_m s a f) = cap s /\ reg (enqueue_m s a f) = reg s.
Proof. unfold enqueue_m. destruct (is_done _); auto. destruct (_ <? _); auto. Qed.

(* ---------------------------------------------------------------- the three registry steps *)
Lemma Inv_init cap : Inv (init cap).
Proof.
  constructor; cbn.
  - constructor.
  - intros c; split; [tauto|discriminate].
  - intros; split; reflexivity.
  - discriminate.
  - reflexivity.
Qed.

Lemma Inv_spawn s id v s' : Inv s -> step true s (Spawn id v) = Some s' -> Inv s'.
Proof.
  intros [I1 I2 I3 I4 I5] H. cbn in H. injection H as <-.
  assert (Hn : ~ In (nconns s) (order s)).
  { intros Hin. apply I2 in Hin. destruct (I3 (nconns s)) as [a _]; [lia|congruence]. }
  constructor; cbn.
  - exact I1.
  - intros c. destruct (N.eq_dec c (nconns s)) as [->|Hne].
    + rewrite fupd_same. cbn. split; [tauto|discriminate].
    + rewrite fupd_other by assumption. apply I2.
  - intros c Hc. rewrite fupd_other by lia. apply I3. lia.
  - intros c. destruct (N.eq_dec c (nconns s)) as [->|Hne].
    + rewrite fupd_same. cbn. discriminate.
    + rewrite fupd_other by assumption. apply I4.
  - intros i. rewrite I5. apply filter_ext_in. intros c Hc. unfold live_for. cbn.
    rewrite fupd_other; [reflexivity|]. intros ->. contradiction.
Qed.

(* the entry update of register, common to both arms *)
Lemma insert_entry s c id :
  let s1 := match reg s id with
            | [] => set_reg s id [c]
            | a :: rest => set_reg (enqueue_m s a (status_frame (ver (conns s a)) 1)) id (c :: a :: rest)
            end in
  nconns s1 = nconns s /\ order s1 = order s /\
  (forall c', sim (conns s c') (conns s1 c')) /\
  (forall i, reg s1 i = if i =? id then c :: reg s id else reg s i).
Proof.
  destruct (reg s id) as [|a rest] eqn:E; cbv zeta.
  - split; [reflexivity|]. split; [reflexivity|]. split; [intros; apply sim_refl|].
    intros i. cbn. unfold fupd. now destruct (i =? id).
  - destruct (same_reg_enqueue_m s a (status_frame (ver (conns s a)) 1)) as (h1 & h2 & h3 & h4).
    split; [exact h1|]. split; [exact h2|]. split; [exact h4|].
    intros i. cbn. unfold fupd. destruct (i =? id) eqn:Ei; [reflexivity|apply h3].
Qed.

Lemma Inv_insert s c s' : Inv s -> step true s (Insert c) = Some s' -> Inv s'.
Proof.
  intros [I1 I2 I3 I4 I5] H. cbn [step] in H.
  destruct ((c <? nconns s) && negb (inserted (conns s c))) eqn:Hc; [|discriminate].
  apply andb_prop in Hc as [Hlt Hni]. apply N.ltb_lt in Hlt. apply negb_true_iff in Hni.
  set (id := eid (conns s c)) in *.
  pose proof (insert_entry s c id) as Hent. cbv zeta in Hent.
  set (s1 := match reg s id with [] => _ | _ :: _ => _ end) in *.
  destruct Hent as (hn & ho & hs & hr).
  injection H as <-. cbn.
  assert (Hnin : ~ In c (order s)) by (intros Hin; apply I2 in Hin; congruence).
  assert (Hnd : is_done (cstate (conns s c)) = false).
  { destruct (cstate (conns s c)) eqn:Ec; try reflexivity. apply I4 in Ec. congruence. }
  constructor; cbn.
  - rewrite ho. constructor; assumption.
  - intros c'. rewrite ho. destruct (N.eq_dec c' c) as [->|Hne].
    + rewrite fupd_same. cbn. split; auto.
    + rewrite fupd_other by assumption. destruct (hs c') as (_ & e2 & _). rewrite <- e2.
      rewrite <- I2. split; [intros [Hx|Hx]; [congruence|assumption] | now right].
  - intros c' Hc'. rewrite hn in Hc'. rewrite fupd_other by lia.
    destruct (hs c') as (_ & e2 & _ & e4). destruct (I3 c' Hc') as [a b]. split; [congruence|auto].
  - intros c'. destruct (N.eq_dec c' c) as [->|Hne].
    + rewrite fupd_same. reflexivity.
    + rewrite fupd_other by assumption. intros Hd.
      destruct (hs c') as (_ & e2 & e3 & _). rewrite <- e2. apply I4.
      rewrite Hd in e3. destruct (cstate (conns s c')); cbn in e3; congruence.
  - intros i. rewrite hr, ho.
    assert (Hrest : filter (live_for
              {| conns := fupd (conns s1) c (with_inserted (conns s1 c) true); nconns := nconns s1;
                 reg := reg s1; sent := sent s1; pending := pending s1; order := c :: order s; cap := cap s1 |} i)
              (order s) = filter (live_for s i) (order s)).
    { apply filter_ext_in. intros c' Hin. unfold live_for. cbn.
      rewrite fupd_other by (intros ->; contradiction).
      destruct (hs c') as (e1 & _ & e3 & _). now rewrite e1, e3. }
    cbn [filter]. rewrite Hrest.
    unfold live_for at 1. cbn. rewrite fupd_same. cbn.
    destruct (hs c) as (e1 & _ & e3 & _). rewrite <- e1, <- e3, Hnd. fold id.
    rewrite (N.eqb_sym i id). destruct (id =? i) eqn:Ei; cbn.
    + apply N.eqb_eq in Ei. subst i. now rewrite I5.
    + apply I5.
Qed.

(* the entry update of unregister *)
Lemma unregister_entry s c id :
  NoDup (reg s id) ->
  let s1 := match reg s id with
            | [] => s
            | a :: rest =>
                if a =? c then
                  match rest with
                  | p :: _ => enqueue_m (set_reg s id rest) p (status_frame (ver (conns s p)) 0)
                  | [] => set_pending (set_sent (set_reg s id []) id [])
                                      (pending s ++ map (fun p => (id, p)) (sent s id))
                  end
                else set_reg s id (a :: filter (fun y => negb (y =? c)) rest)
            end in
  nconns s1 = nconns s /\ order s1 = order s /\
  (forall c', sim (conns s c') (conns s1 c')) /\
  (forall i, reg s1 i = if i =? id then filter (fun y => negb (y =? c)) (reg s id) else reg s i).
Proof.
  intros Hnd. destruct (reg s id) as [|a rest] eqn:E; cbv zeta.
  - split; [reflexivity|]. split; [reflexivity|]. split; [intros; apply sim_refl|].
    intros i. destruct (i =? id) eqn:Ei; [|reflexivity].
    apply N.eqb_eq in Ei. now subst.
  - inversion Hnd as [|? ? Hnin Hnd']. subst.
    destruct (a =? c) eqn:Eac.
    + apply N.eqb_eq in Eac. subst a.
      assert (Hf : filter (fun y => negb (y =? c)) (c :: rest) = rest).
      { cbn. rewrite N.eqb_refl. cbn. now apply filter_id_notin. }
      destruct rest as [|p rest'].
      * split; [reflexivity|]. split; [reflexivity|]. split; [intros; apply sim_refl|].
        intros i. rewrite Hf. cbn. unfold fupd. now destruct (i =? id).
      * set (s0 := set_reg s id (p :: rest')).
        destruct (same_reg_enqueue_m s0 p (status_frame (ver (conns s p)) 0)) as (h1 & h2 & h3 & h4).
        split; [exact h1|]. split; [exact h2|]. split; [exact h4|].
        intros i. rewrite h3, Hf. cbn. unfold fupd. now destruct (i =? id).
    + split; [reflexivity|]. split; [reflexivity|]. split; [intros; apply sim_refl|].
      intros i. cbn [filter]. rewrite Eac. cbn. unfold fupd. now destruct (i =? id).
Qed.

Lemma Inv_unregister s c s' : Inv s -> step true s (Unregister c) = Some s' -> Inv s'.
Proof.
  intros I H. pose proof I as [I1 I2 I3 I4 I5]. cbn [step] in H.
  destruct (is_exited (cstate (conns s c)) && (negb true || inserted (conns s c))) eqn:Hc; [|discriminate].
  apply andb_prop in Hc as [Hex Hins]. cbn in Hins.
  set (id := eid (conns s c)) in *.
  assert (Hnd : NoDup (reg s id)) by (rewrite I5; now apply NoDup_filter).
  pose proof (unregister_entry s c id Hnd) as Hent. cbv zeta in Hent.
  set (s1 := match reg s id with [] => s | _ :: _ => _ end) in *.
  destruct Hent as (hn & ho & hs & hr).
  injection H as <-.
  assert (Hcn : c < nconns s).
  { destruct (N.lt_ge_cases c (nconns s)) as [?|Hge]; [assumption|]. destruct (I3 c Hge). congruence. }
  constructor; cbn.
  - now rewrite ho.
  - intros c'. rewrite ho. destruct (N.eq_dec c' c) as [->|Hne].
    + rewrite fupd_same. cbn. destruct (hs c) as (_ & e2 & _). rewrite <- e2. apply I2.
    + rewrite fupd_other by assumption. destruct (hs c') as (_ & e2 & _). rewrite <- e2. apply I2.
  - intros c' Hc'. rewrite hn in Hc'. rewrite fupd_other by lia.
    destruct (hs c') as (_ & e2 & _ & e4). destruct (I3 c' Hc') as [a b]. split; [congruence|auto].
  - intros c'. destruct (N.eq_dec c' c) as [->|Hne].
    + rewrite fupd_same. cbn. intros _. destruct (hs c) as (_ & e2 & _). congruence.
    + rewrite fupd_other by assumption. intros Hd.
      destruct (hs c') as (_ & e2 & e3 & _). rewrite <- e2. apply I4.
      rewrite Hd in e3. destruct (cstate (conns s c')); cbn in e3; congruence.
  - intros i. rewrite hr, ho.
    destruct (i =? id) eqn:Ei.
    + apply N.eqb_eq in Ei. subst i. rewrite I5, filter_filter_and.
      apply filter_ext. intros c'. unfold live_for. cbn.
      destruct (N.eq_dec c' c) as [->|Hne].
      * rewrite fupd_same. cbn. rewrite (N.eqb_refl c). cbn. now rewrite !andb_false_r.
      * rewrite fupd_other by assumption. destruct (hs c') as (e1 & _ & e3 & _).
        rewrite <- e1, <- e3. apply N.eqb_neq in Hne. rewrite Hne. cbn. now rewrite andb_true_r.
    + rewrite I5. apply filter_ext. intros c'. unfold live_for. cbn.
      destruct (N.eq_dec c' c) as [->|Hne].
      * rewrite fupd_same. cbn. destruct (hs c) as (e1 & _). rewrite <- e1. fold id.
        rewrite N.eqb_sym, Ei. reflexivity.
      * rewrite fupd_other by assumption. destruct (hs c') as (e1 & _ & e3 & _). now rewrite e1, e3.
Qed.

(* every other event leaves the registry and the registry-relevant part of the connections alone *)
Lemma step_same_reg s e s' :
  step true s e = Some s' ->
  match e with Spawn _ _ | Insert _ | Unregister _ => True | _ => same_reg s s' end.
Proof.
  destruct e as [id v|c|c|c|c|k|a d tg|c pkt|id o]; try exact (fun _ => I); cbn [step]; intros H.
  - destruct (c <? nconns s); [|discriminate]. injection H as <-.
    apply same_reg_set_conn. repeat split; auto.
  - destruct (is_running (cstate (conns s c))) eqn:E; [|discriminate]. injection H as <-.
    apply same_reg_set_conn. unfold sim. cbn. destruct (cstate (conns s c)); cbn in E; try discriminate E. repeat split; auto; intros Hx; discriminate Hx.
  - destruct (nth_error (pending s) (N.to_nat k)) as [[gone peer]|]; [|discriminate].
    destruct (reg (set_pending s _) peer) eqn:E; injection H as <-.
    + apply same_reg_set_pending.
    + eapply same_reg_trans; [apply same_reg_set_pending|apply same_reg_enqueue_m].
  - destruct (is_running (cstate (conns s a))); [|discriminate].
    destruct (reg s d) as [|b rest]; [injection H as <-; apply same_reg_refl|].
    destruct (is_done (cstate (conns s b))); [injection H as <-; apply same_reg_cancel|].
    destruct (_ <? _); injection H as <-; [|apply same_reg_refl].
    eapply same_reg_trans; [|apply same_reg_set_sent].
    apply same_reg_set_conn. repeat split; auto.
  - destruct (is_running (cstate (conns s c))); [|discriminate].
    destruct pkt.
    + destruct (pq (conns s c)); [discriminate|]. injection H as <-.
      apply same_reg_set_conn. repeat split; auto.
    + destruct (mq (conns s c)); [discriminate|]. injection H as <-.
      apply same_reg_set_conn. repeat split; auto.
  - destruct o as [c|].
    + destruct (existsb _ _); injection H as <-; [apply same_reg_cancel|apply same_reg_refl].
    + injection H as <-. apply same_reg_fold_cancel.
Qed.

Lemma Inv_step s e s' : Inv s -> step true s e = Some s' -> Inv s'.
Proof.
  intros I H. pose proof (step_same_reg s e s' H) as Hs.
  destruct e; try (eapply Inv_same_reg; eassumption).
  - eapply Inv_spawn; eassumption.
  - eapply Inv_insert; eassumption.
  - eapply Inv_unregister; eassumption.
Qed.

Inductive reach : state -> Prop :=
| reach_init cap : reach (init cap)
| reach_step s e s' : reach s -> step true s e = Some s' -> reach s'.

Lemma reach_Inv s : reach s -> Inv s.
Proof. induction 1; [apply Inv_init|eapply Inv_step; eassumption]. Qed.

Lemma run_reach tr : forall s s', reach s -> run true s tr = Some s' -> reach s'.
Proof.
  induction tr as [|e tr IH]; cbn; intros s s' Hr H; [now injection H as <-|].
  destruct (step true s e) eqn:E; [|discriminate]. eapply IH; [|eassumption]. econstructor; eassumption.
Qed.

Lemma run_Inv cap tr s : run true (init cap) tr = Some s -> Inv s.
Proof. intros H. apply reach_Inv. eapply run_reach; [apply reach_init|eassumption]. Qed.

(* ---------------------------------------------------------------- C06 statements over all traces *)

(* The registered connections of an id, active first, are exactly the connections of that id
   whose registration has happened and whose actor task has not ended, newest first. *)
Lemma registry_is_newest_live cap tr s :
  run true (init cap) tr = Some s ->
  forall id, reg s id = filter (live_for s id) (order s).
Proof. intros H. apply (inv_reg s (run_Inv _ _ _ H)). Qed.

(* readable corollaries *)
Definition live (s : state) (c : N) : Prop :=
  inserted (conns s c) = true /\ cstate (conns s c) <> Done.

Lemma live_for_true s id c : live_for s id c = true <-> eid (conns s c) = id /\ cstate (conns s c) <> Done.
Proof.
  unfold live_for. rewrite andb_true_iff, N.eqb_eq, negb_true_iff.
  destruct (cstate (conns s c)); cbn; intuition congruence.
Qed.

(* position of a connection in the registration history: smaller = registered later *)
Fixpoint newer_in (l : list N) (a b : N) : Prop :=
  match l with
  | [] => False
  | x :: r => (x = a /\ In b r) \/ newer_in r a b
  end.

Lemma filter_head_newest {p : N -> bool} l a rest :
  filter p l = a :: rest ->
  p a = true /\ In a l /\ forall b, In b l -> p b = true -> b <> a -> newer_in l a b.
Proof.
  induction l as [|x l IH]; cbn; [discriminate|].
  destruct (p x) eqn:Ex.
  - intros H. injection H as -> Hr. split; [assumption|]. split; [now left|].
    intros b [Hb|Hb] Hpb Hne; [congruence|]. left. auto.
  - intros H. destruct (IH H) as (h1 & h2 & h3). split; [assumption|]. split; [now right|].
    intros b [Hb|Hb] Hpb Hne; [congruence|]. right. auto.
Qed.

Lemma active_is_newest_open cap tr s :
  run true (init cap) tr = Some s ->
  forall id a rest, reg s id = a :: rest ->
    eid (conns s a) = id /\ live s a /\
    forall b, live s b -> eid (conns s b) = id -> b <> a -> newer_in (order s) a b.
Proof.
  intros H id a rest Hreg. pose proof (run_Inv _ _ _ H) as I.
  rewrite (inv_reg s I) in Hreg. apply filter_head_newest in Hreg as (h1 & h2 & h3).
  apply live_for_true in h1 as [e1 e2].
  split; [assumption|]. split; [split; [now apply (inv_order s I)|assumption]|].
  intros b [Hb1 Hb2] Hbe Hne. apply h3; [now apply (inv_order s I)| |assumption].
  apply live_for_true. auto.
Qed.

Lemma entry_iff_some_conn cap tr s :
  run true (init cap) tr = Some s ->
  forall id, reg s id <> [] <-> exists c, live s c /\ eid (conns s c) = id.
Proof.
  intros H id. pose proof (run_Inv _ _ _ H) as I. rewrite (inv_reg s I). split.
  - destruct (filter _ _) as [|a rest] eqn:E; [congruence|]. intros _.
    assert (Hin : In a (filter (live_for s id) (order s))) by (rewrite E; now left).
    apply filter_In in Hin as [h1 h2]. apply live_for_true in h2 as [e1 e2].
    exists a. split; [split; [now apply (inv_order s I)|assumption]|assumption].
  - intros (c & [h1 h2] & h3) E.
    assert (Hin : In c (filter (live_for s id) (order s))).
    { apply filter_In. split; [now apply (inv_order s I)|]. apply live_for_true. auto. }
    rewrite E in Hin. contradiction.
Qed.

(* every registered connection is a live one: no connection whose task has ended stays registered *)
Lemma registered_are_live cap tr s :
  run true (init cap) tr = Some s ->
  forall id c, In c (reg s id) -> live s c /\ eid (conns s c) = id.
Proof.
  intros H id c Hin. pose proof (run_Inv _ _ _ H) as I. rewrite (inv_reg s I) in Hin.
  apply filter_In in Hin as [h1 h2]. apply live_for_true in h2 as [e1 e2].
  split; [split; [now apply (inv_order s I)|assumption]|assumption].
Qed.

(* ---- notices (single steps from any state satisfying the invariant) ---- *)
Definition room (s : state) (a : N) : Prop :=
  cstate (conns s a) <> Done /\ len (mq (conns s a)) < cap s.

Lemma enqueue_m_room s a f :
  room s a -> conns (enqueue_m s a f) a = with_mq (conns s a) (mq (conns s a) ++ [f]).
Proof.
  intros [h1 h2]. unfold enqueue_m.
  destruct (cstate (conns s a)) eqn:E; try congruence; cbn;
    (destruct (len (mq (conns s a)) <? cap s) eqn:El; [cbn; now rewrite fupd_same|apply N.ltb_ge in El; lia]).
Qed.

(* Insert over an existing entry: the new connection becomes active, the old active one is
   pushed to the inactive stack and, if its message queue has room, is told that another
   connection with the same endpoint id took over. *)
Lemma displaced_is_told s c s' a rest :
  Inv s -> step true s (Insert c) = Some s' ->
  reg s (eid (conns s c)) = a :: rest ->
  reg s' (eid (conns s c)) = c :: a :: rest /\
  (room s a -> mq (conns s' a) = mq (conns s a) ++ [status_frame (ver (conns s a)) 1]).
Proof.
  intros I H Hreg. cbn [step] in H.
  destruct ((c <? nconns s) && negb (inserted (conns s c))) eqn:Hc; [|discriminate].
  apply andb_prop in Hc as [_ Hni]. apply negb_true_iff in Hni.
  rewrite Hreg in H. injection H as <-. cbn. rewrite fupd_same. split; [reflexivity|].
  intros Hroom.
  assert (Hne : a <> c).
  { intros ->. assert (In c (reg s (eid (conns s c)))) by (rewrite Hreg; now left).
    rewrite (inv_reg s I) in H. apply filter_In in H as [H _]. apply (inv_order s I) in H. congruence. }
  rewrite fupd_other by assumption. now rewrite enqueue_m_room.
Qed.

(* Unregister of the active connection with inactive ones left: the most recently displaced
   one becomes active again and, if its message queue has room, is told it is healthy. *)
Lemma promoted_is_told s c s' p rest :
  Inv s -> step true s (Unregister c) = Some s' ->
  reg s (eid (conns s c)) = c :: p :: rest ->
  reg s' (eid (conns s c)) = p :: rest /\
  (room s p -> mq (conns s' p) = mq (conns s p) ++ [status_frame (ver (conns s p)) 0]).
Proof.
  intros I H Hreg. cbn [step] in H.
  destruct (is_exited (cstate (conns s c)) && _) eqn:Hc; [|discriminate].
  rewrite Hreg, N.eqb_refl in H. injection H as <-.
  assert (Hne : p <> c).
  { intros ->. assert (Hnd : NoDup (reg s (eid (conns s c)))).
    { rewrite (inv_reg s I). apply NoDup_filter, (inv_nodup s I). }
    rewrite Hreg in Hnd. inversion Hnd as [|? ? Hn _]. apply Hn. now left. }
  set (s0 := set_reg s (eid (conns s c)) (p :: rest)).
  destruct (enqueue_m_fields s0 p (status_frame (ver (conns s p)) 0)) as (_ & _ & _ & hr).
  cbn. rewrite hr. cbn. rewrite fupd_same. split; [reflexivity|].
  intros Hroom. rewrite fupd_other by assumption.
  rewrite (enqueue_m_room s0 p); [reflexivity|exact Hroom].
Qed.

(* A peer-gone notice for endpoint A is only ever produced by the unregister of A's LAST
   registered connection: in the state after that step A has no entry and no live connection,
   and the notice goes to an endpoint A had successfully sent to. *)
Lemma peer_gone_only_after_last s e s' A p :
  Inv s -> step true s e = Some s' ->
  In (A, p) (pending s') -> ~ In (A, p) (pending s) ->
  exists c, e = Unregister c /\ eid (conns s c) = A /\ reg s A = [c] /\ reg s' A = [] /\
            In p (sent s A) /\ sent s' A = [] /\
            (forall c', live s' c' -> eid (conns s' c') <> A).
Proof.
  intros I H Hin Hnin.
  assert (Hother : match e with Unregister _ => True | _ => forall x, In x (pending s') -> In x (pending s) end).
  { destruct e as [id v|c|c|c|c|k|a d tg|c pkt|id o]; try exact Logic.I; cbn [step] in H; intros x.
    - injection H as <-. auto.
    - destruct (_ && _); [|discriminate]. injection H as <-. cbn.
      destruct (reg s (eid (conns s c))); cbn; [auto|].
      destruct (enqueue_m_fields s n (status_frame (ver (conns s n)) 1)) as (_ & hp & _). now rewrite hp.
    - destruct (_ <? _); [|discriminate]. injection H as <-. auto.
    - destruct (is_running _); [|discriminate]. injection H as <-. auto.
    - destruct (nth_error (pending s) (N.to_nat k)) as [[gone peer]|]; [|discriminate].
      assert (Hrm : forall (l : list (N * N)) n y, In y (remove_nth n l) -> In y l).
      { induction l as [|z l IHl]; intros [|n] y; cbn; auto. intros [Hy|Hy]; [now left|right; eauto]. }
      destruct (reg (set_pending s _) peer); injection H as <-; cbn.
      + apply Hrm.
      + destruct (enqueue_m_fields (set_pending s (remove_nth (N.to_nat k) (pending s))) n (FGone gone)) as (_ & hp & _).
        rewrite hp. cbn. apply Hrm.
    - destruct (is_running _); [|discriminate].
      destruct (reg s d); [injection H as <-; auto|].
      destruct (is_done _); [injection H as <-; auto|].
      destruct (_ <? _); injection H as <-; auto.
    - destruct (is_running _); [|discriminate].
      destruct pkt; [destruct (pq _)|destruct (mq _)]; try discriminate; injection H as <-; auto.
    - destruct o as [c|].
      + destruct (existsb _ _); injection H as <-; auto.
      + injection H as <-.
        assert (Hf : forall l t, pending (fold_left cancel l t) = pending t).
        { induction l as [|z l IHl]; intros t; cbn; [reflexivity|]. now rewrite IHl. }
        now rewrite Hf. }
  destruct e as [id v|c|c|c|c|k|a d tg|c pkt|id o]; try (exfalso; apply Hnin, Hother, Hin).
  pose proof (Inv_unregister s c s' I H) as I'.
  cbn [step] in H.
  destruct (is_exited (cstate (conns s c)) && _) eqn:Hc; [|discriminate].
  set (id := eid (conns s c)) in *.
  destruct (reg s id) as [|a rest] eqn:Hreg.
  { injection H as <-. cbn in Hin. contradiction. }
  destruct (a =? c) eqn:Eac.
  2:{ injection H as <-. cbn in Hin. contradiction. }
  apply N.eqb_eq in Eac. subst a.
  destruct rest as [|q rest'].
  2:{ injection H as <-. cbn in Hin.
      destruct (enqueue_m_fields (set_reg s id (q :: rest')) q (status_frame (ver (conns s q)) 0)) as (_ & hp & _).
      rewrite hp in Hin. cbn in Hin. contradiction. }
  injection H as <-. cbn in Hin. apply in_app_or in Hin as [Hin|Hin]; [contradiction|].
  apply in_map_iff in Hin as (p' & Hp & Hin'). injection Hp as Ha Hp'. subst p'.
  exists c. split; [reflexivity|]. split; [exact Ha|]. rewrite <- Ha. split; [assumption|].
  split; [cbn; now rewrite fupd_same|]. split; [assumption|]. split; [cbn; now rewrite fupd_same|].
  intros c' [h1 h2] He.
  set (sf := set_conn _ c _) in *.
  assert (Hin2 : In c' (reg sf id)).
  { rewrite (inv_reg sf I'). apply filter_In. split; [now apply (inv_order sf I')|].
    apply live_for_true. auto. }
  unfold sf in Hin2. cbn in Hin2. rewrite fupd_same in Hin2. contradiction.
Qed.

(* peer-gone FRAMES only come out of pending notices (Notify), and go to the then-active
   connection of the peer: any other step leaves the FGone frames of every queue unchanged. *)
Definition is_gone (f : frame) : bool := match f with FGone _ => true | _ => false end.

(* Send: the datagram is queued on the ACTIVE connection of the destination (which, by the
   invariant, is its newest live one), with the sender's AUTHENTICATED id, and sent_to is
   recorded exactly when it was queued. *)
Lemma send_goes_to_active s a d tg s' b rest :
  step true s (Send a d tg) = Some s' -> reg s d = b :: rest ->
  cstate (conns s b) <> Done -> len (pq (conns s b)) < cap s ->
  pq (conns s' b) = pq (conns s b) ++ [FData (eid (conns s a)) tg] /\
  In d (sent s' (eid (conns s a))) /\
  forall c, c <> b -> pq (conns s' c) = pq (conns s c).
Proof.
  intros H Hreg Hnd Hroom. cbn [step] in H.
  destruct (is_running (cstate (conns s a))); [|discriminate]. rewrite Hreg in H.
  destruct (cstate (conns s b)) eqn:Eb; try congruence; cbn in H;
  (destruct (len (pq (conns s b)) <? cap s) eqn:El; [|apply N.ltb_ge in El; lia]);
  injection H as <-; cbn; rewrite ?fupd_same; (split; [reflexivity|]);
  (split; [|intros c Hc; now rewrite fupd_other by assumption]).
  all: assert (Hadd : forall x l, In x (add_sorted x l))
         by (intros x l; induction l as [|y r IH]; cbn; [now left|];
             destruct (x <? y); [now left|]; destruct (x =? y) eqn:E; [apply N.eqb_eq in E; subst; now left|now right]);
       apply Hadd.
Qed.

(* ---------------------------------------------------------------- the defect that was fixed *)
(* Without the entry lock held across Client::new (locked = false) the schedule
   register a; [spawn b; exit b; unregister b; insert b] leaves b — whose task has ended —
   registered as the active connection while a is open. *)
Definition bad_trace : list event :=
  [Spawn 0 2; Insert 0; Spawn 0 2; Exit 1; Unregister 1; Insert 1].

Example unlocked_register_refuted :
  exists s, run false (init 3) bad_trace = Some s /\
            reg s 0 = [1; 0] /\ cstate (conns s 1) = Done /\ cstate (conns s 0) = Running.
Proof. eexists. split; [vm_compute; reflexivity|]. repeat split. Qed.

(* with the lock the same schedule is not possible: unregister b is not enabled before insert b *)
Example locked_register_blocks : run true (init 3) bad_trace = None.
Proof. reflexivity. Qed.

(* non-vacuity: three connections of one id, promotion order, peer-gone after the last *)
Example promotion_example :
  exists s, run true (init 3)
    [Spawn 0 2; Insert 0; Spawn 0 1; Insert 1; Spawn 0 2; Insert 2; Spawn 1 2; Insert 3;
     Send 2 1 7; Exit 2; Unregister 2; Exit 0; Unregister 0; Exit 1; Unregister 1; Notify 0] = Some s /\
    reg s 0 = [] /\ mq (conns s 1) = [FHealth 1; FHealth 0] /\ mq (conns s 0) = [FStatus 1] /\
    mq (conns s 3) = [FGone 0] /\ pq (conns s 3) = [FData 0 7].
Proof. eexists. split; [vm_compute; reflexivity|]. repeat split. Qed.

(* ---------------------------------------------------------------- script level: every state the
   harness script semantics visits is reachable in the transition system, hence satisfies Inv *)
Lemma doev_reach s e : reach s -> reach (doev s e).
Proof.
  intros H. unfold doev. change locked_register with true.
  destruct (step true s e) eqn:E; [econstructor; eassumption|assumption].
Qed.

Lemma fold_left_reach {A} (f : state -> A -> state) l :
  (forall s c, reach s -> reach (f s c)) -> forall s, reach s -> reach (fold_left f l s).
Proof. intros Hf. induction l as [|a l IH]; cbn; intros s H; [assumption|]. apply IH, Hf, H. Qed.

Lemma settle_exits_reach s : reach s -> reach (settle_exits s).
Proof.
  unfold settle_exits. apply fold_left_reach. intros t c H.
  destruct (_ && _); [now apply doev_reach|assumption].
Qed.

Lemma deliver_all_reach fuel : forall s c pkt, reach s -> reach (deliver_all fuel s c pkt).
Proof.
  induction fuel as [|f IH]; cbn [deliver_all]; intros s c pkt H; [assumption|].
  change locked_register with true.
  destruct (step true s (Deliver c pkt)) eqn:E; [|assumption].
  apply IH. econstructor; eassumption.
Qed.

Lemma settle_reach s : reach s -> reach (settle s).
Proof.
  intros H. unfold settle, settle_deliver. apply fold_left_reach.
  - intros t c Ht. now apply deliver_all_reach, deliver_all_reach.
  - now apply settle_exits_reach.
Qed.

Lemma notify_all_reach fuel : forall s, reach s -> reach (notify_all fuel s).
Proof.
  induction fuel as [|f IH]; cbn [notify_all]; intros s H; [assumption|].
  destruct (pending s); [assumption|]. now apply IH, doev_reach.
Qed.

Lemma unregister_full_reach s c : reach s -> reach (unregister_full s c).
Proof. intros H. unfold unregister_full. now apply notify_all_reach, doev_reach. Qed.

#[local] Hint Resolve doev_reach settle_reach unregister_full_reach : c06.

Lemma exec_op_reach ss o : reach (st ss) -> reach (st (fst (exec_op ss o))).
Proof.
  intros H. unfold exec_op, skip. change locked_register with true.
  repeat match goal with
         | |- context [match ?x with _ => _ end] => destruct x
         end; cbn [fst st]; auto 6 with c06.
Qed.

Lemma exec_ops_reach l : forall ss, reach (st ss) -> Forall (fun p => reach (st (fst p))) (exec_ops ss l).
Proof.
  induction l as [|o l IH]; intros ss H; cbn [exec_ops].
  - destruct (win ss); [|constructor].
    pose proof (exec_op_reach ss (OInsert n) H) as H1.
    destruct (exec_op ss (OInsert n)) as [ss1 r]. constructor; [exact H1|constructor].
  - pose proof (exec_op_reach ss o H) as H1.
    destruct (exec_op ss o) as [ss1 r]. constructor; [exact H1|]. apply IH, H1.
Qed.

(* what the model reports is its own state *)
Lemma nth_states s c :
  c < nconns s -> nth (N.to_nat c) (states_of s) 2 = cst_code (cstate (conns s c)).
Proof.
  intros H. unfold states_of, crange.
  set (g := fun c0 => cst_code (cstate (conns s c0))).
  rewrite map_map.
  rewrite (nth_indep _ 2 ((fun x => g (N.of_nat x)) 0%nat)) by (rewrite map_length, seq_length; lia).
  rewrite (map_nth (fun x => g (N.of_nat x))). rewrite seq_nth by lia. cbn. unfold g. now rewrite N2Nat.id.
Qed.

Lemma expected_stack_model s id :
  Inv s -> expected_stack s (states_of s) id = reg s id.
Proof.
  intros I. rewrite (inv_reg s I). unfold expected_stack. apply filter_ext_in. intros c Hc.
  assert (Hlt : c < nconns s).
  { apply (inv_order s I) in Hc. destruct (N.lt_ge_cases c (nconns s)) as [?|Hge]; [assumption|].
    destruct (inv_fresh s I c Hge). congruence. }
  rewrite nth_states by assumption. unfold live_for. f_equal.
  now destruct (cstate (conns s c)).
Qed.

Lemma snapshot_ids_ok s : forallb (fun e : N * N * list N => fst (fst e) <? 4) (snapshot s) = true.
Proof.
  unfold snapshot, ids. cbn [flat_map].
  destruct (reg s 0), (reg s 1), (reg s 2), (reg s 3); reflexivity.
Qed.

Lemma stack_of_snapshot s id : In id ids -> stack_of_snap (snapshot s) id = reg s id.
Proof.
  unfold ids. cbn [In]. intros H.
  unfold stack_of_snap, snapshot, ids. cbn [flat_map].
  destruct H as [<-|[<-|[<-|[<-|[]]]]];
    destruct (reg s 0) eqn:E0, (reg s 1) eqn:E1, (reg s 2) eqn:E2, (reg s 3) eqn:E3;
    repeat (cbn;
            repeat match goal with
                   | |- context [N.eqb ?a ?b] =>
                       let v := eval vm_compute in (N.eqb a b) in change (N.eqb a b) with v
                   end);
    rewrite ?rev_involutive; reflexivity.
Qed.

Lemma registry_ok_model ss0 ss1 r : Inv (st ss1) -> registry_ok (st ss1) (observe ss0 ss1 r) = true.
Proof.
  intros I. unfold registry_ok, observe. cbn [o_snap o_states].
  destruct (win ss1); [reflexivity|].
  rewrite snapshot_ids_ok. cbn [andb].
  apply forallb_forall. intros id Hid.
  rewrite stack_of_snapshot by assumption. rewrite expected_stack_model by assumption.
  apply list_eqb_refl, N.eqb_refl.
Qed.

Lemma monitor_steps_model l : forall ss, reach (st ss) ->
  monitor_steps (exec_ops ss l) (map snd (exec_ops ss l)) = true.
Proof.
  induction l as [|o l IH]; intros ss H; cbn [exec_ops].
  - destruct (win ss); [|reflexivity].
    pose proof (exec_op_reach ss (OInsert n) H) as H1.
    destruct (exec_op ss (OInsert n)) as [ss1 r]. cbn.
    rewrite registry_ok_model by (now apply reach_Inv). reflexivity.
  - pose proof (exec_op_reach ss o H) as H1.
    destruct (exec_op ss o) as [ss1 r]. cbn [map snd monitor_steps fst].
    rewrite registry_ok_model by (now apply reach_Inv). cbn [andb]. apply IH, H1.
Qed.

Lemma model_monitor i : monitor i (model i) = true.
Proof.
  unfold monitor, model, trace. apply monitor_steps_model. cbn. apply reach_init.
Qed.

(* the monitor, on arbitrary observations, says exactly: at every observed point the registry
   holds, per endpoint id, the registered-and-not-ended connections, newest first *)
Definition obs_registry_spec (s : state) (ob : obs) : Prop :=
  forall snap, o_snap ob = Some snap ->
    (forall e, In e snap -> fst (fst e) < 4) /\
    forall id, In id ids -> stack_of_snap snap id = expected_stack s (o_states ob) id.

Lemma registry_ok_spec s ob : registry_ok s ob = true <-> obs_registry_spec s ob.
Proof.
  unfold registry_ok, obs_registry_spec. destruct (o_snap ob) as [snap|].
  - rewrite andb_true_iff, !forallb_forall. split.
    + intros [h1 h2] snap' E. injection E as <-. split.
      * intros e He. apply N.ltb_lt. now apply h1.
      * intros id Hid. apply (list_eqb_eq N.eqb); [intros a b; apply N.eqb_eq|now apply h2].
    + intros H. destruct (H snap eq_refl) as [h1 h2]. split.
      * intros e He. apply N.ltb_lt. now apply h1.
      * intros id Hid. rewrite h2 by assumption. apply list_eqb_refl, N.eqb_refl.
  - split; [discriminate|reflexivity].
Qed.
