(* C06 — proofs about the relay registry model. *)
From V Require Import Lib.Base Model.C06.
From Coq Require Import ZifyBool Lia Sorted FinFun.
Import C06.
Open Scope N_scope.

(* ---------------------------------------------------------------- basics *)
Lemma fupd_same {A} (f : N -> A) k v : fupd f k v k = v.
Proof. unfold fupd. now rewrite N.eqb_refl. Qed.
Lemma fupd_other {A} (f : N -> A) k v x : x <> k -> fupd f k v x = f x.
Proof. unfold fupd. intros H. destruct (x =? k) eqn:E; [apply N.eqb_eq in E; contradiction|reflexivity]. Qed.

Lemma filter_filter_and {A} (p q : A -> bool) l :
  filter q (filter p l) = filter (fun x => p x && q x) l.
Proof.
  induction l as [|a l IH]; cbn; [reflexivity|].
  destruct (p a) eqn:Ep; cbn; [destruct (q a); now rewrite IH | exact IH].
Qed.

Lemma filter_id_notin (c : N) l : ~ In c l -> filter (fun y => negb (y =? c)) l = l.
Proof.
  induction l as [|a l IH]; cbn; intros H; [reflexivity|].
  destruct (a =? c) eqn:E.
  - apply N.eqb_eq in E. exfalso; apply H; now left.
  - cbn. f_equal. apply IH. intros Hc; apply H; now right.
Qed.

Lemma NoDup_filter {A} (p : A -> bool) l : NoDup l -> NoDup (filter p l).
Proof.
  induction 1 as [|a l Hn Hd IH]; cbn; [constructor|].
  destruct (p a); [constructor; [|exact IH]|exact IH].
  intros Hin. apply filter_In in Hin. tauto.
Qed.

(* ---------------------------------------------------------------- invariant *)
Definition live_for (s : state) (id c : N) : bool :=
  (eid (conns s c) =? id) && negb (taken (conns s c)) && negb (is_done (cstate (conns s c))).

Record Inv (s : state) : Prop := {
  inv_nodup : NoDup (order s);
  inv_order : forall c, In c (order s) <-> inserted (conns s c) = true;
  inv_fresh : forall c, nconns s <= c -> inserted (conns s c) = false /\ cstate (conns s c) = Fresh;
  inv_done : forall c, cstate (conns s c) = Done -> inserted (conns s c) = true;
  inv_reg : forall id, reg s id = filter (live_for s id) (order s);
  inv_taken : forall c, taken (conns s c) = true -> inserted (conns s c) = true
}.

(* changes that leave the registry-relevant part of every connection alone *)
Definition sim (x y : conn) : Prop :=
  eid x = eid y /\ inserted x = inserted y /\ is_done (cstate x) = is_done (cstate y) /\
  (cstate x = Fresh -> cstate y = Fresh) /\ taken x = taken y.

Lemma sim_refl x : sim x x.
Proof. repeat split; auto. Qed.
Lemma sim_trans x y z : sim x y -> sim y z -> sim x z.
Proof. intros (a & b & c & d & e) (a' & b' & c' & d' & e'). repeat split; try congruence. auto. Qed.

Definition same_reg (s s' : state) : Prop :=
  nconns s' = nconns s /\ order s' = order s /\ (forall id, reg s' id = reg s id) /\
  (forall c, sim (conns s c) (conns s' c)).

Lemma same_reg_refl s : same_reg s s.
Proof. repeat split; auto. Qed.
Lemma same_reg_trans s t u : same_reg s t -> same_reg t u -> same_reg s u.
Proof.
  intros (a & b & c & d) (a' & b' & c' & d'). split; [congruence|]. split; [congruence|].
  split; [intros; now rewrite c'|]. intros x. eapply sim_trans; eauto.
Qed.

Lemma Inv_same_reg s s' : same_reg s s' -> Inv s -> Inv s'.
Proof.
  intros (Hn & Ho & Hr & Hs) [I1 I2 I3 I4 I5 I6].
  assert (Hlive : forall id c, live_for s' id c = live_for s id c).
  { intros id c. unfold live_for. destruct (Hs c) as (e1 & _ & e3 & _ & e5). now rewrite e1, e3, e5. }
  constructor.
  - now rewrite Ho.
  - intros c. rewrite Ho. destruct (Hs c) as (_ & e2 & _). rewrite <- e2. apply I2.
  - intros c Hc. rewrite Hn in Hc. destruct (I3 c Hc) as [a b].
    destruct (Hs c) as (_ & e2 & _ & e4 & _). split; [congruence|auto].
  - intros c Hd. destruct (Hs c) as (_ & e2 & e3 & _). rewrite <- e2. apply I4.
    rewrite Hd in e3. cbn in e3. destruct (cstate (conns s c)); cbn in e3; congruence.
  - intros id. rewrite Hr, Ho, I5. apply filter_ext. intros c. now rewrite Hlive.
  - intros c Ht. destruct (Hs c) as (_ & e2 & _ & _ & e5). rewrite <- e2. apply I6. congruence.
Qed.

Lemma same_reg_set_conn s c x : sim (conns s c) x -> same_reg s (set_conn s c x).
Proof.
  intros H. repeat split; auto; cbn.
  all: destruct (N.eq_dec c0 c) as [->|Hne];
    [rewrite fupd_same; apply H | rewrite fupd_other by assumption; auto].
Qed.

Lemma same_reg_set_sent s id l : same_reg s (set_sent s id l).
Proof. repeat split; auto. Qed.
Lemma same_reg_set_pending s p : same_reg s (set_pending s p).
Proof. repeat split; auto. Qed.

Lemma same_reg_enqueue_m s a f : same_reg s (enqueue_m s a f).
Proof.
  unfold enqueue_m. destruct (is_done _); [apply same_reg_refl|].
  destruct (_ <? _); [|apply same_reg_refl].
  apply same_reg_set_conn. repeat split; auto.
Qed.

Lemma same_reg_cancel s c : same_reg s (cancel s c).
Proof. apply same_reg_set_conn. repeat split; auto. Qed.

Lemma same_reg_fold_cancel l : forall s, same_reg s (fold_left cancel l s).
Proof.
  induction l as [|a l IH]; intros s; cbn; [apply same_reg_refl|].
  eapply same_reg_trans; [apply same_reg_cancel|apply IH].
Qed.

(* other fields under these helpers *)
Lemma enqueue_m_fields s a f :
  sent (enqueue_m s a f) = sent s /\ pending (enqueue_m s a f) = pending s /\
  cap (enqueue_m s a f) = cap s /\ reg (enqueue_m s a f) = reg s.
Proof. unfold enqueue_m. destruct (is_done _); auto. destruct (_ <? _); auto. Qed.

(* ---------------------------------------------------------------- the three registry steps *)
Lemma Inv_init cap : Inv (init cap).
Proof.
  constructor; cbn.
  - constructor.
  - intros c; split; [tauto|discriminate].
  - intros; split; reflexivity.
  - discriminate.
  - reflexivity.
  - discriminate.
Qed.

Lemma Inv_spawn s id v s' : Inv s -> step true s (Spawn id v) = Some s' -> Inv s'.
Proof.
  intros [I1 I2 I3 I4 I5 I6] H. cbn in H. injection H as <-.
  assert (Hn : ~ In (nconns s) (order s)).
  { intros Hin. apply I2 in Hin. destruct (I3 (nconns s)) as [a _]; [lia|congruence]. }
  constructor; cbn.
  - exact I1.
  - intros c. destruct (N.eq_dec c (nconns s)) as [->|Hne].
    + rewrite fupd_same. cbn. split; [tauto|discriminate].
    + rewrite fupd_other by assumption. apply I2.
  - intros c Hc. rewrite fupd_other by lia. apply I3. lia.
  - intros c. destruct (N.eq_dec c (nconns s)) as [->|Hne].
    + rewrite fupd_same. cbn. discriminate.
    + rewrite fupd_other by assumption. apply I4.
  - intros i. rewrite I5. apply filter_ext_in. intros c Hc. unfold live_for. cbn.
    rewrite fupd_other; [reflexivity|]. intros ->. contradiction.
  - intros c. destruct (N.eq_dec c (nconns s)) as [->|Hne].
    + rewrite fupd_same. cbn. discriminate.
    + rewrite fupd_other by assumption. apply I6.
Qed.

(* the entry update of register, common to both arms *)
Lemma insert_entry s c id :
  let s1 := match reg s id with
            | [] => set_reg s id [c]
            | a :: rest => set_reg (enqueue_m s a (status_frame (ver (conns s a)) 1)) id (c :: a :: rest)
            end in
  nconns s1 = nconns s /\ order s1 = order s /\
  (forall c', sim (conns s c') (conns s1 c')) /\
  (forall i, reg s1 i = if i =? id then c :: reg s id else reg s i).
Proof.
  destruct (reg s id) as [|a rest] eqn:E; cbv zeta.
  - split; [reflexivity|]. split; [reflexivity|]. split; [intros; apply sim_refl|].
    intros i. cbn. unfold fupd. now destruct (i =? id).
  - destruct (same_reg_enqueue_m s a (status_frame (ver (conns s a)) 1)) as (h1 & h2 & h3 & h4).
    split; [exact h1|]. split; [exact h2|]. split; [exact h4|].
    intros i. cbn. unfold fupd. destruct (i =? id) eqn:Ei; [reflexivity|apply h3].
Qed.

Lemma Inv_insert s c s' : Inv s -> step true s (Insert c) = Some s' -> Inv s'.
Proof.
  intros [I1 I2 I3 I4 I5 I6] H. cbn [step] in H.
  destruct ((c <? nconns s) && negb (inserted (conns s c))) eqn:Hc; [|discriminate].
  apply andb_prop in Hc as [Hlt Hni]. apply N.ltb_lt in Hlt. apply negb_true_iff in Hni.
  set (id := eid (conns s c)) in *.
  pose proof (insert_entry s c id) as Hent. cbv zeta in Hent.
  set (s1 := match reg s id with [] => _ | _ :: _ => _ end) in *.
  destruct Hent as (hn & ho & hs & hr).
  injection H as <-. cbn.
  assert (Hnin : ~ In c (order s)) by (intros Hin; apply I2 in Hin; congruence).
  assert (Hnd : is_done (cstate (conns s c)) = false).
  { destruct (cstate (conns s c)) eqn:Ec; try reflexivity. apply I4 in Ec. congruence. }
  assert (Hnt : taken (conns s c) = false).
  { destruct (taken (conns s c)) eqn:Et; [|reflexivity]. apply I6 in Et. congruence. }
  constructor; cbn.
  - rewrite ho. constructor; assumption.
  - intros c'. rewrite ho. destruct (N.eq_dec c' c) as [->|Hne].
    + rewrite fupd_same. cbn. split; auto.
    + rewrite fupd_other by assumption. destruct (hs c') as (_ & e2 & _). rewrite <- e2.
      rewrite <- I2. split; [intros [Hx|Hx]; [congruence|assumption] | now right].
  - intros c' Hc'. rewrite hn in Hc'. rewrite fupd_other by lia.
    destruct (hs c') as (_ & e2 & _ & e4 & _). destruct (I3 c' Hc') as [a b]. split; [congruence|auto].
  - intros c'. destruct (N.eq_dec c' c) as [->|Hne].
    + rewrite fupd_same. reflexivity.
    + rewrite fupd_other by assumption. intros Hd.
      destruct (hs c') as (_ & e2 & e3 & _). rewrite <- e2. apply I4.
      rewrite Hd in e3. destruct (cstate (conns s c')); cbn in e3; congruence.
  - intros i. rewrite hr, ho.
    assert (Hrest : filter (live_for
              {| conns := fupd (conns s1) c (with_inserted (conns s1 c) true); nconns := nconns s1;
                 reg := reg s1; sent := sent s1; pending := pending s1; order := c :: order s; cap := cap s1 |} i)
              (order s) = filter (live_for s i) (order s)).
    { apply filter_ext_in. intros c' Hin. unfold live_for. cbn.
      rewrite fupd_other by (intros ->; contradiction).
      destruct (hs c') as (e1 & _ & e3 & _ & e5). now rewrite e1, e3, e5. }
    cbn [filter]. rewrite Hrest.
    unfold live_for at 1. cbn. rewrite fupd_same. cbn.
    destruct (hs c) as (e1 & _ & e3 & _ & e5). rewrite <- e1, <- e3, <- e5, Hnd, Hnt. fold id.
    rewrite (N.eqb_sym i id). destruct (id =? i) eqn:Ei; cbn.
    + apply N.eqb_eq in Ei. subst i. now rewrite I5.
    + apply I5.
  - intros c'. destruct (N.eq_dec c' c) as [->|Hne].
    + rewrite fupd_same. reflexivity.
    + rewrite fupd_other by assumption. destruct (hs c') as (_ & e2 & _ & _ & e5).
      rewrite <- e2, <- e5. apply I6.
Qed.

(* the entry update of unregister *)
Lemma unregister_entry s c id :
  NoDup (reg s id) ->
  let s1 := match reg s id with
            | [] => s
            | a :: rest =>
                if a =? c then
                  match rest with
                  | p :: _ => enqueue_m (set_reg s id rest) p (status_frame (ver (conns s p)) 0)
                  | [] => set_pending (set_sent (set_reg s id []) id [])
                                      (pending s ++ map (fun p => (id, p)) (sent s id))
                  end
                else set_reg s id (a :: filter (fun y => negb (y =? c)) rest)
            end in
  nconns s1 = nconns s /\ order s1 = order s /\
  (forall c', sim (conns s c') (conns s1 c')) /\
  (forall i, reg s1 i = if i =? id then filter (fun y => negb (y =? c)) (reg s id) else reg s i).
Proof.
  intros Hnd. destruct (reg s id) as [|a rest] eqn:E; cbv zeta.
  - split; [reflexivity|]. split; [reflexivity|]. split; [intros; apply sim_refl|].
    intros i. destruct (i =? id) eqn:Ei; [|reflexivity].
    apply N.eqb_eq in Ei. now subst.
  - inversion Hnd as [|? ? Hnin Hnd']. subst.
    destruct (a =? c) eqn:Eac.
    + apply N.eqb_eq in Eac. subst a.
      assert (Hf : filter (fun y => negb (y =? c)) (c :: rest) = rest).
      { cbn. rewrite N.eqb_refl. cbn. now apply filter_id_notin. }
      destruct rest as [|p rest'].
      * split; [reflexivity|]. split; [reflexivity|]. split; [intros; apply sim_refl|].
        intros i. rewrite Hf. cbn. unfold fupd. now destruct (i =? id).
      * set (s0 := set_reg s id (p :: rest')).
        destruct (same_reg_enqueue_m s0 p (status_frame (ver (conns s p)) 0)) as (h1 & h2 & h3 & h4).
        split; [exact h1|]. split; [exact h2|]. split; [exact h4|].
        intros i. rewrite h3, Hf. cbn. unfold fupd. now destruct (i =? id).
    + split; [reflexivity|]. split; [reflexivity|]. split; [intros; apply sim_refl|].
      intros i. cbn [filter]. rewrite Eac. cbn. unfold fupd. now destruct (i =? id).
Qed.

Lemma Inv_unregister s c s' : Inv s -> step true s (Unregister c) = Some s' -> Inv s'.
Proof.
  intros I H. pose proof I as [I1 I2 I3 I4 I5 I6]. cbn [step] in H.
  destruct (is_exited (cstate (conns s c)) && (negb true || inserted (conns s c))) eqn:Hc; [|discriminate].
  apply andb_prop in Hc as [Hex Hins]. cbn in Hins.
  set (id := eid (conns s c)) in *.
  assert (Hnd : NoDup (reg s id)) by (rewrite I5; now apply NoDup_filter).
  pose proof (unregister_entry s c id Hnd) as Hent. cbv zeta in Hent.
  set (s1 := match reg s id with [] => s | _ :: _ => _ end) in *.
  destruct Hent as (hn & ho & hs & hr).
  injection H as <-.
  assert (Hcn : c < nconns s).
  { destruct (N.lt_ge_cases c (nconns s)) as [?|Hge]; [assumption|]. destruct (I3 c Hge). congruence. }
  constructor; cbn.
  - now rewrite ho.
  - intros c'. rewrite ho. destruct (N.eq_dec c' c) as [->|Hne].
    + rewrite fupd_same. cbn. destruct (hs c) as (_ & e2 & _). rewrite <- e2. apply I2.
    + rewrite fupd_other by assumption. destruct (hs c') as (_ & e2 & _). rewrite <- e2. apply I2.
  - intros c' Hc'. rewrite hn in Hc'. rewrite fupd_other by lia.
    destruct (hs c') as (_ & e2 & _ & e4 & _). destruct (I3 c' Hc') as [a b]. split; [congruence|auto].
  - intros c'. destruct (N.eq_dec c' c) as [->|Hne].
    + rewrite fupd_same. cbn. intros _. destruct (hs c) as (_ & e2 & _). congruence.
    + rewrite fupd_other by assumption. intros Hd.
      destruct (hs c') as (_ & e2 & e3 & _). rewrite <- e2. apply I4.
      rewrite Hd in e3. destruct (cstate (conns s c')); cbn in e3; congruence.
  - intros i. rewrite hr, ho.
    destruct (i =? id) eqn:Ei.
    + apply N.eqb_eq in Ei. subst i. rewrite I5, filter_filter_and.
      apply filter_ext. intros c'. unfold live_for. cbn.
      destruct (N.eq_dec c' c) as [->|Hne].
      * rewrite fupd_same. cbn. rewrite (N.eqb_refl c). cbn. now rewrite !andb_false_r.
      * rewrite fupd_other by assumption. destruct (hs c') as (e1 & _ & e3 & _ & e5).
        rewrite <- e1, <- e3, <- e5. apply N.eqb_neq in Hne. rewrite Hne. cbn. now rewrite andb_true_r.
    + rewrite I5. apply filter_ext. intros c'. unfold live_for. cbn.
      destruct (N.eq_dec c' c) as [->|Hne].
      * rewrite fupd_same. cbn. destruct (hs c) as (e1 & _). rewrite <- e1. fold id.
        rewrite N.eqb_sym, Ei. reflexivity.
      * rewrite fupd_other by assumption. destruct (hs c') as (e1 & _ & e3 & _ & e5). now rewrite e1, e3, e5.
  - intros c'. destruct (N.eq_dec c' c) as [->|Hne].
    + rewrite fupd_same. cbn. intros _. destruct (hs c) as (_ & e2 & _). congruence.
    + rewrite fupd_other by assumption. destruct (hs c') as (_ & e2 & _ & _ & e5).
      rewrite <- e2, <- e5. apply I6.
Qed.

Lemma filter_all_false {A} (p : A -> bool) l : (forall x, In x l -> p x = false) -> filter p l = [].
Proof.
  induction l as [|a l IH]; intros H; [reflexivity|]. cbn [filter].
  rewrite (H a) by now left. apply IH. intros x Hx. apply H. now right.
Qed.

Lemma existsb_in_true c l : In c l -> existsb (N.eqb c) l = true.
Proof. intros H. apply existsb_exists. exists c. split; [assumption|apply N.eqb_refl]. Qed.

(* Clients::shutdown takes an entry out of the map *)
Lemma Inv_shuttake s id s' : Inv s -> step true s (ShutTake id) = Some s' -> Inv s'.
Proof.
  intros I H. pose proof I as [I1 I2 I3 I4 I5 I6]. cbn [step] in H. injection H as <-.
  assert (Hin : forall c, existsb (N.eqb c) (reg s id) = true -> In c (reg s id)).
  { intros c Hc. apply existsb_exists in Hc as (x & Hx & E). apply N.eqb_eq in E. now subst. }
  constructor; cbn.
  - exact I1.
  - intros c. destruct (existsb (N.eqb c) (reg s id)); cbn; apply I2.
  - intros c Hc. destruct (existsb (N.eqb c) (reg s id)); cbn; apply I3; assumption.
  - intros c. destruct (existsb (N.eqb c) (reg s id)); cbn; apply I4.
  - intros i. unfold fupd. destruct (i =? id) eqn:Ei.
    + apply N.eqb_eq in Ei. subst i. symmetry.
      assert (Hall : forall c, In c (order s) ->
                live_for {| conns := fun c0 => if existsb (N.eqb c0) (reg s id) then with_taken (conns s c0) true else conns s c0;
                            nconns := nconns s; reg := fun x => if x =? id then [] else reg s x; sent := sent s;
                            pending := pending s; order := order s; cap := cap s |} id c = false).
      { intros c Hc. unfold live_for. cbn.
        destruct (existsb (N.eqb c) (reg s id)) eqn:Ex; cbn.
        - now rewrite andb_false_r.
        - destruct (live_for s id c) eqn:El.
          + exfalso. assert (In c (reg s id)) by (rewrite I5; apply filter_In; auto).
            rewrite existsb_in_true in Ex; [discriminate|assumption].
          + exact El. }
      apply filter_all_false. exact Hall.
    + rewrite I5. apply filter_ext. intros c. unfold live_for. cbn.
      destruct (existsb (N.eqb c) (reg s id)) eqn:Ex; [|reflexivity]. cbn.
      apply Hin in Ex. rewrite I5 in Ex. apply filter_In in Ex as [_ Ex].
      unfold live_for in Ex. apply andb_prop in Ex as [Ex _]. apply andb_prop in Ex as [Ex _].
      apply N.eqb_eq in Ex. rewrite Ex, (N.eqb_sym id i), Ei. reflexivity.
  - intros c. destruct (existsb (N.eqb c) (reg s id)) eqn:Ex; cbn; [intros _|apply I6].
    apply Hin in Ex. rewrite I5 in Ex. apply filter_In in Ex as [Ex _]. now apply I2.
Qed.

(* every other event leaves the registry and the registry-relevant part of the connections alone *)
Lemma step_same_reg s e s' :
  step true s e = Some s' ->
  match e with Spawn _ _ | Insert _ | Unregister _ | ShutTake _ => True | _ => same_reg s s' end.
Proof.
  destruct e as [id v|c|c|c|c|k|a d tg|c pkt|id o|id|c]; try exact (fun _ => I); cbn [step]; intros H.
  - destruct (c <? nconns s); [|discriminate]. injection H as <-.
    apply same_reg_set_conn. repeat split; auto.
  - destruct (is_running (cstate (conns s c))) eqn:E; [|discriminate]. injection H as <-.
    apply same_reg_set_conn. unfold sim. cbn. destruct (cstate (conns s c)); cbn in E; try discriminate E. repeat split; auto; intros Hx; discriminate Hx.
  - destruct (nth_error (pending s) (N.to_nat k)) as [[gone peer]|]; [|discriminate].
    destruct (reg (set_pending s _) peer) eqn:E; injection H as <-.
    + apply same_reg_set_pending.
    + eapply same_reg_trans; [apply same_reg_set_pending|apply same_reg_enqueue_m].
  - destruct (is_running (cstate (conns s a))); [|discriminate].
    destruct (reg s d) as [|b rest]; [injection H as <-; apply same_reg_refl|].
    destruct (is_done (cstate (conns s b))); [injection H as <-; apply same_reg_cancel|].
    destruct (_ <? _); injection H as <-; [|apply same_reg_refl].
    eapply same_reg_trans; [|apply same_reg_set_sent].
    apply same_reg_set_conn. repeat split; auto.
  - destruct (is_running (cstate (conns s c))); [|discriminate].
    destruct pkt.
    + destruct (pq (conns s c)); [discriminate|]. injection H as <-.
      apply same_reg_set_conn. repeat split; auto.
    + destruct (mq (conns s c)); [discriminate|]. injection H as <-.
      apply same_reg_set_conn. repeat split; auto.
  - destruct o as [c|].
    + destruct (existsb _ _); injection H as <-; [apply same_reg_cancel|apply same_reg_refl].
    + injection H as <-. apply same_reg_fold_cancel.
  - destruct (taken (conns s c)); [|discriminate]. injection H as <-. apply same_reg_cancel.
Qed.

Lemma Inv_step s e s' : Inv s -> step true s e = Some s' -> Inv s'.
Proof.
  intros I H. pose proof (step_same_reg s e s' H) as Hs.
  destruct e; try (eapply Inv_same_reg; eassumption).
  - eapply Inv_spawn; eassumption.
  - eapply Inv_insert; eassumption.
  - eapply Inv_unregister; eassumption.
  - eapply Inv_shuttake; eassumption.
Qed.

Inductive reach : state -> Prop :=
| reach_init cap : reach (init cap)
| reach_step s e s' : reach s -> step true s e = Some s' -> reach s'.

Lemma reach_Inv s : reach s -> Inv s.
Proof. induction 1; [apply Inv_init|eapply Inv_step; eassumption]. Qed.

Lemma run_reach tr : forall s s', reach s -> run true s tr = Some s' -> reach s'.
Proof.
  induction tr as [|e tr IH]; cbn; intros s s' Hr H; [now injection H as <-|].
  destruct (step true s e) eqn:E; [|discriminate]. eapply IH; [|eassumption]. econstructor; eassumption.
Qed.

Lemma run_Inv cap tr s : run true (init cap) tr = Some s -> Inv s.
Proof. intros H. apply reach_Inv. eapply run_reach; [apply reach_init|eassumption]. Qed.

(* ---------------------------------------------------------------- C06 statements over all traces *)

(* The registered connections of an id, active first, are exactly the connections of that id
   whose registration has happened and whose actor task has not ended, newest first. *)
Lemma registry_is_newest_live cap tr s :
  run true (init cap) tr = Some s ->
  forall id, reg s id = filter (live_for s id) (order s).
Proof. intros H. apply (inv_reg s (run_Inv _ _ _ H)). Qed.

(* readable corollaries *)
Definition live (s : state) (c : N) : Prop :=
  inserted (conns s c) = true /\ taken (conns s c) = false /\ cstate (conns s c) <> Done.

Lemma live_for_true s id c :
  live_for s id c = true <-> eid (conns s c) = id /\ taken (conns s c) = false /\ cstate (conns s c) <> Done.
Proof.
  unfold live_for. rewrite !andb_true_iff, N.eqb_eq, !negb_true_iff.
  destruct (cstate (conns s c)); cbn; intuition congruence.
Qed.

(* position of a connection in the registration history: smaller = registered later *)
Fixpoint newer_in (l : list N) (a b : N) : Prop :=
  match l with
  | [] => False
  | x :: r => (x = a /\ In b r) \/ newer_in r a b
  end.

Lemma filter_head_newest {p : N -> bool} l a rest :
  filter p l = a :: rest ->
  p a = true /\ In a l /\ forall b, In b l -> p b = true -> b <> a -> newer_in l a b.
Proof.
  induction l as [|x l IH]; cbn; [discriminate|].
  destruct (p x) eqn:Ex.
  - intros H. injection H as -> Hr. split; [assumption|]. split; [now left|].
    intros b [Hb|Hb] Hpb Hne; [congruence|]. left. auto.
  - intros H. destruct (IH H) as (h1 & h2 & h3). split; [assumption|]. split; [now right|].
    intros b [Hb|Hb] Hpb Hne; [congruence|]. right. auto.
Qed.

Lemma active_is_newest_open cap tr s :
  run true (init cap) tr = Some s ->
  forall id a rest, reg s id = a :: rest ->
    eid (conns s a) = id /\ live s a /\
    forall b, live s b -> eid (conns s b) = id -> b <> a -> newer_in (order s) a b.
Proof.
  intros H id a rest Hreg. pose proof (run_Inv _ _ _ H) as I.
  rewrite (inv_reg s I) in Hreg. apply filter_head_newest in Hreg as (h1 & h2 & h3).
  apply live_for_true in h1 as [e1 e2].
  split; [assumption|]. split; [split; [now apply (inv_order s I)|assumption]|].
  intros b [Hb1 Hb2] Hbe Hne. apply h3; [now apply (inv_order s I)| |assumption].
  apply live_for_true. auto.
Qed.

Lemma entry_iff_some_conn cap tr s :
  run true (init cap) tr = Some s ->
  forall id, reg s id <> [] <-> exists c, live s c /\ eid (conns s c) = id.
Proof.
  intros H id. pose proof (run_Inv _ _ _ H) as I. rewrite (inv_reg s I). split.
  - destruct (filter _ _) as [|a rest] eqn:E; [congruence|]. intros _.
    assert (Hin : In a (filter (live_for s id) (order s))) by (rewrite E; now left).
    apply filter_In in Hin as [h1 h2]. apply live_for_true in h2 as [e1 e2].
    exists a. split; [split; [now apply (inv_order s I)|assumption]|assumption].
  - intros (c & [h1 h2] & h3) E.
    assert (Hin : In c (filter (live_for s id) (order s))).
    { apply filter_In. split; [now apply (inv_order s I)|]. apply live_for_true. auto. }
    rewrite E in Hin. contradiction.
Qed.

(* every registered connection is a live one: no connection whose task has ended stays registered *)
Lemma registered_are_live cap tr s :
  run true (init cap) tr = Some s ->
  forall id c, In c (reg s id) -> live s c /\ eid (conns s c) = id.
Proof.
  intros H id c Hin. pose proof (run_Inv _ _ _ H) as I. rewrite (inv_reg s I) in Hin.
  apply filter_In in Hin as [h1 h2]. apply live_for_true in h2 as [e1 e2].
  split; [split; [now apply (inv_order s I)|assumption]|assumption].
Qed.

(* ---- shutdown and stale unregisters ---- *)
(* Clients::shutdown takes the entry of an id out of the map: only that entry changes, its
   connections are marked; sent_to and the pending notices are untouched. *)
Lemma shut_take_effect s id s' :
  step true s (ShutTake id) = Some s' ->
  reg s' id = [] /\ (forall i, i <> id -> reg s' i = reg s i) /\ sent s' = sent s /\ pending s' = pending s /\
  (forall c, In c (reg s id) -> taken (conns s' c) = true) /\
  (forall c, ~ In c (reg s id) -> conns s' c = conns s c).
Proof.
  cbn [step]. intros H. injection H as <-. cbn. split; [apply fupd_same|]. split; [intros; now apply fupd_other|].
  split; [reflexivity|]. split; [reflexivity|]. split.
  - intros c Hc. now rewrite existsb_in_true.
  - intros c Hc. destruct (existsb (N.eqb c) (reg s id)) eqn:Ex; [|reflexivity].
    exfalso. apply Hc. apply existsb_exists in Ex as (x & Hx & E). apply N.eqb_eq in E. now subst.
Qed.

(* a connection taken out of the map by a shutdown is in no entry, whatever happens afterwards
   (in particular not in the new entry of its endpoint after a reconnect) *)
Lemma taken_not_registered cap tr s :
  run true (init cap) tr = Some s ->
  forall c id, taken (conns s c) = true -> ~ In c (reg s id).
Proof.
  intros H c id Ht Hin. destruct (registered_are_live cap tr s H id c Hin) as [(_ & Hf & _) _]. congruence.
Qed.

(* A STALE unregister — of a connection that is not in the entry of its endpoint: the entry was
   taken out by Clients::shutdown (and the endpoint may have reconnected since) — changes
   nothing: no entry, no sent_to set, no notice, no other connection; only the unregistering
   connection's own task ends. *)
Lemma stale_unregister_changes_nothing s c s' :
  step true s (Unregister c) = Some s' -> ~ In c (reg s (eid (conns s c))) ->
  (forall id, reg s' id = reg s id) /\ sent s' = sent s /\ pending s' = pending s /\
  (forall c', c' <> c -> conns s' c' = conns s c') /\ conns s' c = with_cstate (conns s c) Done.
Proof.
  cbn [step]. destruct (is_exited _ && _); [|discriminate]. intros H Hn. injection H as <-.
  set (id := eid (conns s c)) in *.
  destruct (reg s id) as [|a rest] eqn:E.
  - cbn. split; [reflexivity|]. split; [reflexivity|]. split; [reflexivity|].
    split; [intros; now apply fupd_other|apply fupd_same].
  - destruct (a =? c) eqn:Eac; [apply N.eqb_eq in Eac; subst a; exfalso; apply Hn; now left|].
    rewrite filter_id_notin by (intros Hx; apply Hn; now right). cbn.
    split; [|split; [reflexivity|split; [reflexivity|split; [intros; now apply fupd_other|apply fupd_same]]]].
    intros i. unfold fupd. destruct (i =? id) eqn:Ei; [|reflexivity]. apply N.eqb_eq in Ei. now subst.
Qed.

(* the unregister of a taken connection is stale *)
Lemma taken_unregister_changes_nothing cap tr s c s' :
  run true (init cap) tr = Some s -> taken (conns s c) = true ->
  step true s (Unregister c) = Some s' ->
  (forall id, reg s' id = reg s id) /\ sent s' = sent s /\ pending s' = pending s /\
  (forall c', c' <> c -> conns s' c' = conns s c').
Proof.
  intros H Ht E.
  destruct (stale_unregister_changes_nothing s c s' E (taken_not_registered cap tr s H c _ Ht)) as (a & b & d & e & _).
  auto.
Qed.

(* non-vacuity: shutdown takes A's entry, A reconnects, the old connection's actor is stopped and
   unregisters: the new connection stays registered and running *)
Example stale_unregister_example :
  exists s, run true (init 3)
    [Spawn 0 2; Insert 0; ShutTake 0; Spawn 0 2; Insert 1; ShutStop 0; Exit 0; Unregister 0] = Some s /\
    reg s 0 = [1] /\ cstate (conns s 0) = Done /\ taken (conns s 0) = true /\
    cstate (conns s 1) = Running /\ pending s = [].
Proof. eexists. split; [vm_compute; reflexivity|]. repeat split. Qed.

(* ---- notices (single steps from any state satisfying the invariant) ---- *)
Definition room (s : state) (a : N) : Prop :=
  cstate (conns s a) <> Done /\ len (mq (conns s a)) < cap s.

Lemma enqueue_m_room s a f :
  room s a -> conns (enqueue_m s a f) a = with_mq (conns s a) (mq (conns s a) ++ [f]).
Proof.
  intros [h1 h2]. unfold enqueue_m.
  destruct (cstate (conns s a)) eqn:E; try congruence; cbn;
    (destruct (len (mq (conns s a)) <? cap s) eqn:El; [cbn; now rewrite fupd_same|apply N.ltb_ge in El; lia]).
Qed.

(* Insert over an existing entry: the new connection becomes active, the old active one is
   pushed to the inactive stack and, if its message queue has room, is told that another
   connection with the same endpoint id took over. *)
Lemma displaced_is_told s c s' a rest :
  Inv s -> step true s (Insert c) = Some s' ->
  reg s (eid (conns s c)) = a :: rest ->
  reg s' (eid (conns s c)) = c :: a :: rest /\
  (room s a -> mq (conns s' a) = mq (conns s a) ++ [status_frame (ver (conns s a)) 1]).
Proof.
  intros I H Hreg. cbn [step] in H.
  destruct ((c <? nconns s) && negb (inserted (conns s c))) eqn:Hc; [|discriminate].
  apply andb_prop in Hc as [_ Hni]. apply negb_true_iff in Hni.
  rewrite Hreg in H. injection H as <-. cbn. rewrite fupd_same. split; [reflexivity|].
  intros Hroom.
  assert (Hne : a <> c).
  { intros ->. assert (In c (reg s (eid (conns s c)))) by (rewrite Hreg; now left).
    rewrite (inv_reg s I) in H. apply filter_In in H as [H _]. apply (inv_order s I) in H. congruence. }
  rewrite fupd_other by assumption. now rewrite enqueue_m_room.
Qed.

(* Unregister of the active connection with inactive ones left: the most recently displaced
   one becomes active again and, if its message queue has room, is told it is healthy. *)
Lemma promoted_is_told s c s' p rest :
  Inv s -> step true s (Unregister c) = Some s' ->
  reg s (eid (conns s c)) = c :: p :: rest ->
  reg s' (eid (conns s c)) = p :: rest /\
  (room s p -> mq (conns s' p) = mq (conns s p) ++ [status_frame (ver (conns s p)) 0]).
Proof.
  intros I H Hreg. cbn [step] in H.
  destruct (is_exited (cstate (conns s c)) && _) eqn:Hc; [|discriminate].
  rewrite Hreg, N.eqb_refl in H. injection H as <-.
  assert (Hne : p <> c).
  { intros ->. assert (Hnd : NoDup (reg s (eid (conns s c)))).
    { rewrite (inv_reg s I). apply NoDup_filter, (inv_nodup s I). }
    rewrite Hreg in Hnd. inversion Hnd as [|? ? Hn _]. apply Hn. now left. }
  set (s0 := set_reg s (eid (conns s c)) (p :: rest)).
  destruct (enqueue_m_fields s0 p (status_frame (ver (conns s p)) 0)) as (_ & _ & _ & hr).
  cbn. rewrite hr. cbn. rewrite fupd_same. split; [reflexivity|].
  intros Hroom. rewrite fupd_other by assumption.
  rewrite (enqueue_m_room s0 p); [reflexivity|exact Hroom].
Qed.

(* A peer-gone notice for endpoint A is only ever produced by the unregister of A's LAST
   registered connection: in the state after that step A has no entry and no live connection,
   and the notice goes to an endpoint A had successfully sent to. *)
Lemma peer_gone_only_after_last s e s' A p :
  Inv s -> step true s e = Some s' ->
  In (A, p) (pending s') -> ~ In (A, p) (pending s) ->
  exists c, e = Unregister c /\ eid (conns s c) = A /\ reg s A = [c] /\ reg s' A = [] /\
            In p (sent s A) /\ sent s' A = [] /\
            (forall c', live s' c' -> eid (conns s' c') <> A).
Proof.
  intros I H Hin Hnin.
  assert (Hother : match e with Unregister _ => True | _ => forall x, In x (pending s') -> In x (pending s) end).
  { destruct e as [id v|c|c|c|c|k|a d tg|c pkt|id o|id|c]; try exact Logic.I; cbn [step] in H; intros x.
    - injection H as <-. auto.
    - destruct (_ && _); [|discriminate]. injection H as <-. cbn.
      destruct (reg s (eid (conns s c))); cbn; [auto|].
      destruct (enqueue_m_fields s n (status_frame (ver (conns s n)) 1)) as (_ & hp & _). now rewrite hp.
    - destruct (_ <? _); [|discriminate]. injection H as <-. auto.
    - destruct (is_running _); [|discriminate]. injection H as <-. auto.
    - destruct (nth_error (pending s) (N.to_nat k)) as [[gone peer]|]; [|discriminate].
      assert (Hrm : forall (l : list (N * N)) n y, In y (remove_nth n l) -> In y l).
      { induction l as [|z l IHl]; intros [|n] y; cbn; auto. intros [Hy|Hy]; [now left|right; eauto]. }
      destruct (reg (set_pending s _) peer); injection H as <-; cbn.
      + apply Hrm.
      + destruct (enqueue_m_fields (set_pending s (remove_nth (N.to_nat k) (pending s))) n (FGone gone)) as (_ & hp & _).
        rewrite hp. cbn. apply Hrm.
    - destruct (is_running _); [|discriminate].
      destruct (reg s d); [injection H as <-; auto|].
      destruct (is_done _); [injection H as <-; auto|].
      destruct (_ <? _); injection H as <-; auto.
    - destruct (is_running _); [|discriminate].
      destruct pkt; [destruct (pq _)|destruct (mq _)]; try discriminate; injection H as <-; auto.
    - destruct o as [c|].
      + destruct (existsb _ _); injection H as <-; auto.
      + injection H as <-.
        assert (Hf : forall l t, pending (fold_left cancel l t) = pending t).
        { induction l as [|z l IHl]; intros t; cbn; [reflexivity|]. now rewrite IHl. }
        now rewrite Hf.
    - injection H as <-. auto.
    - destruct (taken _); [|discriminate]. injection H as <-. auto. }
  destruct e as [id v|c|c|c|c|k|a d tg|c pkt|id o|id|c]; try (exfalso; apply Hnin, Hother, Hin).
  pose proof (Inv_unregister s c s' I H) as I'.
  cbn [step] in H.
  destruct (is_exited (cstate (conns s c)) && _) eqn:Hc; [|discriminate].
  set (id := eid (conns s c)) in *.
  destruct (reg s id) as [|a rest] eqn:Hreg.
  { injection H as <-. cbn in Hin. contradiction. }
  destruct (a =? c) eqn:Eac.
  2:{ injection H as <-. cbn in Hin. contradiction. }
  apply N.eqb_eq in Eac. subst a.
  destruct rest as [|q rest'].
  2:{ injection H as <-. cbn in Hin.
      destruct (enqueue_m_fields (set_reg s id (q :: rest')) q (status_frame (ver (conns s q)) 0)) as (_ & hp & _).
      rewrite hp in Hin. cbn in Hin. contradiction. }
  injection H as <-. cbn in Hin. apply in_app_or in Hin as [Hin|Hin]; [contradiction|].
  apply in_map_iff in Hin as (p' & Hp & Hin'). injection Hp as Ha Hp'. subst p'.
  exists c. split; [reflexivity|]. split; [exact Ha|]. rewrite <- Ha. split; [assumption|].
  split; [cbn; now rewrite fupd_same|]. split; [assumption|]. split; [cbn; now rewrite fupd_same|].
  intros c' [h1 h2] He.
  set (sf := set_conn _ c _) in *.
  assert (Hin2 : In c' (reg sf id)).
  { rewrite (inv_reg sf I'). apply filter_In. split; [now apply (inv_order sf I')|].
    apply live_for_true. auto. }
  unfold sf in Hin2. cbn in Hin2. rewrite fupd_same in Hin2. contradiction.
Qed.

(* peer-gone FRAMES only come out of pending notices (Notify), and go to the then-active
   connection of the peer: any other step leaves the FGone frames of every queue unchanged. *)
Definition is_gone (f : frame) : bool := match f with FGone _ => true | _ => false end.

(* Send: the datagram is queued on the ACTIVE connection of the destination (which, by the
   invariant, is its newest live one), with the sender's AUTHENTICATED id, and sent_to is
   recorded exactly when it was queued. *)
Lemma send_goes_to_active s a d tg s' b rest :
  step true s (Send a d tg) = Some s' -> reg s d = b :: rest ->
  cstate (conns s b) <> Done -> len (pq (conns s b)) < cap s ->
  pq (conns s' b) = pq (conns s b) ++ [FData (eid (conns s a)) tg] /\
  In d (sent s' (eid (conns s a))) /\
  forall c, c <> b -> pq (conns s' c) = pq (conns s c).
Proof.
  intros H Hreg Hnd Hroom. cbn [step] in H.
  destruct (is_running (cstate (conns s a))); [|discriminate]. rewrite Hreg in H.
  destruct (cstate (conns s b)) eqn:Eb; try congruence; cbn in H;
  (destruct (len (pq (conns s b)) <? cap s) eqn:El; [|apply N.ltb_ge in El; lia]);
  injection H as <-; cbn; rewrite ?fupd_same; (split; [reflexivity|]);
  (split; [|intros c Hc; now rewrite fupd_other by assumption]).
  all: assert (Hadd : forall x l, In x (add_sorted x l))
         by (intros x l; induction l as [|y r IH]; cbn; [now left|];
             destruct (x <? y); [now left|]; destruct (x =? y) eqn:E; [apply N.eqb_eq in E; subst; now left|now right]);
       apply Hadd.
Qed.

(* ---------------------------------------------------------------- the defect that was fixed *)
(* Without the entry lock held across Client::new (locked = false) the schedule
   register a; [spawn b; exit b; unregister b; insert b] leaves b — whose task has ended —
   registered as the active connection while a is open. *)
Definition bad_trace : list event :=
  [Spawn 0 2; Insert 0; Spawn 0 2; Exit 1; Unregister 1; Insert 1].

Example unlocked_register_refuted :
  exists s, run false (init 3) bad_trace = Some s /\
            reg s 0 = [1; 0] /\ cstate (conns s 1) = Done /\ cstate (conns s 0) = Running.
Proof. eexists. split; [vm_compute; reflexivity|]. repeat split. Qed.

(* with the lock the same schedule is not possible: unregister b is not enabled before insert b *)
Example locked_register_blocks : run true (init 3) bad_trace = None.
Proof. reflexivity. Qed.

(* non-vacuity: three connections of one id, promotion order, peer-gone after the last *)
Example promotion_example :
  exists s, run true (init 3)
    [Spawn 0 2; Insert 0; Spawn 0 1; Insert 1; Spawn 0 2; Insert 2; Spawn 1 2; Insert 3;
     Send 2 1 7; Exit 2; Unregister 2; Exit 0; Unregister 0; Exit 1; Unregister 1; Notify 0] = Some s /\
    reg s 0 = [] /\ mq (conns s 1) = [FHealth 1; FHealth 0] /\ mq (conns s 0) = [FStatus 1] /\
    mq (conns s 3) = [FGone 0] /\ pq (conns s 3) = [FData 0 7].
Proof. eexists. split; [vm_compute; reflexivity|]. repeat split. Qed.

(* ---------------------------------------------------------------- script level: every state the
   harness script semantics visits is reachable in the transition system, hence satisfies Inv *)
Lemma doev_reach s e : reach s -> reach (doev s e).
Proof.
  intros H. unfold doev. change locked_register with true.
  destruct (step true s e) eqn:E; [econstructor; eassumption|assumption].
Qed.

Lemma fold_left_reach {A} (f : state -> A -> state) l :
  (forall s c, reach s -> reach (f s c)) -> forall s, reach s -> reach (fold_left f l s).
Proof. intros Hf. induction l as [|a l IH]; cbn; intros s H; [assumption|]. apply IH, Hf, H. Qed.

Lemma settle_exits_reach s : reach s -> reach (settle_exits s).
Proof.
  unfold settle_exits. apply fold_left_reach. intros t c H.
  destruct (_ && _); [now apply doev_reach|assumption].
Qed.

Lemma deliver_all_reach fuel : forall s c pkt, reach s -> reach (deliver_all fuel s c pkt).
Proof.
  induction fuel as [|f IH]; cbn [deliver_all]; intros s c pkt H; [assumption|].
  change locked_register with true.
  destruct (step true s (Deliver c pkt)) eqn:E; [|assumption].
  apply IH. econstructor; eassumption.
Qed.

Lemma settle_reach s : reach s -> reach (settle s).
Proof.
  intros H. unfold settle, settle_deliver. apply fold_left_reach.
  - intros t c Ht. now apply deliver_all_reach, deliver_all_reach.
  - now apply settle_exits_reach.
Qed.

Lemma notify_all_reach fuel : forall s, reach s -> reach (notify_all fuel s).
Proof.
  induction fuel as [|f IH]; cbn [notify_all]; intros s H; [assumption|].
  destruct (pending s); [assumption|]. now apply IH, doev_reach.
Qed.

Lemma unregister_full_reach s c : reach s -> reach (unregister_full s c).
Proof. intros H. unfold unregister_full. now apply notify_all_reach, doev_reach. Qed.

Lemma shut_all_reach s : reach s -> reach (shut_all s).
Proof.
  intros H. unfold shut_all.
  apply fold_left_reach; [intros; now apply doev_reach|].
  apply fold_left_reach; [intros; now apply doev_reach|assumption].
Qed.

#[local] Hint Resolve doev_reach settle_reach unregister_full_reach shut_all_reach : c06.

Lemma exec_op_reach ss o : reach (st ss) -> reach (st (fst (exec_op ss o))).
Proof.
  intros H. unfold exec_op, skip. change locked_register with true.
  repeat match goal with
         | |- context [match ?x with _ => _ end] => destruct x
         end; cbn [fst st]; auto 6 with c06.
Qed.

Lemma exec_ops_reach l : forall ss, reach (st ss) -> Forall (fun p => reach (st (fst p))) (exec_ops ss l).
Proof.
  induction l as [|o l IH]; intros ss H; cbn [exec_ops].
  - destruct (win ss); [|constructor].
    pose proof (exec_op_reach ss (OInsert n) H) as H1.
    destruct (exec_op ss (OInsert n)) as [ss1 r]. constructor; [exact H1|constructor].
  - pose proof (exec_op_reach ss o H) as H1.
    destruct (exec_op ss o) as [ss1 r]. constructor; [exact H1|]. apply IH, H1.
Qed.

(* what the model reports is its own state *)
Lemma nth_states s c :
  c < nconns s -> nth (N.to_nat c) (states_of s) 2 = cst_code (cstate (conns s c)).
Proof.
  intros H. unfold states_of, crange.
  set (g := fun c0 => cst_code (cstate (conns s c0))).
  rewrite map_map.
  rewrite (nth_indep _ 2 ((fun x => g (N.of_nat x)) 0%nat)) by (rewrite map_length, seq_length; lia).
  rewrite (map_nth (fun x => g (N.of_nat x))). rewrite seq_nth by lia. cbn. unfold g. now rewrite N2Nat.id.
Qed.

Lemma expected_stack_model s id :
  Inv s -> expected_stack s (states_of s) id = reg s id.
Proof.
  intros I. rewrite (inv_reg s I). unfold expected_stack. apply filter_ext_in. intros c Hc.
  assert (Hlt : c < nconns s).
  { apply (inv_order s I) in Hc. destruct (N.lt_ge_cases c (nconns s)) as [?|Hge]; [assumption|].
    destruct (inv_fresh s I c Hge). congruence. }
  rewrite nth_states by assumption. unfold live_for. f_equal.
  now destruct (cstate (conns s c)).
Qed.

Lemma snapshot_ids_ok s : forallb (fun e : N * N * list N => fst (fst e) <? 4) (snapshot s) = true.
Proof.
  unfold snapshot, ids. cbn [flat_map].
  destruct (reg s 0), (reg s 1), (reg s 2), (reg s 3); reflexivity.
Qed.

Lemma stack_of_snapshot s id : In id ids -> stack_of_snap (snapshot s) id = reg s id.
Proof.
  unfold ids. cbn [In]. intros H.
  unfold stack_of_snap, snapshot, ids. cbn [flat_map].
  destruct H as [<-|[<-|[<-|[<-|[]]]]];
    destruct (reg s 0) eqn:E0, (reg s 1) eqn:E1, (reg s 2) eqn:E2, (reg s 3) eqn:E3;
    repeat (cbn;
            repeat match goal with
                   | |- context [N.eqb ?a ?b] =>
                       let v := eval vm_compute in (N.eqb a b) in change (N.eqb a b) with v
                   end);
    rewrite ?rev_involutive; reflexivity.
Qed.

Lemma registry_ok_model ss0 ss1 r : Inv (st ss1) -> registry_ok (st ss1) (observe ss0 ss1 r) = true.
Proof.
  intros I. unfold registry_ok, observe. cbn [o_snap o_states].
  destruct (win ss1); [reflexivity|].
  rewrite snapshot_ids_ok. cbn [andb].
  apply forallb_forall. intros id Hid.
  rewrite stack_of_snapshot by assumption. rewrite expected_stack_model by assumption.
  apply list_eqb_refl, N.eqb_refl.
Qed.


(* ---------------------------------------------------------------- settle, connection by connection *)
Definition frame_eq (s s' : state) : Prop :=
  nconns s' = nconns s /\ reg s' = reg s /\ sent s' = sent s /\ pending s' = pending s /\
  order s' = order s /\ cap s' = cap s.

Lemma frame_eq_refl s : frame_eq s s.
Proof. repeat split. Qed.
Lemma frame_eq_trans s t u : frame_eq s t -> frame_eq t u -> frame_eq s u.
Proof. unfold frame_eq. intuition congruence. Qed.

Definition pointwise (g : conn -> conn) (l : list N) (s s' : state) : Prop :=
  frame_eq s s' /\ forall c, conns s' c = if existsb (N.eqb c) l then g (conns s c) else conns s c.

Lemma existsb_notin c l : ~ In c l -> existsb (N.eqb c) l = false.
Proof.
  intros H. destruct (existsb (N.eqb c) l) eqn:E; [|reflexivity].
  apply existsb_exists in E as (x & Hx & Ex). apply N.eqb_eq in Ex. subst. contradiction.
Qed.

Lemma fold_pointwise (F : state -> N -> state) g :
  (forall s c, pointwise g [c] s (F s c)) ->
  forall l, NoDup l -> forall s, pointwise g l s (fold_left F l s).
Proof.
  intros HF. induction l as [|a l IH]; intros Hnd s; cbn [fold_left].
  - split; [apply frame_eq_refl|]. intros c. reflexivity.
  - inversion Hnd as [|? ? Hn Hnd']. subst.
    destruct (HF s a) as [Hf Hc]. destruct (IH Hnd' (F s a)) as [Hf' Hc'].
    split; [eapply frame_eq_trans; eassumption|].
    intros c. rewrite Hc', Hc. cbn [existsb]. rewrite orb_false_r.
    destruct (c =? a) eqn:E; cbn [orb]; [|reflexivity].
    apply N.eqb_eq in E. subst c. now rewrite existsb_notin.
Qed.

Lemma pointwise_comp g1 g2 l s s1 s2 :
  pointwise g1 l s s1 -> pointwise g2 l s1 s2 -> pointwise (fun x => g2 (g1 x)) l s s2.
Proof.
  intros [f1 c1] [f2 c2]. split; [eapply frame_eq_trans; eassumption|].
  intros c. rewrite c2, c1. now destruct (existsb _ _).
Qed.

Definition exit_conn (x : conn) : conn :=
  if is_running (cstate x) && (cancelled x || closed x) then with_cstate x Exited else x.

Definition drain_conn (x : conn) : conn :=
  if is_running (cstate x)
  then mkConn (eid x) (ver x) (cstate x) (cancelled x) (closed x) (inserted x) (taken x) [] [] (got x ++ pq x ++ mq x)
  else x.

Definition settle_conn (x : conn) : conn := drain_conn (exit_conn x).

Lemma set_conn_pointwise s c g :
  pointwise g [c] s (set_conn s c (g (conns s c))).
Proof.
  split; [repeat split|]. intros c'. cbn. unfold fupd. rewrite orb_false_r.
  destruct (c' =? c) eqn:E; [|reflexivity]. apply N.eqb_eq in E. now subst.
Qed.

Lemma pointwise_id s c g : g (conns s c) = conns s c -> pointwise g [c] s s.
Proof.
  intros H. split; [apply frame_eq_refl|]. intros c'. cbn. rewrite orb_false_r.
  destruct (c' =? c) eqn:E; [|reflexivity]. apply N.eqb_eq in E. subst. now rewrite H.
Qed.

Lemma exits_pointwise s c :
  pointwise exit_conn [c] s
    (let x := conns s c in
     if is_running (cstate x) && (cancelled x || closed x) then doev s (Exit c) else s).
Proof.
  cbv zeta. destruct (is_running (cstate (conns s c)) && _) eqn:E.
  - unfold doev. change locked_register with true. cbn [step].
    apply andb_prop in E as [E1 E2]. rewrite E1.
    replace (with_cstate (conns s c) Exited) with (exit_conn (conns s c)).
    + apply set_conn_pointwise.
    + unfold exit_conn. now rewrite E1, E2.
  - apply pointwise_id. unfold exit_conn. now rewrite E.
Qed.

Lemma deliver_pq_pointwise fuel : forall s c,
  fuel = length (pq (conns s c)) ->
  pointwise (fun x => if is_running (cstate x) then with_pq_got x [] (got x ++ pq x) else x) [c] s
            (deliver_all fuel s c true).
Proof.
  induction fuel as [|f IH]; intros s c Hf; cbn [deliver_all].
  - apply pointwise_id. destruct (pq (conns s c)) eqn:E; [|discriminate].
    destruct (is_running _); [|reflexivity]. unfold with_pq_got. rewrite app_nil_r.
    destruct (conns s c); cbn in *; now subst.
  - change locked_register with true. cbn [step].
    destruct (is_running (cstate (conns s c))) eqn:Er.
    + destruct (pq (conns s c)) as [|f0 r] eqn:Ep; [discriminate|].
      set (s2 := set_conn s c _).
      assert (H2 : f = length (pq (conns s2 c))).
      { unfold s2. cbn. rewrite fupd_same. cbn. cbn in Hf. lia. }
      destruct (IH s2 c H2) as [Hfr Hc]. split.
      * eapply frame_eq_trans; [|exact Hfr]. unfold s2. repeat split.
      * intros c'. rewrite Hc. cbn [existsb]. rewrite orb_false_r. unfold s2. cbn. unfold fupd.
        destruct (c' =? c) eqn:E; [|reflexivity]. apply N.eqb_eq in E. subst c'.
        cbn. rewrite Er. unfold with_pq_got. cbn. rewrite Ep. now rewrite <- app_assoc.
    + apply pointwise_id. now rewrite Er.
Qed.

Lemma deliver_mq_pointwise fuel : forall s c,
  fuel = length (mq (conns s c)) ->
  pointwise (fun x => if is_running (cstate x) then with_mq_got x [] (got x ++ mq x) else x) [c] s
            (deliver_all fuel s c false).
Proof.
  induction fuel as [|f IH]; intros s c Hf; cbn [deliver_all].
  - apply pointwise_id. destruct (mq (conns s c)) eqn:E; [|discriminate].
    destruct (is_running _); [|reflexivity]. unfold with_mq_got. rewrite app_nil_r.
    destruct (conns s c); cbn in *; now subst.
  - change locked_register with true. cbn [step].
    destruct (is_running (cstate (conns s c))) eqn:Er.
    + destruct (mq (conns s c)) as [|f0 r] eqn:Ep; [discriminate|].
      set (s2 := set_conn s c _).
      assert (H2 : f = length (mq (conns s2 c))).
      { unfold s2. cbn. rewrite fupd_same. cbn. cbn in Hf. lia. }
      destruct (IH s2 c H2) as [Hfr Hc]. split.
      * eapply frame_eq_trans; [|exact Hfr]. unfold s2. repeat split.
      * intros c'. rewrite Hc. cbn [existsb]. rewrite orb_false_r. unfold s2. cbn. unfold fupd.
        destruct (c' =? c) eqn:E; [|reflexivity]. apply N.eqb_eq in E. subst c'.
        cbn. rewrite Er. unfold with_mq_got. cbn. rewrite Ep. now rewrite <- app_assoc.
    + apply pointwise_id. now rewrite Er.
Qed.

Lemma drain_pointwise s c :
  pointwise drain_conn [c] s
    (let s1 := deliver_all (length (pq (conns s c))) s c true in
     deliver_all (length (mq (conns s1 c))) s1 c false).
Proof.
  cbv zeta. set (s1 := deliver_all (length (pq (conns s c))) s c true).
  pose proof (deliver_pq_pointwise _ s c eq_refl) as H1. fold s1 in H1.
  pose proof (deliver_mq_pointwise _ s1 c eq_refl) as H2.
  pose proof (pointwise_comp _ _ _ _ _ _ H1 H2) as [Hf Hc]. split; [exact Hf|].
  intros c'. rewrite Hc. destruct (existsb _ _); [|reflexivity].
  unfold drain_conn. destruct (is_running (cstate (conns s c'))) eqn:E; cbn; rewrite ?E; [|reflexivity].
  unfold with_mq_got, with_pq_got. cbn. now rewrite <- app_assoc.
Qed.

Lemma crange_NoDup s : NoDup (crange s).
Proof.
  unfold crange. apply FinFun.Injective_map_NoDup; [|apply seq_NoDup].
  intros a b H. now apply Nat2N.inj.
Qed.

Lemma crange_existsb s c : existsb (N.eqb c) (crange s) = (c <? nconns s).
Proof.
  destruct (c <? nconns s) eqn:E.
  - apply existsb_exists. exists c. split; [|apply N.eqb_refl].
    unfold crange. apply in_map_iff. exists (N.to_nat c). split; [apply N2Nat.id|].
    apply in_seq. lia.
  - apply existsb_notin. unfold crange. intros H. apply in_map_iff in H as (x & Hx & Hin).
    apply in_seq in Hin. lia.
Qed.

Lemma settle_spec s :
  frame_eq s (settle s) /\
  forall c, conns (settle s) c = if c <? nconns s then settle_conn (conns s c) else conns s c.
Proof.
  unfold settle.
  assert (H1 : pointwise exit_conn (crange s) s (settle_exits s)).
  { unfold settle_exits. apply (fold_pointwise _ _ exits_pointwise), crange_NoDup. }
  assert (Hcr : crange (settle_exits s) = crange s).
  { unfold crange. destruct H1 as [(hn & _) _]. now rewrite hn. }
  assert (H2 : pointwise drain_conn (crange s) (settle_exits s) (settle_deliver (settle_exits s))).
  { unfold settle_deliver. rewrite Hcr. apply (fold_pointwise _ _ drain_pointwise), crange_NoDup. }
  destruct (pointwise_comp _ _ _ _ _ _ H1 H2) as [Hf Hc]. split; [exact Hf|].
  intros c. rewrite Hc, crange_existsb. reflexivity.
Qed.

Lemma settle_taken s c : taken (conns (settle s) c) = taken (conns s c).
Proof.
  destruct (settle_spec s) as [_ Hc]. rewrite Hc. destruct (c <? nconns s); [|reflexivity].
  unfold settle_conn, drain_conn, exit_conn.
  destruct (is_running (cstate (conns s c)) && _); cbn; [reflexivity|].
  destruct (is_running (cstate (conns s c))); reflexivity.
Qed.

(* ---------------------------------------------------------------- between two script operations *)
Definition queues (x : conn) : list frame := pq x ++ mq x.

Record Sett (s : state) : Prop := {
  sett_q : forall c, is_running (cstate (conns s c)) = true ->
           (cancelled (conns s c) || closed (conns s c)) = false /\ pq (conns s c) = [] /\ mq (conns s c) = [];
  sett_p : pending s = []
}.

Lemma Inv_not_running_fresh s c : Inv s -> nconns s <= c -> is_running (cstate (conns s c)) = false.
Proof. intros I H. destruct (inv_fresh s I c H) as [_ ->]. reflexivity. Qed.

Lemma settle_Sett s : Inv s -> pending s = [] -> Sett (settle s).
Proof.
  intros I Hp. destruct (settle_spec s) as [(hn & hr & hs & hp & ho & hc) Hc]. constructor.
  - intros c. rewrite Hc. destruct (c <? nconns s) eqn:E.
    + unfold settle_conn, drain_conn, exit_conn.
      destruct (is_running (cstate (conns s c))) eqn:Er; cbn [andb].
      * destruct (cancelled (conns s c) || closed (conns s c)) eqn:Ecc; cbn; [discriminate|].
        rewrite Er. cbn. auto.
      * rewrite Er. congruence.
    + rewrite Inv_not_running_fresh by (assumption || lia). discriminate.
  - congruence.
Qed.

(* the frames a connection receives in an operation that ends with [settle s'] *)
Definition delivered (s' : state) (c : N) : list frame :=
  let x := conns s' c in
  if is_running (cstate x) && negb (cancelled x || closed x) then pq x ++ mq x else [].

Lemma settle_got s' c :
  c < nconns s' -> got (conns (settle s') c) = got (conns s' c) ++ delivered s' c.
Proof.
  intros H. destruct (settle_spec s') as [_ Hc]. rewrite Hc.
  apply N.ltb_lt in H. rewrite H. unfold settle_conn, drain_conn, exit_conn, delivered.
  destruct (is_running (cstate (conns s' c))) eqn:Er; cbn [andb negb].
  - destruct (cancelled (conns s' c) || closed (conns s' c)); cbn; [now rewrite app_nil_r|].
    rewrite Er. reflexivity.
  - rewrite Er. now rewrite app_nil_r.
Qed.

Lemma settle_running s' c : Inv s' ->
  is_running (cstate (conns (settle s') c)) = true ->
  c < nconns s' /\ is_running (cstate (conns s' c)) = true /\
  (cancelled (conns s' c) || closed (conns s' c)) = false.
Proof.
  intros I. destruct (settle_spec s') as [_ Hc]. rewrite Hc.
  destruct (c <? nconns s') eqn:El.
  - apply N.ltb_lt in El. unfold settle_conn, drain_conn, exit_conn.
    destruct (is_running (cstate (conns s' c))) eqn:Er; cbn [andb].
    + destruct (cancelled (conns s' c) || closed (conns s' c)); cbn; [discriminate|auto].
    + rewrite Er. congruence.
  - apply N.ltb_ge in El. rewrite Inv_not_running_fresh by assumption. discriminate.
Qed.

(* ---- how one registry event changes a connection: frames received so far, and where the
        frames in the queues of a running connection come from ---- *)
Definition cdelta (P : frame -> Prop) (x y : conn) : Prop :=
  got y = got x /\ (is_running (cstate y) = true -> is_running (cstate x) = true) /\
  forall f, In f (queues y) -> In f (queues x) \/ P f.

Lemma cdelta_refl P x : cdelta P x x.
Proof. repeat split; auto. Qed.
Lemma cdelta_trans P x y z : cdelta P x y -> cdelta P y z -> cdelta P x z.
Proof.
  intros (a & b & c) (a' & b' & c'). split; [congruence|]. split; [auto|].
  intros f Hf. destruct (c' f Hf) as [H|H]; auto.
Qed.
Lemma cdelta_weaken (P Q : frame -> Prop) x y : (forall f, P f -> Q f) -> cdelta P x y -> cdelta Q x y.
Proof. intros H (a & b & c). repeat split; auto. intros f Hf. destruct (c f Hf); auto. Qed.

Lemma enqueue_m_cdelta s a f c : cdelta (fun f' => f' = f) (conns s c) (conns (enqueue_m s a f) c).
Proof.
  unfold enqueue_m. destruct (is_done _); [apply cdelta_refl|].
  destruct (_ <? _); [|apply cdelta_refl]. cbn. unfold fupd.
  destruct (c =? a) eqn:E; [|apply cdelta_refl]. apply N.eqb_eq in E. subst c.
  repeat split; auto. intros f' Hf. unfold queues in *. cbn in Hf.
  rewrite app_assoc in Hf. apply in_app_or in Hf as [Hf|[Hf|[]]]; auto.
Qed.

Lemma cancel_cdelta P s b c : cdelta P (conns s c) (conns (cancel s b) c).
Proof.
  unfold cancel. cbn. unfold fupd. destruct (c =? b) eqn:E; [|apply cdelta_refl].
  apply N.eqb_eq in E. subst. repeat split; auto.
Qed.

Lemma fold_cancel_cdelta P l : forall s c, cdelta P (conns s c) (conns (fold_left cancel l s) c).
Proof.
  induction l as [|a l IH]; intros s c; cbn; [apply cdelta_refl|].
  eapply cdelta_trans; [apply cancel_cdelta|apply IH].
Qed.

Definition notgone (f : frame) : Prop := forall X, f <> FGone X.
Lemma status_notgone v k : notgone (status_frame v k).
Proof. intros X. unfold status_frame. destruct (v =? 1); discriminate. Qed.

Definition evsrc (s : state) (e : event) (f : frame) : Prop :=
  notgone f \/ exists k p X, e = Notify k /\ nth_error (pending s) (N.to_nat k) = Some (X, p) /\ f = FGone X.

Definition script_ev (e : event) : Prop :=
  match e with Exit _ | Deliver _ _ => False | _ => True end.

Lemma step_cdelta s e s' c :
  step true s e = Some s' -> script_ev e ->
  cdelta (evsrc s e) (conns s c) (conns s' c) \/
  ((exists id v, e = Spawn id v) /\ got (conns s' c) = [] /\ queues (conns s' c) = []).
Proof.
  intros H Hs. destruct e as [id v|c0|c0|c0|c0|k|a d tg|c0 pkt|id o|id|c0]; try contradiction; cbn [step] in H.
  - injection H as <-. cbn. unfold fupd. destruct (c =? nconns s); [right; eauto|left; apply cdelta_refl].
  - destruct (_ && _); [|discriminate]. injection H as <-. left. cbn.
    set (s1 := match reg s (eid (conns s c0)) with [] => _ | _ :: _ => _ end).
    assert (H1 : cdelta (evsrc s (Insert c0)) (conns s c) (conns s1 c)).
    { unfold s1. destruct (reg s (eid (conns s c0))) as [|a rest]; [apply cdelta_refl|]. cbn.
      eapply cdelta_weaken; [|apply enqueue_m_cdelta]. intros f ->. left. apply status_notgone. }
    unfold fupd. destruct (c =? c0) eqn:E; [|exact H1]. apply N.eqb_eq in E. subst c0.
    eapply cdelta_trans; [exact H1|]. repeat split; auto.
  - destruct (_ <? _); [|discriminate]. injection H as <-. left. cbn. unfold fupd.
    destruct (c =? c0) eqn:E; [|apply cdelta_refl]. apply N.eqb_eq in E. subst. repeat split; auto.
  - destruct (_ && _); [|discriminate]. injection H as <-. left. cbn.
    set (s1 := match reg s (eid (conns s c0)) with [] => s | _ :: _ => _ end).
    assert (H1 : cdelta (evsrc s (Unregister c0)) (conns s c) (conns s1 c)).
    { unfold s1. destruct (reg s (eid (conns s c0))) as [|a rest]; [apply cdelta_refl|].
      destruct (a =? c0); [|apply cdelta_refl]. destruct rest as [|p rest']; [apply cdelta_refl|].
      eapply cdelta_weaken; [|apply (enqueue_m_cdelta (set_reg s (eid (conns s c0)) (p :: rest')))].
      intros f ->. left. apply status_notgone. }
    unfold fupd. destruct (c =? c0) eqn:E; [|exact H1]. apply N.eqb_eq in E. subst c0.
    eapply cdelta_trans; [exact H1|]. repeat split; auto. cbn. discriminate.
  - destruct (nth_error (pending s) (N.to_nat k)) as [[gone peer]|] eqn:En; [|discriminate]. left.
    set (s1 := set_pending s _) in *.
    destruct (reg s1 peer) as [|a rest]; injection H as <-; [apply cdelta_refl|].
    eapply cdelta_weaken; [|apply (enqueue_m_cdelta s1)]. intros f ->. right. eauto 6.
  - destruct (is_running _); [|discriminate]. left.
    destruct (reg s d) as [|b rest]; [injection H as <-; apply cdelta_refl|].
    destruct (is_done _); [injection H as <-; apply cancel_cdelta|].
    destruct (_ <? _); injection H as <-; [|apply cdelta_refl]. cbn. unfold fupd.
    destruct (c =? b) eqn:E; [|apply cdelta_refl]. apply N.eqb_eq in E. subst c.
    repeat split; auto. intros f Hf. unfold queues in *. cbn in Hf.
    apply in_app_or in Hf as [Hf|Hf]; [|left; apply in_or_app; auto].
    apply in_app_or in Hf as [Hf|[Hf|[]]]; [left; apply in_or_app; auto|].
    right. left. intros X. rewrite <- Hf. discriminate.
  - left. destruct o as [c1|].
    + destruct (existsb _ _); injection H as <-; [apply cancel_cdelta|apply cdelta_refl].
    + injection H as <-. apply fold_cancel_cdelta.
  - left. injection H as <-. cbn. destruct (existsb _ _); [|apply cdelta_refl]. repeat split; auto.
  - left. destruct (taken _); [|discriminate]. injection H as <-. apply cancel_cdelta.
Qed.

(* ---- peer-gone notices are in flight only for endpoints without an entry ---- *)
Definition gclean (s : state) : Prop :=
  (forall c X, is_running (cstate (conns s c)) = true -> ~ In (FGone X) (queues (conns s c))) /\
  pending s = [].
Definition gsafe (s : state) : Prop :=
  (forall c X, is_running (cstate (conns s c)) = true -> In (FGone X) (queues (conns s c)) -> reg s X = []) /\
  (forall X p, In (X, p) (pending s) -> reg s X = []).

Lemma Sett_gclean s : Sett s -> gclean s.
Proof.
  intros [Hq Hp]. split; [|assumption]. intros c X Hr. destruct (Hq c Hr) as (_ & e1 & e2).
  unfold queues. rewrite e1, e2. auto.
Qed.

Lemma gclean_gsafe s : gclean s -> gsafe s.
Proof. intros [H1 H2]. split; [intros c X Hr Hin; now apply H1 in Hin|rewrite H2; contradiction]. Qed.

Inductive simple_ev : event -> Prop :=
| se_spawn id v : simple_ev (Spawn id v)
| se_insert c : simple_ev (Insert c)
| se_close c : simple_ev (Close c)
| se_send a d t : simple_ev (Send a d t)
| se_disc id o : simple_ev (Disconnect id o).

Lemma simple_pending s e s' : simple_ev e -> step true s e = Some s' -> pending s' = pending s.
Proof.
  intros He H. destruct He; cbn [step] in H.
  - now injection H as <-.
  - destruct (_ && _); [|discriminate]. injection H as <-. cbn.
    destruct (reg s (eid (conns s c))); cbn; [reflexivity|].
    now destruct (enqueue_m_fields s n (status_frame (ver (conns s n)) 1)) as (_ & -> & _).
  - destruct (_ <? _); [|discriminate]. now injection H as <-.
  - destruct (is_running _); [|discriminate]. destruct (reg s d); [now injection H as <-|].
    destruct (is_done _); [now injection H as <-|]. destruct (_ <? _); now injection H as <-.
  - destruct o as [c|].
    + destruct (existsb _ _); now injection H as <-.
    + injection H as <-.
      assert (Hf : forall l t, pending (fold_left cancel l t) = pending t).
      { induction l as [|z l IHl]; intros t; cbn; [reflexivity|]. now rewrite IHl. }
      apply Hf.
Qed.

Lemma simple_script e : simple_ev e -> script_ev e.
Proof. now destruct 1. Qed.

Lemma simple_gclean s e : simple_ev e -> gclean s -> gclean (doev s e).
Proof.
  intros He [H1 H2]. unfold doev. change locked_register with true.
  destruct (step true s e) as [s'|] eqn:E; [|split; assumption].
  split; [|now rewrite (simple_pending s e s' He E)].
  intros c X Hr Hin.
  destruct (step_cdelta s e s' c E (simple_script e He)) as [(_ & hr & hq)|(_ & _ & hq)].
  - destruct (hq _ Hin) as [Hold|[Hng|(k & p & Y & -> & _)]].
    + apply (H1 c X); auto.
    + now apply (Hng X).
    + inversion He.
  - rewrite hq in Hin. contradiction.
Qed.

Lemma unregister_gsafe s c : Inv s -> gclean s -> gsafe (doev s (Unregister c)).
Proof.
  intros I [H1 H2]. unfold doev. change locked_register with true.
  destruct (step true s (Unregister c)) as [s'|] eqn:E; [|apply gclean_gsafe; split; assumption].
  split.
  - intros c' X Hr Hin. exfalso.
    destruct (step_cdelta s _ s' c' E Logic.I) as [(_ & hr & hq)|(_ & _ & hq)].
    + destruct (hq _ Hin) as [Hold|[Hng|(k & p & Y & Hk & _)]].
      * apply (H1 c' X); auto.
      * now apply (Hng X).
      * discriminate Hk.
    + rewrite hq in Hin. contradiction.
  - intros X p Hin.
    destruct (peer_gone_only_after_last s _ s' X p I E Hin) as (c' & _ & _ & _ & Hr & _).
    + rewrite H2. auto.
    + exact Hr.
Qed.

Lemma remove_nth_in {A} (l : list A) : forall n y, In y (remove_nth n l) -> In y l.
Proof. induction l as [|z l IHl]; intros [|n] y; cbn; auto. intros [Hy|Hy]; [now left|right; eauto]. Qed.

Lemma notify_gsafe s k : gsafe s -> gsafe (doev s (Notify k)).
Proof.
  intros [H1 H2]. unfold doev. change locked_register with true.
  destruct (step true s (Notify k)) as [s'|] eqn:E; [|split; assumption].
  assert (Hreg : forall i, reg s' i = reg s i).
  { apply (step_same_reg s (Notify k) s' E). }
  split.
  - intros c X Hr Hin. rewrite Hreg.
    destruct (step_cdelta s _ s' c E Logic.I) as [(_ & hr & hq)|(_ & _ & hq)].
    + destruct (hq _ Hin) as [Hold|[Hng|(k' & p & Y & _ & Hn & HY)]].
      * apply (H1 c X); auto.
      * now destruct (Hng X).
      * injection HY as <-. apply (H2 X p). eapply nth_error_In; eassumption.
    + rewrite hq in Hin. contradiction.
  - intros X p Hin. rewrite Hreg. apply (H2 X p).
    cbn [step] in E. destruct (nth_error (pending s) (N.to_nat k)) as [[gone peer]|]; [|discriminate].
    set (s1 := set_pending s _) in *.
    assert (Hp : pending s' = pending s1).
    { destruct (reg s1 peer); injection E as <-; [reflexivity|].
      now destruct (enqueue_m_fields s1 n (FGone gone)) as (_ & -> & _). }
    rewrite Hp in Hin. unfold s1 in Hin. cbn in Hin. eapply remove_nth_in; eassumption.
Qed.

Lemma notify_all_gsafe fuel : forall s, gsafe s -> gsafe (notify_all fuel s).
Proof.
  induction fuel as [|f IH]; intros s H; cbn [notify_all]; [assumption|].
  destruct (pending s); [assumption|]. now apply IH, notify_gsafe.
Qed.

Lemma notify_all_pending fuel : forall s, fuel = length (pending s) -> pending (notify_all fuel s) = [].
Proof.
  induction fuel as [|f IH]; intros s Hf; cbn [notify_all].
  - now destruct (pending s).
  - destruct (pending s) as [|[gone peer] r] eqn:Ep; [assumption|]. apply IH.
    unfold doev. change locked_register with true. cbn [step]. rewrite Ep. cbn [N.to_nat nth_error remove_nth].
    set (s1 := set_pending s r).
    assert (length (pending s1) = f) by (cbn in *; lia).
    destruct (reg s1 peer); [congruence|].
    destruct (enqueue_m_fields s1 n (FGone gone)) as (_ & -> & _). congruence.
Qed.

(* ---- Clients::shutdown: the entries are taken out, the taken connections stopped ---- *)
Inductive shut_ev : event -> Prop :=
| sh_take id : shut_ev (ShutTake id)
| sh_stop c : shut_ev (ShutStop c).

Lemma shut_script e : shut_ev e -> script_ev e.
Proof. now destruct 1. Qed.

Lemma shut_all_prop (P : state -> Prop) s :
  (forall t e, shut_ev e -> P t -> P (doev t e)) -> P s -> P (shut_all s).
Proof.
  intros HP H. unfold shut_all.
  assert (F : forall {A} (f : A -> event), (forall a, shut_ev (f a)) ->
            forall l t, P t -> P (fold_left (fun s a => doev s (f a)) l t)).
  { intros A f Hf l. induction l as [|a l IH]; intros t Ht; cbn [fold_left]; [assumption|].
    apply IH, HP; [apply Hf|assumption]. }
  apply (F _ ShutStop); [constructor|]. apply (F _ ShutTake); [constructor|assumption].
Qed.

Lemma shut_pending s e : shut_ev e -> pending (doev s e) = pending s.
Proof.
  intros He. unfold doev. change locked_register with true. destruct He; cbn [step]; [reflexivity|].
  destruct (taken _); reflexivity.
Qed.

Lemma shut_gclean s e : shut_ev e -> gclean s -> gclean (doev s e).
Proof.
  intros He [H1 H2]. split; [|now rewrite shut_pending].
  unfold doev. change locked_register with true.
  destruct (step true s e) as [s'|] eqn:E; [|assumption].
  intros c X Hr Hin.
  destruct (step_cdelta s e s' c E (shut_script e He)) as [(_ & hr & hq)|(_ & _ & hq)].
  - destruct (hq _ Hin) as [Hold|[Hng|(k & p & Y & -> & _)]].
    + apply (H1 c X); auto.
    + now apply (Hng X).
    + inversion He.
  - rewrite hq in Hin. contradiction.
Qed.

(* what the first half does: the entries of the ids in L are gone, their connections marked *)
Lemma flat_map_ext_in {A B} (f g : A -> list B) l : (forall x, In x l -> f x = g x) -> flat_map f l = flat_map g l.
Proof.
  induction l as [|a l IH]; intros H; cbn; [reflexivity|]. rewrite (H a) by now left.
  f_equal. apply IH. intros x Hx. apply H. now right.
Qed.

Lemma existsb_app_N c (l1 l2 : list N) : existsb (N.eqb c) (l1 ++ l2) = existsb (N.eqb c) l1 || existsb (N.eqb c) l2.
Proof. apply existsb_app. Qed.

Lemma take_fold L : forall s, NoDup L ->
  let t := fold_left (fun s id => doev s (ShutTake id)) L s in
  (forall i, reg t i = if existsb (N.eqb i) L then [] else reg s i) /\
  (forall c, taken (conns t c) = taken (conns s c) || existsb (N.eqb c) (flat_map (reg s) L)).
Proof.
  induction L as [|a L IH]; intros s Hnd; cbn [fold_left].
  - split; [reflexivity|]. intros c. cbn. now rewrite orb_false_r.
  - inversion Hnd as [|? ? Hn Hnd']. subst.
    set (s1 := doev s (ShutTake a)).
    assert (Hr1 : forall i, reg s1 i = if i =? a then [] else reg s i) by (intros i; reflexivity).
    assert (Ht1 : forall c, taken (conns s1 c) = taken (conns s c) || existsb (N.eqb c) (reg s a)).
    { intros c. unfold s1, doev. change locked_register with true. cbn [step conns].
      destruct (existsb (N.eqb c) (reg s a)); cbn; [now rewrite orb_true_r|now rewrite orb_false_r]. }
    destruct (IH s1 Hnd') as [hr ht]. split.
    + intros i. rewrite hr, Hr1. cbn [existsb]. destruct (i =? a) eqn:E; cbn [orb]; [now destruct (existsb _ _)|reflexivity].
    + intros c. rewrite ht, Ht1. cbn [flat_map]. rewrite existsb_app_N, orb_assoc. f_equal.
      f_equal. apply flat_map_ext_in. intros x Hx. rewrite Hr1.
      destruct (x =? a) eqn:E; [|reflexivity]. apply N.eqb_eq in E. subst. contradiction.
Qed.

Lemma stop_fold L : forall s,
  let t := fold_left (fun s c => doev s (ShutStop c)) L s in
  (forall i, reg t i = reg s i) /\ (forall c, taken (conns t c) = taken (conns s c)).
Proof.
  induction L as [|a L IH]; intros s; cbn [fold_left]; [split; reflexivity|].
  destruct (IH (doev s (ShutStop a))) as [hr ht].
  assert (H1 : (forall i, reg (doev s (ShutStop a)) i = reg s i) /\
               (forall c, taken (conns (doev s (ShutStop a)) c) = taken (conns s c))).
  { unfold doev. change locked_register with true. cbn [step]. destruct (taken (conns s a)); [|split; reflexivity].
    destruct (same_reg_cancel s a) as (_ & _ & h3 & h4). split; [exact h3|].
    intros c. destruct (h4 c) as (_ & _ & _ & _ & e5). now rewrite e5. }
  destruct H1 as [h1 h2]. split; [intros i; now rewrite hr|intros c; now rewrite ht].
Qed.

Lemma ids_NoDup : NoDup ids.
Proof. unfold ids. repeat constructor; cbn; intuition discriminate. Qed.

Lemma shut_all_spec s :
  (forall i, reg (shut_all s) i = if existsb (N.eqb i) ids then [] else reg s i) /\
  (forall c, taken (conns (shut_all s) c) = taken (conns s c) || existsb (N.eqb c) (flat_map (reg s) ids)).
Proof.
  unfold shut_all. destruct (take_fold ids s ids_NoDup) as [hr ht]. cbv zeta in hr, ht.
  set (s1 := fold_left (fun s id => doev s (ShutTake id)) ids s) in *.
  destruct (stop_fold (flat_map (reg s) ids) s1) as [hr2 ht2]. cbv zeta in hr2, ht2.
  split; [intros i; now rewrite hr2|intros c; now rewrite ht2].
Qed.

Lemma shut_all_reg_cases s i : reg (shut_all s) i = reg s i \/ reg (shut_all s) i = [].
Proof. destruct (shut_all_spec s) as [hr _]. rewrite hr. destruct (existsb _ _); auto. Qed.

(* an entry that disappears in a shutdown: its connections are marked as taken *)
Lemma shut_all_taken s X c :
  reg s X <> [] -> reg (shut_all s) X = [] -> In c (reg s X) -> taken (conns (shut_all s) c) = true.
Proof.
  intros Hne Hnil Hin. destruct (shut_all_spec s) as [hr ht]. rewrite hr in Hnil.
  destruct (existsb (N.eqb X) ids) eqn:E; [|contradiction].
  rewrite ht. apply orb_true_iff. right. apply existsb_exists. exists c. split; [|apply N.eqb_refl].
  apply in_flat_map. exists X. split; [|assumption].
  apply existsb_exists in E as (y & Hy & Ey). apply N.eqb_eq in Ey. now subst.
Qed.

(* the state an operation reaches before its final [settle] *)
Inductive mid (s : state) : state -> Prop :=
| mid_ev e : simple_ev e -> mid s (doev s e)
| mid_reg id v : mid s (doev (doev s (Spawn id v)) (Insert (nconns s)))
| mid_unreg c : mid s (unregister_full s c)
| mid_ins_unreg c x : eid (conns s c) = eid (conns s x) -> mid s (unregister_full (doev s (Insert c)) x)
| mid_shut : mid s (shut_all s).

Lemma mid_reach s s' : reach s -> mid s s' -> reach s'.
Proof. intros H M. destruct M; auto using doev_reach, unregister_full_reach, shut_all_reach. Qed.

Lemma doev_simple_pending s e : simple_ev e -> pending (doev s e) = pending s.
Proof.
  intros He. unfold doev. change locked_register with true.
  destruct (step true s e) eqn:E; [eapply simple_pending; eassumption|reflexivity].
Qed.

Lemma mid_pending s s' : mid s s' -> pending s' = [] \/ pending s' = pending s.
Proof.
  intros M. destruct M.
  - right. now apply doev_simple_pending.
  - right. rewrite !doev_simple_pending by constructor. reflexivity.
  - left. unfold unregister_full. now apply notify_all_pending.
  - left. unfold unregister_full. now apply notify_all_pending.
  - right. apply (shut_all_prop (fun t => pending t = pending s)); [|reflexivity].
    intros t e He Ht. now rewrite shut_pending.
Qed.

Lemma mid_gsafe s s' : reach s -> Sett s -> mid s s' -> gsafe s'.
Proof.
  intros R S M. pose proof (Sett_gclean s S) as G. destruct M.
  - now apply gclean_gsafe, simple_gclean.
  - apply gclean_gsafe, simple_gclean; [constructor|]. apply simple_gclean; [constructor|assumption].
  - unfold unregister_full. apply notify_all_gsafe, unregister_gsafe; [now apply reach_Inv|assumption].
  - unfold unregister_full. apply notify_all_gsafe, unregister_gsafe.
    + now apply reach_Inv, doev_reach.
    + apply simple_gclean; [constructor|assumption].
  - apply gclean_gsafe. apply (shut_all_prop gclean); [|assumption].
    intros t e He Ht. now apply shut_gclean.
Qed.

Lemma doev_nospawn_cdelta s e c :
  script_ev e -> (forall id v, e <> Spawn id v) -> cdelta (evsrc s e) (conns s c) (conns (doev s e) c).
Proof.
  intros Hs Hn. unfold doev. change locked_register with true.
  destruct (step true s e) as [s'|] eqn:E; [|apply cdelta_refl].
  destruct (step_cdelta s e s' c E Hs) as [H|((id & v & ->) & _)]; [exact H|]. now destruct (Hn id v).
Qed.

Definition gotrel (x y : conn) : Prop := got y = got x \/ got y = [].
Lemma gotrel_trans x y z : gotrel x y -> gotrel y z -> gotrel x z.
Proof. unfold gotrel. intuition congruence. Qed.

Lemma doev_gotrel s e c : script_ev e -> gotrel (conns s c) (conns (doev s e) c).
Proof.
  intros Hs. unfold doev. change locked_register with true.
  destruct (step true s e) as [s'|] eqn:E; [|now left].
  destruct (step_cdelta s e s' c E Hs) as [(h & _)|(_ & h & _)]; [now left|now right].
Qed.

Lemma notify_all_got fuel : forall s c, got (conns (notify_all fuel s) c) = got (conns s c).
Proof.
  induction fuel as [|f IH]; intros s c; cbn [notify_all]; [reflexivity|].
  destruct (pending s); [reflexivity|]. rewrite IH.
  apply (doev_nospawn_cdelta s (Notify 0) c Logic.I). discriminate.
Qed.

Lemma unregister_full_got s x c : got (conns (unregister_full s x) c) = got (conns s c).
Proof.
  unfold unregister_full. rewrite notify_all_got.
  apply (doev_nospawn_cdelta s (Unregister x) c Logic.I). discriminate.
Qed.

Lemma mid_gotrel s s' c : mid s s' -> gotrel (conns s c) (conns s' c).
Proof.
  intros M. destruct M.
  - now apply doev_gotrel, simple_script.
  - eapply gotrel_trans; apply doev_gotrel; exact Logic.I.
  - left. apply unregister_full_got.
  - eapply gotrel_trans; [apply (doev_gotrel s (Insert c0)); exact Logic.I|]. left. apply unregister_full_got.
  - apply (shut_all_prop (fun t => gotrel (conns s c) (conns t c))); [|now left].
    intros t e He Ht. eapply gotrel_trans; [exact Ht|]. now apply doev_gotrel, shut_script.
Qed.

(* ---- in the script semantics a connection leaves its loop only when its client closed or it
        was told to stop (disconnect, shutdown, a send that found it closed) ---- *)
Definition expl_ok (x : conn) : Prop :=
  is_running (cstate x) = true \/ (cancelled x || closed x) = true.
Definition Expl (s : state) : Prop := forall c, c < nconns s -> expl_ok (conns s c).

Lemma Expl_ext s s' : nconns s' = nconns s -> conns s' = conns s -> Expl s -> Expl s'.
Proof. intros Hn Hc H c Hlt. rewrite Hc. apply H. now rewrite <- Hn. Qed.

Lemma expl_set_conn s c y : Expl s -> (expl_ok (conns s c) -> expl_ok y) -> Expl (set_conn s c y).
Proof.
  intros H Hy c' Hc'. cbn in *. unfold fupd. destruct (c' =? c) eqn:E; [|now apply H].
  apply N.eqb_eq in E. subst. apply Hy, H, Hc'.
Qed.

Lemma expl_enqueue_m s a f : Expl s -> Expl (enqueue_m s a f).
Proof.
  intros H. unfold enqueue_m. destruct (is_done _); [assumption|]. destruct (_ <? _); [|assumption].
  apply expl_set_conn; [assumption|]. intros Hx. exact Hx.
Qed.

Lemma expl_cancel s c : Expl s -> Expl (cancel s c).
Proof. intros H. apply expl_set_conn; [assumption|]. intros _. right. reflexivity. Qed.

Lemma expl_fold_cancel l : forall s, Expl s -> Expl (fold_left cancel l s).
Proof. induction l as [|a l IH]; intros s H; cbn; [assumption|]. now apply IH, expl_cancel. Qed.

Lemma enqueue_m_cstate s a f c : cstate (conns (enqueue_m s a f) c) = cstate (conns s c).
Proof.
  unfold enqueue_m. destruct (is_done _); [reflexivity|]. destruct (_ <? _); [|reflexivity].
  cbn. unfold fupd. destruct (c =? a) eqn:E; [|reflexivity]. apply N.eqb_eq in E. now subst.
Qed.

Lemma step_expl s e s' : step true s e = Some s' -> script_ev e -> Expl s -> Expl s'.
Proof.
  intros H Hs HE. destruct e as [id v|c0|c0|c0|c0|k|a d tg|c0 pkt|id o|id|c0]; try contradiction; cbn [step] in H.
  - injection H as <-. intros c Hc. cbn in *. unfold fupd.
    destruct (c =? nconns s) eqn:E; [left; reflexivity|]. apply HE. apply N.eqb_neq in E. lia.
  - destruct (_ && _); [|discriminate]. injection H as <-.
    set (s1 := match reg s (eid (conns s c0)) with [] => _ | _ :: _ => _ end).
    assert (H1 : Expl s1).
    { unfold s1. destruct (reg s (eid (conns s c0))) as [|a rest]; [exact HE|].
      apply (Expl_ext (enqueue_m s a (status_frame (ver (conns s a)) 1))); [reflexivity..|].
      now apply expl_enqueue_m. }
    apply (Expl_ext (set_conn s1 c0 (with_inserted (conns s1 c0) true))); [reflexivity..|].
    apply expl_set_conn; [assumption|]. intros Hx. exact Hx.
  - destruct (_ <? _); [|discriminate]. injection H as <-.
    apply expl_set_conn; [assumption|]. intros _. right. cbn. apply orb_true_r.
  - destruct (is_exited (cstate (conns s c0)) && _) eqn:Hc; [|discriminate]. injection H as <-.
    apply andb_prop in Hc as [Hex _].
    set (s1 := match reg s (eid (conns s c0)) with [] => s | _ :: _ => _ end).
    assert (H1 : Expl s1 /\ cstate (conns s1 c0) = cstate (conns s c0)).
    { unfold s1. destruct (reg s (eid (conns s c0))) as [|a rest]; [split; [exact HE|reflexivity]|].
      destruct (a =? c0); [|split; [exact HE|reflexivity]].
      destruct rest as [|p rest']; [split; [exact HE|reflexivity]|].
      split; [|apply (enqueue_m_cstate (set_reg s (eid (conns s c0)) (p :: rest')))].
      apply expl_enqueue_m. exact HE. }
    destruct H1 as [H1 H2]. apply expl_set_conn; [assumption|].
    intros [Hx|Hx]; [|right; exact Hx]. rewrite H2 in Hx.
    destruct (cstate (conns s c0)); discriminate.
  - destruct (nth_error (pending s) (N.to_nat k)) as [[gone peer]|]; [|discriminate].
    set (s1 := set_pending s _) in *.
    destruct (reg s1 peer) as [|a rest]; injection H as <-; [exact HE|]. apply expl_enqueue_m. exact HE.
  - destruct (is_running _); [|discriminate].
    destruct (reg s d) as [|b rest]; [injection H as <-; exact HE|].
    destruct (is_done _); [injection H as <-; now apply expl_cancel|].
    destruct (_ <? _); injection H as <-; [|exact HE].
    apply (Expl_ext (set_conn s b (with_pq (conns s b) (pq (conns s b) ++ [FData (eid (conns s a)) tg])))); [reflexivity..|].
    apply expl_set_conn; [assumption|]. intros Hx. exact Hx.
  - destruct o as [c1|].
    + destruct (existsb _ _); injection H as <-; [now apply expl_cancel|exact HE].
    + injection H as <-. now apply expl_fold_cancel.
  - injection H as <-. intros c Hc. cbn in *. destruct (existsb _ _); apply HE, Hc.
  - destruct (taken _); [|discriminate]. injection H as <-. now apply expl_cancel.
Qed.

Lemma doev_expl s e : script_ev e -> Expl s -> Expl (doev s e).
Proof.
  intros Hs H. unfold doev. change locked_register with true.
  destruct (step true s e) eqn:E; [eapply step_expl; eassumption|assumption].
Qed.

Lemma notify_all_expl fuel : forall s, Expl s -> Expl (notify_all fuel s).
Proof.
  induction fuel as [|f IH]; intros s H; cbn [notify_all]; [assumption|].
  destruct (pending s); [assumption|]. apply IH. now apply doev_expl.
Qed.

Lemma unregister_full_expl s c : Expl s -> Expl (unregister_full s c).
Proof. intros H. unfold unregister_full. apply notify_all_expl. now apply doev_expl. Qed.

Lemma mid_expl s s' : mid s s' -> Expl s -> Expl s'.
Proof.
  intros M H. destruct M.
  - apply doev_expl; [now apply simple_script|assumption].
  - apply doev_expl; [exact Logic.I|]. now apply doev_expl.
  - now apply unregister_full_expl.
  - apply unregister_full_expl. now apply doev_expl.
  - apply (shut_all_prop Expl); [|assumption]. intros t e He Ht. apply doev_expl; [now apply shut_script|assumption].
Qed.

Lemma settle_expl s : Expl s -> Expl (settle s).
Proof.
  intros H c Hc. destruct (settle_spec s) as [(hn & _) Hcs]. rewrite hn in Hc.
  rewrite Hcs. apply N.ltb_lt in Hc. rewrite Hc. apply N.ltb_lt in Hc. specialize (H c Hc).
  unfold settle_conn, drain_conn, exit_conn, expl_ok in *.
  destruct (is_running (cstate (conns s c))) eqn:Er; cbn [andb].
  - destruct (cancelled (conns s c) || closed (conns s c)) eqn:Ef; cbn; [right; exact Ef|].
    rewrite Er. cbn. left. exact Er.
  - rewrite Er. destruct H as [H|H]; [discriminate H|]. right. exact H.
Qed.

(* ---- the script invariant ---- *)
Record SInv (ss : sstate) : Prop := {
  si_reach : reach (st ss);
  si_sett : Sett (st ss);
  si_expl : Expl (st ss);
  si_def : forall x, deferred ss = Some x ->
           exists w, win ss = Some w /\ eid (conns (st ss) w) = eid (conns (st ss) x)
}.

Lemma SInv_settle ss s' w :
  SInv ss -> mid (st ss) s' -> SInv (mkSS (settle s') w None).
Proof.
  intros [R S E D] M. pose proof (mid_reach _ _ R M) as R'. constructor; cbn [st win deferred].
  - now apply settle_reach.
  - apply settle_Sett; [now apply reach_Inv|].
    destruct (mid_pending _ _ M) as [H|H]; [assumption|]. rewrite H. apply (sett_p _ S).
  - apply settle_expl. eapply mid_expl; eassumption.
  - discriminate.
Qed.

Definition op_result (ss ss1 : sstate) : Prop :=
  st ss1 = st ss \/ exists s', mid (st ss) s' /\ st ss1 = settle s'.

Lemma exec_op_mid ss o : SInv ss -> op_result ss (fst (exec_op ss o)) /\ SInv (fst (exec_op ss o)).
Proof.
  intros HS. pose proof HS as [R S EX D].
  assert (Hskip : op_result ss ss /\ SInv ss) by (split; [now left|assumption]).
  assert (Hmid : forall s' w, mid (st ss) s' ->
            op_result ss (mkSS (settle s') w None) /\ SInv (mkSS (settle s') w None)).
  { intros s' w M. split; [right; eauto|eapply SInv_settle; eassumption]. }
  unfold exec_op, skip. change locked_register with true.
  destruct (deferred ss) as [x|] eqn:Ed.
  - destruct (D x eq_refl) as (w & Hw & He). rewrite Hw.
    destruct o; try exact Hskip. destruct (c =? w) eqn:E; [|exact Hskip].
    apply N.eqb_eq in E. subst c. cbn [fst]. apply Hmid. now apply mid_ins_unreg.
  - destruct o.
    + destruct (win ss); [exact Hskip|]. cbn [fst]. apply Hmid. apply mid_ev. constructor.
    + destruct (win ss) as [w|]; [|exact Hskip]. destruct (c =? w); [|exact Hskip].
      cbn [fst]. apply Hmid. apply mid_ev. constructor.
    + destruct (win ss); [exact Hskip|]. cbn [fst]. apply Hmid. apply mid_reg.
    + destruct (_ && _); [|exact Hskip]. cbn [fst]. apply Hmid. apply mid_ev. constructor.
    + destruct (_ && _); [|exact Hskip]. destruct (win ss) as [w|] eqn:Ew.
      * destruct (eid (conns (st ss) w) =? eid (conns (st ss) c)) eqn:E; [|exact Hskip].
        cbn [fst]. split; [now left|]. constructor; cbn [st win deferred]; auto.
        intros x Hx. injection Hx as <-. exists w. split; [reflexivity|now apply N.eqb_eq].
      * cbn [fst]. apply Hmid. apply mid_unreg.
    + destruct (win ss); [exact Hskip|]. destruct (_ && _); [|exact Hskip].
      cbn [fst]. apply Hmid. apply mid_ev. constructor.
    + destruct (win ss); [exact Hskip|]. destruct (match o with Some c => _ | None => true end); [|exact Hskip].
      cbn [fst]. apply Hmid. apply mid_ev. constructor.
    + destruct (win ss); [exact Hskip|]. cbn [fst]. apply Hmid. apply mid_shut.
Qed.

(* ---- reading the model's own observations ---- *)
Lemma find_news (h : N -> list frame) c : forall L,
  match find (fun e : N * list frame => fst e =? c)
             (flat_map (fun c' => match h c' with [] => [] | l => [(c', l)] end) L) with
  | Some (_, l) => l | None => [] end = if existsb (N.eqb c) L then h c else [].
Proof.
  induction L as [|a L IH]; cbn [flat_map existsb]; [reflexivity|].
  destruct (h a) as [|f l] eqn:Ea; cbn [app find fst].
  - rewrite IH. destruct (c =? a) eqn:E; cbn [orb]; [|reflexivity].
    apply N.eqb_eq in E. subst. rewrite Ea. now destruct (existsb _ _).
  - rewrite (N.eqb_sym a c). destruct (c =? a) eqn:E; cbn [orb]; [|exact IH].
    apply N.eqb_eq in E. now subst.
Qed.

Definition news_fn (s0 s1 : state) (c : N) : list frame :=
  skipn (length (got (conns s0 c))) (got (conns s1 c)).

Lemma news_for_model ss0 ss1 r c :
  news_for (observe ss0 ss1 r) c = if c <? nconns (st ss1) then news_fn (st ss0) (st ss1) c else [].
Proof.
  unfold news_for, observe, news_of. cbn [o_news].
  rewrite (find_news (news_fn (st ss0) (st ss1)) c). now rewrite crange_existsb.
Qed.

Lemma news_of_in s0 s1 c l :
  In (c, l) (news_of s0 s1) -> c < nconns s1 /\ l = news_fn s0 s1 c.
Proof.
  unfold news_of. intros H. apply in_flat_map in H as (c' & Hc & Hin).
  fold (news_fn s0 s1 c') in Hin. destruct (news_fn s0 s1 c') eqn:E; [contradiction|].
  destruct Hin as [Hin|[]]. injection Hin as <- <-. split; [|now rewrite E].
  unfold crange in Hc. apply in_map_iff in Hc as (x & <- & Hx). apply in_seq in Hx. lia.
Qed.

Lemma news_fn_same s c : news_fn s s c = [].
Proof. unfold news_fn. apply skipn_all. Qed.

Lemma news_of_same s : news_of s s = [].
Proof.
  unfold news_of. induction (crange s) as [|a l IH]; cbn [flat_map]; [reflexivity|].
  fold (news_fn s s a). now rewrite news_fn_same.
Qed.

Lemma in_skipn {A} (f : A) n l : In f (skipn n l) -> In f l.
Proof. intros H. rewrite <- (firstn_skipn n l). apply in_or_app. now right. Qed.

Lemma news_fn_settle s0 s' c f :
  mid s0 s' -> c < nconns s' -> In f (news_fn s0 (settle s') c) -> In f (delivered s' c).
Proof.
  intros M Hc. unfold news_fn. rewrite settle_got by assumption.
  destruct (mid_gotrel s0 s' c M) as [H|H]; rewrite H.
  - rewrite skipn_app, skipn_all, Nat.sub_diag. cbn. auto.
  - cbn [app]. apply in_skipn.
Qed.

Lemma settle_reg s' : reg (settle s') = reg s' /\ nconns (settle s') = nconns s' /\ cap (settle s') = cap s'.
Proof. destruct (settle_spec s') as [(hn & hr & _ & _ & _ & hc) _]. auto. Qed.

(* G1 on the model: a peer-gone notice for X received in an operation => X has no entry afterwards *)
Lemma gone_news_no_entry ss0 ss1 c l X :
  SInv ss0 -> op_result ss0 ss1 ->
  In (c, l) (news_of (st ss0) (st ss1)) -> In (FGone X) l -> reg (st ss1) X = [].
Proof.
  intros [R S EX D] [Hsame|(s' & M & Hs')] Hin Hf.
  - rewrite Hsame, news_of_same in Hin. contradiction.
  - rewrite Hs' in *. apply news_of_in in Hin as [Hc ->].
    destruct (settle_reg s') as (hr & hn & _). rewrite hn in Hc. rewrite hr.
    apply (news_fn_settle _ _ _ _ M Hc) in Hf. unfold delivered in Hf.
    destruct (is_running (cstate (conns s' c))) eqn:Er; [|contradiction].
    destruct (negb _); [|contradiction]. cbn [andb] in Hf.
    destruct (mid_gsafe _ _ R S M) as [G _]. apply (G c X Er Hf).
Qed.

(* the observed stack, on the model's own observation *)
Lemma find_snapshot s id : forall L,
  find (fun e : N * N * list N => fst (fst e) =? id)
       (flat_map (fun i => match reg s i with [] => [] | a :: rest => [(i, a, rev rest)] end) L) =
  if existsb (N.eqb id) L
  then match reg s id with [] => None | a :: rest => Some (id, a, rev rest) end else None.
Proof.
  induction L as [|i L IH]; cbn [flat_map existsb]; [reflexivity|].
  destruct (reg s i) as [|a rest] eqn:Ei; cbn [app find fst].
  - rewrite IH. destruct (id =? i) eqn:E; cbn [orb]; [|reflexivity].
    apply N.eqb_eq in E. subst. rewrite Ei. now destruct (existsb _ _).
  - rewrite (N.eqb_sym i id). destruct (id =? i) eqn:E; cbn [orb]; [|exact IH].
    apply N.eqb_eq in E. subst. now rewrite Ei.
Qed.

Lemma stack_of_snapshot_any s id :
  stack_of_snap (snapshot s) id = if existsb (N.eqb id) ids then reg s id else [].
Proof.
  unfold stack_of_snap, snapshot. rewrite find_snapshot.
  destruct (existsb _ _); [|reflexivity]. destruct (reg s id); [reflexivity|].
  now rewrite rev_involutive.
Qed.

Lemma obs_stack_model ss0 ss1 r id :
  Inv (st ss1) ->
  obs_stack (st ss1) (observe ss0 ss1 r) id =
  match win ss1 with
  | None => if existsb (N.eqb id) ids then reg (st ss1) id else []
  | Some _ => reg (st ss1) id
  end.
Proof.
  intros I. unfold obs_stack, observe. cbn [o_snap o_states]. destruct (win ss1).
  - now apply expected_stack_model.
  - apply stack_of_snapshot_any.
Qed.

Lemma obs_stack_model_nil ss0 ss1 r id :
  Inv (st ss1) -> reg (st ss1) id = [] -> obs_stack (st ss1) (observe ss0 ss1 r) id = [].
Proof. intros I H. rewrite obs_stack_model by assumption. rewrite H. destruct (win ss1); [reflexivity|now destruct (existsb _ _)]. Qed.

Lemma obs_stack_model_ids ss0 ss1 r id :
  Inv (st ss1) -> In id ids -> obs_stack (st ss1) (observe ss0 ss1 r) id = reg (st ss1) id.
Proof.
  intros I H. rewrite obs_stack_model by assumption. destruct (win ss1); [reflexivity|].
  replace (existsb (N.eqb id) ids) with true; [reflexivity|]. symmetry. apply existsb_exists.
  exists id. split; [assumption|apply N.eqb_refl].
Qed.

Lemma obs_stack_model_cons ss0 ss1 r id a rest :
  Inv (st ss1) -> obs_stack (st ss1) (observe ss0 ss1 r) id = a :: rest -> reg (st ss1) id = a :: rest.
Proof.
  intros I. rewrite obs_stack_model by assumption. destruct (win ss1); [auto|].
  destruct (existsb _ _); [auto|discriminate].
Qed.

Lemma gone_ids_in X l : In X (gone_ids l) <-> In (FGone X) l.
Proof.
  unfold gone_ids. rewrite in_flat_map. split.
  - intros (f & Hf & Hx). destruct f; try contradiction. destruct Hx as [<-|[]]. assumption.
  - intros H. exists (FGone X). split; [assumption|now left].
Qed.

Lemma gone_only_after_last_model ss0 ss1 r :
  SInv ss0 -> op_result ss0 ss1 -> Inv (st ss1) ->
  gone_only_after_last (st ss1) (observe ss0 ss1 r) = true.
Proof.
  intros HS Hop I. unfold gone_only_after_last. apply forallb_forall. intros [c l] Hin.
  apply forallb_forall. intros X HX. cbn [snd] in HX. apply gone_ids_in in HX.
  unfold observe in Hin. cbn [o_news] in Hin.
  rewrite obs_stack_model_nil; [reflexivity|assumption|].
  eapply gone_news_no_entry; eassumption.
Qed.

(* ---- sent_to sets are strictly sorted, hence duplicate-free ---- *)
Lemma add_sorted_in x l y : In y (add_sorted x l) -> y = x \/ In y l.
Proof.
  induction l as [|z r IH]; cbn; [intros [<-|[]]; auto|].
  destruct (x <? z); [intros [<-|H]; auto|]. destruct (x =? z); [auto|].
  intros [<-|H]; [right; now left|]. destruct (IH H); auto.
Qed.

Lemma add_sorted_SS x l : StronglySorted N.lt l -> StronglySorted N.lt (add_sorted x l).
Proof.
  induction 1 as [|z r Hs IH Hf]; cbn; [repeat constructor|].
  destruct (x <? z) eqn:E1.
  - apply N.ltb_lt in E1. constructor; [now constructor|]. constructor; [assumption|].
    eapply Forall_impl; [|exact Hf]. intros w Hw. cbn in Hw. lia.
  - destruct (x =? z) eqn:E2; [now constructor|]. apply N.ltb_ge in E1. apply N.eqb_neq in E2.
    constructor; [assumption|]. apply Forall_forall. intros w Hw.
    apply add_sorted_in in Hw as [->|Hw]; [lia|]. rewrite Forall_forall in Hf. now apply Hf.
Qed.

Lemma SS_NoDup l : StronglySorted N.lt l -> NoDup l.
Proof.
  induction 1 as [|z r Hs IH Hf]; constructor; [|assumption].
  intros Hin. rewrite Forall_forall in Hf. apply Hf in Hin. lia.
Qed.

Lemma fold_cancel_sent l : forall t, sent (fold_left cancel l t) = sent t.
Proof. induction l as [|z l IHl]; intros t; cbn; [reflexivity|]. now rewrite IHl. Qed.

Lemma step_sent_sorted s e s' :
  (forall id, StronglySorted N.lt (sent s id)) -> step true s e = Some s' ->
  forall id, StronglySorted N.lt (sent s' id).
Proof.
  intros Hs H id. destruct e as [i v|c|c|c|c|k|a d tg|c pkt|i o|i|c]; cbn [step] in H.
  - injection H as <-. apply Hs.
  - destruct (_ && _); [|discriminate]. injection H as <-. cbn.
    destruct (reg s (eid (conns s c))); cbn; [apply Hs|].
    destruct (enqueue_m_fields s n (status_frame (ver (conns s n)) 1)) as (-> & _). apply Hs.
  - destruct (_ <? _); [|discriminate]. injection H as <-. apply Hs.
  - destruct (is_running _); [|discriminate]. injection H as <-. apply Hs.
  - destruct (_ && _); [|discriminate]. injection H as <-. cbn.
    destruct (reg s (eid (conns s c))) as [|a rest]; [apply Hs|].
    destruct (a =? c); [|apply Hs]. destruct rest as [|p rest'].
    + cbn. unfold fupd. destruct (id =? _); [constructor|apply Hs].
    + destruct (enqueue_m_fields (set_reg s (eid (conns s c)) (p :: rest')) p (status_frame (ver (conns s p)) 0)) as (-> & _).
      apply Hs.
  - destruct (nth_error _ _) as [[gone peer]|]; [|discriminate].
    set (s1 := set_pending s _) in *. destruct (reg s1 peer); injection H as <-; [apply Hs|].
    destruct (enqueue_m_fields s1 n (FGone gone)) as (-> & _). apply Hs.
  - destruct (is_running _); [|discriminate]. destruct (reg s d); [injection H as <-; apply Hs|].
    destruct (is_done _); [injection H as <-; apply Hs|].
    destruct (_ <? _); injection H as <-; [|apply Hs]. cbn. unfold fupd.
    destruct (id =? _); [apply add_sorted_SS|]; apply Hs.
  - destruct (is_running _); [|discriminate].
    destruct pkt; [destruct (pq _)|destruct (mq _)]; try discriminate; injection H as <-; apply Hs.
  - destruct o as [c|].
    + destruct (existsb _ _); injection H as <-; apply Hs.
    + injection H as <-. rewrite fold_cancel_sent. apply Hs.
  - injection H as <-. apply Hs.
  - destruct (taken _); [|discriminate]. injection H as <-. apply Hs.
Qed.

Lemma reach_sent_NoDup s : reach s -> forall id, NoDup (sent s id).
Proof.
  intros R id. apply SS_NoDup. revert id. induction R; [intros; constructor|].
  eapply step_sent_sorted; eassumption.
Qed.

(* ---- when does an entry disappear ---- *)
Lemma registered_eid s id c : Inv s -> In c (reg s id) -> eid (conns s c) = id /\ inserted (conns s c) = true.
Proof.
  intros I H. rewrite (inv_reg s I) in H. apply filter_In in H as [h1 h2].
  apply live_for_true in h2 as [e1 _]. split; [assumption|now apply (inv_order s I)].
Qed.

Lemma notify_all_frame fuel : forall s,
  (forall i, reg (notify_all fuel s) i = reg s i) /\ cap (notify_all fuel s) = cap s /\
  nconns (notify_all fuel s) = nconns s.
Proof.
  induction fuel as [|f IH]; intros s; cbn [notify_all]; [auto|].
  destruct (pending s) eqn:Ep; [auto|].
  destruct (IH (doev s (Notify 0))) as (h1 & h2 & h3).
  unfold doev in *. change locked_register with true in *.
  destruct (step true s (Notify 0)) as [s'|] eqn:E; [|auto].
  destruct (step_same_reg s _ s' E) as (a & _ & b & _).
  split; [intros i; now rewrite h1|]. split; [|congruence].
  rewrite h2. cbn [step] in E. destruct (nth_error _ _) as [[gone peer]|]; [|discriminate].
  set (s1 := set_pending s _) in *. destruct (reg s1 peer) as [|b0 r0]; injection E as <-; [reflexivity|].
  now destruct (enqueue_m_fields s1 b0 (FGone gone)) as (_ & _ & -> & _).
Qed.

Lemma unregister_step_reg s x sa :
  Inv s -> step true s (Unregister x) = Some sa ->
  forall i, reg sa i = if i =? eid (conns s x) then filter (fun y => negb (y =? x)) (reg s (eid (conns s x))) else reg s i.
Proof.
  intros I H. cbn [step] in H. destruct (_ && _); [|discriminate]. injection H as <-. cbn [reg set_conn].
  apply unregister_entry. rewrite (inv_reg s I). apply NoDup_filter, (inv_nodup s I).
Qed.

Lemma filter_ne_nil (x : N) l : NoDup l -> filter (fun y => negb (y =? x)) l = [] -> l = [] \/ l = [x].
Proof.
  intros Hnd H. destruct l as [|a r]; [now left|]. right. cbn in H.
  destruct (a =? x) eqn:E; cbn in H; [|discriminate]. apply N.eqb_eq in E. subst a.
  inversion Hnd as [|? ? Hn _]. rewrite filter_id_notin in H by assumption. now subst.
Qed.

Lemma unregister_full_entry_gone s x X :
  Inv s -> reg s X <> [] -> reg (unregister_full s x) X = [] ->
  (exists sa, step true s (Unregister x) = Some sa) /\ eid (conns s x) = X /\ reg s X = [x].
Proof.
  intros I Hne H. unfold unregister_full in H.
  destruct (notify_all_frame (length (pending (doev s (Unregister x)))) (doev s (Unregister x))) as (hr & _).
  rewrite hr in H. unfold doev in H. change locked_register with true in H.
  destruct (step true s (Unregister x)) as [sa|] eqn:E; [|contradiction].
  rewrite (unregister_step_reg s x sa I E) in H.
  destruct (X =? eid (conns s x)) eqn:EX; [|contradiction].
  apply N.eqb_eq in EX. subst X. split; [eauto|]. split; [reflexivity|].
  apply filter_ne_nil in H as [H|H]; [contradiction|assumption|].
  rewrite (inv_reg s I). apply NoDup_filter, (inv_nodup s I).
Qed.

Lemma simple_reg_nonempty s e X : simple_ev e -> reg s X <> [] -> reg (doev s e) X <> [].
Proof.
  intros He Hne. unfold doev. change locked_register with true.
  destruct (step true s e) as [s'|] eqn:E; [|assumption].
  destruct He.
  - cbn [step] in E. now injection E as <-.
  - cbn [step] in E. destruct (_ && _); [|discriminate]. injection E as <-. cbn [reg].
    destruct (insert_entry s c (eid (conns s c))) as (_ & _ & _ & hr). rewrite hr.
    destruct (X =? _) eqn:EX; [|assumption]. discriminate.
  - destruct (step_same_reg s _ s' E) as (_ & _ & hr & _). now rewrite hr.
  - destruct (step_same_reg s _ s' E) as (_ & _ & hr & _). now rewrite hr.
  - destruct (step_same_reg s _ s' E) as (_ & _ & hr & _). now rewrite hr.
Qed.

Lemma mid_entry_gone s s' X :
  reach s -> mid s s' -> reg s X <> [] -> reg s' X = [] ->
  (exists x, s' = unregister_full s x /\ (exists sa, step true s (Unregister x) = Some sa) /\
            eid (conns s x) = X /\ reg s X = [x]) \/ s' = shut_all s.
Proof.
  intros R M Hne H. pose proof (reach_Inv s R) as I. destruct M; [| | | |now right]; left.
  - exfalso. revert H. now apply simple_reg_nonempty.
  - exfalso. revert H. apply simple_reg_nonempty; [constructor|]. apply simple_reg_nonempty; [constructor|assumption].
  - exists c. split; [reflexivity|]. now apply unregister_full_entry_gone.
  - unfold doev at 1 in H. unfold doev at 1. change locked_register with true in *.
    destruct (step true s (Insert c)) as [si|] eqn:Ei.
    2:{ exists x. split; [reflexivity|]. now apply unregister_full_entry_gone. }
    exfalso.
    assert (Ii : Inv si) by (eapply Inv_step; eassumption).
    pose proof Ei as Ei'. cbn [step] in Ei'.
    destruct ((c <? nconns s) && negb (inserted (conns s c))) eqn:Eg; [|discriminate].
    apply andb_prop in Eg as [_ Eni]. apply negb_true_iff in Eni.
    destruct (insert_entry s c (eid (conns s c))) as (_ & _ & hs & hr).
    assert (Hri : forall i, reg si i = if i =? eid (conns s c) then c :: reg s (eid (conns s c)) else reg s i).
    { injection Ei' as <-. cbn [reg]. exact hr. }
    assert (Hex : eid (conns si x) = eid (conns s x)).
    { injection Ei' as <-. cbn [conns]. unfold fupd. destruct (x =? c) eqn:Exc.
      - apply N.eqb_eq in Exc. subst x. cbn. destruct (hs c) as (e1 & _). now rewrite <- e1.
      - destruct (hs x) as (e1 & _). now rewrite <- e1. }
    assert (Hnei : reg si X <> []).
    { rewrite Hri. destruct (X =? _); [discriminate|assumption]. }
    destruct (unregister_full_entry_gone si x X Ii Hnei H) as (_ & HeX & Hrx).
    rewrite Hri in Hrx. rewrite Hex, <- H0 in HeX. rewrite <- HeX, N.eqb_refl in Hrx.
    injection Hrx as Hcx Hnil. rewrite HeX in Hnil. contradiction.
Qed.

(* ---- the notification loop: the active connection of each peer gets exactly one notice ---- *)
Definition keeps (x y : conn) : Prop :=
  cstate y = cstate x /\ pq y = pq x /\ cancelled y = cancelled x /\ closed y = closed x.

Lemma enqueue_m_keeps s a f c : keeps (conns s c) (conns (enqueue_m s a f) c).
Proof.
  unfold enqueue_m. destruct (is_done _); [repeat split|]. destruct (_ <? _); [|repeat split].
  cbn. unfold fupd. destruct (c =? a) eqn:E; [|repeat split]. apply N.eqb_eq in E. subst. repeat split.
Qed.

Lemma enqueue_m_mq_other s a f c : c <> a -> mq (conns (enqueue_m s a f) c) = mq (conns s c).
Proof.
  intros H. unfold enqueue_m. destruct (is_done _); [reflexivity|]. destruct (_ <? _); [|reflexivity].
  cbn. now rewrite fupd_other.
Qed.

Lemma notify_all_one X p a rest (R : N -> list N) : forall L t,
  NoDup L -> pending t = map (pair X) L -> (forall i, reg t i = R i) ->
  R p = a :: rest -> (forall p' c, p' <> p -> In c (R p') -> c <> a) ->
  is_done (cstate (conns t a)) = false -> 1 <= cap t ->
  let t' := notify_all (length L) t in
  keeps (conns t a) (conns t' a) /\
  (In p L -> mq (conns t a) = [] -> mq (conns t' a) = [FGone X]) /\
  (~ In p L -> mq (conns t' a) = mq (conns t a)).
Proof.
  induction L as [|p' L IH]; intros t Hnd Hp Hr HRp Hoth Hdone Hcap; cbn [length notify_all].
  - split; [repeat split|]. split; [contradiction|reflexivity].
  - cbn [map] in Hp. rewrite Hp.
    inversion Hnd as [|? ? Hn Hnd']. subst.
    set (t1 := doev t (Notify 0)).
    assert (Ht1 : t1 = match R p' with
                       | [] => set_pending t (map (pair X) L)
                       | b :: _ => enqueue_m (set_pending t (map (pair X) L)) b (FGone X)
                       end).
    { unfold t1, doev. change locked_register with true. cbn [step]. rewrite Hp.
      cbn [N.to_nat nth_error remove_nth]. cbn [reg set_pending]. rewrite Hr. now destruct (R p'). }
    set (t0 := set_pending t (map (pair X) L)) in *.
    assert (Hp1 : pending t1 = map (pair X) L).
    { rewrite Ht1. destruct (R p'); [reflexivity|].
      now destruct (enqueue_m_fields t0 n (FGone X)) as (_ & -> & _). }
    assert (Hr1 : forall i, reg t1 i = R i).
    { intros i. rewrite Ht1. destruct (R p'); [apply Hr|].
      destruct (enqueue_m_fields t0 n (FGone X)) as (_ & _ & _ & ->). apply Hr. }
    assert (Hc1 : cap t1 = cap t).
    { rewrite Ht1. destruct (R p'); [reflexivity|].
      now destruct (enqueue_m_fields t0 n (FGone X)) as (_ & _ & -> & _). }
    assert (Hk1 : keeps (conns t a) (conns t1 a)).
    { rewrite Ht1. destruct (R p'); [repeat split|]. apply (enqueue_m_keeps t0). }
    assert (Hd1 : is_done (cstate (conns t1 a)) = false).
    { destruct Hk1 as (-> & _). assumption. }
    destruct (IH t1 Hnd' Hp1 Hr1 HRp Hoth Hd1 ltac:(lia)) as (K & Hin & Hnin).
    split; [|split].
    + destruct Hk1 as (k1 & k2 & k3 & k4), K as (k1' & k2' & k3' & k4'). repeat split; congruence.
    + intros [->|HpL] Hmq.
      * rewrite Hnin by assumption. rewrite Ht1, HRp. unfold enqueue_m. cbn [conns set_pending cap].
        fold t0. replace (conns t0 a) with (conns t a) by reflexivity. rewrite Hdone, Hmq.
        replace (len [] <? cap t) with true by (symmetry; apply N.ltb_lt; cbn; lia).
        cbn. now rewrite fupd_same.
      * apply Hin; [assumption|]. rewrite Ht1.
        assert (p' <> p) by (intros ->; contradiction).
        destruct (R p') as [|b r] eqn:ER; [exact Hmq|].
        rewrite enqueue_m_mq_other; [exact Hmq|]. intros ->. apply (Hoth p' b); [assumption|rewrite ER; now left|reflexivity].
    + intros Hn'. rewrite Hnin by (intros Hx; apply Hn'; now right). rewrite Ht1.
      assert (p' <> p) by (intros ->; apply Hn'; now left).
      destruct (R p') as [|b r] eqn:ER; [reflexivity|].
      rewrite enqueue_m_mq_other; [reflexivity|]. intros ->. apply (Hoth p' b); [assumption|rewrite ER; now left|reflexivity].
Qed.

Lemma keeps_trans x y z : keeps x y -> keeps y z -> keeps x z.
Proof. unfold keeps. intuition congruence. Qed.

Lemma notify_all_keeps fuel : forall s c, keeps (conns s c) (conns (notify_all fuel s) c).
Proof.
  induction fuel as [|f IH]; intros s c; cbn [notify_all]; [repeat split|].
  destruct (pending s) as [|[gone peer] r] eqn:Ep; [repeat split|].
  eapply keeps_trans; [|apply IH]. unfold doev. change locked_register with true. cbn [step].
  rewrite Ep. cbn [N.to_nat nth_error remove_nth].
  destruct (reg (set_pending s r) peer); [repeat split|]. apply (enqueue_m_keeps (set_pending s r)).
Qed.

Lemma unregister_last_news s0 x sa X p a rest :
  reach s0 -> Sett s0 -> step true s0 (Unregister x) = Some sa ->
  eid (conns s0 x) = X -> reg s0 X = [x] -> In p (sent s0 X) ->
  reg (unregister_full s0 x) p = a :: rest ->
  is_running (cstate (conns (unregister_full s0 x) a)) = true -> 1 <= cap s0 ->
  got (conns (unregister_full s0 x) a) = got (conns s0 a) /\
  pq (conns (unregister_full s0 x) a) = [] /\ mq (conns (unregister_full s0 x) a) = [FGone X].
Proof.
  intros R S E HX Hreg Hp Hra Hrun Hcap.
  pose proof (reach_Inv s0 R) as I.
  assert (Isa : Inv sa) by (eapply Inv_step; eassumption).
  split; [apply unregister_full_got|].
  unfold unregister_full, doev in *. change locked_register with true in *. rewrite E in *.
  pose proof E as E'. cbn [step] in E'. destruct (_ && _); [|discriminate].
  rewrite HX, Hreg, N.eqb_refl, (sett_p s0 S) in E'. cbn [app] in E'.
  assert (Hpend : pending sa = map (pair X) (sent s0 X)) by (injection E' as <-; reflexivity).
  assert (Hcap' : cap sa = cap s0) by (injection E' as <-; reflexivity).
  assert (Hconn : forall c, c <> x -> conns sa c = conns s0 c).
  { intros c Hc. injection E' as <-. cbn [conns set_conn]. now rewrite fupd_other. }
  assert (Hx : cstate (conns sa x) = Done).
  { injection E' as <-. cbn [conns set_conn]. now rewrite fupd_same. }
  rewrite Hpend, map_length in *.
  destruct (notify_all_frame (length (sent s0 X)) sa) as (hr & _).
  rewrite hr in Hra.
  pose proof (notify_all_keeps (length (sent s0 X)) sa a) as (k1 & _).
  assert (Hrsa : is_running (cstate (conns sa a)) = true) by (now rewrite <- k1).
  assert (Hax : a <> x) by (intros ->; rewrite Hx in Hrsa; discriminate).
  assert (Hrs0 : is_running (cstate (conns s0 a)) = true) by (now rewrite <- Hconn).
  destruct (sett_q s0 S a Hrs0) as (_ & q1 & q2).
  destruct (notify_all_one X p a rest (reg sa) (sent s0 X) sa) as ((_ & kp & _) & Hin & _); auto.
  - now apply reach_sent_NoDup.
  - intros p' c Hne Hc ->. destruct (registered_eid sa p' a Isa Hc) as [e1 _].
    assert (In a (reg sa p)) by (rewrite Hra; now left).
    destruct (registered_eid sa p a Isa H) as [e2 _]. congruence.
  - destruct (cstate (conns sa a)); cbn in *; congruence.
  - lia.
  - split.
    + rewrite kp, Hconn by assumption. exact q1.
    + apply Hin; [assumption|]. now rewrite Hconn.
Qed.

Lemma obs_running_model ss0 ss1 r a :
  obs_running (observe ss0 ss1 r) a = true ->
  a < nconns (st ss1) /\ is_running (cstate (conns (st ss1) a)) = true.
Proof.
  unfold obs_running, observe. cbn [o_states]. intros H.
  destruct (N.lt_ge_cases a (nconns (st ss1))) as [Hlt|Hge].
  - split; [assumption|]. rewrite nth_states in H by assumption.
    now destruct (cstate (conns (st ss1) a)).
  - rewrite nth_overflow in H; [discriminate|].
    unfold states_of, crange. rewrite !map_length, seq_length. lia.
Qed.

Lemma gone_delivered_model ss0 ss1 r :
  SInv ss0 -> op_result ss0 ss1 -> Inv (st ss1) ->
  gone_delivered (st ss0) (st ss1) (observe ss0 ss1 r) = true.
Proof.
  intros [R S EX D] Hop I. unfold gone_delivered. apply forallb_forall. intros X HX.
  destruct (negb (is_nil (reg (st ss0) X)) && forallb _ (reg (st ss0) X) && is_nil (obs_stack _ _ X)) eqn:Ec; [|reflexivity].
  apply andb_prop in Ec as [Ec1 Ec2]. apply andb_prop in Ec1 as [Ec1 Ect].
  rewrite obs_stack_model_ids in Ec2 by assumption.
  assert (Hne : reg (st ss0) X <> []) by (intros Hx; rewrite Hx in Ec1; discriminate).
  assert (Hnil : reg (st ss1) X = []) by (destruct (reg (st ss1) X); [reflexivity|discriminate]).
  apply forallb_forall. intros p Hp.
  destruct (obs_stack _ _ p) as [|a rest] eqn:Ea; [reflexivity|].
  apply obs_stack_model_cons in Ea; [|assumption].
  destruct (obs_running _ a && (1 <=? cap (st ss0))) eqn:Eg; [|reflexivity].
  apply andb_prop in Eg as [Eg1 Eg2]. apply obs_running_model in Eg1 as [Hlt Hrun].
  apply N.leb_le in Eg2.
  destruct Hop as [Hsame|(s' & M & Hs')]; [rewrite Hsame in Hnil; contradiction|].
  rewrite news_for_model. apply N.ltb_lt in Hlt. rewrite Hlt. apply N.ltb_lt in Hlt.
  rewrite Hs' in *. destruct (settle_reg s') as (hr & hn & _). rewrite hr in *. rewrite hn in Hlt.
  destruct (mid_entry_gone _ _ X R M Hne Hnil) as [(x & -> & (sa & E) & HeX & Hrx)| ->].
  2:{ exfalso. destruct (reg (st ss0) X) as [|c0 l0] eqn:Er; [contradiction|].
      cbn [forallb] in Ect. apply andb_prop in Ect as [Ect _]. apply negb_true_iff in Ect.
      assert (Ht : taken (conns (shut_all (st ss0)) c0) = true).
      { apply (shut_all_taken _ X); [congruence|assumption|rewrite Er; now left]. }
      rewrite settle_taken in Ect. congruence. }
  pose proof (mid_reach _ _ R M) as R'.
  destruct (settle_running _ a (reach_Inv _ R') Hrun) as (_ & Hr' & Hcc).
  destruct (unregister_last_news _ x sa X p a rest R S E HeX Hrx Hp Ea Hr' Eg2) as (g1 & g2 & g3).
  unfold news_fn. rewrite settle_got by assumption. rewrite g1, skipn_app, skipn_all, Nat.sub_diag.
  unfold delivered. rewrite Hr', Hcc, g2, g3. unfold count_frame. cbn [andb negb app skipn filter frame_eqb].
  rewrite N.eqb_refl. reflexivity.
Qed.


(* ---- the took-over / healthy notices reach the connection they are meant for ---- *)
Definition mqmono (x y : conn) : Prop := forall f, In f (mq x) -> In f (mq y).
Lemma mqmono_refl x : mqmono x x.
Proof. intros f H. exact H. Qed.
Lemma mqmono_trans x y z : mqmono x y -> mqmono y z -> mqmono x z.
Proof. intros H1 H2 f H. auto. Qed.

Lemma enqueue_m_mqmono s b g c : mqmono (conns s c) (conns (enqueue_m s b g) c).
Proof.
  unfold enqueue_m. destruct (is_done _); [apply mqmono_refl|]. destruct (_ <? _); [|apply mqmono_refl].
  cbn. unfold fupd. destruct (c =? b) eqn:E; [|apply mqmono_refl]. apply N.eqb_eq in E. subst.
  intros f H. cbn. apply in_or_app. now left.
Qed.

Lemma cancel_mqmono s b c : mqmono (conns s c) (conns (cancel s b) c).
Proof.
  unfold cancel. cbn. unfold fupd. destruct (c =? b) eqn:E; [|apply mqmono_refl].
  apply N.eqb_eq in E. subst. intros f H. exact H.
Qed.

Lemma fold_cancel_mqmono l : forall s c, mqmono (conns s c) (conns (fold_left cancel l s) c).
Proof.
  induction l as [|a l IH]; intros s c; cbn; [apply mqmono_refl|].
  eapply mqmono_trans; [apply cancel_mqmono|apply IH].
Qed.

(* one registry event, seen from a connection that already exists *)
Lemma step_old s e s' c :
  step true s e = Some s' -> script_ev e -> c < nconns s ->
  cdelta (evsrc s e) (conns s c) (conns s' c) /\ mqmono (conns s c) (conns s' c) /\
  nconns s <= nconns s'.
Proof.
  intros H Hs Hc.
  assert (H1 : cdelta (evsrc s e) (conns s c) (conns s' c)).
  { destruct (step_cdelta s e s' c H Hs) as [Hd|((id & v & ->) & _)]; [exact Hd|].
    cbn [step] in H. injection H as <-. cbn. rewrite fupd_other by lia. apply cdelta_refl. }
  split; [exact H1|].
  destruct e as [id v|c0|c0|c0|c0|k|a d tg|c0 pkt|id o|id|c0]; try contradiction; cbn [step] in H.
  - injection H as <-. cbn. rewrite fupd_other by lia. split; [apply mqmono_refl|lia].
  - destruct (_ && _); [|discriminate]. injection H as <-. cbn.
    set (s1 := match reg s (eid (conns s c0)) with [] => _ | _ :: _ => _ end).
    assert (Hm : mqmono (conns s c) (conns s1 c) /\ nconns s1 = nconns s).
    { unfold s1. destruct (reg s (eid (conns s c0))) as [|a rest]; [split; [apply mqmono_refl|reflexivity]|].
      cbn. split; [apply enqueue_m_mqmono|].
      now destruct (same_reg_enqueue_m s a (status_frame (ver (conns s a)) 1)) as (-> & _). }
    destruct Hm as [Hm Hn]. split; [|lia].
    unfold fupd. destruct (c =? c0) eqn:E; [|exact Hm]. apply N.eqb_eq in E. subst c0.
    eapply mqmono_trans; [exact Hm|]. intros f Hf. exact Hf.
  - destruct (_ <? _); [|discriminate]. injection H as <-. cbn. split; [|lia]. unfold fupd.
    destruct (c =? c0) eqn:E; [|apply mqmono_refl]. apply N.eqb_eq in E. subst. intros f Hf. exact Hf.
  - destruct (_ && _); [|discriminate]. injection H as <-. cbn.
    set (s1 := match reg s (eid (conns s c0)) with [] => s | _ :: _ => _ end).
    assert (Hm : mqmono (conns s c) (conns s1 c) /\ nconns s1 = nconns s).
    { unfold s1. destruct (reg s (eid (conns s c0))) as [|a rest]; [split; [apply mqmono_refl|reflexivity]|].
      destruct (a =? c0); [|split; [apply mqmono_refl|reflexivity]].
      destruct rest as [|p rest']; [split; [apply mqmono_refl|reflexivity]|].
      split; [apply (enqueue_m_mqmono (set_reg s (eid (conns s c0)) (p :: rest')))|].
      now destruct (same_reg_enqueue_m (set_reg s (eid (conns s c0)) (p :: rest')) p (status_frame (ver (conns s p)) 0)) as (-> & _). }
    destruct Hm as [Hm Hn]. split; [|lia].
    unfold fupd. destruct (c =? c0) eqn:E; [|exact Hm]. apply N.eqb_eq in E. subst c0.
    eapply mqmono_trans; [exact Hm|]. intros f Hf. exact Hf.
  - destruct (nth_error (pending s) (N.to_nat k)) as [[gone peer]|] eqn:En; [|discriminate].
    set (s1 := set_pending s _) in *.
    destruct (reg s1 peer) as [|a rest]; injection H as <-; [split; [apply mqmono_refl|cbn; lia]|].
    split; [apply (enqueue_m_mqmono s1)|].
    destruct (same_reg_enqueue_m s1 a (FGone gone)) as (-> & _). cbn. lia.
  - destruct (is_running _); [|discriminate].
    destruct (reg s d) as [|b rest]; [injection H as <-; split; [apply mqmono_refl|lia]|].
    destruct (is_done _); [injection H as <-; split; [apply cancel_mqmono|cbn; lia]|].
    destruct (_ <? _); injection H as <-; [|split; [apply mqmono_refl|lia]]. cbn. split; [|lia]. unfold fupd.
    destruct (c =? b) eqn:E; [|apply mqmono_refl]. apply N.eqb_eq in E. subst c. intros f Hf. exact Hf.
  - destruct o as [c1|].
    + destruct (existsb _ _); injection H as <-; [split; [apply cancel_mqmono|cbn; lia]|split; [apply mqmono_refl|lia]].
    + injection H as <-. split; [apply fold_cancel_mqmono|].
      destruct (same_reg_fold_cancel (reg s id) s) as (-> & _). lia.
  - injection H as <-. cbn. split; [|lia]. destruct (existsb _ _); [|apply mqmono_refl]. intros f Hf. exact Hf.
  - destruct (taken _); [|discriminate]. injection H as <-. split; [apply cancel_mqmono|cbn; lia].
Qed.

(* what a connection that exists keeps through a sequence of script events *)
Definition oldrel (s s' : state) (c : N) : Prop :=
  got (conns s' c) = got (conns s c) /\
  (is_running (cstate (conns s' c)) = true -> is_running (cstate (conns s c)) = true) /\
  mqmono (conns s c) (conns s' c) /\ nconns s <= nconns s'.

Lemma oldrel_refl s c : oldrel s s c.
Proof. repeat split; auto. apply mqmono_refl. lia. Qed.
Lemma oldrel_trans s t u c : oldrel s t c -> oldrel t u c -> oldrel s u c.
Proof.
  intros (a1 & a2 & a3 & a4) (b1 & b2 & b3 & b4). split; [congruence|]. split; [auto|].
  split; [eapply mqmono_trans; eassumption|lia].
Qed.

Lemma doev_oldrel s e c : script_ev e -> c < nconns s -> oldrel s (doev s e) c.
Proof.
  intros Hs Hc. unfold doev. change locked_register with true.
  destruct (step true s e) as [s'|] eqn:E; [|apply oldrel_refl].
  destruct (step_old s e s' c E Hs Hc) as ((h1 & h2 & _) & h3 & h4). repeat split; auto.
Qed.

Lemma notify_all_oldrel fuel : forall s c, c < nconns s -> oldrel s (notify_all fuel s) c.
Proof.
  induction fuel as [|f IH]; intros s c Hc; cbn [notify_all]; [apply oldrel_refl|].
  destruct (pending s); [apply oldrel_refl|].
  pose proof (doev_oldrel s (Notify 0) c Logic.I Hc) as H1.
  eapply oldrel_trans; [exact H1|]. apply IH. destruct H1 as (_ & _ & _ & Hn). lia.
Qed.

Lemma unregister_full_oldrel s x c : c < nconns s -> oldrel s (unregister_full s x) c.
Proof.
  intros Hc. unfold unregister_full.
  pose proof (doev_oldrel s (Unregister x) c Logic.I Hc) as H1.
  eapply oldrel_trans; [exact H1|]. apply notify_all_oldrel. destruct H1 as (_ & _ & _ & Hn). lia.
Qed.

Lemma registered_lt s id c : Inv s -> In c (reg s id) -> c < nconns s.
Proof.
  intros I H. destruct (registered_eid s id c I H) as [_ Hi].
  destruct (N.lt_ge_cases c (nconns s)) as [?|Hge]; [assumption|].
  destruct (inv_fresh s I c Hge). congruence.
Qed.

(* a frame in the message queue of an old connection before the final settle is among the
   frames it receives in the operation, if it is running afterwards *)
Lemma news_has s0 s' a f :
  Inv s' -> oldrel s0 s' a -> a < nconns s0 ->
  is_running (cstate (conns (settle s') a)) = true ->
  In f (mq (conns s' a)) -> In f (news_fn s0 (settle s') a).
Proof.
  intros I (hg & _ & _ & hn) Ha Hrun Hf.
  destruct (settle_running s' a I Hrun) as (Hlt & Hr & Hcc).
  unfold news_fn. rewrite settle_got by assumption. rewrite hg, skipn_app, skipn_all, Nat.sub_diag.
  cbn [skipn app]. unfold delivered. rewrite Hr, Hcc. cbn [andb negb]. apply in_or_app. now right.
Qed.

Lemma existsb_frame f l : In f l -> existsb (frame_eqb f) l = true.
Proof.
  intros H. apply existsb_exists. exists f. split; [assumption|].
  destruct f; cbn; rewrite ?N.eqb_refl; reflexivity.
Qed.

Lemma room_of_sett s a : Sett s -> is_running (cstate (conns s a)) = true -> 1 <= cap s -> room s a.
Proof.
  intros S Hr Hc. destruct (sett_q s S a Hr) as (_ & _ & Hm). split.
  - intros Hd. rewrite Hd in Hr. discriminate.
  - rewrite Hm. cbn. lia.
Qed.

Lemma doev_insert_reg s c i :
  reg (doev s (Insert c)) i = reg s i \/
  ((exists s', step true s (Insert c) = Some s') /\ i = eid (conns s c) /\ reg (doev s (Insert c)) i = c :: reg s i).
Proof.
  unfold doev. change locked_register with true.
  destruct (step true s (Insert c)) as [s'|] eqn:E; [|now left].
  pose proof E as E'. cbn [step] in E'. destruct (_ && _); [|discriminate]. injection E' as <-. cbn [reg].
  destruct (insert_entry s c (eid (conns s c))) as (_ & _ & _ & hr). rewrite hr.
  destruct (i =? eid (conns s c)) eqn:Ei; [|now left]. apply N.eqb_eq in Ei. subst i.
  right. split; [eauto|]. split; reflexivity.
Qed.

Lemma doev_unregister_reg s x i : Inv s ->
  reg (doev s (Unregister x)) i = reg s i \/
  ((exists s', step true s (Unregister x) = Some s') /\ i = eid (conns s x) /\
   reg (doev s (Unregister x)) i = filter (fun y => negb (y =? x)) (reg s i)).
Proof.
  intros I. unfold doev. change locked_register with true.
  destruct (step true s (Unregister x)) as [s'|] eqn:E; [|now left].
  rewrite (unregister_step_reg s x s' I E).
  destruct (i =? eid (conns s x)) eqn:Ei; [|now left]. apply N.eqb_eq in Ei. subst i.
  right. split; [eauto|]. split; reflexivity.
Qed.

Lemma unregister_full_reg s x i : reg (unregister_full s x) i = reg (doev s (Unregister x)) i.
Proof. unfold unregister_full. apply notify_all_frame. Qed.

Lemma simple_reg_cases s e i : simple_ev e ->
  reg (doev s e) i = reg s i \/
  exists c, e = Insert c /\ (exists s', step true s (Insert c) = Some s') /\ i = eid (conns s c) /\
            reg (doev s e) i = c :: reg s i.
Proof.
  intros He. destruct He.
  - left. unfold doev. change locked_register with true. cbn [step]. reflexivity.
  - destruct (doev_insert_reg s c i) as [H|H]; [now left|right; eauto].
  - left. unfold doev. change locked_register with true.
    destruct (step true s (Close c)) as [s'|] eqn:E; [|reflexivity].
    now destruct (step_same_reg s _ s' E) as (_ & _ & hr & _).
  - left. unfold doev. change locked_register with true.
    destruct (step true s (Send a d t)) as [s'|] eqn:E; [|reflexivity].
    now destruct (step_same_reg s _ s' E) as (_ & _ & hr & _).
  - left. unfold doev. change locked_register with true.
    destruct (step true s (Disconnect id o)) as [s'|] eqn:E; [|reflexivity].
    now destruct (step_same_reg s _ s' E) as (_ & _ & hr & _).
Qed.

Lemma insert_told s c a rest0 :
  Inv s -> (exists s', step true s (Insert c) = Some s') ->
  reg s (eid (conns s c)) = a :: rest0 -> room s a ->
  In (status_frame (ver (conns s a)) 1) (mq (conns (doev s (Insert c)) a)).
Proof.
  intros I (s' & E) Hreg Hroom. unfold doev. change locked_register with true. rewrite E.
  destruct (displaced_is_told s c s' a rest0 I E Hreg) as (_ & H). rewrite (H Hroom).
  apply in_or_app. right. now left.
Qed.

Lemma insert_enabled_fresh s c s' : step true s (Insert c) = Some s' -> inserted (conns s c) = false.
Proof.
  cbn [step]. destruct ((c <? nconns s) && negb (inserted (conns s c))) eqn:E; [|discriminate].
  intros _. apply andb_prop in E as [_ E]. now apply negb_true_iff in E.
Qed.

Lemma insert_eid s c x : eid (conns (doev s (Insert c)) x) = eid (conns s x).
Proof.
  unfold doev. change locked_register with true.
  destruct (step true s (Insert c)) as [s'|] eqn:E; [|reflexivity].
  cbn [step] in E. destruct (_ && _); [|discriminate]. injection E as <-. cbn [conns].
  destruct (insert_entry s c (eid (conns s c))) as (_ & _ & hs & _).
  unfold fupd. destruct (x =? c) eqn:Exc.
  - apply N.eqb_eq in Exc. subst x. cbn. destruct (hs c) as (e1 & _). now rewrite <- e1.
  - destruct (hs x) as (e1 & _). now rewrite <- e1.
Qed.

Lemma took_over_mid s0 s' id a rest0 c :
  reach s0 -> Sett s0 -> mid s0 s' ->
  reg s0 id = a :: rest0 -> In c (reg s' id) -> ~ In c (reg s0 id) ->
  is_running (cstate (conns s' a)) = true -> 1 <= cap s0 ->
  oldrel s0 s' a /\ In (status_frame (ver (conns s0 a)) 1) (mq (conns s' a)).
Proof.
  intros R S M Hreg Hc Hnc Hrun Hcap. pose proof (reach_Inv s0 R) as I.
  assert (Ha : a < nconns s0) by (eapply registered_lt; [eassumption|rewrite Hreg; now left]).
  destruct M.
  - (* one simple event *)
    pose proof (doev_oldrel s0 e a (simple_script e H) Ha) as O. split; [exact O|].
    destruct (simple_reg_cases s0 e id H) as [Hr|(c0 & -> & Hen & Hid & Hr)]; rewrite Hr in Hc; [contradiction|].
    destruct Hc as [<-|Hc]; [|contradiction]. subst id.
    apply (insert_told s0 c0 a rest0 I Hen Hreg). apply room_of_sett; auto.
    destruct O as (_ & Hb & _). auto.
  - (* spawn + insert *)
    set (s1 := doev s0 (Spawn id0 v)) in *.
    assert (R1 : reach s1) by now apply doev_reach.
    pose proof (doev_oldrel s0 (Spawn id0 v) a Logic.I Ha) as O1. fold s1 in O1.
    assert (Ha1 : a < nconns s1) by (destruct O1 as (_ & _ & _ & Hn); lia).
    pose proof (doev_oldrel s1 (Insert (nconns s0)) a Logic.I Ha1) as O2.
    split; [eapply oldrel_trans; eassumption|].
    assert (Hr1 : forall i, reg s1 i = reg s0 i) by (intros i; reflexivity).
    assert (Hconn : conns s1 a = conns s0 a).
    { unfold s1, doev. change locked_register with true. cbn [step conns]. apply fupd_other. lia. }
    destruct (doev_insert_reg s1 (nconns s0) id) as [Hr|(Hen & Hid & Hr)]; rewrite Hr, Hr1 in Hc; [contradiction|].
    destruct Hc as [<-|Hc]; [|contradiction].
    rewrite <- Hconn. apply (insert_told s1 (nconns s0) a rest0 (reach_Inv _ R1) Hen).
    + rewrite <- Hid, Hr1. exact Hreg.
    + destruct O2 as (_ & Hb & _). specialize (Hb Hrun). rewrite Hconn in Hb.
      destruct (room_of_sett s0 a S Hb Hcap) as [r1 r2]. split; rewrite Hconn; [exact r1|exact r2].
  - (* unregister: nothing new is registered *)
    exfalso. rewrite unregister_full_reg in Hc.
    destruct (doev_unregister_reg s0 c0 id I) as [Hr|(_ & _ & Hr)]; rewrite Hr in Hc; [contradiction|].
    apply filter_In in Hc as [Hc _]. contradiction.
  - (* insert, then the deferred unregister *)
    set (s1 := doev s0 (Insert c0)) in *.
    assert (R1 : reach s1) by now apply doev_reach.
    pose proof (doev_oldrel s0 (Insert c0) a Logic.I Ha) as O1. fold s1 in O1.
    assert (Ha1 : a < nconns s1) by (destruct O1 as (_ & _ & _ & Hn); lia).
    pose proof (unregister_full_oldrel s1 x a Ha1) as O2.
    split; [eapply oldrel_trans; eassumption|].
    assert (Hc1 : In c (reg s1 id)).
    { rewrite unregister_full_reg in Hc.
      destruct (doev_unregister_reg s1 x id (reach_Inv _ R1)) as [Hr|(_ & _ & Hr)]; rewrite Hr in Hc; [exact Hc|].
      now apply filter_In in Hc as [Hc _]. }
    destruct (doev_insert_reg s0 c0 id) as [Hr|(Hen & Hid & Hr)]; fold s1 in Hr; rewrite Hr in Hc1; [contradiction|].
    destruct Hc1 as [<-|Hc1]; [|contradiction]. subst id.
    destruct O2 as (_ & Hb2 & Hm2 & _). apply Hm2.
    apply (insert_told s0 c0 a rest0 I Hen Hreg). apply room_of_sett; auto.
    destruct O1 as (_ & Hb1 & _). auto.
  - (* shutdown: nothing new is registered *)
    exfalso. destruct (shut_all_reg_cases s0 id) as [Hr|Hr]; rewrite Hr in Hc; contradiction.
Qed.

Lemma filter_ne_keeps (x c : N) l : c <> x -> In c l -> In c (filter (fun y => negb (y =? x)) l).
Proof. intros Hne Hin. apply filter_In. split; [assumption|]. apply negb_true_iff. now apply N.eqb_neq. Qed.

(* the active connection c unregisters and p, the most recently displaced one, is active after it *)
Lemma healthy_unreg s x id c p rest0 rest1 :
  Inv s -> reg s id = c :: p :: rest0 -> reg (unregister_full s x) id = p :: rest1 ->
  ~ In c (reg (unregister_full s x) id) -> room s p -> p < nconns s ->
  In (status_frame (ver (conns s p)) 0) (mq (conns (unregister_full s x) p)).
Proof.
  intros I Hreg Hr1 Hnc Hroom Hp.
  rewrite unregister_full_reg in Hr1, Hnc.
  destruct (doev_unregister_reg s x id I) as [Hr|((sa & E) & Hid & Hr)]; rewrite Hr in Hnc.
  { exfalso. apply Hnc. rewrite Hreg. now left. }
  assert (Hx : x = c).
  { destruct (N.eq_dec c x) as [?|Hne]; [now subst|]. exfalso. apply Hnc.
    apply filter_ne_keeps; [assumption|]. rewrite Hreg. now left. }
  subst x id.
  destruct (promoted_is_told s c sa p rest0 I E Hreg) as (_ & Hmq).
  unfold unregister_full, doev. change locked_register with true. rewrite E.
  assert (Hpa : p < nconns sa).
  { destruct (step_old s _ sa p E Logic.I Hp) as (_ & _ & Hn). lia. }
  destruct (notify_all_oldrel (length (pending sa)) sa p Hpa) as (_ & _ & Hm & _). apply Hm.
  rewrite (Hmq Hroom). apply in_or_app. right. now left.
Qed.

Lemma healthy_mid s0 s' id c p rest0 rest1 :
  reach s0 -> Sett s0 -> mid s0 s' ->
  reg s0 id = c :: p :: rest0 -> reg s' id = p :: rest1 -> ~ In c (reg s' id) ->
  is_running (cstate (conns s' p)) = true -> 1 <= cap s0 ->
  oldrel s0 s' p /\ In (status_frame (ver (conns s0 p)) 0) (mq (conns s' p)).
Proof.
  intros R S M Hreg Hr1 Hnc Hrun Hcap. pose proof (reach_Inv s0 R) as I.
  assert (Hp : p < nconns s0) by (eapply registered_lt; [eassumption|rewrite Hreg; right; now left]).
  assert (Hc0 : In c (reg s0 id)) by (rewrite Hreg; now left).
  destruct M.
  - exfalso. apply Hnc.
    destruct (simple_reg_cases s0 e id H) as [Hr|(c0 & _ & _ & _ & Hr)]; rewrite Hr; [exact Hc0|now right].
  - exfalso. apply Hnc. set (s1 := doev s0 (Spawn id0 v)).
    assert (Hr0 : reg s1 id = reg s0 id) by reflexivity.
    destruct (doev_insert_reg s1 (nconns s0) id) as [Hr|(_ & _ & Hr)]; rewrite Hr, Hr0; [exact Hc0|now right].
  - pose proof (unregister_full_oldrel s0 c0 p Hp) as O. split; [exact O|].
    apply (healthy_unreg s0 c0 id c p rest0 rest1 I Hreg Hr1 Hnc); [|exact Hp].
    apply room_of_sett; auto. destruct O as (_ & Hb & _). auto.
  - set (s1 := doev s0 (Insert c0)) in *.
    assert (R1 : reach s1) by now apply doev_reach.
    pose proof (doev_oldrel s0 (Insert c0) p Logic.I Hp) as O1. fold s1 in O1.
    assert (Hp1 : p < nconns s1) by (destruct O1 as (_ & _ & _ & Hn); lia).
    pose proof (unregister_full_oldrel s1 x p Hp1) as O2.
    split; [eapply oldrel_trans; eassumption|].
    unfold s1, doev in *. change locked_register with true in *.
    destruct (step true s0 (Insert c0)) as [si|] eqn:Ei.
    2:{ apply (healthy_unreg s0 x id c p rest0 rest1 I Hreg Hr1 Hnc); [|exact Hp].
        apply room_of_sett; auto. destruct O2 as (_ & Hb & _). auto. }
    exfalso.
    pose proof (insert_enabled_fresh s0 c0 si Ei) as Hfresh.
    assert (Hsi : forall i, reg si i = if i =? eid (conns s0 c0) then c0 :: reg s0 i else reg s0 i).
    { intros i. pose proof Ei as Ei'. cbn [step] in Ei'. destruct (_ && _); [|discriminate].
      injection Ei' as <-. cbn [reg].
      destruct (insert_entry s0 c0 (eid (conns s0 c0))) as (_ & _ & _ & hr). rewrite hr.
      destruct (i =? eid (conns s0 c0)) eqn:E; [|reflexivity]. apply N.eqb_eq in E. now subst. }
    assert (Hex : eid (conns si x) = eid (conns s0 x)).
    { pose proof (insert_eid s0 c0 x) as He. unfold doev in He. change locked_register with true in He.
      now rewrite Ei in He. }
    rewrite unregister_full_reg in Hr1, Hnc.
    destruct (doev_unregister_reg si x id (reach_Inv _ R1)) as [Hr|(_ & Hid & Hr)]; rewrite Hr in Hnc, Hr1.
    + apply Hnc. rewrite Hsi. destruct (id =? _); [now right|exact Hc0].
    + rewrite Hex, <- H in Hid. rewrite Hsi, Hid, N.eqb_refl in Hnc, Hr1. rewrite <- Hid in Hnc, Hr1.
      assert (Hx : x = c).
      { destruct (N.eq_dec c x) as [?|Hne]; [now subst|]. exfalso. apply Hnc.
        apply filter_ne_keeps; [assumption|]. right. exact Hc0. }
      subst x. cbn [filter] in Hr1.
      destruct (c0 =? c) eqn:Ecc.
      * apply N.eqb_eq in Ecc. subst c0. destruct (registered_eid s0 id c I Hc0) as [_ Hins]. congruence.
      * cbn [negb] in Hr1. injection Hr1 as -> _.
        assert (Hpin : In p (reg s0 id)) by (rewrite Hreg; right; now left).
        destruct (registered_eid s0 id p I Hpin) as [_ Hins]. congruence.
  - exfalso. destruct (shut_all_reg_cases s0 id) as [Hr|Hr]; rewrite Hr in Hr1, Hnc; [|discriminate].
    apply Hnc, Hc0.
Qed.

Lemma existsb_false_notin c l : existsb (N.eqb c) l = false -> ~ In c l.
Proof.
  intros H Hin. assert (existsb (N.eqb c) l = true); [|congruence].
  apply existsb_exists. exists c. split; [assumption|apply N.eqb_refl].
Qed.

Lemma took_over_told_model ss0 ss1 r :
  SInv ss0 -> op_result ss0 ss1 -> Inv (st ss1) ->
  took_over_told (st ss0) (st ss1) (observe ss0 ss1 r) = true.
Proof.
  intros [R S EX D] Hop I. unfold took_over_told. apply forallb_forall. intros id Hid.
  destruct (reg (st ss0) id) as [|a rest0] eqn:Hreg; [reflexivity|].
  destruct (obs_stack _ _ id) as [|c [|a' rest1]] eqn:Eo; try reflexivity.
  destruct (_ && _) eqn:Ec; [|reflexivity].
  apply andb_prop in Ec as [Ec E4]. apply andb_prop in Ec as [Ec E3]. apply andb_prop in Ec as [E1 E2].
  apply N.eqb_eq in E1. subst a'. apply negb_true_iff, existsb_false_notin in E2. apply N.leb_le in E4.
  apply obs_running_model in E3 as [Hlt Hrun].
  apply obs_stack_model_cons in Eo; [|assumption].
  destruct Hop as [Hsame|(s' & M & Hs')].
  { exfalso. apply E2. rewrite Hsame, Hreg in Eo. rewrite Eo. now left. }
  rewrite news_for_model. apply N.ltb_lt in Hlt. rewrite Hlt.
  rewrite Hs' in *. destruct (settle_reg s') as (hr & _). rewrite hr in Eo.
  pose proof (mid_reach _ _ R M) as R'.
  destruct (settle_running _ a (reach_Inv _ R') Hrun) as (_ & Hr' & _).
  assert (Hcin : In c (reg s' id)) by (rewrite Eo; now left).
  rewrite <- Hreg in E2.
  destruct (took_over_mid _ _ id a rest0 c R S M Hreg Hcin E2 Hr' E4) as (O & Hin).
  apply existsb_frame. apply news_has; auto.
  - now apply reach_Inv.
  - eapply registered_lt; [apply reach_Inv, R|rewrite Hreg; now left].
Qed.

Lemma healthy_told_model ss0 ss1 r :
  SInv ss0 -> op_result ss0 ss1 -> Inv (st ss1) ->
  healthy_told (st ss0) (st ss1) (observe ss0 ss1 r) = true.
Proof.
  intros [R S EX D] Hop I. unfold healthy_told. apply forallb_forall. intros id Hid.
  destruct (reg (st ss0) id) as [|c [|p rest0]] eqn:Hreg; try reflexivity.
  destruct (obs_stack _ _ id) as [|p' rest1] eqn:Eo; [reflexivity|].
  destruct (_ && _) eqn:Ec; [|reflexivity].
  apply andb_prop in Ec as [Ec E4]. apply andb_prop in Ec as [Ec E3]. apply andb_prop in Ec as [E1 E2].
  apply N.eqb_eq in E1. subst p'. apply negb_true_iff, existsb_false_notin in E2. apply N.leb_le in E4.
  apply obs_running_model in E3 as [Hlt Hrun].
  apply obs_stack_model_cons in Eo; [|assumption]. rewrite <- Eo in E2.
  destruct Hop as [Hsame|(s' & M & Hs')].
  { exfalso. apply E2. rewrite Hsame, Hreg. now left. }
  rewrite news_for_model. apply N.ltb_lt in Hlt. rewrite Hlt.
  rewrite Hs' in *. destruct (settle_reg s') as (hr & _). rewrite hr in Eo, E2.
  pose proof (mid_reach _ _ R M) as R'.
  destruct (settle_running _ p (reach_Inv _ R') Hrun) as (_ & Hr' & _).
  destruct (healthy_mid _ _ id c p rest0 rest1 R S M Hreg Eo E2 Hr' E4) as (O & Hin).
  apply existsb_frame. apply news_has; auto.
  - now apply reach_Inv.
  - eapply registered_lt; [apply reach_Inv, R|rewrite Hreg; right; now left].
Qed.

Lemma crange_in s c : In c (crange s) <-> c < nconns s.
Proof.
  pose proof (crange_existsb s c) as H. split.
  - intros Hin. apply N.ltb_lt. rewrite <- H. now apply existsb_in_true.
  - intros Hlt. apply N.ltb_lt in Hlt. rewrite <- H in Hlt.
    apply existsb_exists in Hlt as (x & Hx & E). apply N.eqb_eq in E. now subst.
Qed.

Lemma ends_explained_model ss0 ss1 r :
  Expl (st ss1) -> ends_explained (st ss1) (observe ss0 ss1 r) = true.
Proof.
  intros E. unfold ends_explained. apply forallb_forall. intros c Hc. apply crange_in in Hc.
  destruct (E c Hc) as [Hr|Hf].
  - unfold obs_running, observe. cbn [o_states]. rewrite nth_states by assumption.
    destruct (cstate (conns (st ss1) c)); try discriminate Hr. reflexivity.
  - rewrite <- orb_assoc, Hf. apply orb_true_r.
Qed.

Lemma step_ok_model ss0 ss1 r :
  SInv ss0 -> op_result ss0 ss1 -> Inv (st ss1) -> Expl (st ss1) ->
  step_ok (st ss0) (st ss1) (observe ss0 ss1 r) = true.
Proof.
  intros HS Hop I E. unfold step_ok.
  rewrite registry_ok_model, gone_only_after_last_model, gone_delivered_model,
    took_over_told_model, healthy_told_model, ends_explained_model by assumption. reflexivity.
Qed.

Lemma monitor_steps_model l : forall ss, SInv ss ->
  monitor_steps ss (exec_ops ss l) (map snd (exec_ops ss l)) = true.
Proof.
  induction l as [|o l IH]; intros ss H; cbn [exec_ops].
  - destruct (win ss); [|reflexivity].
    destruct (exec_op_mid ss (OInsert n) H) as [Hop H1].
    destruct (exec_op ss (OInsert n)) as [ss1 r]. cbn [fst] in *. cbn.
    rewrite step_ok_model; [reflexivity|assumption|assumption|apply reach_Inv, (si_reach _ H1)|apply (si_expl _ H1)].
  - destruct (exec_op_mid ss o H) as [Hop H1].
    destruct (exec_op ss o) as [ss1 r]. cbn [fst] in *. cbn [map snd monitor_steps fst].
    rewrite step_ok_model; [|assumption|assumption|apply reach_Inv, (si_reach _ H1)|apply (si_expl _ H1)]. cbn [andb]. apply IH, H1.
Qed.

Lemma SInv_init cap : SInv (mkSS (init cap) None None).
Proof.
  constructor; cbn [st win deferred].
  - apply reach_init.
  - constructor; [intros c H; discriminate H|reflexivity].
  - intros c Hc. cbn in Hc. lia.
  - discriminate.
Qed.

Lemma model_monitor i : monitor i (model i) = true.
Proof. unfold monitor, model, trace. apply monitor_steps_model, SInv_init. Qed.
(* the monitor, on arbitrary observations, says exactly: at every observed point the registry
   holds, per endpoint id, the registered-and-not-ended connections, newest first *)
Definition obs_registry_spec (s : state) (ob : obs) : Prop :=
  forall snap, o_snap ob = Some snap ->
    (forall e, In e snap -> fst (fst e) < 4) /\
    forall id, In id ids -> stack_of_snap snap id = expected_stack s (o_states ob) id.

Lemma registry_ok_spec s ob : registry_ok s ob = true <-> obs_registry_spec s ob.
Proof.
  unfold registry_ok, obs_registry_spec. destruct (o_snap ob) as [snap|].
  - rewrite andb_true_iff, !forallb_forall. split.
    + intros [h1 h2] snap' E. injection E as <-. split.
      * intros e He. apply N.ltb_lt. now apply h1.
      * intros id Hid. apply (list_eqb_eq N.eqb); [intros a b; apply N.eqb_eq|now apply h2].
    + intros H. destruct (H snap eq_refl) as [h1 h2]. split.
      * intros e He. apply N.ltb_lt. now apply h1.
      * intros id Hid. rewrite h2 by assumption. apply list_eqb_refl, N.eqb_refl.
  - split; [discriminate|reflexivity].
Qed.

(* the notice clauses of the monitor, on arbitrary observations, as statements *)
Definition obs_gone_only_after_last (s1 : state) (ob : obs) : Prop :=
  forall c l X, In (c, l) (o_news ob) -> In (FGone X) l -> obs_stack s1 ob X = [].

Definition obs_gone_delivered (s0 s1 : state) (ob : obs) : Prop :=
  forall X p a rest, In X ids -> reg s0 X <> [] ->
    (forall c, In c (reg s0 X) -> taken (conns s1 c) = false) ->   (* not taken out by a shutdown *)
    obs_stack s1 ob X = [] -> In p (sent s0 X) ->
    obs_stack s1 ob p = a :: rest -> obs_running ob a = true -> 1 <= cap s0 ->
    count_frame (FGone X) (news_for ob a) = 1.

Lemma is_nil_true {A} (l : list A) : is_nil l = true <-> l = [].
Proof. destruct l; cbn; split; congruence. Qed.

Lemma gone_only_after_last_spec s1 ob :
  gone_only_after_last s1 ob = true <-> obs_gone_only_after_last s1 ob.
Proof.
  unfold gone_only_after_last, obs_gone_only_after_last. rewrite forallb_forall. split.
  - intros H c l X Hin Hf. specialize (H (c, l) Hin). rewrite forallb_forall in H.
    apply is_nil_true, H. cbn [snd]. now apply gone_ids_in.
  - intros H [c l] Hin. apply forallb_forall. intros X HX. apply is_nil_true.
    apply (H c l X Hin). now apply gone_ids_in.
Qed.

Lemma gone_delivered_spec s0 s1 ob :
  gone_delivered s0 s1 ob = true <-> obs_gone_delivered s0 s1 ob.
Proof.
  unfold gone_delivered, obs_gone_delivered. rewrite forallb_forall. split.
  - intros H X p a rest HX Hne Hnt Hnil Hp Ha Hrun Hcap. specialize (H X HX).
    rewrite Hnil in H. cbn [is_nil] in H. rewrite andb_true_r in H.
    assert (Hft : forallb (fun c => negb (taken (conns s1 c))) (reg s0 X) = true).
    { apply forallb_forall. intros c Hc. now rewrite Hnt. }
    rewrite Hft, andb_true_r in H.
    destruct (reg s0 X) eqn:E; [contradiction|]. cbn [is_nil negb] in H.
    rewrite forallb_forall in H. specialize (H p Hp). rewrite Ha, Hrun in H.
    apply N.leb_le in Hcap. rewrite Hcap in H. cbn [andb] in H. now apply N.eqb_eq.
  - intros H X HX. destruct (negb _ && _ && _) eqn:Ec; [|reflexivity].
    apply andb_prop in Ec as [E1 E2]. apply andb_prop in E1 as [E1 Et]. apply is_nil_true in E2.
    apply forallb_forall. intros p Hp. destruct (obs_stack s1 ob p) as [|a rest] eqn:Ea; [reflexivity|].
    destruct (obs_running ob a && _) eqn:Eg; [|reflexivity]. apply andb_prop in Eg as [G1 G2].
    apply N.eqb_eq. apply (H X p a rest); auto.
    + intros Hx. rewrite Hx in E1. discriminate.
    + intros c Hc. rewrite forallb_forall in Et. apply negb_true_iff. now apply Et.
    + now apply N.leb_le.
Qed.

Definition obs_took_over_told (s0 s1 : state) (ob : obs) : Prop :=
  forall id a rest0 c rest1, In id ids ->
    reg s0 id = a :: rest0 -> obs_stack s1 ob id = c :: a :: rest1 -> ~ In c (reg s0 id) ->
    obs_running ob a = true -> 1 <= cap s0 ->
    In (status_frame (ver (conns s0 a)) 1) (news_for ob a).

Definition obs_healthy_told (s0 s1 : state) (ob : obs) : Prop :=
  forall id c p rest0 rest1, In id ids ->
    reg s0 id = c :: p :: rest0 -> obs_stack s1 ob id = p :: rest1 -> ~ In c (obs_stack s1 ob id) ->
    obs_running ob p = true -> 1 <= cap s0 ->
    In (status_frame (ver (conns s0 p)) 0) (news_for ob p).

Lemma frame_eqb_eq a b : frame_eqb a b = true -> a = b.
Proof.
  destruct a, b; cbn; try discriminate; intros H.
  - apply N.eqb_eq in H. now subst.
  - apply N.eqb_eq in H. now subst.
  - apply N.eqb_eq in H. now subst.
  - apply andb_prop in H as [h1 h2]. apply N.eqb_eq in h1, h2. now subst.
Qed.

Lemma existsb_frame_in f l : existsb (frame_eqb f) l = true <-> In f l.
Proof.
  split; [|apply existsb_frame]. intros H. apply existsb_exists in H as (x & Hx & E).
  apply frame_eqb_eq in E. now subst.
Qed.

Lemma took_over_told_spec s0 s1 ob : took_over_told s0 s1 ob = true <-> obs_took_over_told s0 s1 ob.
Proof.
  unfold took_over_told, obs_took_over_told. rewrite forallb_forall. split.
  - intros H id a rest0 c rest1 Hid Hreg Hst Hnc Hrun Hcap. specialize (H id Hid).
    rewrite Hreg in Hnc. rewrite Hreg, Hst in H. rewrite N.eqb_refl, (existsb_notin _ _ Hnc), Hrun in H.
    apply N.leb_le in Hcap. rewrite Hcap in H. cbn [negb andb] in H. now apply existsb_frame_in.
  - intros H id Hid. destruct (reg s0 id) as [|a rest0] eqn:Hreg; [reflexivity|].
    destruct (obs_stack s1 ob id) as [|c [|a' rest1]] eqn:Eo; try reflexivity.
    destruct (_ && _) eqn:Ec; [|reflexivity].
    apply andb_prop in Ec as [Ec E4]. apply andb_prop in Ec as [Ec E3]. apply andb_prop in Ec as [E1 E2].
    apply N.eqb_eq in E1. subst a'. apply negb_true_iff, existsb_false_notin in E2. apply N.leb_le in E4.
    apply existsb_frame_in. apply (H id a rest0 c rest1); auto. now rewrite Hreg.
Qed.

Lemma healthy_told_spec s0 s1 ob : healthy_told s0 s1 ob = true <-> obs_healthy_told s0 s1 ob.
Proof.
  unfold healthy_told, obs_healthy_told. rewrite forallb_forall. split.
  - intros H id c p rest0 rest1 Hid Hreg Hst Hnc Hrun Hcap. specialize (H id Hid).
    rewrite Hst in Hnc. rewrite Hreg, Hst in H. rewrite N.eqb_refl, (existsb_notin _ _ Hnc), Hrun in H.
    apply N.leb_le in Hcap. rewrite Hcap in H. cbn [negb andb] in H. now apply existsb_frame_in.
  - intros H id Hid. destruct (reg s0 id) as [|c [|p rest0]] eqn:Hreg; try reflexivity.
    destruct (obs_stack s1 ob id) as [|p' rest1] eqn:Eo; [reflexivity|].
    destruct (_ && _) eqn:Ec; [|reflexivity].
    apply andb_prop in Ec as [Ec E4]. apply andb_prop in Ec as [Ec E3]. apply andb_prop in Ec as [E1 E2].
    apply N.eqb_eq in E1. subst p'. apply negb_true_iff, existsb_false_notin in E2. apply N.leb_le in E4.
    apply existsb_frame_in. apply (H id c p rest0 rest1); auto. now rewrite Eo.
Qed.

(* a connection observed not running is one whose client closed or that was told to stop *)
Definition obs_ends_explained (s1 : state) (ob : obs) : Prop :=
  forall c, c < nconns s1 -> obs_running ob c = false ->
    cancelled (conns s1 c) = true \/ closed (conns s1 c) = true.

Lemma ends_explained_spec s1 ob : ends_explained s1 ob = true <-> obs_ends_explained s1 ob.
Proof.
  unfold ends_explained, obs_ends_explained. rewrite forallb_forall. split.
  - intros H c Hc Hr. apply crange_in in Hc. specialize (H c Hc). rewrite Hr in H. cbn [orb] in H.
    now apply orb_true_iff.
  - intros H c Hc. apply crange_in in Hc. destruct (obs_running ob c) eqn:Er; [reflexivity|].
    cbn [orb]. apply orb_true_iff. now apply H.
Qed.

Definition obs_step_spec (s0 s1 : state) (ob : obs) : Prop :=
  obs_registry_spec s1 ob /\ obs_gone_only_after_last s1 ob /\ obs_gone_delivered s0 s1 ob /\
  obs_took_over_told s0 s1 ob /\ obs_healthy_told s0 s1 ob /\ obs_ends_explained s1 ob.

Lemma step_ok_spec s0 s1 ob : step_ok s0 s1 ob = true <-> obs_step_spec s0 s1 ob.
Proof.
  unfold step_ok, obs_step_spec. rewrite !andb_true_iff, registry_ok_spec,
    gone_only_after_last_spec, gone_delivered_spec, took_over_told_spec, healthy_told_spec,
    ends_explained_spec. tauto.
Qed.
