(* C07 — proofs about the guard-ownership transition system (Model/C07.v). *)
From V Require Import Lib.Base Model.C07.
From Coq Require Import ZifyBool Lia.
Import C07.
Open Scope N_scope.

(* ---------------- counting ---------------- *)
Definition obs_id (o : obs) : N := match o with Connect id _ => id | Disconnect id => id end.

Lemma obs_eqb_eq a b : obs_eqb a b = true <-> a = b.
Proof.
  destruct a as [i x|i], b as [j y|j]; cbn; split; intros H; try discriminate.
  - apply andb_prop in H as [H1 H2]. apply N.eqb_eq in H1. apply Bool.eqb_prop in H2. congruence.
  - injection H as -> ->. now rewrite N.eqb_refl, Bool.eqb_reflx.
  - apply N.eqb_eq in H. congruence.
  - injection H as ->. apply N.eqb_refl.
Qed.

Lemma obs_eqb_refl a : obs_eqb a a = true.
Proof. now apply obs_eqb_eq. Qed.

Lemma obs_eqb_id a b : obs_id a <> obs_id b -> obs_eqb a b = false.
Proof.
  intros H. destruct (obs_eqb a b) eqn:E; [|reflexivity]. apply obs_eqb_eq in E. subst. congruence.
Qed.

Lemma cnt_app o a b : cnt o (a ++ b) = cnt o a + cnt o b.
Proof. induction a as [|x a IH]; cbn [app cnt]; [reflexivity|]. rewrite IH. lia. Qed.

Lemma cnt_pos_in o l : 0 < cnt o l <-> In o l.
Proof.
  induction l as [|x l IH]; cbn [cnt In]; [split; [lia|tauto]|].
  destruct (obs_eqb o x) eqn:E.
  - apply obs_eqb_eq in E. subst. split; [auto|lia].
  - split.
    + intros H. right. apply IH. lia.
    + intros [H|H]; [subst; rewrite obs_eqb_refl in E; discriminate|]. apply IH in H. lia.
Qed.

Lemma cnt_other o os : (forall x, In x os -> obs_id x <> obs_id o) -> cnt o os = 0.
Proof.
  intros H. destruct (N.eq_dec (cnt o os) 0) as [E|E]; [exact E|].
  assert (I : In o os) by (apply cnt_pos_in; lia). apply H in I. congruence.
Qed.

(* ---------------- local transitions ---------------- *)
Inductive trans (n : N) : cstate -> cstate -> list obs -> N -> Prop :=
| T_id : trans n Idle (HasId n) [] 1
| T_rej : trans n Idle Rejected [] 0
| T_allow id : trans n (HasId id) (Guarded id) [Connect id true] 0
| T_deny id : trans n (HasId id) (Denying id) [Connect id false] 0
| T_unasked id : trans n (HasId id) (ClosedUnasked id) [] 0
| T_denied id : trans n (Denying id) (ClosedDenied id) [] 0
| T_confirm id : trans n (Guarded id) (Accepting id) [] 0
| T_register id : trans n (Accepting id) (Running id) [] 0
| T_end id : trans n (Running id) (Unregistering id) [] 0
| T_drop1 id : trans n (Guarded id) (ClosedAdmitted id) [Disconnect id] 0
| T_drop2 id : trans n (Accepting id) (ClosedAdmitted id) [Disconnect id] 0
| T_drop3 id : trans n (Running id) (ClosedAdmitted id) [Disconnect id] 0
| T_drop4 id : trans n (Unregistering id) (ClosedAdmitted id) [Disconnect id] 0.

Lemma step_trans s e s' : step s e = Some s' ->
  exists c' os dn, s' = mkSt (next s + dn) (os ++ log s) (upd (conns s) (conn_of e) c') /\
                   trans (next s) (conns s (conn_of e)) c' os dn.
Proof.
  unfold step. set (k := conn_of e). clearbody k.
  destruct e as [? [|]|? [|]|? ?|? [|]|?|? ?|?|?]; destruct (conns s k) eqn:C; try discriminate;
    intros [= <-];
    match goal with
    | |- exists c' os dn, mkSt (next ?s + 1) (log ?s) (upd _ _ ?C) = _ /\ _ => exists C, [], 1
    | |- exists c' os dn, mkSt (next ?s) (log ?s) (upd _ _ ?C) = _ /\ _ => exists C, [], 0
    | |- exists c' os dn, mkSt (next ?s) (?o :: log ?s) (upd _ _ ?C) = _ /\ _ => exists C, [o], 0
    end; (split; [rewrite ?N.add_0_r; reflexivity | constructor]).
Qed.

(* ---------------- the invariant ---------------- *)
(* (id, #Connect id true, #Connect id false, #Disconnect id) determined by the state *)
Definition expect (c : cstate) : option (N * N * N * N) :=
  match c with
  | Idle | Rejected => None
  | HasId id | ClosedUnasked id => Some (id, 0, 0, 0)
  | Denying id | ClosedDenied id => Some (id, 0, 1, 0)
  | Guarded id | Accepting id | Running id | Unregistering id => Some (id, 1, 0, 0)
  | ClosedAdmitted id => Some (id, 1, 0, 1)
  end.

Lemma expect_id c id : id_of c = Some id <-> exists a b d, expect c = Some (id, a, b, d).
Proof.
  destruct c; cbn; split; try discriminate; try (intros (a & b & d & H); discriminate);
    try (intros [= <-]; eauto); intros (a & b & d & [= <- _ _ _]); reflexivity.
Qed.

Record Inv (s : st) : Prop := mkInv {
  I1 : forall k id a b d, expect (conns s k) = Some (id, a, b, d) ->
         id < next s /\ cnt (Connect id true) (log s) = a /\ cnt (Connect id false) (log s) = b /\
         cnt (Disconnect id) (log s) = d;
  I2 : forall j k id, j <> k -> id_of (conns s j) = Some id -> id_of (conns s k) <> Some id;
  I4 : forall o, 0 < cnt o (log s) -> exists k, id_of (conns s k) = Some (obs_id o)
}.

Lemma inv_init n0 : Inv (init n0).
Proof. constructor; cbn; try discriminate; intros; lia. Qed.

Lemma upd_same f k c : upd f k c k = c.
Proof. unfold upd. now rewrite Nat.eqb_refl. Qed.
Lemma upd_other f k c j : j <> k -> upd f k c j = f j.
Proof. intros H. unfold upd. destruct (Nat.eqb j k) eqn:E; [apply Nat.eqb_eq in E; contradiction|reflexivity]. Qed.

(* facts about a local transition *)
Lemma trans_facts n c c' os dn : trans n c c' os dn ->
  (* the id is kept, or drawn fresh *)
  ((id_of c = None /\ id_of c' = Some n /\ dn = 1 /\ os = []) \/
   (id_of c' = id_of c /\ dn = 0)) /\
  (* events carry the connection's id *)
  (forall x, In x os -> id_of c' = Some (obs_id x)) /\
  (* expected counts move with the events *)
  (forall id a b d, expect c' = Some (id, a, b, d) ->
     (expect c = None /\ a = 0 /\ b = 0 /\ d = 0 /\ os = []) \/
     (exists a0 b0 d0, expect c = Some (id, a0, b0, d0) /\
        a = cnt (Connect id true) os + a0 /\ b = cnt (Connect id false) os + b0 /\
        d = cnt (Disconnect id) os + d0)).
Proof.
  intros T. split; [|split].
  - destruct T; cbn [id_of]; auto 6.
  - intros x Hx. destruct T; cbn [In id_of] in *; try contradiction;
      destruct Hx as [<-|[]]; reflexivity.
  - intros id' a b d E.
    destruct T; cbn [expect] in *; try discriminate; injection E as <- <- <- <-;
      try (left; repeat split; reflexivity);
      right; eexists _, _, _; (split; [reflexivity|]); cbn [cnt obs_eqb];
      rewrite ?N.eqb_refl; cbn; repeat split; reflexivity.
Qed.

Lemma inv_step s e s' : Inv s -> step s e = Some s' -> Inv s'.
Proof.
  intros [H1 H2 H4] S. apply step_trans in S as (c' & os & dn & -> & T).
  set (k := conn_of e) in *. clearbody k.
  destruct (trans_facts _ _ _ _ _ T) as (F1 & F2 & F3).
  assert (OTHER : forall j id, j <> k -> id_of (conns s j) = Some id -> forall o, obs_id o = id -> cnt o os = 0).
  { intros j id J Hj o Ho. apply cnt_other. intros x Ix Ex.
    destruct F1 as [(_ & _ & _ & ->) | (E & _)]; [destruct Ix|].
    apply F2 in Ix. rewrite E in Ix. apply (H2 j k id J Hj). congruence. }
  constructor; cbn [next log conns].
  - intros j id a b d E. destruct (Nat.eq_dec j k) as [->|J].
    + rewrite upd_same in E. rewrite !cnt_app.
      destruct (F3 _ _ _ _ E) as [(N0 & -> & -> & -> & ->) | (a0 & b0 & d0 & E0 & -> & -> & ->)].
      * cbn [cnt]. (* fresh id *)
        assert (IDn : id = next s /\ dn = 1).
        { destruct F1 as [(_ & I & D & _) | (I & _)].
          - assert (X : id_of c' = Some id) by (apply expect_id; eauto). split; congruence.
          - exfalso. assert (X : id_of c' = Some id) by (apply expect_id; eauto).
            rewrite I in X. apply expect_id in X as (? & ? & ? & X). congruence. }
        destruct IDn as [-> ->]. split; [lia|].
        assert (Z : forall o, obs_id o = next s -> cnt o (log s) = 0).
        { intros o Ho. destruct (N.eq_dec (cnt o (log s)) 0) as [|NZ]; [assumption|].
          destruct (H4 o) as [j Hj]; [lia|]. rewrite Ho in Hj.
          apply expect_id in Hj as (a & b & d & Hj). apply H1 in Hj. lia. }
        rewrite !Z by reflexivity. auto.
      * destruct (H1 _ _ _ _ _ E0) as (L & A & B & D). rewrite A, B, D. split; [lia|auto].
    + rewrite upd_other in E by exact J. destruct (H1 _ _ _ _ _ E) as (L & A & B & D).
      assert (Hj : id_of (conns s j) = Some id) by (apply expect_id; eauto).
      rewrite !cnt_app, A, B, D.
      rewrite (OTHER j id J Hj (Connect id true) eq_refl), (OTHER j id J Hj (Connect id false) eq_refl),
              (OTHER j id J Hj (Disconnect id) eq_refl). split; [lia|auto].
  - intros i j id IJ Hi Hj.
    assert (FRESH : forall m, m <> k -> id_of (conns s m) = Some id -> id_of c' = Some id -> False).
    { intros m M Hm Hc. destruct F1 as [(_ & I & _ & _) | (I & _)].
      - rewrite I in Hc. injection Hc as <-. apply expect_id in Hm as (a & b & d & Hm). apply H1 in Hm. lia.
      - rewrite I in Hc. exact (H2 m k id M Hm Hc). }
    destruct (Nat.eq_dec i k) as [->|I]; destruct (Nat.eq_dec j k) as [->|J]; try contradiction.
    + rewrite upd_same in Hi. rewrite upd_other in Hj by exact J. eapply FRESH; eauto.
    + rewrite upd_same in Hj. rewrite upd_other in Hi by exact I. eapply FRESH; eauto.
    + rewrite upd_other in Hi by exact I. rewrite upd_other in Hj by exact J. exact (H2 i j id IJ Hi Hj).
  - intros o P. rewrite cnt_app in P.
    destruct (N.eq_dec (cnt o os) 0) as [Z|NZ].
    + destruct (H4 o) as [j Hj]; [lia|]. destruct (Nat.eq_dec j k) as [->|J].
      * exists k. rewrite upd_same. destruct F1 as [(N0 & _) | (I & _)]; congruence.
      * exists j. now rewrite upd_other.
    + exists k. rewrite upd_same. apply F2. apply cnt_pos_in. lia.
Qed.

Lemma inv_run tr : forall s s', Inv s -> run s tr = Some s' -> Inv s'.
Proof.
  induction tr as [|e tr IH]; cbn [run]; intros s s' I R.
  - now injection R as <-.
  - destruct (step s e) as [s1|] eqn:S; [|discriminate]. eapply IH; [eapply inv_step; eauto | exact R].
Qed.

Definition reachable (s : st) : Prop := exists n0 tr, run (init n0) tr = Some s.

Lemma reachable_inv s : reachable s -> Inv s.
Proof. intros (n0 & tr & R). eapply inv_run; [apply inv_init | exact R]. Qed.

Lemma run_app a : forall s b, run s (a ++ b) = match run s a with Some s' => run s' b | None => None end.
Proof. induction a as [|e a IH]; cbn [app run]; intros; [reflexivity|]. destruct (step s e); auto. Qed.

Lemma reachable_run s tr s' : reachable s -> run s tr = Some s' -> reachable s'.
Proof. intros (n0 & t0 & R0) R. exists n0, (t0 ++ tr). now rewrite run_app, R0. Qed.

(* ---------------- the property theorems ---------------- *)
Definition admitted (c : cstate) : bool :=
  match c with Guarded _ | Accepting _ | Running _ | Unregistering _ | ClosedAdmitted _ => true | _ => false end.

(* exactly once: the counts of on_connect / on_disconnect for a connection's id
   are a function of its state alone *)
Theorem exactly_once s : reachable s -> forall k id,
  id_of (conns s k) = Some id ->
  cnt (Connect id true) (log s) = (if admitted (conns s k) then 1 else 0) /\
  cnt (Connect id false) (log s) = (if denied (conns s k) then 1 else 0) /\
  cntD id (log s) = (match conns s k with ClosedAdmitted _ => 1 | _ => 0 end).
Proof.
  intros R k id H. apply reachable_inv in R. destruct R as [H1 _ _].
  specialize (H1 k). unfold cntD.
  destruct (conns s k); cbn in *; try discriminate; injection H as <-;
    destruct (H1 _ _ _ _ eq_refl) as (_ & A & B & D); auto.
Qed.

(* for every id whatsoever: at most one on_connect, at most one on_disconnect, and
   a disconnect only after an Allow *)
Theorem at_most_once s : reachable s -> forall id,
  cntC id (log s) <= 1 /\ cntD id (log s) <= cnt (Connect id true) (log s).
Proof.
  intros R id. pose proof (reachable_inv _ R) as [H1 _ H4]. unfold cntC, cntD.
  assert (Z : (forall o, obs_id o = id -> cnt o (log s) = 0) \/ exists k, id_of (conns s k) = Some id).
  { destruct (N.eq_dec (cnt (Connect id true) (log s)) 0) as [A|A];
    [destruct (N.eq_dec (cnt (Connect id false) (log s)) 0) as [B|B];
     [destruct (N.eq_dec (cnt (Disconnect id) (log s)) 0) as [D|D]|]|].
    - left. intros [i [|]|i] E; cbn in E; subst; assumption.
    - right. destruct (H4 (Disconnect id)) as [k Hk]; [lia|eauto].
    - right. destruct (H4 (Connect id false)) as [k Hk]; [lia|eauto].
    - right. destruct (H4 (Connect id true)) as [k Hk]; [lia|eauto]. }
  destruct Z as [Z | [k Hk]].
  - rewrite (Z (Connect id true)), (Z (Connect id false)), (Z (Disconnect id)) by reflexivity. lia.
  - destruct (exactly_once s R k id Hk) as (A & B & D). unfold cntD in D. rewrite A, B, D.
    destruct (conns s k); cbn; lia.
Qed.

(* a denied connection stays denied whatever happens next, and never gets a disconnect *)
Theorem deny_never_registers s k : reachable s -> denied (conns s k) = true ->
  forall tr s', run s tr = Some s' ->
    denied (conns s' k) = true /\ id_of (conns s' k) = id_of (conns s k) /\
    forall id, id_of (conns s k) = Some id -> cntD id (log s') = 0.
Proof.
  intros R D tr. revert s R D. induction tr as [|e tr IH]; intros s R D s' RUN; cbn [run] in RUN.
  - injection RUN as <-. repeat split; auto. intros id H.
    destruct (exactly_once s R k id H) as (_ & _ & X). destruct (conns s k); try discriminate; exact X.
  - destruct (step s e) as [s1|] eqn:S; [|discriminate].
    assert (R1 : reachable s1) by (eapply reachable_run with (tr := [e]); [exact R | cbn; now rewrite S]).
    assert (K : denied (conns s1 k) = true /\ id_of (conns s1 k) = id_of (conns s k)).
    { apply step_trans in S as (c' & os & dn & -> & T). cbn [conns].
      destruct (Nat.eq_dec k (conn_of e)) as [->|N].
      - rewrite upd_same. destruct T; try discriminate; auto.
      - rewrite upd_other by exact N. auto. }
    destruct K as [K1 K2]. destruct (IH s1 R1 K1 s' RUN) as (A & B & C).
    repeat split; [exact A | congruence | intros id H; apply C; congruence].
Qed.

(* ids are never reused: two connections never carry the same id; as u64 values
   as long as fewer than 2^64 ids were drawn *)
Theorem ids_fresh s : reachable s -> forall j k a b,
  j <> k -> id_of (conns s j) = Some a -> id_of (conns s k) = Some b ->
  a <> b /\ (next s <= 2 ^ 64 -> a mod 2 ^ 64 <> b mod 2 ^ 64).
Proof.
  intros R j k a b JK Ha Hb. pose proof (reachable_inv _ R) as [H1 H2 _].
  assert (AB : a <> b) by (intros ->; exact (H2 j k b JK Ha Hb)).
  split; [exact AB|]. intros L.
  apply expect_id in Ha as (? & ? & ? & Ha). apply expect_id in Hb as (? & ? & ? & Hb).
  apply H1 in Ha. apply H1 in Hb. rewrite !N.mod_small by lia. exact AB.
Qed.

(* every connection that is not finished can still make a step (no stuck state holds a guard) *)
Theorem progress s k : final (conns s k) = false -> exists s', step s (EDropTask k) = Some s'.
Proof. unfold step. cbn [conn_of]. destruct (conns s k); try discriminate; eauto. Qed.

(* ---------------- the observed-log monitor ---------------- *)
Definition settled (s : st) : Prop := forall k, final (conns s k) = true \/ conns s k = Idle.

Definition f_conv (o : obs) : N * N * bool :=
  match o with Connect id a => (1, id, a) | Disconnect id => (2, id, false) end.

Lemma len_filter_app {A} (p : A -> bool) a b : len (filter p (a ++ b)) = len (filter p a) + len (filter p b).
Proof. unfold len. rewrite filter_app, app_length. lia. Qed.

Lemma ocntC_map id l : ocntC id (map f_conv l) = cntC id l.
Proof.
  unfold ocntC, cntC. induction l as [|o l IH]; [reflexivity|].
  cbn [map filter cnt]. unfold len in *.
  destruct o as [i [|]|i]; cbn [f_conv obs_eqb]; change (1 =? 1) with true; change (2 =? 1) with false;
    rewrite ?(N.eqb_sym id i); destruct (i =? id); cbn [Bool.eqb andb length]; lia.
Qed.

Lemma ocntD_map id l : ocntD id (map f_conv l) = cntD id l.
Proof.
  unfold ocntD, cntD. induction l as [|o l IH]; [reflexivity|].
  cbn [map filter cnt]. unfold len in *.
  destruct o as [i [|]|i]; cbn [f_conv obs_eqb]; change (1 =? 2) with false; change (2 =? 2) with true;
    rewrite ?(N.eqb_sym id i); destruct (i =? id); cbn [andb length]; lia.
Qed.

Lemma cnt_rev o l : cnt o (rev l) = cnt o l.
Proof. induction l as [|x l IH]; [reflexivity|]. cbn [rev]. rewrite cnt_app, IH. cbn [cnt]. lia. Qed.

Lemma ocntC_conv id l : ocntC id (conv l) = cntC id l.
Proof. unfold conv. change (fun o => _) with f_conv. rewrite ocntC_map. unfold cntC. now rewrite !cnt_rev. Qed.
Lemma ocntD_conv id l : ocntD id (conv l) = cntD id l.
Proof. unfold conv. change (fun o => _) with f_conv. rewrite ocntD_map. unfold cntD. now rewrite cnt_rev. Qed.

Theorem settled_monitor s : reachable s -> settled s -> monitor_o (conv (log s)) = true.
Proof.
  intros R ST. pose proof (reachable_inv _ R) as [H1 _ H4].
  unfold monitor_o. apply forallb_forall. intros e He.
  unfold conv in He. apply in_map_iff in He as (o & <- & Io). apply in_rev in Io.
  assert (P : 0 < cnt o (log s)) by now apply cnt_pos_in.
  destruct (H4 o P) as [k Hk].
  destruct (exactly_once s R k _ Hk) as (A & B & D).
  destruct o as [id a|id]; cbn [obs_id] in *.
  - rewrite ocntC_conv, ocntD_conv. unfold cntC. rewrite A, B, D.
    destruct (ST k) as [F|F]; [|rewrite F in Hk; discriminate].
    destruct a; [rewrite A in P | rewrite B in P];
      destruct (conns s k); cbn in *; try discriminate; try lia; reflexivity.
  - apply existsb_exists. exists (1, id, true). split.
    + unfold conv. apply in_map_iff. exists (Connect id true). split; [reflexivity|].
      apply -> in_rev. apply cnt_pos_in. rewrite A. unfold cntD in D. rewrite D in P.
      destruct (conns s k); cbn in *; try lia.
    + rewrite !N.eqb_refl. reflexivity.
Qed.

(* the canonical schedule settles every connection it touches *)
Lemma canon_conn_run s k sp : conns s k = Idle ->
  exists s', run s (canon_conn k sp) = Some s' /\ final (conns s' k) = true /\
             forall j, j <> k -> conns s' j = conns s j.
Proof.
  intros H. unfold canon_conn.
  destruct (sp_auth sp =? 0); [|destruct (sp_allow sp)];
    cbn [run step conn_of conns next log]; rewrite ?H;
    repeat (cbn [run step conn_of conns next log]; rewrite ?upd_same);
    eexists; (split; [reflexivity|]); cbn [conns]; rewrite ?upd_same;
    (split; [reflexivity|]); intros j J; unfold upd;
    (destruct (Nat.eqb j k) eqn:E; [apply Nat.eqb_eq in E; contradiction | reflexivity]).
Qed.

Lemma canon_settles i : forall k s s',
  (forall j, (k <= j)%nat -> conns s j = Idle) ->
  (forall j, (j < k)%nat -> final (conns s j) = true \/ conns s j = Idle) ->
  run s (canon k i) = Some s' -> settled s'.
Proof.
  induction i as [|sp i IH]; intros k s s' HI HF R; cbn [canon run] in R.
  - injection R as <-. intros j. destruct (Nat.lt_ge_cases j k); auto.
  - rewrite run_app in R.
    destruct (canon_conn_run s k sp (HI k (Nat.le_refl k))) as (s1 & R1 & F1 & O1).
    rewrite R1 in R. apply (IH (S k) s1 s'); [| | exact R].
    + intros j J. rewrite O1 by lia. apply HI. lia.
    + intros j J. destruct (Nat.eq_dec j k) as [->|N]; [auto|]. rewrite O1 by exact N. apply HF. lia.
Qed.

Theorem model_scen_satisfies_monitor : forall i, monitor_o (model_scen i) = true.
Proof.
  intros i. unfold model_scen. destruct (run (init 0) (canon 0 i)) as [s|] eqn:R; [|reflexivity].
  apply settled_monitor.
  - exists 0, (canon 0 i). exact R.
  - eapply canon_settles; [| | exact R]; cbn; intros; [reflexivity|lia].
Qed.

(* ---------------- concurrent id allocation ---------------- *)
(* [astep] is the counter part of the transition system's allocation step *)
Lemma astep_is_step s k : conns s k = Idle ->
  step s (EHandshake k true) = Some (mkSt (next s + 1) (log s) (upd (conns s) k (HasId (next s)))).
Proof. intros H. unfold step. cbn [conn_of]. rewrite H. reflexivity. Qed.

Lemma nodup_app (a b : list N) : NoDup a -> NoDup b -> (forall x, In x a -> In x b -> False) -> NoDup (a ++ b).
Proof.
  induction a as [|x a IH]; intros Ha Hb D; cbn; [exact Hb|].
  inversion Ha as [|? ? Nx Na]; subst. constructor.
  - rewrite in_app_iff. intros [I|I]; [exact (Nx I)|]. apply (D x); [left; reflexivity|exact I].
  - apply IH; [exact Na|exact Hb|]. intros y Iy. apply D. right. exact Iy.
Qed.

Lemma nodupb_iff l : nodupb l = true <-> NoDup l.
Proof.
  induction l as [|a l IH]; cbn [nodupb]; [split; [constructor|reflexivity]|].
  rewrite andb_true_iff, negb_true_iff, IH. split.
  - intros [E D]. constructor; [|exact D]. intros I.
    assert (existsb (N.eqb a) l = true) by (apply existsb_exists; exists a; split; [exact I|apply N.eqb_refl]).
    congruence.
  - intros H. inversion H as [|? ? Na Nl]; subst. split; [|exact Nl].
    destruct (existsb (N.eqb a) l) eqn:E; [|reflexivity].
    apply existsb_exists in E as (y & I & E). apply N.eqb_eq in E. subst. contradiction.
Qed.

Lemma incr_snoc l x : incr l = true -> (forall y, In y l -> y < x) -> incr (l ++ [x]) = true.
Proof.
  induction l as [|a l IH]; intros I B; [reflexivity|].
  destruct l as [|b l].
  - cbn. rewrite andb_true_r. apply N.ltb_lt. apply B. left. reflexivity.
  - cbn [app incr] in *. apply andb_true_iff in I as [I1 I2]. rewrite I1. cbn [andb]. apply (IH I2).
    intros y Iy. apply B. right. exact Iy.
Qed.

Record AInv (n0 : N) (s : ast) : Prop := {
  ai_bound : forall t x, In x (aseq s t) -> n0 < x < anext s;
  ai_next : n0 < anext s;
  ai_incr : forall t, incr (aseq s t) = true;
  ai_nodup : forall t, NoDup (aseq s t);
  ai_disj : forall t u x, t <> u -> In x (aseq s t) -> In x (aseq s u) -> False }.

Lemma ainv_step n0 s t : AInv n0 s -> AInv n0 (astep s t).
Proof.
  intros [B Nx I D X]. split; cbn [astep anext aseq].
  - intros u x. destruct (Nat.eqb u t).
    + rewrite in_app_iff. intros [H|[<-|[]]]; [apply B in H|]; lia.
    + intros H. apply B in H. lia.
  - lia.
  - intros u. destruct (Nat.eqb u t); [|apply I]. apply incr_snoc; [apply I|]. intros y H. apply B in H. lia.
  - intros u. destruct (Nat.eqb u t); [|apply D]. apply nodup_app; [apply D|repeat constructor; intros []|].
    intros x H [<-|[]]. apply B in H. lia.
  - intros u v x UV. destruct (Nat.eqb u t) eqn:Eu, (Nat.eqb v t) eqn:Ev.
    + apply Nat.eqb_eq in Eu, Ev. congruence.
    + rewrite in_app_iff. intros [H|[<-|[]]] H2; [exact (X u v x UV H H2)|]. apply B in H2. lia.
    + rewrite in_app_iff. intros H [H2|[<-|[]]]; [exact (X u v x UV H H2)|]. apply B in H. lia.
    + apply X. exact UV.
Qed.

Lemma ainv_run n0 sched : forall s, AInv n0 s -> AInv n0 (arun s sched).
Proof. induction sched as [|t r IH]; intros s H; [exact H|]. cbn [arun]. apply IH, ainv_step, H. Qed.

Lemma ainv_init n0 : AInv n0 (mkA (n0 + 1) (fun _ => [])).
Proof. split; cbn; try tauto; try lia; intros; try reflexivity; constructor. Qed.

Lemma nodup_concat_map (f : nat -> list N) ts : NoDup ts -> (forall t, NoDup (f t)) ->
  (forall t u x, t <> u -> In x (f t) -> In x (f u) -> False) -> NoDup (concat (map f ts)).
Proof.
  induction ts as [|t ts IH]; intros Nt Nf D; cbn; [constructor|].
  inversion Nt as [|? ? N1 N2]; subst. apply nodup_app; [apply Nf|apply IH; assumption|].
  intros x I1 I2. apply in_concat in I2 as (l & Il & Ix). apply in_map_iff in Il as (u & <- & Iu).
  apply (D t u x); [intros ->; contradiction|exact I1|exact Ix].
Qed.

(* EVERY interleaving of atomic allocation steps, from every counter value, with any
   number of threads: no id is handed out twice and every thread's ids increase *)
Theorem alloc_any_schedule n0 threads sched :
  match aout n0 threads sched with OAlloc b a seqs => monitor_alloc b a seqs = true | _ => False end.
Proof.
  unfold aout. pose proof (ainv_run n0 sched _ (ainv_init n0)) as H.
  set (s := arun _ sched) in *. destruct H as [B Nx I D X].
  unfold monitor_alloc. apply andb_true_iff. split.
  - apply forallb_forall. intros q Iq. apply in_map_iff in Iq as (t & <- & _). apply I.
  - apply nodupb_iff.
    assert (C : forall x, In x (concat (map (aseq s) (seq 0 threads))) -> n0 < x < anext s).
    { intros x Ix. apply in_concat in Ix as (l & Il & Ix). apply in_map_iff in Il as (t & <- & _). exact (B t x Ix). }
    constructor; [|constructor].
    + cbn. intros [E|H]; [lia|]. apply C in H. lia.
    + intros H. apply C in H. lia.
    + apply nodup_concat_map; [apply seq_NoDup|exact D|exact X].
Qed.

(* the monitor on an observed allocation output, as a statement *)
Theorem monitor_alloc_spec b a seqs : monitor_alloc b a seqs = true <->
  NoDup (b :: a :: concat seqs) /\ forall q, In q seqs -> incr q = true.
Proof. unfold monitor_alloc. rewrite andb_true_iff, nodupb_iff, forallb_forall. tauto. Qed.

Theorem model_satisfies_monitor : forall i, monitor i (model i) = true.
Proof.
  intros [l|threads per]; cbn [model].
  - cbn [monitor]. apply model_scen_satisfies_monitor.
  - pose proof (alloc_any_schedule 0 (N.to_nat threads) (canon_sched (N.to_nat threads) (N.to_nat per))) as H.
    destruct (aout 0 _ _); [contradiction|exact H].
Qed.

(* ---------------- non-vacuity ---------------- *)
(* two connections interleaved; the first is admitted and its confirmation write fails,
   the second is admitted, registered, and its task is aborted: one disconnect each *)
Example ex_interleaved :
  exists s, run (init 7)
    [EHandshake 0 true; EHandshake 1 true; EOnConnect 1 true; EOnConnect 0 true;
     EConfirmWrite 0 false; EConfirmWrite 1 true; ERegister 1; EDropTask 1] = Some s /\
  conns s 0 = ClosedAdmitted 7 /\ conns s 1 = ClosedAdmitted 8 /\
  log s = [Disconnect 8; Disconnect 7; Connect 7 true; Connect 8 true].
Proof. eexists. vm_compute. repeat split. Qed.

Example ex_denied :
  exists s, run (init 0) [EHandshake 3 true; EOnConnect 3 false; EDenyWrite 3 false] = Some s /\
  conns s 3 = ClosedDenied 0 /\ log s = [Connect 0 false].
Proof. eexists. vm_compute. repeat split. Qed.

Example ex_model : model (IScen [mkSpec 1 true; mkSpec 0 true; mkSpec 2 false]) =
  OLog [(1, 0, true); (2, 0, false); (1, 1, false)].
Proof. vm_compute. reflexivity. Qed.

(* concurrent allocation: an interleaved schedule of 3 threads, and the model's canonical one *)
Example ex_alloc : aout 10 3 [0; 1; 0; 2; 2; 1]%nat = (OAlloc 10 17 [[11; 13]; [12; 16]; [14; 15]]).
Proof. vm_compute. reflexivity. Qed.
Example ex_alloc_model : model (IAlloc 2 3) = (OAlloc 0 7 [[1; 2; 3]; [4; 5; 6]]) /\ agree (IAlloc 2 3) (model (IAlloc 2 3)) = true.
Proof. vm_compute. split; reflexivity. Qed.
(* what a load / store allocator can produce (two threads read the same counter value): rejected *)
Example ex_alloc_dup : monitor (IAlloc 2 2) (OAlloc 0 4 [[1; 2]; [1; 3]]) = false /\ agree (IAlloc 2 2) (OAlloc 0 4 [[1; 2]; [1; 3]]) = false.
Proof. vm_compute. split; reflexivity. Qed.
