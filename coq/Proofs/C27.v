(* C27 — proofs about the net-report aggregation model. *)
From V Require Import Lib.Base Model.C27.
From Coq Require Import ZifyBool.
Import C27.
Open Scope N_scope.

(* ---------- sorted tables ---------- *)

Definition lb (k : N) (m : table) : Prop :=
  match m with [] => True | (k', _) :: _ => k < k' end.

Lemma sortedb_cons k v t : sortedb ((k, v) :: t) = true <-> lb k t /\ sortedb t = true.
Proof.
  cbn [sortedb]. destruct t as [|[k' v'] t']; cbn [lb].
  - rewrite andb_true_l. tauto.
  - rewrite andb_true_iff, N.ltb_lt. tauto.
Qed.

Lemma lb_trans k k' t : k < k' -> lb k' t -> lb k t.
Proof. destruct t as [|[k2 v2] t]; cbn; lia. Qed.

Lemma lookup_lb m : forall k, sortedb m = true -> lb k m -> lookup m k = None.
Proof.
  induction m as [|[k' v'] t IH]; intros k Hs Hl; [reflexivity|].
  apply sortedb_cons in Hs as [Hl' Hs]. cbn [lb] in Hl. cbn [lookup].
  destruct (k =? k') eqn:E; [lia|]. apply IH; [exact Hs|]. eapply lb_trans; eauto.
Qed.

Lemma upd_lb x m k v : lb x m -> x < k -> lb x (upd m k v).
Proof.
  destruct m as [|[k' v'] t]; cbn [upd lb]; [auto|]. intros H1 H2.
  destruct (k <? k'); [cbn; auto|]. destruct (k =? k'); cbn; auto.
Qed.

Lemma upd_sorted m : forall k v, sortedb m = true -> sortedb (upd m k v) = true.
Proof.
  induction m as [|[k' v'] t IH]; intros k v Hs; [reflexivity|]. cbn [upd].
  destruct (k <? k') eqn:E1.
  - apply sortedb_cons. split; [cbn; lia|exact Hs].
  - apply sortedb_cons in Hs as [Hl Hs]. destruct (k =? k') eqn:E2.
    + apply sortedb_cons. auto.
    + apply sortedb_cons. split; [apply upd_lb; [exact Hl|lia]|apply IH; exact Hs].
Qed.

Definition min2 (v o : N) : N := if v <? o then v else o.
Lemma min2_min v o : min2 v o = N.min v o.
Proof. unfold min2. destruct (v <? o) eqn:E; lia. Qed.

Lemma lookup_upd m : forall k v k', sortedb m = true ->
  lookup (upd m k v) k' =
  if k' =? k then Some (match lookup m k with None => v | Some o => N.min v o end) else lookup m k'.
Proof.
  induction m as [|[k0 v0] t IH]; intros k v k' Hs; cbn [upd lookup].
  - destruct (k' =? k); reflexivity.
  - pose proof Hs as Hs0. apply sortedb_cons in Hs as [Hl Hs].
    destruct (k <? k0) eqn:E1; cbn [lookup].
    + destruct (k' =? k) eqn:E; [|reflexivity].
      destruct (k =? k0) eqn:E2; [lia|]. rewrite lookup_lb; [reflexivity|exact Hs|].
      eapply lb_trans; [|exact Hl]. lia.
    + destruct (k =? k0) eqn:E2; cbn [lookup].
      * destruct (k' =? k) eqn:E.
        -- replace (k' =? k0) with true by lia. f_equal. fold (min2 v v0). apply min2_min.
        -- replace (k' =? k0) with false by lia. reflexivity.
      * destruct (k' =? k0) eqn:E3.
        -- replace (k' =? k) with false by lia. reflexivity.
        -- apply IH. exact Hs.
Qed.

Lemma in_lookup m : forall k v, sortedb m = true -> In (k, v) m -> lookup m k = Some v.
Proof.
  induction m as [|[k0 v0] t IH]; intros k v Hs Hin; [destruct Hin|].
  apply sortedb_cons in Hs as [Hl Hs]. cbn [lookup]. destruct Hin as [H|H].
  - inversion H; subst. now rewrite N.eqb_refl.
  - destruct (k =? k0) eqn:E.
    + assert (k = k0) by lia. subst k0.
      specialize (IH k v Hs H). rewrite (lookup_lb t k Hs Hl) in IH. discriminate.
    + now apply IH.
Qed.

Lemma lookup_in m : forall k v, lookup m k = Some v -> In (k, v) m.
Proof.
  induction m as [|[k0 v0] t IH]; intros k v H; [discriminate|]. cbn [lookup] in H.
  destruct (k =? k0) eqn:E.
  - inversion H; subst. left. f_equal. lia.
  - right. now apply IH.
Qed.

Lemma sorted_ext a : forall b, sortedb a = true -> sortedb b = true ->
  (forall k, lookup a k = lookup b k) -> a = b.
Proof.
  induction a as [|[k1 v1] a IH]; intros [|[k2 v2] b] Ha Hb H.
  - reflexivity.
  - specialize (H k2). cbn in H. rewrite N.eqb_refl in H. discriminate.
  - specialize (H k1). cbn in H. rewrite N.eqb_refl in H. discriminate.
  - apply sortedb_cons in Ha as [La Ha]. apply sortedb_cons in Hb as [Lb Hb].
    assert (k1 = k2).
    { pose proof (H k1) as H1. pose proof (H k2) as H2. cbn [lookup] in H1, H2.
      rewrite N.eqb_refl in H1, H2.
      destruct (k1 =? k2) eqn:E; [lia|]. destruct (k2 =? k1) eqn:E'; [lia|].
      destruct (N.lt_ge_cases k1 k2).
      - rewrite (lookup_lb b k1 Hb) in H1; [discriminate|]. eapply lb_trans; eauto.
      - rewrite (lookup_lb a k2 Ha) in H2; [discriminate|]. eapply lb_trans; [|exact La]. lia. }
    subst k2. pose proof (H k1) as H1. cbn [lookup] in H1. rewrite N.eqb_refl in H1. inversion H1; subst v2.
    f_equal. apply IH; auto. intros k. specialize (H k). cbn [lookup] in H.
    destruct (k =? k1) eqn:E; [|exact H].
    assert (k = k1) by lia. subst k. now rewrite (lookup_lb a k1 Ha La), (lookup_lb b k1 Hb Lb).
Qed.

(* ---------- opt_min / list_min ---------- *)

Lemma opt_min_comm a b : opt_min a b = opt_min b a.
Proof. destruct a, b; cbn; f_equal; lia. Qed.
Lemma opt_min_assoc a b c : opt_min (opt_min a b) c = opt_min a (opt_min b c).
Proof. destruct a, b, c; cbn; f_equal; lia. Qed.
Lemma opt_min_none_r a : opt_min a None = a.
Proof. destruct a; reflexivity. Qed.

Lemma fold_min_snoc l : forall x y, fold_left N.min (l ++ [y]) x = N.min (fold_left N.min l x) y.
Proof. induction l as [|a l IH]; intros x y; cbn; [reflexivity|apply IH]. Qed.

Lemma list_min_snoc l y : list_min (l ++ [y]) = opt_min (list_min l) (Some y).
Proof.
  destruct l as [|x l]; cbn [list_min app opt_min]; [reflexivity|].
  now rewrite fold_min_snoc.
Qed.

Lemma fold_min_le l : forall x, fold_left N.min l x <= x /\ forall y, In y l -> fold_left N.min l x <= y.
Proof.
  induction l as [|a l IH]; intros x; cbn [fold_left]; [split; [lia|intros y []]|].
  destruct (IH (N.min x a)) as [H1 H2]. split; [lia|]. intros y [<-|Hy]; [lia|auto].
Qed.

Lemma fold_min_in l : forall x, fold_left N.min l x = x \/ In (fold_left N.min l x) l.
Proof.
  induction l as [|a l IH]; intros x; cbn [fold_left]; [now left|].
  destruct (IH (N.min x a)) as [H|H]; [|right; now right].
  rewrite H. destruct (N.min_spec x a) as [[_ ->]|[_ ->]]; [now left|right; now left].
Qed.

(* list_min is the minimum: a member, and below every member *)
Lemma list_min_spec l m : list_min l = Some m <-> In m l /\ forall y, In y l -> m <= y.
Proof.
  destruct l as [|x l]; cbn [list_min].
  - split; [discriminate|intros [[] _]].
  - split.
    + intros H. inversion H; subst m. destruct (fold_min_le l x) as [H1 H2]. split.
      * destruct (fold_min_in l x) as [E|E]; [left; now rewrite E|now right].
      * intros y [<-|Hy]; auto.
    + intros [Hin Hle]. f_equal. destruct (fold_min_le l x) as [H1 H2].
      assert (m <= fold_left N.min l x).
      { apply Hle. destruct (fold_min_in l x) as [E|E]; [left; now rewrite E|now right]. }
      destruct Hin as [<-|Hin]; [lia|]. specialize (H2 m Hin). lia.
Qed.

Lemma list_min_none l : list_min l = None <-> l = [].
Proof. destruct l; cbn; split; congruence. Qed.

(* ---------- Report::update over a history ---------- *)

Lemma run_snoc ps p : run (ps ++ [p]) = update (run ps) p.
Proof. unfold run. now rewrite fold_left_app. Qed.

Definition obs_cond (f : N) (p : probe) : bool := (pkind p =? f + 1) && (fam (paddr p) =? f).

Lemma observed_snoc f ps p :
  observed f (ps ++ [p]) = observed f ps ++ (if obs_cond f p then [paddr p] else []).
Proof.
  unfold observed. rewrite filter_app, map_app. cbn [filter]. fold (obs_cond f p).
  destruct (obs_cond f p); reflexivity.
Qed.

Definition vs (obs : list sockaddr) : option bool :=
  match obs with
  | [] => None
  | [_] => None
  | a :: t => Some (negb (forallb (sa_eqb a) t))
  end.

Lemma vs_snoc obs x :
  vs (obs ++ [x]) =
  match obs with
  | [] => None
  | a :: _ => if sa_eqb a x then match vs obs with None => Some false | v => v end else Some true
  end.
Proof.
  destruct obs as [|a [|b t]]; cbn [app vs]; [reflexivity| |].
  - cbn. destruct (sa_eqb a x); reflexivity.
  - cbn [forallb]. rewrite forallb_app. cbn [forallb].
    destruct (sa_eqb a x), (sa_eqb a b), (forallb (sa_eqb a) t); reflexivity.
Qed.

Definition nonempty {A} (l : list A) : bool := match l with [] => false | _ => true end.

(* latency tables after a history: per probe kind, fold of upd over the matching probes *)
Definition kind_ok (p : probe) : bool := pkind p <=? 2.
Definition lat_run (ps : list probe) : latencies :=
  fold_left (fun l p => if kind_ok p then update_relay l (prelay p) (platency p) (pkind p) else l) ps lat_default.

Lemma lat_run_snoc ps p :
  lat_run (ps ++ [p]) =
  if kind_ok p then update_relay (lat_run ps) (prelay p) (platency p) (pkind p) else lat_run ps.
Proof. unfold lat_run. now rewrite fold_left_app. Qed.

Lemma hd_error_app {A} (l : list A) x : hd_error (l ++ [x]) = match l with [] => Some x | a :: _ => Some a end.
Proof. destruct l; reflexivity. Qed.

Lemma run_spec ps :
  run ps = mkRep (nonempty (observed 0 ps)) (nonempty (observed 1 ps))
                 (varies_spec 0 ps) (varies_spec 1 ps) (lat_run ps)
                 (first_observed 0 ps) (first_observed 1 ps).
Proof.
  induction ps as [|p ps IH] using rev_ind; [reflexivity|].
  rewrite run_snoc, IH. unfold update. cbn [udp_v4 udp_v6 varies_v4 varies_v6 relay_latency global_v4 global_v6].
  unfold varies_spec, first_observed. rewrite !observed_snoc, lat_run_snoc. unfold obs_cond, kind_ok.
  change (0 + 1) with 1. change (1 + 1) with 2.
  fold (vs (observed 0 ps)). fold (vs (observed 1 ps)).
  destruct (pkind p =? 0) eqn:K0.
  { replace (pkind p =? 1) with false by lia. replace (pkind p =? 2) with false by lia.
    replace (pkind p <=? 2) with true by lia. cbn [andb]. rewrite !app_nil_r.
    replace (pkind p) with 0 by lia. reflexivity. }
  destruct (pkind p =? 1) eqn:K1.
  { replace (pkind p =? 2) with false by lia. replace (pkind p <=? 2) with true by lia.
    cbn [andb]. rewrite app_nil_r. replace (pkind p) with 1 by lia.
    destruct (fam (paddr p) =? 0) eqn:F; cbn [negb].
    - fold (vs (observed 0 ps ++ [paddr p])). rewrite vs_snoc, hd_error_app.
      destruct (observed 0 ps) as [|a t] eqn:E; cbn [hd_error nonempty app].
      + reflexivity.
      + destruct (sa_eqb a (paddr p)); reflexivity.
    - rewrite app_nil_r. reflexivity. }
  destruct (pkind p =? 2) eqn:K2; cbn [negb andb].
  { replace (pkind p <=? 2) with true by lia. rewrite app_nil_r. replace (pkind p) with 2 by lia.
    destruct (fam (paddr p) =? 1) eqn:F; cbn [negb].
    - fold (vs (observed 1 ps ++ [paddr p])). rewrite vs_snoc, hd_error_app.
      destruct (observed 1 ps) as [|a t] eqn:E; cbn [hd_error nonempty app].
      + reflexivity.
      + destruct (sa_eqb a (paddr p)); reflexivity.
    - rewrite app_nil_r. reflexivity. }
  replace (pkind p <=? 2) with false by lia. rewrite !app_nil_r. reflexivity.
Qed.

(* T: the global address per family is the first one observed *)
Lemma global_is_first_observed ps :
  global_v4 (run ps) = first_observed 0 ps /\ global_v6 (run ps) = first_observed 1 ps.
Proof. rewrite run_spec. split; reflexivity. Qed.

Lemma varies_is_spec ps :
  varies_v4 (run ps) = varies_spec 0 ps /\ varies_v6 (run ps) = varies_spec 1 ps.
Proof. rewrite run_spec. split; reflexivity. Qed.

Lemma sa_eqb_eq a b : sa_eqb a b = true <-> a = b.
Proof.
  destruct a, b. unfold sa_eqb. cbn. split.
  - intros H. f_equal; lia.
  - intros H. inversion H. subst. lia.
Qed.

Lemma forallb_false_ex {A} (f : A -> bool) l :
  forallb f l = false -> exists y, In y l /\ f y = false.
Proof.
  induction l as [|c l IH]; cbn [forallb]; [discriminate|].
  destruct (f c) eqn:E; cbn [andb].
  - intros H. destruct (IH H) as (y & Hy & Hne). exists y. split; [now right|exact Hne].
  - intros _. exists c. split; [now left|exact E].
Qed.

(* readable form of varies_spec: None iff fewer than two observations; otherwise Some b with
   b = true exactly when two observations differ *)
Lemma varies_spec_readable f ps :
  let obs := observed f ps in
  ((length obs < 2)%nat -> varies_spec f ps = None) /\
  ((2 <= length obs)%nat ->
     exists b, varies_spec f ps = Some b /\
       (b = true <-> exists x y, In x obs /\ In y obs /\ x <> y)).
Proof.
  cbv zeta. unfold varies_spec. destruct (observed f ps) as [|a [|b t]]; cbn [length].
  - split; [reflexivity|lia].
  - split; [reflexivity|lia].
  - split; [lia|]. intros _. eexists. split; [reflexivity|].
    rewrite negb_true_iff. split.
    + intros H. destruct (forallb_false_ex _ _ H) as (y & Hy & Hne).
      exists a, y. split; [now left|]. split; [now right|].
      intros ->. rewrite (proj2 (sa_eqb_eq y y) eq_refl) in Hne. discriminate.
    + intros (x & y & Hx & Hy & Hne).
      destruct (forallb (sa_eqb a) (b :: t)) eqn:E; [|reflexivity]. exfalso.
      rewrite forallb_forall in E.
      assert (forall z, In z (a :: b :: t) -> z = a).
      { intros z [<-|Hz]; [reflexivity|]. symmetry. apply sa_eqb_eq. now apply E. }
      apply Hne. rewrite (H x Hx), (H y Hy). reflexivity.
Qed.

(* ---------- latency tables after a history ---------- *)

Definition wf (l : latencies) : Prop :=
  sortedb (ipv4 l) = true /\ sortedb (ipv6 l) = true /\ sortedb (https l) = true.

Definition tbl (k : N) (l : latencies) : table :=
  if k =? 0 then https l else if k =? 1 then ipv4 l else ipv6 l.

Lemma update_relay_wf l u v k : wf l -> wf (update_relay l u v k).
Proof.
  intros (H1 & H2 & H3). unfold update_relay.
  destruct (k =? 0); [|destruct (k =? 1)]; repeat split; cbn; auto using upd_sorted.
Qed.

Lemma update_relay_tbl l u v k j : k <= 2 -> j <= 2 ->
  tbl j (update_relay l u v k) = if j =? k then upd (tbl j l) u v else tbl j l.
Proof.
  intros Hk Hj. unfold update_relay, tbl.
  destruct (k =? 0) eqn:K0; [|destruct (k =? 1) eqn:K1];
  destruct (j =? 0) eqn:J0; try (destruct (j =? 1) eqn:J1); cbn;
  destruct (j =? k) eqn:JK; try reflexivity; lia.
Qed.

Lemma lat_run_wf ps : wf (lat_run ps).
Proof.
  induction ps as [|p ps IH] using rev_ind; [repeat split|].
  rewrite lat_run_snoc. destruct (kind_ok p); auto using update_relay_wf.
Qed.

Lemma lats_of_snoc k u ps p :
  lats_of k u (ps ++ [p]) = lats_of k u ps ++ (if (pkind p =? k) && (prelay p =? u) then [platency p] else []).
Proof.
  unfold lats_of. rewrite filter_app, map_app. cbn [filter].
  destruct ((pkind p =? k) && (prelay p =? u)); reflexivity.
Qed.

(* T: each table holds the minimum latency reported for that probe kind and relay *)
Lemma latency_is_min ps : forall k u, k <= 2 ->
  lookup (tbl k (lat_run ps)) u = list_min (lats_of k u ps).
Proof.
  induction ps as [|p ps IH] using rev_ind; intros k u Hk.
  - unfold tbl. cbn. destruct (k =? 0); [|destruct (k =? 1)]; reflexivity.
  - rewrite lat_run_snoc, lats_of_snoc. unfold kind_ok.
    destruct (pkind p <=? 2) eqn:Kp.
    + rewrite update_relay_tbl by lia.
      destruct (k =? pkind p) eqn:E.
      * replace (pkind p =? k) with true by lia. cbn [andb].
        assert (Hs : sortedb (tbl k (lat_run ps)) = true).
        { destruct (lat_run_wf ps) as (H1 & H2 & H3). unfold tbl.
          destruct (k =? 0); [|destruct (k =? 1)]; auto. }
        rewrite lookup_upd by exact Hs. rewrite (N.eqb_sym (prelay p) u).
        destruct (u =? prelay p) eqn:Eu.
        -- rewrite list_min_snoc. replace u with (prelay p) by lia. rewrite IH by lia.
           replace (prelay p) with u by lia.
           destruct (list_min (lats_of k u ps)); cbn [opt_min]; f_equal; lia.
        -- rewrite app_nil_r. apply IH. lia.
      * replace (pkind p =? k) with false by lia. cbn [andb]. rewrite app_nil_r. apply IH. lia.
    + replace (pkind p =? k) with false by lia. cbn [andb]. rewrite app_nil_r. apply IH. lia.
Qed.

Lemma run_latency ps : relay_latency (run ps) = lat_run ps.
Proof. now rewrite run_spec. Qed.

(* ---------- merge ---------- *)

Definition updf (t : table) (kv : N * N) : table := upd t (fst kv) (snd kv).

Lemma fold_updf_sorted b : forall t, sortedb t = true -> sortedb (fold_left updf b t) = true.
Proof. induction b as [|kv b IH]; intros t H; cbn; [exact H|]. apply IH. unfold updf. now apply upd_sorted. Qed.

Lemma fold_updf_lookup b : forall t k, sortedb t = true -> sortedb b = true ->
  lookup (fold_left updf b t) k = opt_min (lookup t k) (lookup b k).
Proof.
  induction b as [|[k0 v0] b IH]; intros t k Ht Hb; cbn [fold_left lookup].
  - now rewrite opt_min_none_r.
  - apply sortedb_cons in Hb as [Lb Hb]. rewrite IH; [|unfold updf; apply upd_sorted; exact Ht|exact Hb].
    unfold updf. cbn [fst snd]. rewrite lookup_upd by exact Ht.
    destruct (k =? k0) eqn:E.
    + replace k with k0 by lia. rewrite (lookup_lb b k0 Hb Lb).
      destruct (lookup t k0); cbn [opt_min]; f_equal; lia.
    + reflexivity.
Qed.

Lemma fold_ur_https b : forall l,
  fold_left (fun acc kv => update_relay acc (fst kv) (snd kv) 0) b l =
  mkLat (ipv4 l) (ipv6 l) (fold_left updf b (https l)).
Proof. induction b as [|kv b IH]; intros l; cbn [fold_left]; [now destruct l|]. now rewrite IH. Qed.
Lemma fold_ur_ipv4 b : forall l,
  fold_left (fun acc kv => update_relay acc (fst kv) (snd kv) 1) b l =
  mkLat (fold_left updf b (ipv4 l)) (ipv6 l) (https l).
Proof. induction b as [|kv b IH]; intros l; cbn [fold_left]; [now destruct l|]. now rewrite IH. Qed.
Lemma fold_ur_ipv6 b : forall l,
  fold_left (fun acc kv => update_relay acc (fst kv) (snd kv) 2) b l =
  mkLat (ipv4 l) (fold_left updf b (ipv6 l)) (https l).
Proof. induction b as [|kv b IH]; intros l; cbn [fold_left]; [now destruct l|]. now rewrite IH. Qed.

Lemma merge_tables a b :
  merge a b = mkLat (fold_left updf (ipv4 b) (ipv4 a)) (fold_left updf (ipv6 b) (ipv6 a))
                    (fold_left updf (https b) (https a)).
Proof. unfold merge. rewrite fold_ur_https, fold_ur_ipv4, fold_ur_ipv6. reflexivity. Qed.

Lemma merge_wf a b : wf a -> wf (merge a b).
Proof.
  intros (H1 & H2 & H3). rewrite merge_tables. repeat split; cbn; auto using fold_updf_sorted.
Qed.

(* T: merging keeps, per probe kind and relay, the minimum of the two tables *)
Lemma merge_min a b k u : wf a -> wf b ->
  lookup (tbl k (merge a b)) u = opt_min (lookup (tbl k a) u) (lookup (tbl k b) u).
Proof.
  intros (A1 & A2 & A3) (B1 & B2 & B3). rewrite merge_tables. unfold tbl. cbn [ipv4 ipv6 https].
  destruct (k =? 0); [|destruct (k =? 1)]; now apply fold_updf_lookup.
Qed.

Lemma lat_ext a b : wf a -> wf b ->
  (forall k u, k <= 2 -> lookup (tbl k a) u = lookup (tbl k b) u) -> a = b.
Proof.
  intros (A1 & A2 & A3) (B1 & B2 & B3) H. destruct a as [a4 a6 ah], b as [b4 b6 bh]. cbn in *.
  f_equal; apply sorted_ext; auto; intros u.
  - apply (H 1 u). lia.
  - apply (H 2 u). lia.
  - apply (H 0 u). lia.
Qed.

Lemma merge_comm a b : wf a -> wf b -> merge a b = merge b a.
Proof.
  intros Ha Hb. apply lat_ext; auto using merge_wf. intros k u _.
  rewrite !merge_min by auto. apply opt_min_comm.
Qed.

Lemma merge_assoc a b c : wf a -> wf b -> wf c -> merge (merge a b) c = merge a (merge b c).
Proof.
  intros Ha Hb Hc. apply lat_ext; auto using merge_wf. intros k u _.
  rewrite !merge_min by auto using merge_wf. apply opt_min_assoc.
Qed.

Lemma get_spec l u :
  get l u = opt_min (lookup (https l) u) (opt_min (lookup (ipv4 l) u) (lookup (ipv6 l) u)).
Proof.
  unfold get. destruct (lookup (https l) u), (lookup (ipv4 l) u), (lookup (ipv6 l) u);
    cbn; f_equal; lia.
Qed.

(* ---------- the monitor ---------- *)

Lemma table_eqb_refl t : table_eqb t t = true.
Proof. apply list_eqb_refl. intros [a b]. cbn. now rewrite !N.eqb_refl. Qed.
Lemma lat_eqb_refl l : lat_eqb l l = true.
Proof. unfold lat_eqb. now rewrite !table_eqb_refl. Qed.

Lemma table_ok_run ps k : k <= 2 -> table_ok k ps (tbl k (lat_run ps)) = true.
Proof.
  intros Hk. unfold table_ok.
  assert (Hs : sortedb (tbl k (lat_run ps)) = true).
  { destruct (lat_run_wf ps) as (H1 & H2 & H3). unfold tbl. destruct (k =? 0); [|destruct (k =? 1)]; auto. }
  rewrite Hs. cbn [andb]. apply andb_true_intro. split.
  - apply forallb_forall. intros [u v] Hin. cbn [fst snd].
    apply in_lookup in Hin; [|exact Hs]. rewrite latency_is_min in Hin by exact Hk. rewrite Hin.
    cbn. apply N.eqb_refl.
  - apply forallb_forall. intros p Hp. destruct (pkind p =? k) eqn:E; [cbn [negb orb]|reflexivity].
    rewrite latency_is_min by exact Hk.
    destruct (list_min (lats_of k (prelay p) ps)) eqn:El; [reflexivity|].
    apply list_min_none in El. unfold lats_of in El. apply map_eq_nil in El.
    assert (In p (filter (fun q => (pkind q =? k) && (prelay q =? prelay p)) ps)).
    { apply filter_In. split; [exact Hp|]. rewrite E, N.eqb_refl. reflexivity. }
    rewrite El in H. destruct H.
Qed.

Lemma lat_ok_run ps : lat_ok ps (lat_run ps) = true.
Proof.
  unfold lat_ok.
  change (https (lat_run ps)) with (tbl 0 (lat_run ps)).
  change (ipv4 (lat_run ps)) with (tbl 1 (lat_run ps)).
  change (ipv6 (lat_run ps)) with (tbl 2 (lat_run ps)).
  rewrite !table_ok_run by lia. reflexivity.
Qed.

(* soundness of table_ok: it forces the table to be the per-relay minimum *)
Lemma table_ok_sound k ps m : table_ok k ps m = true ->
  forall u, lookup m u = list_min (lats_of k u ps).
Proof.
  unfold table_ok. intros H u. apply andb_prop in H as [H H3]. apply andb_prop in H as [H1 H2].
  rewrite forallb_forall in H2, H3.
  destruct (lookup m u) as [v|] eqn:E.
  - apply lookup_in in E. specialize (H2 _ E). cbn [fst snd] in H2.
    destruct (list_min (lats_of k u ps)); cbn in H2; [|discriminate]. f_equal. lia.
  - symmetry. apply list_min_none. unfold lats_of.
    destruct (filter _ ps) as [|p l] eqn:F; [reflexivity|].
    assert (Hp : In p (filter (fun p => (pkind p =? k) && (prelay p =? u)) ps)) by (rewrite F; now left).
    apply filter_In in Hp as [Hp Hc]. apply andb_prop in Hc as [C1 C2].
    specialize (H3 p Hp). rewrite C1 in H3. cbn [negb orb] in H3.
    replace (prelay p) with u in H3 by lia. rewrite E in H3. discriminate.
Qed.

Lemma table_merge_ok_fold a b : sortedb a = true -> sortedb b = true ->
  table_merge_ok a b (fold_left updf b a) = true.
Proof.
  intros Ha Hb. unfold table_merge_ok. rewrite fold_updf_sorted by exact Ha. cbn [andb].
  apply forallb_forall. intros kv _. rewrite fold_updf_lookup by auto.
  destruct (opt_min _ _); cbn; [apply N.eqb_refl|reflexivity].
Qed.

Lemma merge_ok_merge a b : wf a -> wf b -> merge_ok a b (merge a b) = true.
Proof.
  intros (A1 & A2 & A3) (B1 & B2 & B3). unfold merge_ok. rewrite merge_tables. cbn [ipv4 ipv6 https].
  now rewrite !table_merge_ok_fold.
Qed.

Lemma opt_eqb_refl {A} (e : A -> A -> bool) : (forall a, e a a = true) -> forall o, opt_eqb e o o = true.
Proof. intros H [a|]; cbn; auto. Qed.

Lemma sa_eqb_refl a : sa_eqb a a = true.
Proof. now apply sa_eqb_eq. Qed.
Lemma bool_eqb_refl b : Bool.eqb b b = true.
Proof. destruct b; reflexivity. Qed.

Lemma model_monitor i : monitor i (model i) = true.
Proof.
  unfold monitor, model. cbn [o_rep o_lat2 o_merge12 o_merge21 o_gets].
  rewrite !run_latency. rewrite (run_spec (hist i)).
  cbn [global_v4 global_v6 varies_v4 varies_v6 udp_v4 udp_v6 relay_latency].
  rewrite !(opt_eqb_refl sa_eqb sa_eqb_refl), !(opt_eqb_refl Bool.eqb bool_eqb_refl).
  replace (Bool.eqb (nonempty (observed 0 (hist i))) match observed 0 (hist i) with [] => false | _ :: _ => true end)
    with true by (destruct (observed 0 (hist i)); reflexivity).
  replace (Bool.eqb (nonempty (observed 1 (hist i))) match observed 1 (hist i) with [] => false | _ :: _ => true end)
    with true by (destruct (observed 1 (hist i)); reflexivity).
  rewrite !lat_ok_run.
  rewrite merge_ok_merge by apply lat_run_wf.
  rewrite (merge_comm (lat_run (hist2 i)) (lat_run (hist i))) by apply lat_run_wf.
  rewrite lat_eqb_refl. cbn [andb].
  erewrite map_ext by (intros; apply get_spec).
  apply list_eqb_refl. apply opt_eqb_refl. apply N.eqb_refl.
Qed.

Lemma latency_is_min_run ps k u : k <= 2 ->
  lookup (tbl k (relay_latency (run ps))) u = list_min (lats_of k u ps).
Proof. intros H. rewrite run_latency. exact (latency_is_min ps k u H). Qed.

Lemma tables_wf_run ps : wf (relay_latency (run ps)).
Proof. rewrite run_latency. exact (lat_run_wf ps). Qed.

(* non-vacuity / witnesses *)
Definition a1 := mkSa 0 1. Definition a2 := mkSa 0 2. Definition b1 := mkSa 1 1.
Example ex_varies :
  let r := run [mkProbe 1 0 50 a1; mkProbe 1 1 40 b1; mkProbe 1 1 70 a1; mkProbe 1 0 30 a2; mkProbe 1 2 10 a1] in
  (global_v4 r, varies_v4 r, udp_v6 r, lookup (ipv4 (relay_latency r)) 1) = (Some a1, Some true, false, Some 40).
Proof. vm_compute. reflexivity. Qed.
Example ex_same :
  varies_v4 (run [mkProbe 1 0 50 a1; mkProbe 1 1 40 a1]) = Some false.
Proof. vm_compute. reflexivity. Qed.
Example ex_wf : wf (mkLat [(1, 5); (3, 2)] [] [(0, 9)]).
Proof. repeat split. Qed.
