(* C26 — proofs: the invariant of the HomeRelayWatch transition system. *)
From V Require Import Lib.Base Model.C26.
From Coq Require Import Arith.
Import C26.
Open Scope N_scope.

(* ---------- lists ---------- *)
Lemma upd_length {A} n (a : A) l : length (upd n a l) = length l.
Proof. revert n; induction l as [|b l IH]; intros [|n]; cbn; auto. Qed.

Lemma nth_error_upd_eq {A} n (a : A) l : (n < length l)%nat -> nth_error (upd n a l) n = Some a.
Proof.
  revert n; induction l as [|b l IH]; intros [|n] H; cbn in *; try lia; auto.
  apply IH; lia.
Qed.

Lemma nth_error_upd_neq {A} n m (a : A) l : n <> m -> nth_error (upd n a l) m = nth_error l m.
Proof.
  revert n m; induction l as [|b l IH]; intros [|n] [|m] H; cbn; auto; try congruence.
Qed.

Lemma nth_error_lt {A} (l : list A) n a : nth_error l n = Some a -> (n < length l)%nat.
Proof. intros H. apply nth_error_Some. congruence. Qed.

Lemma opt_N_eqb_iff a b : opt_eqb N.eqb a b = true <-> a = b.
Proof.
  destruct a, b; cbn; split; intros H; try discriminate; try reflexivity.
  - apply N.eqb_eq in H. now subst.
  - inversion H. apply N.eqb_refl.
Qed.

Lemma url_of_write pref : url_of (write_of pref) = pref.
Proof. destruct pref; reflexivity. Qed.

(* ---------- the invariant ---------- *)
Definition typed (o : option op) (p : pc) : bool :=
  match o, p with
  | Some _, Idle | Some _, Done => true
  | Some (Choose _), RGot _ => true
  | Some (SetStatus _ _), SGot => true
  | _, _ => false
  end.

Definition pcat (s : st) (t : nat) (p : pc) : Prop := nth_error (pcs s) t = Some p.

Section Inv.
Variable prog : list op.

Record Inv (s : st) : Prop := mkInv {
  I_len : length (pcs s) = length prog;
  I_typed : forall t p, pcat s t p -> typed (nth_error prog t) p = true;
  (* at most one set_status is between its read and its write *)
  I_excl : forall t u, t <> u -> pcat s t SGot -> pcat s u SGot -> False;
  (* ... and what it read is still there *)
  I_guard : forall t u c, nth_error prog t = Some (SetStatus u c) -> pcat s t SGot ->
              url_of (watch s) = Some u;
  (* the advertised URL is the relay most recently chosen *)
  I_url : url_of (watch s) = chosen s
}.

Lemma nobodyW_spec s : nobodyW s = true -> forall t, pcat s t SGot -> False.
Proof.
  unfold nobodyW, pcat. intros H t Hp. rewrite forallb_forall in H.
  apply nth_error_In in Hp. apply H in Hp. discriminate.
Qed.

Ltac upd_at H t0 t Hlt :=
  destruct (Nat.eq_dec t0 t) as [->|?];
  [ rewrite nth_error_upd_eq in H by exact Hlt; inversion H; subst
  | rewrite nth_error_upd_neq in H by auto ].

(* a step that changes only the program counter of t, not to SGot *)
Lemma inv_set_pc s t p p' :
  Inv s -> pcat s t p -> typed (nth_error prog t) p' = true -> p' <> SGot ->
  Inv (mkSt (watch s) (chosen s) (upd t p' (pcs s))).
Proof.
  intros HI Hp Hty Hn. pose proof (nth_error_lt _ _ _ Hp) as Hlt.
  destruct HI as [Il It Ie Ig Iu].
  constructor; unfold pcat in *; cbn [pcs watch chosen] in *.
  - now rewrite upd_length.
  - intros t0 p0 H0. upd_at H0 t0 t Hlt; eauto.
  - intros t0 u Hne H0 H1. upd_at H0 t0 t Hlt; [congruence|]. upd_at H1 u t Hlt; [congruence|]. eauto.
  - intros t0 u c Hop H0. upd_at H0 t0 t Hlt; [congruence|]. eauto.
  - assumption.
Qed.

Theorem step_inv s t s' : Inv s -> step prog s t = Some s' -> Inv s'.
Proof.
  intros HI Hs. unfold step, step_gen in Hs. cbn [negb orb] in Hs.
  destruct (nth_error prog t) as [o|] eqn:Hop; [|discriminate].
  destruct (nth_error (pcs s) t) as [p|] eqn:Hp; [|destruct o; discriminate].
  pose proof (nth_error_lt _ _ _ Hp) as Hlt.
  destruct o as [pref|u c]; destruct p as [|prev| |]; try discriminate.
  - (* on_network_change: get *)
    inversion Hs; subst s'. eapply inv_set_pc; eauto; [rewrite Hop; reflexivity|discriminate].
  - (* on_network_change: compare, set / clear *)
    destruct (opt_eqb N.eqb pref prev) eqn:E.
    + inversion Hs; subst s'. eapply inv_set_pc; eauto; [rewrite Hop; reflexivity|discriminate].
    + destruct (nobodyW s) eqn:En; [|discriminate]. inversion Hs; subst s'. clear Hs.
      pose proof (nobodyW_spec _ En) as Hno.
      destruct HI as [Il It Ie Ig Iu].
      constructor; unfold pcat in *; cbn [pcs watch chosen] in *.
      * now rewrite upd_length.
      * intros t0 p0 H0. upd_at H0 t0 t Hlt; [rewrite Hop; reflexivity|eauto].
      * intros t0 u Hne H0 H1. upd_at H0 t0 t Hlt. exfalso. eauto.
      * intros t0 u c Hop0 H0. upd_at H0 t0 t Hlt. exfalso. eauto.
      * apply url_of_write.
  - (* set_status: lock, get, compare *)
    destruct (nobodyW s) eqn:En; [|discriminate].
    pose proof (nobodyW_spec _ En) as Hno.
    destruct (opt_eqb N.eqb (url_of (watch s)) (Some u)) eqn:E.
    + inversion Hs; subst s'. clear Hs. apply opt_N_eqb_iff in E.
      destruct HI as [Il It Ie Ig Iu].
      constructor; unfold pcat in *; cbn [pcs watch chosen] in *.
      * now rewrite upd_length.
      * intros t0 p0 H0. upd_at H0 t0 t Hlt; [rewrite Hop; reflexivity|eauto].
      * intros t0 u0 Hne H0 H1. upd_at H0 t0 t Hlt.
        -- rewrite nth_error_upd_neq in H1 by auto. eauto.
        -- exfalso. eauto.
      * intros t0 u0 c0 Hop0 H0. upd_at H0 t0 t Hlt; [|exfalso; eauto].
        rewrite Hop in Hop0. inversion Hop0; subst. assumption.
      * assumption.
    + inversion Hs; subst s'. eapply inv_set_pc; eauto; [rewrite Hop; reflexivity|discriminate].
  - (* set_status: set, unlock *)
    inversion Hs; subst s'. clear Hs.
    pose proof (I_guard _ HI t u c Hop Hp) as Hg.
    destruct HI as [Il It Ie Ig Iu].
    constructor; unfold pcat in *; cbn [pcs watch chosen] in *.
    + now rewrite upd_length.
    + intros t0 p0 H0. upd_at H0 t0 t Hlt; [rewrite Hop; reflexivity|eauto].
    + intros t0 u0 Hne H0 H1. upd_at H0 t0 t Hlt. exfalso. eapply (Ie t0 t); eauto.
    + intros t0 u0 c0 Hop0 H0. upd_at H0 t0 t Hlt. exfalso. eapply (Ie t0 t); eauto.
    + cbn. congruence.
Qed.

Lemma init_pc t p : nth_error (pcs (init prog)) t = Some p -> p = Idle /\ (t < length prog)%nat.
Proof.
  cbn. intros H. pose proof (nth_error_lt _ _ _ H) as Hlt. rewrite map_length in Hlt.
  split; [|assumption].
  rewrite nth_error_map in H. destruct (nth_error prog t); cbn in H; congruence.
Qed.

Lemma init_inv : Inv (init prog).
Proof.
  constructor; unfold pcat.
  - cbn. apply map_length.
  - intros t p H. apply init_pc in H as [-> Hlt].
    destruct (nth_error prog t) as [o|] eqn:E; [destruct o; reflexivity|]. apply nth_error_None in E. lia.
  - intros t u _ H. apply init_pc in H as [E _]. discriminate.
  - intros t u c _ H. apply init_pc in H as [E _]. discriminate.
  - reflexivity.
Qed.

Theorem run_inv sched : forall s s', Inv s -> run (step prog) s sched = Some s' -> Inv s'.
Proof.
  induction sched as [|t r IH]; intros s s' HI H; cbn in H.
  - now inversion H; subst.
  - destruct (step prog s t) eqn:E; [|discriminate]. eapply IH; [|eassumption]. eapply step_inv; eauto.
Qed.

Lemma reachable_inv sched s : run (step prog) (init prog) sched = Some s -> Inv s.
Proof. apply run_inv, init_inv. Qed.

(* every observation of an accepted event list satisfies the monitor *)
Lemma run_ev_snaps evs : forall s l s', Inv s -> run_ev (step prog) s evs = Some (l, s') ->
  forallb snap_ok l = true.
Proof.
  induction evs as [|e r IH]; intros s l s' HI H; cbn [run_ev] in H.
  - inversion H; subst. reflexivity.
  - destruct e as [t|t].
    + destruct (step prog s t) as [s1|] eqn:E; [|discriminate].
      pose proof (step_inv _ _ _ HI E) as HI1.
      destruct (run_ev (step prog) s1 r) as [[l1 s2]|] eqn:Er; [|discriminate].
      inversion H; subst. cbn [forallb]. rewrite (IH _ _ _ HI1 Er), andb_true_r.
      unfold snap_ok, snap. cbn [fst snd]. apply opt_N_eqb_iff. apply (I_url _ HI1).
    + destruct (is_done (pc_of s t)); [discriminate|].
      destruct (step prog s t); [discriminate|].
      destruct (run_ev (step prog) s r) as [[l1 s2]|] eqn:Er; [|discriminate].
      inversion H; subst. cbn [forallb]. rewrite (IH _ _ _ HI Er), andb_true_r.
      unfold snap_ok, snap. cbn [fst snd]. apply opt_N_eqb_iff. apply (I_url _ HI).
Qed.

(* deadlock freedom *)
Lemma find_not_done l : forallb is_done l = false -> exists t p, nth_error l t = Some p /\ p <> Done.
Proof.
  induction l as [|a l IH]; cbn; [discriminate|].
  destruct (is_done a) eqn:E; cbn.
  - intros H. destruct (IH H) as (t & p & Ht & Hp). exists (S t), p. auto.
  - intros _. exists O, a. split; [reflexivity|]. intros ->. discriminate.
Qed.

Lemma find_holder l : forallb (fun p => negb (holdsW p)) l = false ->
  exists t, nth_error l t = Some SGot.
Proof.
  induction l as [|a l IH]; cbn; [discriminate|].
  destruct a; cbn; try (intros H; destruct (IH H) as [t Ht]; exists (S t); exact Ht).
  intros _. now exists O.
Qed.

Theorem inv_progress s : Inv s -> quiescent s = false -> exists t s', step prog s t = Some s'.
Proof.
  intros HI Hq. unfold step, step_gen. cbn [negb orb].
  destruct (nobodyW s) eqn:En.
  - unfold quiescent in Hq. apply find_not_done in Hq as (t & p & Hp & Hnd). exists t.
    pose proof (I_typed _ HI t p Hp) as Hty. rewrite Hp.
    destruct (nth_error prog t) as [[pref|u c]|]; destruct p as [|prev| |]; cbn in Hty; try discriminate;
      try congruence; eauto.
    + destruct (opt_eqb N.eqb pref prev); eauto.
    + destruct (opt_eqb N.eqb (url_of (watch s)) (Some u)); eauto.
  - apply find_holder in En as [t Hp]. exists t.
    pose proof (I_typed _ HI t SGot Hp) as Hty. rewrite Hp.
    destruct (nth_error prog t) as [[pref|u c]|]; cbn in Hty; try discriminate. eauto.
Qed.

End Inv.

(* ---------- theorems ---------- *)
Theorem demoted_never_published prog sched s :
  run (step prog) (init prog) sched = Some s -> url_of (watch s) = chosen s.
Proof. intros H. apply (I_url prog). eapply reachable_inv; eauto. Qed.

(* a set_status call that passed its URL check writes while its relay is still the chosen home *)
Theorem status_written_only_for_home prog sched s t u c :
  run (step prog) (init prog) sched = Some s ->
  nth_error prog t = Some (SetStatus u c) -> nth_error (pcs s) t = Some SGot ->
  chosen s = Some u /\
  exists s', step prog s t = Some s' /\ watch s' = Some (u, c) /\ chosen s' = Some u.
Proof.
  intros Hr Hop Hp. pose proof (reachable_inv prog sched s Hr) as HI.
  pose proof (I_guard _ _ HI t u c Hop Hp) as Hg. rewrite (I_url _ _ HI) in Hg.
  split; [assumption|].
  unfold step, step_gen. rewrite Hop, Hp. eexists. split; [reflexivity|]. cbn. auto.
Qed.

Theorem no_deadlock prog sched s :
  run (step prog) (init prog) sched = Some s -> quiescent s = false ->
  exists t s', step prog s t = Some s'.
Proof. intros Hr. apply inv_progress. eapply reachable_inv; eauto. Qed.

Theorem monitor_spec i l :
  monitor i (Some l) = true <-> forall w c, In (Some (w, c)) l -> url_of w = c.
Proof.
  unfold monitor. rewrite forallb_forall. split.
  - intros H w c Hin. apply H in Hin. unfold osnap_ok, snap_ok in Hin. cbn in Hin. now apply opt_N_eqb_iff.
  - intros H [[w c]|] Hin; [|reflexivity]. unfold osnap_ok, snap_ok. cbn. apply opt_N_eqb_iff. auto.
Qed.

Lemma forallb_osnap l : forallb osnap_ok (map Some l) = forallb snap_ok l.
Proof. induction l as [|a l IH]; cbn; [reflexivity|]. now rewrite IH. Qed.

(* ======================= actor level ======================= *)

Definition AInv (s : ast) : Prop := url_of (awatch s) = achosen s.

Lemma url_of_set_status u c w : url_of (w_set_status u c w) = url_of w.
Proof.
  unfold w_set_status. destruct (opt_eqb N.eqb (url_of w) (Some u)) eqn:E; [|reflexivity].
  apply opt_N_eqb_iff in E. now rewrite E.
Qed.

(* a guarded writer of relay u changes the register only when u is advertised, and then
   leaves u advertised *)
Lemma set_status_other u c w : url_of w <> Some u -> w_set_status u c w = w.
Proof.
  intros H. unfold w_set_status. destruct (opt_eqb N.eqb (url_of w) (Some u)) eqn:E; [|reflexivity].
  apply opt_N_eqb_iff in E. contradiction.
Qed.

Lemma set_status_home u c w : url_of w = Some u -> w_set_status u c w = Some (u, c).
Proof.
  intros H. unfold w_set_status. rewrite H. cbn. now rewrite N.eqb_refl.
Qed.

Lemma handler_writer_url u conn b w : url_of (apply_writer u (handler_writer conn b) w) = url_of w.
Proof. unfold handler_writer. destruct (conn && b); cbn [apply_writer]; [apply url_of_set_status | reflexivity]. Qed.

Lemma report_writer_url u c w : url_of (apply_writer u (report_writer c) w) = url_of w.
Proof. apply url_of_set_status. Qed.

Theorem astep_inv s e s' : AInv s -> astep s e = Some s' -> AInv s'.
Proof.
  unfold AInv, astep, astep_gen. intros I H. destruct e as [pref|u|u conn b|u c].
  - destruct (opt_eqb N.eqb pref (url_of (awatch s))) eqn:E.
    + inversion H; subst s'. cbn. apply opt_N_eqb_iff in E. now symmetry.
    + destruct pref as [n|]; inversion H; subst s'; reflexivity.
  - inversion H; subst s'. exact I.
  - destruct (find_actor u (actors s)) as [a|]; [|discriminate].
    destruct (a_inbox a) as [|b' rest]; [discriminate|].
    destruct (Bool.eqb b b' && phase_eqb _ _); [|discriminate].
    inversion H; subst s'. cbn [awatch achosen]. rewrite <- I. apply handler_writer_url.
  - destruct (find_actor u (actors s)) as [a|]; [|discriminate].
    destruct (report_next (a_phase a) c); [|discriminate].
    inversion H; subst s'. cbn [awatch achosen]. rewrite <- I. apply report_writer_url.
Qed.

Lemma arun_inv evs : forall s s', AInv s -> arun astep s evs = Some s' -> AInv s'.
Proof.
  induction evs as [|e r IH]; intros s s' I H; cbn [arun] in H.
  - now inversion H; subst.
  - destruct (astep s e) as [s1|] eqn:E; [|discriminate]. eapply IH; [eapply astep_inv; eauto|exact H].
Qed.

Lemma ainit_inv : AInv ainit.
Proof. reflexivity. Qed.

(* demoted_never_published for the system with inboxes: whatever the order in which home
   changes, actor starts, inbox messages and status reports happen *)
Theorem actor_demoted_never_published evs s :
  arun astep ainit evs = Some s -> url_of (awatch s) = achosen s.
Proof. intros H. exact (arun_inv _ _ _ ainit_inv H). Qed.

(* an event of a connection actor whose relay is not the chosen home publishes nothing —
   in particular a SetHomeRelay(true) handled late, after the home relay moved on *)
Theorem demoted_actor_publishes_nothing evs s u e s' :
  arun astep ainit evs = Some s -> achosen s <> Some u ->
  (exists conn b, e = AHandle u conn b) \/ (exists c, e = AReport u c) ->
  astep s e = Some s' -> awatch s' = awatch s /\ achosen s' = achosen s.
Proof.
  intros Hr Hc He H. pose proof (actor_demoted_never_published _ _ Hr) as I.
  assert (Hu : url_of (awatch s) <> Some u) by now rewrite I.
  unfold astep, astep_gen in H. destruct He as [(conn & b & ->)|(c & ->)].
  - destruct (find_actor u (actors s)) as [a|]; [|discriminate].
    destruct (a_inbox a) as [|b' rest]; [discriminate|].
    destruct (Bool.eqb b b' && phase_eqb _ _); [|discriminate].
    inversion H; subst s'. cbn [awatch achosen]. split; [|reflexivity].
    unfold handler_writer. destruct (conn && b); cbn [apply_writer]; [now apply set_status_other | reflexivity].
  - destruct (find_actor u (actors s)) as [a|]; [|discriminate].
    destruct (report_next (a_phase a) c); [|discriminate].
    inversion H; subst s'. cbn [awatch achosen]. split; [|reflexivity].
    now apply set_status_other.
Qed.

(* ... and a status report of the chosen home's actor is published under its own URL *)
Theorem home_actor_report_published evs s u c s' :
  arun astep ainit evs = Some s -> achosen s = Some u ->
  astep s (AReport u c) = Some s' -> awatch s' = Some (u, c) /\ achosen s' = Some u.
Proof.
  intros Hr Hc H. pose proof (actor_demoted_never_published _ _ Hr) as I.
  unfold astep, astep_gen in H.
  destruct (find_actor u (actors s)) as [a|]; [|discriminate].
  destruct (report_next (a_phase a) c); [|discriminate].
  inversion H; subst s'. cbn [awatch achosen]. split; [|assumption].
  apply set_status_home. congruence.
Qed.

Lemma arun_snaps_ok evs : forall s l, AInv s -> arun_snaps astep s evs = Some l -> forallb snap_ok l = true.
Proof.
  induction evs as [|e r IH]; intros s l I H; cbn [arun_snaps] in H.
  - now inversion H.
  - destruct (astep s e) as [s1|] eqn:E; [|discriminate].
    destruct (arun_snaps astep s1 r) as [l1|] eqn:R; [|discriminate]. inversion H; subst l.
    pose proof (astep_inv _ _ _ I E) as I1. cbn [forallb]. rewrite (IH _ _ I1 R), Bool.andb_true_r.
    unfold snap_ok, asnap. cbn [fst snd]. apply opt_N_eqb_iff. exact I1.
Qed.

(* the seeded variant (the run_connected handler publishes with the unguarded `set`):
   relay 1 is connected, chosen home, demoted in favour of relay 2 before it handled its
   SetHomeRelay(true); handling it then advertises relay 1 again *)
Theorem unguarded_handler_refuted :
  exists evs s, arun Unguarded.astep ainit evs = Some s /\ url_of (awatch s) <> achosen s.
Proof.
  exists [AStart 1; AReport 1 0; AReport 1 1; AHome (Some 1); AHome (Some 2); AHandle 1 true true].
  eexists. split; [vm_compute; reflexivity|]. cbn. discriminate.
Qed.

(* ... and the SetHomeRelay(false) that follows does not repair it *)
Theorem unguarded_handler_refuted_sticks :
  exists evs s, arun Unguarded.astep ainit evs = Some s /\
    awatch s = Some (1, 1) /\ achosen s = Some 2 /\
    forallb (fun a => match a_inbox a with [] => true | _ => false end) (actors s) = true.
Proof.
  exists [AStart 1; AReport 1 0; AReport 1 1; AHome (Some 1); AHome (Some 2); AHandle 1 true true;
          AHandle 1 true false; AReport 2 0; AHandle 2 false true; AReport 2 1].
  eexists. split; [vm_compute; reflexivity|]. repeat split.
Qed.

(* the same history on the code as it is: the late message publishes nothing, relay 2's own
   reports are published *)
Example actor_late_message :
  amodel [AStart 1; AReport 1 0; AReport 1 1; AHome (Some 1); AHome (Some 2); AHandle 1 true true;
          AHandle 1 true false; AReport 2 0; AHandle 2 false true; AReport 2 1] =
  Some (map Some [(None, None); (None, None); (None, None); (Some (1, 0), Some 1); (Some (2, 0), Some 2);
                  (Some (2, 0), Some 2); (Some (2, 0), Some 2); (Some (2, 0), Some 2); (Some (2, 0), Some 2);
                  (Some (2, 1), Some 2)]).
Proof. vm_compute. reflexivity. Qed.

(* a SetHomeRelay(true) handled in time republishes the actor's real state *)
Example actor_timely_message :
  amodel [AStart 1; AReport 1 0; AReport 1 1; AHome (Some 1); AHandle 1 true true] =
  Some (map Some [(None, None); (None, None); (None, None); (Some (1, 0), Some 1); (Some (1, 1), Some 1)]).
Proof. vm_compute. reflexivity. Qed.

(* events the code cannot produce are not events of the model: a message handled while
   backing off, a message that was never sent, Connected reported by an actor that is not
   dialing, an actor that does not exist *)
Example actor_disabled :
  amodel [AHome (Some 1); AHandle 1 false true] = None /\
  amodel [AStart 1; AReport 1 0; AHandle 1 false true] = None /\
  amodel [AStart 1; AReport 1 1] = None /\
  amodel [AReport 1 0] = None /\
  amodel [AHome (Some 1); AReport 1 0; AHandle 1 false false] = None.
Proof. vm_compute. auto. Qed.

(* the atomic writers are what the lock-level calls do when nothing interleaves *)
Example writers_match_lock_level u c w :
  let prog := [SetStatus u c] in
  forall s, run (step prog) (mkSt w None [Idle]) [0; 0]%nat = Some s \/
            run (step prog) (mkSt w None [Idle]) [0]%nat = Some s ->
            quiescent s = true -> watch s = w_set_status u c w.
Proof.
  intros prog s H Q. unfold w_set_status.
  destruct (opt_eqb N.eqb (url_of w) (Some u)) eqn:E; destruct H as [H|H];
    cbn in H; rewrite E in H; cbn in H; inversion H; subst; cbn in *; try reflexivity; discriminate.
Qed.

Theorem model_monitor : forall i, monitor i (model i) = true.
Proof.
  intros [[prog evs]|evs]; unfold monitor, model.
  - unfold model_with.
    destruct (run_ev (step prog) (init prog) evs) as [[l s]|] eqn:Hr; [|reflexivity].
    destruct (quiescent s); [|reflexivity].
    rewrite forallb_osnap. eapply run_ev_snaps; [apply init_inv|eassumption].
  - unfold amodel. destruct (arun_snaps astep ainit evs) as [l|] eqn:Hr; [|reflexivity].
    rewrite forallb_osnap. eapply arun_snaps_ok; [apply ainit_inv|eassumption].
Qed.

(* ---------- the pinned code violates the property ---------- *)
(* relay 1 is home; its actor passes the URL check; home moves to relay 2; the actor of relay 1
   writes (1, Connected): relay 1 is advertised although relay 2 was chosen *)
Theorem old_toctou :
  exists prog sched s, run (Old.step prog) (init prog) sched = Some s /\
    url_of (watch s) <> chosen s.
Proof.
  exists [Choose (Some 1); SetStatus 1 1; Choose (Some 2)], [0; 0; 1; 2; 2; 1]%nat.
  eexists. split; [vm_compute; reflexivity|]. cbn. discriminate.
Qed.

(* ... and it stays wrong: relay 2's own status report is dropped by the URL check, so at
   quiescence the watchable still advertises relay 1 *)
Theorem old_toctou_sticks :
  exists prog sched s, run (Old.step prog) (init prog) sched = Some s /\ quiescent s = true /\
    watch s = Some (1, 1) /\ chosen s = Some 2.
Proof.
  exists [Choose (Some 1); SetStatus 1 1; Choose (Some 2); SetStatus 2 1], [0; 0; 1; 2; 2; 1; 3]%nat.
  eexists. split; [vm_compute; reflexivity|]. repeat split.
Qed.

(* the racing schedule is not a schedule of the repaired code: the relay actor's set has to
   wait for the writer mutex *)
Example new_toctou_blocked :
  run (step [Choose (Some 1); SetStatus 1 1; Choose (Some 2)])
      (init [Choose (Some 1); SetStatus 1 1; Choose (Some 2)]) [0; 0; 1; 2; 2]%nat = None.
Proof. vm_compute. reflexivity. Qed.

(* non-vacuity: a reachable state of the repaired code in which a status write went through *)
Example reachable_nontrivial :
  exists s, run (step [Choose (Some 1); SetStatus 1 1; Choose (Some 2); SetStatus 2 1])
                (init [Choose (Some 1); SetStatus 1 1; Choose (Some 2); SetStatus 2 1])
                [0; 0; 1; 2; 1; 2; 3; 3]%nat = Some s /\
            quiescent s = true /\ watch s = Some (2, 1) /\ chosen s = Some 2.
Proof. eexists. split; [vm_compute; reflexivity|]. repeat split. Qed.
