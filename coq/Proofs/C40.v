(* C40 — proofs about the router dispatch model. *)
From V Require Import Lib.Base Model.C40.
From Coq Require Import ZifyBool.
Import C40.
Open Scope N_scope.

(* ---- ALPNs are compared as byte strings ---- *)

Lemma alpn_eqb_spec (x y : alpn) : reflect (x = y) (alpn_eqb x y).
Proof.
  destruct (alpn_eqb x y) eqn:E; constructor.
  - now apply bytes_eqb_eq.
  - intros ->. unfold alpn_eqb in E. rewrite bytes_eqb_refl in E. discriminate.
Qed.

Lemma alpn_eqb_refl (x : alpn) : alpn_eqb x x = true.
Proof. apply bytes_eqb_refl. Qed.

Lemma alpn_eqb_iff (x y : alpn) : alpn_eqb x y = true <-> x = y.
Proof. destruct (alpn_eqb_spec x y); split; congruence. Qed.

(* the key order is a strict order that separates any two different byte strings *)
Lemma bytes_ltb_irrefl x : bytes_ltb x x = false.
Proof. induction x as [|a x IH]; cbn [bytes_ltb]; [reflexivity|]. rewrite N.ltb_irrefl, N.eqb_refl. exact IH. Qed.

Lemma bytes_ltb_total x : forall y, x <> y -> bytes_ltb x y = true \/ bytes_ltb y x = true.
Proof.
  induction x as [|a x IH]; intros [|b y] H; cbn [bytes_ltb]; auto; try congruence.
  destruct (N.ltb_spec a b); [auto|]. destruct (N.eqb_spec a b) as [->|Hn].
  - rewrite N.ltb_irrefl, N.eqb_refl. apply IH. congruence.
  - right. destruct (N.ltb_spec b a); [reflexivity|lia].
Qed.

(* ---- the registry: the LAST registration of an ALPN wins ---- *)

Lemma lookup_from_spec a rs : forall k found,
  lookup_from k a rs found =
  match lookup_from k a rs None with Some h => Some h | None => found end.
Proof.
  induction rs as [|x r IH]; intros k found; cbn [lookup_from]; [reflexivity|].
  destruct (alpn_eqb x a).
  - rewrite (IH (k + 1) (Some k)). destruct (lookup_from (k + 1) a r None); reflexivity.
  - apply IH.
Qed.

Lemma lookup_from_some a rs : forall k h,
  lookup_from k a rs None = Some h ->
  k <= h /\ nth_error rs (N.to_nat (h - k)) = Some a /\
  forall j, (N.to_nat (h - k) < j)%nat -> nth_error rs j <> Some a.
Proof.
  induction rs as [|x r IH]; intros k h H; cbn [lookup_from] in H; [discriminate|].
  destruct (alpn_eqb_spec x a) as [E|E].
  - rewrite lookup_from_spec in H. destruct (lookup_from (k + 1) a r None) as [h'|] eqn:L.
    + inversion H; subst h'. destruct (IH _ _ L) as (H1 & H2 & H3).
      split; [lia|]. replace (N.to_nat (h - k)) with (S (N.to_nat (h - (k + 1)))) by lia.
      split; [exact H2|]. intros [|j] Hj; [lia|]. cbn. apply H3. lia.
    + inversion H; subst h. split; [lia|]. rewrite N.sub_diag. cbn. split; [congruence|].
      intros [|j] Hj; [lia|]. cbn. intros Hn.
      (* a occurs in r at j, so lookup_from finds it *)
      clear -L Hn. revert j k L Hn. induction r as [|y r IHr]; intros j k L Hn; [destruct j; discriminate|].
      cbn [lookup_from] in L. destruct j; cbn in Hn.
      * inversion Hn; subst. rewrite alpn_eqb_refl in L. rewrite lookup_from_spec in L.
        destruct (lookup_from (k + 1 + 1) a r None); discriminate.
      * destruct (alpn_eqb y a).
        -- rewrite lookup_from_spec in L. destruct (lookup_from (k + 1 + 1) a r None); discriminate.
        -- eapply IHr; eauto.
  - destruct (IH _ _ H) as (H1 & H2 & H3). split; [lia|].
    replace (N.to_nat (h - k)) with (S (N.to_nat (h - (k + 1)))) by lia.
    split; [exact H2|]. intros [|j] Hj; [lia|]. cbn. apply H3. lia.
Qed.

Lemma lookup_some a rs h :
  lookup a rs = Some h ->
  nth_error rs (N.to_nat h) = Some a /\ forall j, (N.to_nat h < j)%nat -> nth_error rs j <> Some a.
Proof.
  intros H. destruct (lookup_from_some _ _ _ _ H) as (_ & H2 & H3).
  rewrite N.sub_0_r in *. auto.
Qed.

Lemma lookup_none a rs : lookup a rs = None -> ~ In a rs.
Proof.
  unfold lookup. generalize 0. induction rs as [|x r IH]; intros k H; [tauto|].
  cbn [lookup_from] in H. destruct (alpn_eqb_spec x a) as [E|E].
  - rewrite lookup_from_spec in H. destruct (lookup_from (k + 1) a r None); discriminate.
  - intros [E'|Hin]; [contradiction|]. exact (IH _ H Hin).
Qed.

(* ---- dispatch ---- *)

Lemma handler_iff_registered_and_admitted rs adm neg h :
  dispatch rs adm neg = Some h <->
  adm = AdmOk /\ exists a, neg = Some a /\ lookup a rs = Some h.
Proof.
  unfold dispatch. split.
  - destruct adm; try discriminate. destruct neg as [a|]; [|discriminate]. eauto.
  - intros (-> & a & -> & H). exact H.
Qed.

Lemma no_handler_cases rs adm neg :
  dispatch rs adm neg = None <->
  adm <> AdmOk \/ neg = None \/ exists a, neg = Some a /\ lookup a rs = None.
Proof.
  unfold dispatch. split.
  - destruct adm; [|left; discriminate..]. destruct neg as [a|]; [|auto]. eauto.
  - intros [H|[->|(a & -> & H)]]; destruct adm; auto; try contradiction; try (now destruct neg).
Qed.

Lemma retry_needs_second_accept rs v2 neg h :
  dispatch rs (snd (filter_phase (Some (VRetry, v2)))) neg = Some h ->
  v2 = VAccept /\ fst (filter_phase (Some (VRetry, v2))) = [false; true].
Proof. destruct v2; cbn; try discriminate. auto. Qed.

Lemma filter_admits f :
  snd (filter_phase f) = AdmOk <->
  f = None \/ (exists v2, f = Some (VAccept, v2)) \/ f = Some (VRetry, VAccept).
Proof.
  split.
  - destruct f as [[[] []]|]; cbn; try discriminate; eauto.
  - intros [E|[[v2 E]|E]]; subst f; reflexivity.
Qed.

(* the assumed negotiation only ever yields a protocol both sides have *)
Lemma negotiate_sound server offered a :
  negotiate server offered = Some a -> In a server /\ In a offered.
Proof.
  unfold negotiate. intros H. apply find_some in H as [H1 H2]. split; [assumption|].
  unfold mem in H2. apply existsb_exists in H2 as (x & Hx & E). apply bytes_eqb_eq in E. now subst.
Qed.

(* ---- whole case ---- *)

Definition hlog (o : out) : list (N * option alpn) := snd (fst o).

Lemma run_case_handler i h a :
  In (h, a) (hlog (run_case i)) <->
  snd (filter_phase (filter i)) = AdmOk /\
  exists a', a = Some a' /\ negotiate (ep_alpns i) (offer i) = Some a' /\ lookup a' (regs i) = Some h.
Proof.
  unfold run_case, hlog. destruct (filter_phase (filter i)) as [flog adm]. cbn [snd].
  destruct adm; cbn [fst snd].
  - destruct (negotiate (ep_alpns i) (offer i)) as [a'|] eqn:Ng; cbn [dispatch].
    + destruct (lookup a' (regs i)) as [h'|] eqn:L; cbn [fst snd In].
      * split.
        -- intros [E|[]]. inversion E; subst. eauto.
        -- intros (_ & a2 & -> & E & L'). inversion E; subst. left. congruence.
      * split; [tauto|]. intros (_ & a2 & -> & E & L'). inversion E; subst. congruence.
    + cbn. split; [tauto|]. intros (_ & a2 & _ & E & _). discriminate.
  - cbn. split; [tauto|]. intros (E & _). discriminate.
  - cbn. split; [tauto|]. intros (E & _). discriminate.
Qed.

Lemma run_case_at_most_one i : (length (hlog (run_case i)) <= 1)%nat.
Proof.
  unfold run_case, hlog. destruct (filter_phase (filter i)) as [flog []]; cbn; try lia.
  destruct (negotiate _ _); cbn; [|lia]. destruct (lookup _ _); cbn; lia.
Qed.

Lemma oN_eqb_refl o : oN_eqb o o = true.
Proof. destruct o; cbn; [apply alpn_eqb_refl | reflexivity]. Qed.

Lemma admitted_by_model_log f :
  snd (filter_phase f) = AdmOk -> admitted_by_log f (fst (filter_phase f)) = true.
Proof. destruct f as [[[] []]|]; cbn; try discriminate; reflexivity. Qed.

Lemma model_monitor i : monitor i (model i) = true.
Proof.
  unfold model, monitor, run_case.
  destruct (filter_phase (filter i)) as [flog adm] eqn:F.
  assert (Fa : adm = AdmOk -> admitted_by_log (filter i) flog = true).
  { intros ->. replace flog with (fst (filter_phase (filter i))) by now rewrite F.
    apply admitted_by_model_log. now rewrite F. }
  destruct adm; try reflexivity.
  destruct (negotiate (ep_alpns i) (offer i)) as [a|] eqn:Ng; [|reflexivity].
  cbn [dispatch]. destruct (lookup a (regs i)) as [h|] eqn:L.
  - cbn [forallb fst snd andb]. rewrite L. cbn [opt_eqb]. rewrite N.eqb_refl.
    destruct (negotiate_sound _ _ _ Ng) as [_ Ho].
    assert (M : mem a (offer i) = true).
    { unfold mem. apply existsb_exists. exists a. split; [assumption | apply alpn_eqb_refl]. }
    rewrite M, Fa by reflexivity. cbn [andb list_eqb].
    unfold hentry_eqb. cbn [fst snd]. rewrite N.eqb_refl, oN_eqb_refl. reflexivity.
  - cbn [forallb andb]. rewrite L. reflexivity.
Qed.

(* Non-vacuity / witnesses *)
Definition nA : alpn := str_bytes "/c40/a".
Definition nB : alpn := str_bytes "/c40/b".
Definition nC : alpn := str_bytes "/c40/c".
Definition nD : alpn := str_bytes "/c40/d".
Definition nX : alpn := hex "ff61".          (* not valid UTF-8 *)
Definition nL : alpn := hex "efbfbd61".      (* the U+FFFD rendering of nX *)
Definition nAb : alpn := str_bytes "/c40/ab". (* nA is a proper prefix *)

Example ex_replace : (* a later registration of the same ALPN replaces the earlier one *)
  run_case (mkIn [nC; nA; nC] None None [nC]) = ([], [(2, Some nC)], DGreeted 2 (Some nC)).
Proof. vm_compute. reflexivity. Qed.

Example ex_retry_accept :
  run_case (mkIn [nA; nB] None (Some (VRetry, VAccept)) [nB]) = ([false; true], [(1, Some nB)], DGreeted 1 (Some nB)).
Proof. vm_compute. reflexivity. Qed.

Example ex_retry_retry :
  run_case (mkIn [nA] None (Some (VRetry, VRetry)) [nA]) = ([false; true], [], DRefused).
Proof. vm_compute. reflexivity. Qed.

Example ex_unregistered_negotiated :
  run_case (mkIn [nA; nB] (Some [nA; nB; nD]) None [nD]) = ([], [], DDropped (Some nD)).
Proof. vm_compute. reflexivity. Qed.

(* a non-UTF-8 ALPN and its U+FFFD rendering are two different protocols *)
Example ex_binary_alpn :
  run_case (mkIn [nX; nL] None None [nX]) = ([], [(0, Some nX)], DGreeted 0 (Some nX)) /\
  run_case (mkIn [nX; nL] None None [nL]) = ([], [(1, Some nL)], DGreeted 1 (Some nL)) /\
  run_case (mkIn [nL] (Some [nL; nX]) None [nX]) = ([], [], DDropped (Some nX)).
Proof. vm_compute. auto. Qed.

(* a name and a proper prefix of it are different protocols; the prefix sorts first *)
Example ex_prefix :
  keys [nAb; nX; nA; nL; nAb] = [nA; nAb; nL; nX] /\
  run_case (mkIn [nAb; nA] None None [nAb; nA]) = ([], [(1, Some nA)], DGreeted 1 (Some nA)) /\
  run_case (mkIn [nAb] None None [nA]) = ([], [], DHandshake).
Proof. vm_compute. auto. Qed.

Example mon_rejects :
  (* handed to the handler of another protocol *)
  monitor (mkIn [nA; nB] None None [nB]) (Ok ([], [(0, Some nB)], DGreeted 0 (Some nB))) = false /\
  (* a binary ALPN handed to the handler registered under its U+FFFD rendering *)
  monitor (mkIn [nX; nL] None None [nX]) (Ok ([], [(1, Some nX)], DGreeted 1 (Some nX))) = false /\
  (* a registered binary ALPN dropped without a handler *)
  monitor (mkIn [nX] None None [nX]) (Ok ([], [], DDropped (Some nX))) = false /\
  (* handler reached although the filter rejected the validated retry *)
  monitor (mkIn [nA] None (Some (VRetry, VReject)) [nA]) (Ok ([false; true], [(0, Some nA)], DGreeted 0 (Some nA))) = false /\
  (* handler reached although the filter refused *)
  monitor (mkIn [nA] None (Some (VReject, VAccept)) [nA]) (Ok ([false], [(0, Some nA)], DRefused)) = false /\
  (* two handlers for one connection *)
  monitor (mkIn [nA; nB] None None [nA; nB]) (Ok ([], [(0, Some nA); (1, Some nB)], DGreeted 0 (Some nA))) = false /\
  (* registered protocol, admitted, but dropped without a handler *)
  monitor (mkIn [nA] None None [nA]) (Ok ([], [], DDropped (Some nA))) = false.
Proof. vm_compute. repeat split. Qed.
