(* C40 — proofs about the router dispatch model. *)
From V Require Import Lib.Base Model.C40.
From Coq Require Import ZifyBool.
Import C40.
Open Scope N_scope.

(* ---- the registry: the LAST registration of an ALPN wins ---- *)

Lemma lookup_from_spec a rs : forall k found,
  lookup_from k a rs found =
  match lookup_from k a rs None with Some h => Some h | None => found end.
Proof.
  induction rs as [|x r IH]; intros k found; cbn [lookup_from]; [reflexivity|].
  destruct (N.eqb x a).
  - rewrite (IH (k + 1) (Some k)). destruct (lookup_from (k + 1) a r None); reflexivity.
  - apply IH.
Qed.

Lemma lookup_from_some a rs : forall k h,
  lookup_from k a rs None = Some h ->
  k <= h /\ nth_error rs (N.to_nat (h - k)) = Some a /\
  forall j, (N.to_nat (h - k) < j)%nat -> nth_error rs j <> Some a.
Proof.
  induction rs as [|x r IH]; intros k h H; cbn [lookup_from] in H; [discriminate|].
  destruct (N.eqb_spec x a) as [E|E].
  - rewrite lookup_from_spec in H. destruct (lookup_from (k + 1) a r None) as [h'|] eqn:L.
    + inversion H; subst h'. destruct (IH _ _ L) as (H1 & H2 & H3).
      split; [lia|]. replace (N.to_nat (h - k)) with (S (N.to_nat (h - (k + 1)))) by lia.
      split; [exact H2|]. intros [|j] Hj; [lia|]. cbn. apply H3. lia.
    + inversion H; subst h. split; [lia|]. rewrite N.sub_diag. cbn. split; [congruence|].
      intros [|j] Hj; [lia|]. cbn. intros Hn.
      (* a occurs in r at j, so lookup_from finds it *)
      clear -L Hn. revert j k L Hn. induction r as [|y r IHr]; intros j k L Hn; [destruct j; discriminate|].
      cbn [lookup_from] in L. destruct j; cbn in Hn.
      * inversion Hn; subst. rewrite N.eqb_refl in L. rewrite lookup_from_spec in L.
        destruct (lookup_from (k + 1 + 1) a r None); discriminate.
      * destruct (N.eqb y a).
        -- rewrite lookup_from_spec in L. destruct (lookup_from (k + 1 + 1) a r None); discriminate.
        -- eapply IHr; eauto.
  - destruct (IH _ _ H) as (H1 & H2 & H3). split; [lia|].
    replace (N.to_nat (h - k)) with (S (N.to_nat (h - (k + 1)))) by lia.
    split; [exact H2|]. intros [|j] Hj; [lia|]. cbn. apply H3. lia.
Qed.

Lemma lookup_some a rs h :
  lookup a rs = Some h ->
  nth_error rs (N.to_nat h) = Some a /\ forall j, (N.to_nat h < j)%nat -> nth_error rs j <> Some a.
Proof.
  intros H. destruct (lookup_from_some _ _ _ _ H) as (_ & H2 & H3).
  rewrite N.sub_0_r in *. auto.
Qed.

Lemma lookup_none a rs : lookup a rs = None -> ~ In a rs.
Proof.
  unfold lookup. generalize 0. induction rs as [|x r IH]; intros k H; [tauto|].
  cbn [lookup_from] in H. destruct (N.eqb_spec x a) as [E|E].
  - rewrite lookup_from_spec in H. destruct (lookup_from (k + 1) a r None); discriminate.
  - intros [E'|Hin]; [contradiction|]. exact (IH _ H Hin).
Qed.

(* ---- dispatch ---- *)

Lemma handler_iff_registered_and_admitted rs adm neg h :
  dispatch rs adm neg = Some h <->
  adm = AdmOk /\ exists a, neg = Some a /\ lookup a rs = Some h.
Proof.
  unfold dispatch. split.
  - destruct adm; try discriminate. destruct neg as [a|]; [|discriminate]. eauto.
  - intros (-> & a & -> & H). exact H.
Qed.

Lemma no_handler_cases rs adm neg :
  dispatch rs adm neg = None <->
  adm <> AdmOk \/ neg = None \/ exists a, neg = Some a /\ lookup a rs = None.
Proof.
  unfold dispatch. split.
  - destruct adm; [|left; discriminate..]. destruct neg as [a|]; [|auto]. eauto.
  - intros [H|[->|(a & -> & H)]]; destruct adm; auto; try contradiction; try (now destruct neg).
Qed.

Lemma retry_needs_second_accept rs v2 neg h :
  dispatch rs (snd (filter_phase (Some (VRetry, v2)))) neg = Some h ->
  v2 = VAccept /\ fst (filter_phase (Some (VRetry, v2))) = [false; true].
Proof. destruct v2; cbn; try discriminate. auto. Qed.

Lemma filter_admits f :
  snd (filter_phase f) = AdmOk <->
  f = None \/ (exists v2, f = Some (VAccept, v2)) \/ f = Some (VRetry, VAccept).
Proof.
  split.
  - destruct f as [[[] []]|]; cbn; try discriminate; eauto.
  - intros [E|[[v2 E]|E]]; subst f; reflexivity.
Qed.

(* the assumed negotiation only ever yields a protocol both sides have *)
Lemma negotiate_sound server offered a :
  negotiate server offered = Some a -> In a server /\ In a offered.
Proof.
  unfold negotiate. intros H. apply find_some in H as [H1 H2]. split; [assumption|].
  unfold mem in H2. apply existsb_exists in H2 as (x & Hx & E). apply N.eqb_eq in E. now subst.
Qed.

(* ---- whole case ---- *)

Definition hlog (o : out) : list (N * option N) := snd (fst o).

Lemma run_case_handler i h a :
  In (h, a) (hlog (run_case i)) <->
  snd (filter_phase (filter i)) = AdmOk /\
  exists a', a = Some a' /\ negotiate (ep_alpns i) (offer i) = Some a' /\ lookup a' (regs i) = Some h.
Proof.
  unfold run_case, hlog. destruct (filter_phase (filter i)) as [flog adm]. cbn [snd].
  destruct adm; cbn [fst snd].
  - destruct (negotiate (ep_alpns i) (offer i)) as [a'|] eqn:Ng; cbn [dispatch].
    + destruct (lookup a' (regs i)) as [h'|] eqn:L; cbn [fst snd In].
      * split.
        -- intros [E|[]]. inversion E; subst. eauto.
        -- intros (_ & a2 & -> & E & L'). inversion E; subst. left. congruence.
      * split; [tauto|]. intros (_ & a2 & -> & E & L'). inversion E; subst. congruence.
    + cbn. split; [tauto|]. intros (_ & a2 & _ & E & _). discriminate.
  - cbn. split; [tauto|]. intros (E & _). discriminate.
  - cbn. split; [tauto|]. intros (E & _). discriminate.
Qed.

Lemma run_case_at_most_one i : (length (hlog (run_case i)) <= 1)%nat.
Proof.
  unfold run_case, hlog. destruct (filter_phase (filter i)) as [flog []]; cbn; try lia.
  destruct (negotiate _ _); cbn; [|lia]. destruct (lookup _ _); cbn; lia.
Qed.

Lemma oN_eqb_refl o : oN_eqb o o = true.
Proof. destruct o; cbn; [apply N.eqb_refl | reflexivity]. Qed.

Lemma admitted_by_model_log f :
  snd (filter_phase f) = AdmOk -> admitted_by_log f (fst (filter_phase f)) = true.
Proof. destruct f as [[[] []]|]; cbn; try discriminate; reflexivity. Qed.

Lemma model_monitor i : monitor i (model i) = true.
Proof.
  unfold model, monitor, run_case.
  destruct (filter_phase (filter i)) as [flog adm] eqn:F.
  assert (Fa : adm = AdmOk -> admitted_by_log (filter i) flog = true).
  { intros ->. replace flog with (fst (filter_phase (filter i))) by now rewrite F.
    apply admitted_by_model_log. now rewrite F. }
  destruct adm; try reflexivity.
  destruct (negotiate (ep_alpns i) (offer i)) as [a|] eqn:Ng; [|reflexivity].
  cbn [dispatch]. destruct (lookup a (regs i)) as [h|] eqn:L.
  - cbn [forallb fst snd andb]. rewrite L. cbn [opt_eqb]. rewrite N.eqb_refl.
    destruct (negotiate_sound _ _ _ Ng) as [_ Ho].
    assert (M : mem a (offer i) = true).
    { unfold mem. apply existsb_exists. exists a. split; [assumption | apply N.eqb_refl]. }
    rewrite M, Fa by reflexivity. cbn [andb list_eqb].
    unfold hentry_eqb. cbn [fst snd]. rewrite N.eqb_refl, oN_eqb_refl. reflexivity.
  - cbn [forallb andb]. rewrite L. reflexivity.
Qed.

(* Non-vacuity / witnesses *)
Example ex_replace : (* a later registration of the same ALPN replaces the earlier one *)
  run_case (mkIn [2; 0; 2] None None [2]) = ([], [(2, Some 2)], DGreeted 2 (Some 2)).
Proof. vm_compute. reflexivity. Qed.

Example ex_retry_accept :
  run_case (mkIn [0; 1] None (Some (VRetry, VAccept)) [1]) = ([false; true], [(1, Some 1)], DGreeted 1 (Some 1)).
Proof. vm_compute. reflexivity. Qed.

Example ex_retry_retry :
  run_case (mkIn [0] None (Some (VRetry, VRetry)) [0]) = ([false; true], [], DRefused).
Proof. vm_compute. reflexivity. Qed.

Example ex_unregistered_negotiated :
  run_case (mkIn [0; 1] (Some [0; 1; 3]) None [3]) = ([], [], DDropped (Some 3)).
Proof. vm_compute. reflexivity. Qed.

Example mon_rejects :
  (* handed to the handler of another protocol *)
  monitor (mkIn [0; 1] None None [1]) (Ok ([], [(0, Some 1)], DGreeted 0 (Some 1))) = false /\
  (* handler reached although the filter rejected the validated retry *)
  monitor (mkIn [0] None (Some (VRetry, VReject)) [0]) (Ok ([false; true], [(0, Some 0)], DGreeted 0 (Some 0))) = false /\
  (* handler reached although the filter refused *)
  monitor (mkIn [0] None (Some (VReject, VAccept)) [0]) (Ok ([false], [(0, Some 0)], DRefused)) = false /\
  (* two handlers for one connection *)
  monitor (mkIn [0; 1] None None [0; 1]) (Ok ([], [(0, Some 0); (1, Some 1)], DGreeted 0 (Some 0))) = false /\
  (* registered protocol, admitted, but dropped without a handler *)
  monitor (mkIn [0] None None [0]) (Ok ([], [], DDropped (Some 0))) = false.
Proof. vm_compute. auto. Qed.
