(* C12 — proofs: auth_token returns exactly the token the documented rules select. *)
From V Require Import Lib.Base Model.C12.
From Coq Require Import ZifyBool.
Import C12.
Open Scope N_scope.

(* ------------------------------------------------------------------ *)
(* split_once / split2 / split_on *)

Lemma split_once_some sep l a c :
  split_once sep l = Some (a, c) <-> l = a ++ sep :: c /\ ~ In sep a.
Proof.
  revert a c. induction l as [|b r IH]; intros a c; cbn [split_once].
  - split; [discriminate|]. intros [H _]. destruct a; discriminate.
  - destruct (N.eqb_spec b sep) as [->|Hne].
    + split.
      * intros H. injection H as <- <-. split; [reflexivity|intros []].
      * intros [H Hn]. destruct a as [|x a]; cbn in H.
        -- injection H as ->. reflexivity.
        -- injection H as -> _. exfalso. apply Hn. left. reflexivity.
    + destruct (split_once sep r) as [[a' c']|] eqn:E.
      * split.
        -- intros H. injection H as <- <-. destruct (proj1 (IH a' c') eq_refl) as [-> Hn].
           split; [reflexivity|]. intros [H|H]; [congruence|auto].
        -- intros [H Hn]. destruct a as [|x a]; cbn in H.
           ++ injection H as -> _. congruence.
           ++ injection H as -> ->. assert (E' : Some (a', c') = Some (a, c)).
              { apply IH. split; [reflexivity|]. intros Hin. apply Hn. right. exact Hin. }
              injection E' as -> ->. reflexivity.
      * split; [discriminate|]. intros [H Hn]. destruct a as [|x a]; cbn in H.
        -- injection H as -> _. congruence.
        -- injection H as -> ->. assert (E' : None = Some (a, c)).
           { apply IH. split; [reflexivity|]. intros Hin. apply Hn. right. exact Hin. }
           discriminate.
Qed.

Lemma split_once_none sep l : split_once sep l = None <-> ~ In sep l.
Proof.
  induction l as [|b r IH]; cbn [split_once In].
  - tauto.
  - destruct (N.eqb_spec b sep) as [->|Hne].
    + split; [discriminate|]. intros H. exfalso. apply H. left. reflexivity.
    + destruct (split_once sep r) as [[a c]|].
      * split; [discriminate|]. intros H. exfalso.
        assert (Hn : ~ In sep r) by tauto. apply IH in Hn. discriminate.
      * split; [|reflexivity]. intros _ [H|H]; [congruence|]. now apply IH in H.
Qed.

(* splitn(2, '='): name ++ '=' ++ value with no '=' in name, or the whole sequence and "" *)
Lemma split2_spec sep s :
  (s = fst (split2 sep s) ++ sep :: snd (split2 sep s) /\ ~ In sep (fst (split2 sep s)))
  \/ (~ In sep s /\ split2 sep s = (s, [])).
Proof.
  unfold split2. destruct (split_once sep s) as [[a c]|] eqn:E.
  - left. apply split_once_some in E. exact E.
  - right. apply split_once_none in E. auto.
Qed.

Fixpoint join (sep : N) (ss : list bytes) : bytes :=
  match ss with
  | [] => []
  | [s] => s
  | s :: r => s ++ sep :: join sep r
  end.

Lemma split_on_nonnil sep l : split_on sep l <> [].
Proof.
  induction l as [|b r IH]; cbn [split_on]; [discriminate|].
  destruct (b =? sep); [discriminate|]. destruct (split_on sep r); [congruence|discriminate].
Qed.

(* slice::split('&'): the pieces joined by '&' give the query back, and no piece contains '&' *)
Lemma split_on_spec sep l :
  join sep (split_on sep l) = l /\ Forall (fun s => ~ In sep s) (split_on sep l).
Proof.
  induction l as [|b r [IH1 IH2]]; cbn [split_on].
  - split; [reflexivity|]. constructor; [intros []|constructor].
  - pose proof (split_on_nonnil sep r) as Hnn.
    destruct (N.eqb_spec b sep) as [->|Hne].
    + split.
      * cbn [join]. destruct (split_on sep r) as [|s ss] eqn:E; [congruence|].
        cbn [app]. now rewrite IH1.
      * constructor; [intros []|exact IH2].
    + destruct (split_on sep r) as [|s ss] eqn:E; [congruence|]. split.
      * cbn [join] in *. destruct ss; cbn [app]; now rewrite <- IH1.
      * inversion IH2; subst. constructor; [|assumption].
        intros [H|H]; [congruence|auto].
Qed.

(* ------------------------------------------------------------------ *)
(* the documented rules, declaratively *)

Definition is_text (v : bytes) : Prop := Forall (fun b => (32 <= b /\ b < 127) \/ b = 9) v.

Lemma visible_spec b : visible b = true <-> (32 <= b /\ b < 127) \/ b = 9.
Proof. unfold visible. lia. Qed.

Lemma to_str_some v : is_text v -> to_str v = Some v.
Proof.
  intros H. unfold to_str. replace (forallb visible v) with true; [reflexivity|].
  symmetry. apply forallb_forall. intros b Hb. apply visible_spec.
  unfold is_text in H. rewrite Forall_forall in H. auto.
Qed.

Lemma to_str_none v : ~ is_text v -> to_str v = None.
Proof.
  intros H. unfold to_str. destruct (forallb visible v) eqn:E; [|reflexivity].
  exfalso. apply H. unfold is_text. apply Forall_forall. intros b Hb. apply visible_spec.
  rewrite forallb_forall in E. auto.
Qed.

Lemma is_text_dec v : is_text v \/ ~ is_text v.
Proof.
  destruct (forallb visible v) eqn:E.
  - left. apply Forall_forall. intros b Hb. apply visible_spec. rewrite forallb_forall in E. auto.
  - right. intros H. rewrite (proj2 (forallb_forall visible v)) in E; [discriminate|].
    intros b Hb. apply visible_spec. unfold is_text in H. rewrite Forall_forall in H. auto.
Qed.

(* "<scheme> <token>": split at the FIRST space, scheme = Bearer up to ASCII case *)
Definition bearer_of (v tok : bytes) : Prop :=
  exists scheme, v = scheme ++ SP :: tok /\ ~ In SP scheme /\ map lower scheme = map lower BEARER.

(* a header the loop walks past: textual, and not a Bearer header *)
Definition skipped (v : bytes) : Prop := is_text v /\ forall tok, ~ bearer_of v tok.

Lemma eq_ignore_case_spec a b : eq_ignore_case a b = true <-> map lower a = map lower b.
Proof.
  unfold eq_ignore_case. split; [apply bytes_eqb_eq|]. intros ->. apply bytes_eqb_refl.
Qed.

Lemma bearer_of_unique v t1 t2 : bearer_of v t1 -> bearer_of v t2 -> t1 = t2.
Proof.
  intros (s1 & H1 & N1 & _) (s2 & H2 & N2 & _).
  assert (E1 : split_once SP v = Some (s1, t1)) by (apply split_once_some; auto).
  assert (E2 : split_once SP v = Some (s2, t2)) by (apply split_once_some; auto).
  congruence.
Qed.

Inductive header_outcome (hs : list bytes) : option (option bytes) -> Prop :=
| HBearer pre v post tok :
    hs = pre ++ v :: post -> Forall skipped pre -> is_text v -> bearer_of v tok ->
    header_outcome hs (Some (Some tok))           (* first Bearer header: its token *)
| HNonText pre v post :
    hs = pre ++ v :: post -> Forall skipped pre -> ~ is_text v ->
    header_outcome hs (Some None)                 (* non-text value before any Bearer: no token, search over *)
| HFallThrough :
    Forall skipped hs -> header_outcome hs None.  (* go on to the query *)

(* one step of the loop, by cases on the head *)
Lemma scan_cons v r :
  (~ is_text v /\ scan_headers (v :: r) = Some None)
  \/ (is_text v /\ (exists tok, bearer_of v tok /\ scan_headers (v :: r) = Some (Some tok)))
  \/ (skipped v /\ scan_headers (v :: r) = scan_headers r).
Proof.
  cbn [scan_headers]. destruct (is_text_dec v) as [Ht|Hn].
  - right. rewrite (to_str_some _ Ht).
    destruct (split_once SP v) as [[scheme tok]|] eqn:E.
    + apply split_once_some in E as [Hv Hns].
      destruct (eq_ignore_case scheme BEARER) eqn:Ec.
      * left. split; [assumption|]. exists tok. split; [|reflexivity].
        exists scheme. repeat split; try assumption. now apply eq_ignore_case_spec.
      * right. split; [|reflexivity]. split; [assumption|].
        intros tok' (s' & Hv' & Hns' & Hl').
        assert (E1 : split_once SP v = Some (scheme, tok)) by (apply split_once_some; auto).
        assert (E2 : split_once SP v = Some (s', tok')) by (apply split_once_some; auto).
        rewrite E1 in E2. injection E2 as <- <-.
        apply eq_ignore_case_spec in Hl'. congruence.
    + right. split; [|reflexivity]. split; [assumption|].
      intros tok' (s' & Hv' & Hns' & _). apply split_once_none in E. apply E.
      rewrite Hv'. apply in_or_app. right. left. reflexivity.
  - left. split; [assumption|]. now rewrite (to_str_none _ Hn).
Qed.

Lemma scan_headers_outcome hs : header_outcome hs (scan_headers hs).
Proof.
  induction hs as [|v r IH].
  - cbn. apply HFallThrough. constructor.
  - destruct (scan_cons v r) as [[Hn ->]|[[Ht (tok & Hb & ->)]|[Hs ->]]].
    + apply (HNonText _ [] v r); [reflexivity|constructor|assumption].
    + apply (HBearer _ [] v r tok); [reflexivity|constructor|assumption|assumption].
    + inversion IH as [pre v' post tok H1 H2 H3 H4 Hr|pre v' post H1 H2 H3 Hr|H1 Hr].
      * apply (HBearer _ (v :: pre) v' post tok); [now rewrite H1|now constructor|assumption|assumption].
      * apply (HNonText _ (v :: pre) v' post); [now rewrite H1|now constructor|assumption].
      * apply HFallThrough. now constructor.
Qed.

Lemma header_outcome_unique hs r : header_outcome hs r -> r = scan_headers hs.
Proof.
  intros H. inversion H as [pre v post tok H1 H2 H3 H4 Hr|pre v post H1 H2 H3 Hr|H1 Hr]; subst; clear H.
  - induction pre as [|p pre IH]; cbn [app].
    + destruct (scan_cons v post) as [[Hn _]|[[_ (tok' & Hb & ->)]|[[_ Hs] _]]].
      * contradiction.
      * now rewrite (bearer_of_unique _ _ _ H4 Hb).
      * exfalso. apply (Hs tok). assumption.
    + inversion H2; subst. destruct (scan_cons p (pre ++ v :: post)) as [[Hn _]|[[_ (tok' & Hb & _)]|[_ ->]]].
      * destruct H1 as [Ht _]. contradiction.
      * destruct H1 as [_ Hs]. exfalso. apply (Hs tok'). assumption.
      * auto.
  - induction pre as [|p pre IH]; cbn [app].
    + destruct (scan_cons v post) as [[_ ->]|[[Ht _]|[[Ht _] _]]]; [reflexivity|contradiction|contradiction].
    + inversion H2; subst. destruct (scan_cons p (pre ++ v :: post)) as [[Hn _]|[[_ (tok' & Hb & _)]|[_ ->]]].
      * destruct H1 as [Ht _]. contradiction.
      * destruct H1 as [_ Hs]. exfalso. apply (Hs tok'). assumption.
      * auto.
  - induction hs as [|p hs IH]; [reflexivity|].
    inversion H1; subst. destruct (scan_cons p hs) as [[Hn _]|[[_ (tok' & Hb & _)]|[_ ->]]].
    + destruct H2 as [Ht _]. contradiction.
    + destruct H2 as [_ Hs]. exfalso. apply (Hs tok'). assumption.
    + auto.
Qed.

(* ---- the query ---- *)
Definition nonempty (s : bytes) : bool := match s with [] => false | _ => true end.
Definition seqs (q : bytes) : list bytes := filter nonempty (split_on AMP q).
Definition name_of (s : bytes) : bytes := decode (fst (split2 EQS s)).
Definition value_of (s : bytes) : bytes := decode (snd (split2 EQS s)).

Inductive query_outcome (q : bytes) : option bytes -> Prop :=
| QFound pre s post :
    seqs q = pre ++ s :: post -> Forall (fun x => name_of x <> TOKEN) pre -> name_of s = TOKEN ->
    query_outcome q (Some (value_of s))           (* first `token` pair, form-decoded *)
| QNone :
    Forall (fun x => name_of x <> TOKEN) (seqs q) -> query_outcome q None.

Lemma find_token_filter l : find_token l = find_token (filter nonempty l).
Proof.
  induction l as [|s r IH]; [reflexivity|]. destruct s as [|b s]; cbn [filter nonempty find_token]; [exact IH|].
  destruct (split2 EQS (b :: s)) as [n v]. destruct (bytes_eqb (decode n) TOKEN); [reflexivity|exact IH].
Qed.

Lemma query_token_find q : query_token q = find_token (seqs q).
Proof.
  unfold query_token, seqs. destruct q as [|b q]; [reflexivity|]. apply find_token_filter.
Qed.

Lemma find_token_cons s r : nonempty s = true ->
  (name_of s = TOKEN /\ find_token (s :: r) = Some (value_of s))
  \/ (name_of s <> TOKEN /\ find_token (s :: r) = find_token r).
Proof.
  intros Hs. destruct s as [|b s]; [discriminate|]. cbn [find_token]. unfold name_of, value_of.
  destruct (split2 EQS (b :: s)) as [n v]. cbn [fst snd].
  destruct (bytes_eqb (decode n) TOKEN) eqn:E.
  - left. split; [now apply bytes_eqb_eq|reflexivity].
  - right. split; [|reflexivity]. intros H. rewrite H, bytes_eqb_refl in E. discriminate.
Qed.

Lemma seqs_nonempty q : Forall (fun s => nonempty s = true) (seqs q).
Proof. unfold seqs. apply Forall_forall. intros s Hs. apply filter_In in Hs. tauto. Qed.

Lemma find_token_outcome l r : Forall (fun s => nonempty s = true) l ->
  ((exists pre s post, l = pre ++ s :: post /\ Forall (fun x => name_of x <> TOKEN) pre /\
      name_of s = TOKEN /\ r = Some (value_of s))
   \/ (Forall (fun x => name_of x <> TOKEN) l /\ r = None))
  <-> r = find_token l.
Proof.
  intros Hl. induction l as [|s l IH].
  - cbn. split.
    + intros [(pre & s & post & H & _)|[_ H]]; [destruct pre; discriminate|assumption].
    + intros ->. right. split; [constructor|reflexivity].
  - inversion Hl as [|? ? Hs Hl']; subst. specialize (IH Hl').
    destruct (find_token_cons s l Hs) as [[Hn ->]|[Hn ->]].
    + split.
      * intros [(pre & s' & post & H & Hp & Hn' & ->)|[H _]].
        -- destruct pre as [|p pre]; cbn in H; injection H as -> ->; [reflexivity|].
           inversion Hp; subst. contradiction.
        -- inversion H; subst. contradiction.
      * intros ->. left. exists [], s, l. repeat split; auto.
    + rewrite <- IH. split.
      * intros [(pre & s' & post & H & Hp & Hn' & ->)|[H ->]].
        -- destruct pre as [|p pre]; cbn in H; injection H as -> ->; [contradiction|].
           inversion Hp; subst. left. exists pre, s', post. auto.
        -- inversion H; subst. right. auto.
      * intros [(pre & s' & post & -> & Hp & Hn' & ->)|[H ->]].
        -- left. exists (s :: pre), s', post. repeat split; auto.
        -- right. split; [now constructor|reflexivity].
Qed.

Lemma query_outcome_iff q r : query_outcome q r <-> r = query_token q.
Proof.
  rewrite query_token_find, <- (find_token_outcome (seqs q) r (seqs_nonempty q)). split.
  - intros H. inversion H as [pre s post H1 H2 H3 Hr|H1 Hr]; subst.
    + left. exists pre, s, post. auto.
    + right. auto.
  - intros [(pre & s & post & H1 & H2 & H3 & ->)|[H1 ->]].
    + eapply QFound; eauto.
    + now apply QNone.
Qed.

(* ---- the whole function ---- *)
Definition qbytes (q : option bytes) : bytes := match q with Some b => b | None => [] end.

Definition spec (i : input) (r : option bytes) : Prop :=
  (header_outcome (fst i) (Some r))
  \/ (header_outcome (fst i) None /\ query_outcome (qbytes (snd i)) r).

Lemma auth_token_spec_lemma (i : input) (r : option bytes) :
  spec i r <-> r = auth_token (fst i) (snd i).
Proof.
  unfold spec, auth_token. fold (qbytes (snd i)). split.
  - intros [H|[H Hq]]; apply header_outcome_unique in H; rewrite <- H.
    + reflexivity.
    + now apply query_outcome_iff.
  - intros ->. pose proof (scan_headers_outcome (fst i)) as H.
    destruct (scan_headers (fst i)) as [t|].
    + left. exact H.
    + right. split; [exact H|]. now apply query_outcome_iff.
Qed.

Lemma model_spec_lemma (i : input) : exists r, model i = Ok r /\ spec i r.
Proof. eexists. split; [reflexivity|]. now apply auth_token_spec_lemma. Qed.

Lemma obytes_eqb_eq (a b : option bytes) : opt_eqb bytes_eqb a b = true <-> a = b.
Proof.
  destruct a, b; cbn; split; intros H; try discriminate; try reflexivity.
  - apply bytes_eqb_eq in H. now subst.
  - injection H as ->. apply bytes_eqb_refl.
Qed.

Lemma monitor_spec (i : input) (o : output) :
  monitor i o = true <-> exists r, o = Ok r /\ spec i r.
Proof.
  unfold monitor, model. destruct o as [r|e|]; cbn [res_eqb].
  - rewrite obytes_eqb_eq. split.
    + intros <-. eexists. split; [reflexivity|]. now apply auth_token_spec_lemma.
    + intros (r' & H & Hs). injection H as <-. symmetry. now apply auth_token_spec_lemma.
  - split; [discriminate|]. intros (r' & H & _). discriminate.
  - split; [discriminate|]. intros (r' & H & _). discriminate.
Qed.

Lemma model_monitor (i : input) : monitor i (model i) = true.
Proof. apply monitor_spec, model_spec_lemma. Qed.

(* The three documented consequences, stated directly. *)
Lemma nontext_stops pre v post q :
  Forall skipped pre -> ~ is_text v -> auth_token (pre ++ v :: post) q = None.
Proof.
  intros Hp Hv. symmetry. apply (auth_token_spec_lemma (pre ++ v :: post, q) None).
  left. cbn [fst]. eapply HNonText; eauto.
Qed.

Lemma first_bearer_wins pre scheme tok post q :
  Forall skipped pre -> is_text (scheme ++ SP :: tok) -> ~ In SP scheme ->
  map lower scheme = map lower BEARER ->
  auth_token (pre ++ (scheme ++ SP :: tok) :: post) q = Some tok.
Proof.
  intros Hp Ht Hn Hl. symmetry.
  apply (auth_token_spec_lemma (pre ++ (scheme ++ SP :: tok) :: post, q) (Some tok)).
  left. cbn [fst]. eapply HBearer; eauto. exists scheme. auto.
Qed.

Lemma query_fallback hs q : Forall skipped hs -> auth_token hs q = query_token (qbytes q).
Proof.
  intros H. symmetry. apply (auth_token_spec_lemma (hs, q)). right. cbn [fst snd].
  split; [now apply HFallThrough|]. now apply query_outcome_iff.
Qed.

(* ---- form decoding: what pct / lossy do ---- *)
Lemma pct_plain l : ~ In PCT l -> pct l = l.
Proof.
  induction l as [|b r IH]; [reflexivity|]. intros H. cbn [pct].
  destruct (N.eqb_spec b PCT) as [->|_]; [exfalso; apply H; left; reflexivity|].
  rewrite IH; [reflexivity|]. intros Hin. apply H. right. exact Hin.
Qed.

Lemma pct_escape h lo x y r :
  hexval h = Some x -> hexval lo = Some y -> pct (PCT :: h :: lo :: r) = (x * 16 + y) :: pct r.
Proof. intros Hx Hy. cbn [pct]. change (PCT =? PCT) with true. cbn iota. now rewrite Hx, Hy. Qed.

Lemma pct_malformed_literal h lo r :
  hexval h = None \/ hexval lo = None -> pct (PCT :: h :: lo :: r) = PCT :: pct (h :: lo :: r).
Proof.
  intros H. cbn [pct]. change (PCT =? PCT) with true. cbn iota.
  destruct (hexval h), (hexval lo); destruct H; try discriminate; reflexivity.
Qed.

Lemma pct_trailing : pct [PCT] = [PCT] /\ forall h, pct [PCT; h] = PCT :: pct [h].
Proof. split; [reflexivity|]. intros h. reflexivity. Qed.

Lemma hexval_spec c v : hexval c = Some v <->
  (48 <= c <= 57 /\ v = c - 48) \/ (97 <= c <= 102 /\ v = c - 87) \/ (65 <= c <= 70 /\ v = c - 55).
Proof.
  unfold hexval.
  destruct ((48 <=? c) && (c <=? 57)) eqn:E1; [split; [intros H; injection H as <-; lia|intros [[_ ->]|[[? _]|[? _]]]; [reflexivity|lia|lia]]|].
  destruct ((97 <=? c) && (c <=? 102)) eqn:E2; [split; [intros H; injection H as <-; lia|intros [[? _]|[[_ ->]|[? _]]]; [lia|reflexivity|lia]]|].
  destruct ((65 <=? c) && (c <=? 70)) eqn:E3; [split; [intros H; injection H as <-; lia|intros [[? _]|[[? _]|[_ ->]]]; [lia|lia|reflexivity]]|].
  split; [discriminate|]. intros [[? _]|[[? _]|[? _]]]; lia.
Qed.

Lemma lossy_f_ascii fuel : forall l, (length l < fuel)%nat -> Forall (fun b => b < 128) l -> lossy_f fuel l = l.
Proof.
  induction fuel as [|f IH]; intros l Hl Ha; [lia|].
  destruct l as [|b r]; [reflexivity|]. inversion Ha; subst. cbn [lossy_f].
  destruct (N.ltb_spec b 128); [|lia]. rewrite IH; [reflexivity|cbn in Hl; lia|assumption].
Qed.

Lemma lossy_ascii l : Forall (fun b => b < 128) l -> lossy l = l.
Proof. intros H. unfold lossy. apply lossy_f_ascii; [lia|assumption]. Qed.

Lemma replace_plus_plain l : ~ In PLUS l -> replace_plus l = l.
Proof.
  induction l as [|b r IH]; [reflexivity|]. intros H. cbn [replace_plus map].
  destruct (N.eqb_spec b PLUS) as [->|_]; [exfalso; apply H; left; reflexivity|].
  fold (replace_plus r). rewrite IH; [reflexivity|]. intros Hin. apply H. right. exact Hin.
Qed.

(* a value without '+', '%' and non-ASCII bytes is returned unchanged *)
Lemma decode_plain l : ~ In PLUS l -> ~ In PCT l -> Forall (fun b => b < 128) l -> decode l = l.
Proof.
  intros H1 H2 H3. unfold decode. rewrite (replace_plus_plain _ H1), (pct_plain _ H2). now apply lossy_ascii.
Qed.

(* ---- lossy decoding cannot create a match with an ASCII name ---- *)
Lemma head_ge_128 (b : N) (r t : bytes) : 128 <= b -> Forall (fun x => x < 128) t -> b :: r = t -> False.
Proof. intros Hb Ht <-. inversion Ht; subst. lia. Qed.

Lemma lossy_f_ascii_inv fuel : forall l, (length l < fuel)%nat ->
  Forall (fun b => b < 128) (lossy_f fuel l) -> lossy_f fuel l = l.
Proof.
  induction fuel as [|f IH]; intros l Hl; [lia|].
  destruct l as [|b r]; [reflexivity|]. cbn [lossy_f].
  destruct (N.ltb_spec b 128) as [Hb|Hb].
  - intros H. inversion H; subst. f_equal. apply IH; [cbn in Hl; lia|assumption].
  - intros H. exfalso.
    repeat match type of H with
    | Forall _ (if ?c then _ else _) => destruct c
    | Forall _ (match ?x with _ => _ end) => destruct x
    end; cbn [FFFD app] in H; inversion H; subst; lia.
Qed.

Lemma lossy_ascii_inv l t : lossy l = t -> Forall (fun b => b < 128) t -> l = t.
Proof.
  intros <- H. symmetry. apply lossy_f_ascii_inv; [lia|exact H].
Qed.

Lemma token_ascii : Forall (fun b => b < 128) TOKEN.
Proof. repeat constructor. Qed.

(* a sequence's name matches iff its percent-decoded bytes ARE "token": lossy decoding cannot create a match *)
Lemma name_matches_raw n : decode n = TOKEN <-> pct (replace_plus n) = TOKEN.
Proof.
  unfold decode. split.
  - intros H. apply lossy_ascii_inv; [exact H|exact token_ascii].
  - intros ->. apply lossy_ascii. exact token_ascii.
Qed.

(* ------------------------------------------------------------------ *)
(* witnesses / non-vacuity *)

Example ex_bearer :
  auth_token [str_bytes "Basic abc"; str_bytes "bEARER  a b"; str_bytes "Bearer x"] (Some (str_bytes "token=q"))
  = Some (str_bytes " a b").
Proof. vm_compute. reflexivity. Qed.

Example ex_nontext_stops :
  auth_token [str_bytes "Basic abc"; [66; 128]; str_bytes "Bearer x"] (Some (str_bytes "token=q")) = None.
Proof. vm_compute. reflexivity. Qed.

Example ex_query :
  auth_token [str_bytes "Basic abc"] (Some (str_bytes "a=1&&tok%65n=a+b%2B%zz%4&token=2"))
  = Some (str_bytes "a b+%zz%4").
Proof. vm_compute. reflexivity. Qed.

Example ex_lossy :
  decode (str_bytes "%E2%82x%F0%9F%98%80%80%C3%A9") =
  [239; 191; 189; 120; 240; 159; 152; 128; 239; 191; 189; 195; 169].
Proof. vm_compute. reflexivity. Qed.

Example ex_skipped : skipped (str_bytes "Basic abc").
Proof.
  split.
  - unfold is_text. repeat constructor; cbn; lia.
  - intros tok (s & Hv & Hn & Hl).
    assert (E : split_once SP (str_bytes "Basic abc") = Some (s, tok)) by (apply split_once_some; auto).
    vm_compute in E. injection E as <- <-. vm_compute in Hl. discriminate.
Qed.
