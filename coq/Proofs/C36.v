(* C36 — proofs: a zone is served only from packets signed by its key. *)
From V Require Import Lib.Base Model.C37 Proofs.C37 Model.C36.
From Coq Require Import ZifyBool.
Import C36.
Open Scope N_scope.

(* ---------- case-insensitive names ---------- *)
Lemma label_ci_refl a : label_eqb_ci a a = true.
Proof. apply bytes_eqb_refl. Qed.

Lemma label_ci_eq a b : label_eqb_ci a b = true <-> lower a = lower b.
Proof.
  unfold label_eqb_ci. split; [apply bytes_eqb_eq|intros ->; apply bytes_eqb_refl].
Qed.

Lemma name_ci_eq a : forall b, name_eqb_ci a b = true <-> lower_name a = lower_name b.
Proof.
  unfold name_eqb_ci, lower_name.
  induction a as [|x a IH]; intros [|y b]; cbn [list_eqb map]; try (split; discriminate); [tauto|].
  rewrite andb_true_iff, label_ci_eq, IH. split; [intros [-> ->]; reflexivity|intros [= -> ->]; auto].
Qed.

Lemma lower_b_idem b : lower_b (lower_b b) = lower_b b.
Proof.
  unfold lower_b. destruct (N.leb_spec 65 b), (N.leb_spec b 90); cbn [andb];
  repeat match goal with |- context [?x <=? ?y] => destruct (N.leb_spec x y) end; cbn [andb]; lia.
Qed.

Lemma lower_idem l : lower (lower l) = lower l.
Proof. unfold lower. rewrite map_map. apply map_ext, lower_b_idem. Qed.

Lemma lower_name_idem n : lower_name (lower_name n) = lower_name n.
Proof. unfold lower_name. rewrite map_map. apply map_ext, lower_idem. Qed.

Lemma lower_name_app a b : lower_name (a ++ b) = lower_name a ++ lower_name b.
Proof. apply map_app. Qed.

(* ---------- record sets only ever hold what was inserted ---------- *)
Lemma replace_rdata_in l ttl rd : forall l' x,
  replace_rdata l ttl rd = Some l' -> In x l' -> In x l \/ x = (ttl, rd).
Proof.
  induction l as [|[t d] l IH]; intros l' x; cbn [replace_rdata]; [discriminate|].
  destruct (bytes_eqb d rd).
  - intros [= <-] [<-|H]; [left; now left|left; now right].
  - destruct (replace_rdata l ttl rd) as [r'|] eqn:E; [|discriminate].
    intros [= <-] [<-|H]; [left; now left|].
    destruct (IH _ _ eq_refl H); [left; now right|now right].
Qed.

Lemma rrset_insert_in ty s ttl rd x :
  In x (rrset_insert ty s ttl rd) -> In x s \/ x = (ttl, rd).
Proof.
  unfold rrset_insert. destruct ((ty =? T_CNAME) || (ty =? T_ANAME)).
  - cbn. intros [<-|[]]. now right.
  - destruct (replace_rdata s ttl rd) as [s'|] eqn:E.
    + apply replace_rdata_in. exact E.
    + intros H. apply in_app_or in H as [H|[<-|[]]]; auto.
Qed.

(* every (ttl, rdata) of the bucket comes from a zone record with matching name and type, and so
   does the set's name *)
Definition from_zone (zrecs : list rr) (qn : name) (qt : N) (rs : rrset) : Prop :=
  (exists x, In x zrecs /\ rname x = fst rs /\ name_eqb_ci (rname x) qn = true /\ rtype x = qt) /\
  forall tr, In tr (snd rs) ->
    exists x, In x zrecs /\ name_eqb_ci (rname x) qn = true /\ rtype x = qt /\
              rttl x = fst tr /\ rdata x = snd tr.

Lemma bucket_from_zone all qn qt : forall zrecs acc rs,
  (forall x, In x zrecs -> In x all) ->
  (forall a, acc = Some a -> from_zone all qn qt a) ->
  bucket zrecs qn qt acc = Some rs -> from_zone all qn qt rs.
Proof.
  induction zrecs as [|r rest IH]; intros acc rs Hsub Hacc; cbn [bucket].
  - intros E. now apply Hacc.
  - destruct (name_eqb_ci (rname r) qn && (rtype r =? qt)) eqn:E.
    + apply andb_prop in E as [E1 E2]. apply N.eqb_eq in E2.
      assert (Hr : In r all) by (apply Hsub; now left).
      apply IH; [intros x Hx; apply Hsub; now right|].
      intros a Ha. destruct acc as [[n s]|].
      * injection Ha as <-. destruct (Hacc _ eq_refl) as [Hn Hs]. split; [exact Hn|].
        cbn [snd]. intros tr Htr. apply rrset_insert_in in Htr as [Htr| ->].
        -- now apply Hs.
        -- exists r. cbn. auto.
      * injection Ha as <-. split; cbn [fst snd].
        -- exists r. auto.
        -- intros tr [<-|[]]. exists r. cbn. auto.
    + apply IH; [intros x Hx; apply Hsub; now right|exact Hacc].
Qed.

Lemma zone_lookup_from zl recs qn qt rs :
  zone_lookup zl recs qn qt = Some rs -> from_zone (zone_records zl recs) qn qt rs.
Proof.
  unfold zone_lookup. apply bucket_from_zone; [auto|discriminate].
Qed.

Lemma zone_records_in zl recs x' :
  In x' (zone_records zl recs) -> exists x, In x recs /\ keep zl x = true /\ x' = strip x.
Proof.
  unfold zone_records. rewrite in_map_iff. intros (x & <- & H). apply filter_In in H as [H1 H2].
  exists x. auto.
Qed.

(* ---------- the invariant: stored and cached packets were PUT under their key with a
   verifying signature ---------- *)
Definition legit (O : oracles) (hist : list (N * body)) (k : N) (p : C37.packet) : Prop :=
  exists sig ts pay plen,
    p = C37.mkP k ts sig [pay] /\ In (k, Full sig ts pay plen) hist /\ verify O k ts pay sig = true.

Record Inv (O : oracles) (s : C37.state) (hist : list (N * body)) : Prop := {
  inv_store : forall k p, C37.tget (C37.store s) k = Some p -> legit O hist k p;
  inv_cache : forall k p, C37.tget (C37.cache s) k = Some p -> legit O hist k p
}.

Lemma legit_mono O hist x k p : legit O hist k p -> legit O (hist ++ [x]) k p.
Proof.
  intros (sig & ts & pay & plen & E & Hin & V). exists sig, ts, pay, plen.
  repeat split; auto. apply in_or_app. now left.
Qed.

Lemma legit_key O hist k p : legit O hist k p -> C37.key p = k.
Proof. intros (sig & ts & pay & plen & -> & _). reflexivity. Qed.

Lemma inv_init O : Inv O C37.init [].
Proof. split; cbn; discriminate. Qed.

Lemma inv_mono O s hist x : Inv O s hist -> Inv O s (hist ++ [x]).
Proof. intros [H1 H2]. split; intros k p E; apply legit_mono; auto. Qed.

Lemma put_rejected_same O s k b : snd (put O s k b) <> 0 -> fst (put O s k b) = s.
Proof.
  unfold put. destruct (z32 O k); [|reflexivity]. destruct b as [n|sig ts pay plen]; [reflexivity|].
  destruct (MAX_DNS_PACKET_SIZE <? plen); [reflexivity|].
  destruct (negb (verify O k ts pay sig)); [reflexivity|].
  destruct (negb (parse_s O pay)); [reflexivity|]. cbn [snd]. congruence.
Qed.

Lemma put_code O s k b : (snd (put O s k b) =? 0) = put_accepted O k b.
Proof.
  unfold put, put_accepted. destruct (z32 O k); [|reflexivity].
  destruct b as [n|sig ts pay plen]; [reflexivity|].
  unfold MAX_DNS_PACKET_SIZE. destruct (N.ltb_spec 1000 plen), (N.leb_spec plen 1000); try lia; cbn.
  - reflexivity.
  - destruct (verify O k ts pay sig); cbn; [|reflexivity]. now destruct (parse_s O pay).
Qed.

Lemma put_accepted_state O s k b :
  snd (put O s k b) = 0 ->
  exists sig ts pay plen, b = Full sig ts pay plen /\ verify O k ts pay sig = true /\
    fst (put O s k b) = fst (C37.insert s (C37.mkP k ts sig [pay])).
Proof.
  unfold put. destruct (z32 O k); [|discriminate]. destruct b as [n|sig ts pay plen]; [discriminate|].
  destruct (MAX_DNS_PACKET_SIZE <? plen); [discriminate|].
  destruct (verify O k ts pay sig) eqn:V; [|discriminate]. cbn [negb].
  destruct (negb (parse_s O pay)); [discriminate|]. intros _.
  exists sig, ts, pay, plen. auto.
Qed.

Lemma inv_insert O s hist k sig ts pay plen :
  Inv O s hist -> verify O k ts pay sig = true ->
  Inv O (fst (C37.insert s (C37.mkP k ts sig [pay]))) (hist ++ [(k, Full sig ts pay plen)]).
Proof.
  intros I V. set (p := C37.mkP k ts sig [pay]).
  assert (L : legit O (hist ++ [(k, Full sig ts pay plen)]) k p).
  { exists sig, ts, pay, plen. repeat split; auto. apply in_or_app. right. now left. }
  split.
  - intros k' q. rewrite insert_store, upsert_store. change (C37.key p) with k.
    destruct (N.eqb_spec k k') as [<-|Hne].
    + unfold C37.upsert1. destruct (C37.tget (C37.store s) k) as [e|] eqn:Ee.
      * destruct (C37.more_recent_than e p); intros [= <-]; [|exact L].
        apply legit_mono, (inv_store _ _ _ I). exact Ee.
      * intros [= <-]. exact L.
    + intros E. apply legit_mono, (inv_store _ _ _ I). exact E.
  - intros k' q Hc. apply insert_cache in Hc as [Hc _].
    apply legit_mono, (inv_cache _ _ _ I). exact Hc.
Qed.

Lemma inv_put O s hist k b : Inv O s hist -> Inv O (fst (put O s k b)) (hist ++ [(k, b)]).
Proof.
  intros I. destruct (N.eq_dec (snd (put O s k b)) 0) as [E|E].
  - destruct (put_accepted_state _ _ _ _ E) as (sig & ts & pay & plen & -> & V & ->).
    now apply inv_insert.
  - rewrite (put_rejected_same _ _ _ _ E). now apply inv_mono.
Qed.

(* resolve: the state stays legitimate, and a found record set comes from the zone of a
   legitimate packet of k *)
Definition from_packet (O : oracles) (hist : list (N * body)) (k : N) (qn : name) (qt : N) (rs : rrset) : Prop :=
  exists p zl recs, legit O hist k p /\ z32 O k = Some zl /\ parse_h O (pay_id p) = Some recs /\
                    from_zone (zone_records zl recs) qn qt rs.

Lemma cached_lookup_from O hist k z qn qt rs :
  legit O hist k z -> cached_lookup O z qn qt = Some rs -> from_packet O hist k qn qt rs.
Proof.
  intros L. unfold cached_lookup. rewrite (legit_key _ _ _ _ L).
  destruct (z32 O k) as [zl|] eqn:Ez; [|discriminate].
  destruct (parse_h O (pay_id z)) as [recs|] eqn:Ep; [|discriminate].
  intros E. exists z, zl, recs. split; [exact L|]. split; [exact Ez|]. split; [exact Ep|].
  now apply zone_lookup_from.
Qed.

Lemma cache_resolve_from O hist ca k qn qt rs :
  (forall k p, C37.tget ca k = Some p -> legit O hist k p) ->
  cache_resolve O ca k qn qt = Some rs -> from_packet O hist k qn qt rs.
Proof.
  intros H. unfold cache_resolve. destruct (C37.tget ca k) as [z|] eqn:E; [|discriminate].
  apply cached_lookup_from. now apply H.
Qed.

Lemma resolve_spec O s hist k qn qt :
  Inv O s hist ->
  Inv O (fst (resolve O s k qn qt)) hist /\
  forall rs, snd (resolve O s k qn qt) = Ok (Some rs) -> from_packet O hist k qn qt rs.
Proof.
  intros I. unfold resolve.
  destruct (cache_resolve O (C37.cache s) k qn qt) as [r|] eqn:Ec; cbn [fst snd].
  - split; [exact I|]. intros rs [= <-]. eapply cache_resolve_from; [apply (inv_cache _ _ _ I)|exact Ec].
  - destruct (C37.tget (C37.store s) k) as [p|] eqn:Es; cbn [fst snd]; [|split; [exact I|discriminate]].
    pose proof (inv_store _ _ _ I _ _ Es) as L. rewrite (legit_key _ _ _ _ L).
    destruct (match C37.tget (C37.cache s) k with Some old => C37.ts p <? C37.ts old | None => false end).
    + cbn [fst snd]. split; [exact I|]. intros rs [= E]. rewrite Ec in E. discriminate.
    + destruct (parse_h O (pay_id p)) eqn:Ep; cbn [fst snd]; [|split; [exact I|discriminate]].
      assert (Hca : forall k0 p0, C37.tget (C37.tset (C37.cache s) k p) k0 = Some p0 -> legit O hist k0 p0).
      { intros k0 p0. rewrite tget_tset. destruct (N.eqb_spec k k0) as [<-|].
        - intros [= <-]. exact L.
        - apply (inv_cache _ _ _ I). }
      split.
      * split; cbn [C37.store C37.cache]; [apply (inv_store _ _ _ I)|exact Hca].
      * intros rs [= E]. eapply cache_resolve_from; [exact Hca|exact E].
Qed.

(* ---------- queries ---------- *)
Lemma from_packet_justified O hist K zl o qn qt rs ttl rd :
  z32 O K = Some zl -> from_packet O hist K qn qt rs -> In (ttl, rd) (snd rs) ->
  justified O hist K zl o (lower_name (qn ++ [zl] ++ o)) qt
            (mkRR (lower_name (fst rs ++ [zl] ++ o)) qt ttl rd) = true.
Proof.
  intros Ez (p & zl' & recs & L & Ez' & Ep & [Hname Hrecs]) Hin.
  rewrite Ez in Ez'. injection Ez' as <-.
  destruct (Hrecs _ Hin) as (x' & Hx' & Hn & Ht & Httl & Hrd). cbn [fst snd] in *.
  apply zone_records_in in Hx' as (x & Hx & Hk & ->). cbn [strip rname rtype rttl rdata] in *.
  destruct Hname as (y' & Hy' & Hy1 & Hy2 & _).
  destruct L as (sig & ts & pay & plen & -> & Hhist & V). cbn [pay_id C37.payload] in Ep.
  unfold justified. cbn [rtype rname rttl rdata]. rewrite N.eqb_refl. cbn [andb].
  apply existsb_exists. exists (K, Full sig ts pay plen). split; [exact Hhist|].
  rewrite N.eqb_refl, V, Ep. cbn [andb].
  apply existsb_exists. exists x. split; [exact Hx|].
  rewrite Hk, Ht, Httl, Hrd, !N.eqb_refl, bytes_eqb_refl. cbn [andb].
  apply name_ci_eq. rewrite lower_name_idem, !lower_name_app. f_equal.
  apply name_ci_eq in Hn, Hy2. rewrite <- Hy1. congruence.
Qed.

Definition static_only (static : list rr) (ans : list rr) : bool :=
  forallb (fun r => existsb (fun x => rr_eqb (mkRR (lower_name (rname x)) (rtype x) (rttl x) (rdata x)) r) static) ans.

Lemma rr_eqb_refl r : rr_eqb r r = true.
Proof.
  unfold rr_eqb. rewrite !N.eqb_refl, bytes_eqb_refl, (list_eqb_refl _ bytes_eqb_refl). reflexivity.
Qed.

Lemma static_lookup_only static n t : static_only static (static_lookup static n t) = true.
Proof.
  unfold static_only, static_lookup. apply forallb_forall. intros r Hr.
  apply in_map_iff in Hr as (x & <- & Hx). apply filter_In in Hx as [Hx _].
  apply existsb_exists. exists x. split; [exact Hx|apply rr_eqb_refl].
Qed.

Lemma query_spec O origins static s hist n t :
  Inv O s hist ->
  Inv O (fst (query O origins static s n t)) hist /\
  obs_ok O origins static hist (Query n t)
         (OAns (fst (snd (query O origins static s n t))) (snd (snd (query O origins static s n t)))) = true.
Proof.
  intros I. cbn [obs_ok]. unfold query.
  destruct (in_catalog origins (lower_name n)) eqn:Ecat; cbn [negb].
  2:{ cbn [fst snd]. rewrite !orb_true_r. split; [exact I|reflexivity]. }
  destruct (t =? T_SOA) eqn:E1; cbn [fst snd orb].
  { split; [exact I|apply static_lookup_only]. }
  destruct (t =? T_AXFR) eqn:E2; cbn [fst snd].
  { rewrite orb_true_r. cbn [orb]. split; [exact I|reflexivity]. }
  destruct (t =? T_NS) eqn:E3; cbn [fst snd orb].
  { split; [exact I|apply static_lookup_only]. }
  destruct (parse_name O origins (lower_name n)) as [[[rest K] o]|] eqn:Ep; cbn [fst snd].
  2:{ split; [exact I|apply static_lookup_only]. }
  destruct (resolve_spec O s hist K rest t I) as [I' Hrs].
  destruct (resolve O s K rest t) as [s' r]. cbn [fst snd] in *.
  destruct r as [[[setname recs]|]|e|]; cbn [fst snd].
  - destruct (z32 O K) as [zl|] eqn:Ez; cbn [fst snd]; [|split; [exact I'|reflexivity]].
    split; [exact I'|]. apply forallb_forall. intros r Hr.
    apply in_map_iff in Hr as ([ttl rd] & <- & Hin). cbn [fst snd].
    specialize (Hrs _ eq_refl).
    pose proof (from_packet_justified O hist K zl o rest t (setname, recs) ttl rd Ez Hrs Hin) as J.
    cbn [fst] in J. unfold justified in *. exact J.
  - split; [exact I'|]. now destruct (z32 O K).
  - split; [exact I'|]. now destruct (z32 O K).
  - split; [exact I'|]. now destruct (z32 O K).
Qed.

(* ---------- direct store resolve ---------- *)
Lemma resolve_obs_spec O origins static s hist k n t :
  Inv O s hist ->
  Inv O (fst (resolve_obs O s k n t)) hist /\
  obs_ok O origins static hist (Resolve k n t) (snd (resolve_obs O s k n t)) = true.
Proof.
  intros I. unfold resolve_obs.
  destruct (resolve_spec O s hist k n t I) as [I' Hrs].
  destruct (resolve O s k n t) as [s' r]. cbn [fst snd] in *.
  destruct r as [[[setname recs]|]|e|]; cbn [fst snd obs_ok]; split; try exact I';
    try (now destruct (z32 O k)).
  specialize (Hrs _ eq_refl).
  destruct (z32 O k) as [zl|] eqn:Ez.
  - apply forallb_forall. intros r Hr.
    apply in_map_iff in Hr as ([ttl rd] & <- & Hin). cbn [fst snd rname rtype rttl rdata].
    pose proof (from_packet_justified O hist k zl [] n t (setname, recs) ttl rd Ez Hrs Hin) as J.
    cbn [fst app] in J. unfold justified in *. cbn [rtype rname rttl rdata app] in *.
    rewrite lower_name_app in J. cbn [lower_name map] in J. exact J.
  - destruct Hrs as (p & zl & recs' & _ & Ez' & _). congruence.
Qed.

(* the store never hands out a record set of type SOA or NS *)
Lemma from_packet_not_soa_ns O hist k qn qt rs :
  from_packet O hist k qn qt rs -> qt <> T_SOA /\ qt <> T_NS.
Proof.
  intros (p & zl & recs & _ & _ & _ & [(x' & Hx' & _ & _ & Ht) _]).
  apply zone_records_in in Hx' as (x & _ & Hk & ->). cbn [strip rtype] in Ht. subst qt.
  unfold keep in Hk. apply andb_prop in Hk as [Hk _].
  apply negb_true_iff, orb_false_iff in Hk as [A B]. apply N.eqb_neq in A, B. auto.
Qed.

(* ---------- every step of the model satisfies the monitor ---------- *)
Definition hist_after (hist : list (N * body)) (o : op) : list (N * body) :=
  match o with Put k b => hist ++ [(k, b)] | _ => hist end.

Lemma step_spec O origins static s hist o :
  Inv O s hist ->
  Inv O (fst (step O origins static s o)) (hist_after hist o) /\
  obs_ok O origins static hist o (snd (step O origins static s o)) = true.
Proof.
  intros I. destruct o as [k b|k|n t|k n t]; cbn [step hist_after].
  - pose proof (inv_put O s hist k b I) as I'. pose proof (put_code O s k b) as C.
    destruct (put O s k b) as [s' c]. cbn [fst snd] in *. split; [exact I'|].
    cbn [obs_ok]. rewrite C. now destruct (put_accepted O k b).
  - cbn [fst snd]. split; [exact I|]. unfold getpk. destruct (z32 O k); [|reflexivity].
    destruct (C37.tget (C37.store s) k) as [p|] eqn:E; [|reflexivity].
    destruct (inv_store _ _ _ I _ _ E) as (sig & ts & pay & plen & -> & Hin & V).
    cbn [obs_ok C37.ts C37.sig pay_id C37.payload].
    apply existsb_exists. exists (k, Full sig ts pay plen). split; [exact Hin|].
    now rewrite !N.eqb_refl, V.
  - pose proof (query_spec O origins static s hist n t I) as [I' H].
    destruct (query O origins static s n t) as [s' [rc ans]]. cbn [fst snd] in *. auto.
  - apply resolve_obs_spec. exact I.
Qed.

Lemma run_spec O origins static : forall ops s hist,
  Inv O s hist ->
  monitor_from O origins static hist ops (snd (run_from O origins static s ops)) = true.
Proof.
  induction ops as [|o ops IH]; intros s hist I; cbn [run_from monitor_from]; [reflexivity|].
  destruct (step_spec O origins static s hist o I) as [I' H].
  destruct (step O origins static s o) as [s1 ob]. cbn [fst snd] in *.
  specialize (IH s1 _ I'). destruct (run_from O origins static s1 ops) as [s2 obr]. cbn [snd] in *.
  cbn [monitor_from]. rewrite H. exact IH.
Qed.

Lemma model_monitor i : monitor i (model i) = true.
Proof. destruct i as [e ops]. unfold model, monitor. apply run_spec, inv_init. Qed.

(* ---------- the property theorems ---------- *)
Definition puts (ops : list op) : list (N * body) :=
  flat_map (fun o => match o with Put k b => [(k, b)] | _ => [] end) ops.

Definition final (O : oracles) (origins : list name) (static : list rr) (ops : list op) : C37.state :=
  fst (run_from O origins static C37.init ops).

Lemma run_inv O origins static : forall ops s hist,
  Inv O s hist -> Inv O (fst (run_from O origins static s ops)) (hist ++ puts ops).
Proof.
  induction ops as [|o ops IH]; intros s hist I; cbn [run_from puts flat_map].
  - now rewrite app_nil_r.
  - destruct (step_spec O origins static s hist o I) as [I' _].
    destruct (step O origins static s o) as [s1 ob]. cbn [fst] in *.
    specialize (IH s1 _ I'). destruct (run_from O origins static s1 ops) as [s2 obr]. cbn [fst] in *.
    destruct o; cbn [hist_after] in IH; cbn [app]; try exact IH.
    now rewrite <- app_assoc in IH.
Qed.

(* Prop reading of [justified] *)
Definition Justified (O : oracles) (hist : list (N * body)) (K : N) (zl : label) (o : name) (r : rr) : Prop :=
  exists sig ts pay plen recs x,
    In (K, Full sig ts pay plen) hist /\ verify O K ts pay sig = true /\
    parse_h O pay = Some recs /\ In x recs /\
    rtype x <> T_SOA /\ rtype x <> T_NS /\
    (exists l, last_label (rname x) = Some l /\ lower l = lower zl) /\
    rtype x = rtype r /\ rttl x = rttl r /\ rdata x = rdata r /\
    lower_name (removelast (rname x) ++ [zl] ++ o) = lower_name (rname r).

Lemma justified_Prop O hist K zl o qn qt r :
  justified O hist K zl o qn qt r = true -> rtype r = qt /\ Justified O hist K zl o r.
Proof.
  unfold justified. intros H. apply andb_prop in H as [Ht H]. apply N.eqb_eq in Ht. split; [exact Ht|].
  apply existsb_exists in H as ([k b] & Hin & H). apply andb_prop in H as [Hk H].
  apply N.eqb_eq in Hk. subst k. destruct b as [n|sig ts pay plen]; [discriminate|].
  apply andb_prop in H as [V H]. destruct (parse_h O pay) as [recs|] eqn:Ep; [|discriminate].
  apply existsb_exists in H as (x & Hx & H).
  apply andb_prop in H as [H Hn]. apply andb_prop in H as [H Hrd]. apply andb_prop in H as [H Httl].
  apply andb_prop in H as [Hk Hty].
  apply N.eqb_eq in Hty, Httl. apply bytes_eqb_eq in Hrd. apply name_ci_eq in Hn.
  unfold keep in Hk. apply andb_prop in Hk as [Hk1 Hk2]. apply negb_true_iff, orb_false_iff in Hk1 as [A B].
  apply N.eqb_neq in A, B.
  exists sig, ts, pay, plen, recs, x. repeat split; auto.
  destruct (last_label (rname x)) as [l|]; [|discriminate]. exists l. split; [reflexivity|].
  now apply label_ci_eq.
Qed.

(* Answers for a name under key K's zone hold only records published in a packet that was PUT under
   K with a signature verifying for K, located under K's zone label and not of type SOA or NS. *)
Lemma answer_subset_of_signed_zone O origins static ops n t rest K o zl :
  in_catalog origins (lower_name n) = true ->
  t <> T_SOA -> t <> T_NS -> t <> T_AXFR ->
  parse_name O origins (lower_name n) = Some (rest, K, o) ->
  z32 O K = Some zl ->
  forall r, In r (snd (snd (query O origins static (final O origins static ops) n t))) ->
    rtype r = t /\ Justified O (puts ops) K zl o r.
Proof.
  intros Hcat H1 H2 H3 Hp Hz r Hr.
  pose proof (run_inv O origins static ops C37.init [] (inv_init O)) as I. cbn [app] in I.
  destruct (query_spec O origins static _ _ n t I) as [_ H]. fold (final O origins static ops) in H.
  cbn [obs_ok] in H. rewrite Hcat in H. cbn [negb] in H.
  apply N.eqb_neq in H1, H2, H3. rewrite H1, H2, H3 in H. cbn [orb] in H.
  rewrite Hp, Hz in H. rewrite forallb_forall in H. specialize (H _ Hr).
  eapply justified_Prop. exact H.
Qed.

(* The same at the level of the store (ZoneStore::resolve, what every DNS front end is served from), for
   EVERY name and EVERY type: a found record set is never of type SOA / NS, and each of its records was
   published in a packet PUT under K with a signature verifying for K, under K's zone label. *)
Lemma store_resolve_subset_of_signed_zone O origins static ops K qn t zl rs :
  z32 O K = Some zl ->
  snd (resolve O (final O origins static ops) K qn t) = Ok (Some rs) ->
  t <> T_SOA /\ t <> T_NS /\
  forall ttl rd, In (ttl, rd) (snd rs) ->
    Justified O (puts ops) K zl [] (mkRR (lower_name (fst rs ++ [zl])) t ttl rd).
Proof.
  intros Ez E.
  pose proof (run_inv O origins static ops C37.init [] (inv_init O)) as I. cbn [app] in I.
  fold (final O origins static ops) in I.
  destruct (resolve_spec O _ _ K qn t I) as [_ H]. specialize (H _ E).
  destruct (from_packet_not_soa_ns _ _ _ _ _ _ H) as [A B]. repeat split; auto.
  intros ttl rd Hin.
  pose proof (from_packet_justified O (puts ops) K zl [] qn t rs ttl rd Ez H Hin) as J.
  apply justified_Prop in J as [_ J]. exact J.
Qed.

Lemma store_never_serves_soa_ns O origins static ops K qn t rs :
  t = T_SOA \/ t = T_NS ->
  snd (resolve O (final O origins static ops) K qn t) <> Ok (Some rs).
Proof.
  intros Ht E.
  pose proof (run_inv O origins static ops C37.init [] (inv_init O)) as I. cbn [app] in I.
  fold (final O origins static ops) in I.
  destruct (resolve_spec O _ _ K qn t I) as [_ H]. specialize (H _ E).
  destruct (from_packet_not_soa_ns _ _ _ _ _ _ H) as [A B]. tauto.
Qed.

(* A rejected PUT (in particular: signature does not verify for the key in the request) changes nothing. *)
Lemma bad_signature_rejected O s k sig ts pay plen :
  verify O k ts pay sig = false ->
  snd (put O s k (Full sig ts pay plen)) <> 0 /\ fst (put O s k (Full sig ts pay plen)) = s.
Proof.
  intros V. assert (C : snd (put O s k (Full sig ts pay plen)) <> 0).
  { unfold put. destruct (z32 O k); [|discriminate]. destruct (MAX_DNS_PACKET_SIZE <? plen); [discriminate|].
    rewrite V. discriminate. }
  split; [exact C|now apply put_rejected_same].
Qed.

(* Publishing under k never changes the answer to a query that does not resolve to k's zone. *)
Definition keyed (s : C37.state) : Prop :=
  forall k p, C37.tget (C37.store s) k = Some p -> C37.key p = k.

Lemma resolve_frame O s s' K qn qt :
  keyed s ->
  C37.tget (C37.store s') K = C37.tget (C37.store s) K ->
  C37.tget (C37.cache s') K = C37.tget (C37.cache s) K ->
  snd (resolve O s' K qn qt) = snd (resolve O s K qn qt).
Proof.
  intros Hk Es Ec. unfold resolve, cache_resolve. rewrite Ec, Es.
  destruct (match C37.tget (C37.cache s) K with Some z => cached_lookup O z qn qt | None => None end);
    [reflexivity|].
  destruct (C37.tget (C37.store s) K) as [p|] eqn:E; [|reflexivity].
  rewrite (Hk _ _ E), Ec.
  destruct (match C37.tget (C37.cache s) K with Some old => C37.ts p <? C37.ts old | None => false end);
    [reflexivity|].
  destruct (parse_h O (pay_id p)); [|reflexivity]. cbn [snd]. now rewrite !tget_tset, !N.eqb_refl.
Qed.

Lemma put_frames_other_keys O origins static s k b n t :
  keyed s ->
  (forall rest o, parse_name O origins (lower_name n) <> Some (rest, k, o)) ->
  snd (query O origins static (fst (put O s k b)) n t) = snd (query O origins static s n t).
Proof.
  intros Hk Hn. unfold query.
  destruct (negb (in_catalog origins (lower_name n))); [reflexivity|].
  destruct (t =? T_SOA); [reflexivity|]. destruct (t =? T_AXFR); [reflexivity|].
  destruct (t =? T_NS); [reflexivity|].
  destruct (parse_name O origins (lower_name n)) as [[[rest K] o]|] eqn:Ep; [|reflexivity].
  assert (HK : K <> k) by (intros ->; eapply Hn; reflexivity).
  assert (R : snd (resolve O (fst (put O s k b)) K rest t) = snd (resolve O s K rest t)).
  { destruct (N.eq_dec (snd (put O s k b)) 0) as [E|E].
    - destruct (put_accepted_state _ _ _ _ E) as (sig & ts & pay & plen & -> & V & ->).
      apply resolve_frame; [exact Hk| |].
      + rewrite insert_store, upsert_store. cbn [C37.key].
        destruct (N.eqb_spec k K); [congruence|reflexivity].
      + unfold C37.insert. destruct (C37.upsert (C37.store s) _) as [st' []]; cbn [fst C37.cache]; [|reflexivity].
        rewrite tget_tdel. cbn [C37.key]. destruct (N.eqb_spec k K); [congruence|reflexivity].
    - now rewrite (put_rejected_same _ _ _ _ E). }
  destruct (resolve O (fst (put O s k b)) K rest t) as [s1 r1], (resolve O s K rest t) as [s2 r2].
  cbn [snd] in R. subst r2. destruct r1 as [[[setname recs]|]|e|]; try reflexivity.
  destruct (z32 O K); reflexivity.
Qed.

Lemma inv_keyed O s hist : Inv O s hist -> keyed s.
Proof. intros I k p E. eapply legit_key, (inv_store _ _ _ I). exact E. Qed.

Lemma reachable_keyed O origins static ops : keyed (final O origins static ops).
Proof.
  eapply inv_keyed. apply (run_inv O origins static ops C37.init [] (inv_init O)).
Qed.

(* ---------- non-vacuity / witnesses ---------- *)
Definition zA : label := str_bytes "kkkk".
Definition zB : label := str_bytes "bbbb".
Definition lbl (s : string) : label := str_bytes s.
Definition envX : env :=
  mkEnv [[lbl "dns"; lbl "test"]]
        [(0, zA); (1, zB)]
        [(0, (true, Some [mkRR [lbl "_iroh"; zA] 16 30 [1;97];
                          mkRR [lbl "_iroh"; zB] 16 30 [1;98];        (* other key's zone: dropped *)
                          mkRR [zA] 6 30 [9];                          (* SOA: dropped *)
                          mkRR [lbl "_IROH"; str_bytes "KKKK"] 16 60 [1;99]])); (* upper case: kept *)
         (1, (true, Some [mkRR [lbl "_iroh"; zB] 16 30 [1;100]]))]
        [(0, (0, 1, 0)); (1, (1, 1, 1))]
        [mkRR [lbl "dns"; lbl "test"] 6 1209600 [7]].

Definition qA := [lbl "_iroh"; zA; lbl "dns"; lbl "test"].
Definition qB := [lbl "_iroh"; zB; lbl "dns"; lbl "test"].

Example ex_serve_only_signed_zone :
  model (envX, [Put 0 (Full 0 1 0 80); Query qA 16; Query qB 16;
                Put 1 (Full 0 1 0 80);            (* key 0's packet replayed under key 1: signature fails *)
                Query qB 16;
                Put 1 (Full 1 1 1 60); Query qB 16; Query qA 16])
  = Ok [OPut 0;
        OAns 0 [mkRR qA 16 30 [1;97]; mkRR qA 16 60 [1;99]];
        OAns 3 [];
        OPut 4;
        OAns 3 [];
        OPut 0;
        OAns 0 [mkRR qB 16 30 [1;100]];
        OAns 0 [mkRR qA 16 30 [1;97]; mkRR qA 16 60 [1;99]]].
Proof. vm_compute. reflexivity. Qed.

(* the monitor can fail: serving key 1's zone from a packet only key 0 signed is rejected *)
Example ex_monitor_rejects :
  monitor (envX, [Put 0 (Full 0 1 0 80); Put 1 (Full 0 1 0 80); Query qB 16])
          (Ok [OPut 0; OPut 4; OAns 0 [mkRR qB 16 30 [1;98]]]) = false /\
  monitor (envX, [Put 0 (Full 0 1 0 80); Put 1 (Full 0 1 0 80); Query qB 16])
          (Ok [OPut 0; OPut 0; OAns 3 []]) = false.
Proof. split; vm_compute; reflexivity. Qed.

(* direct store resolve: a packet whose ONLY record is an NS record under the signer's zone is accepted,
   but the store hands out nothing for (name, NS); a single TXT record is handed out *)
Definition envY : env :=
  mkEnv [[lbl "dns"; lbl "test"]]
        [(0, zA); (1, zB)]
        [(0, (true, Some [mkRR [lbl "sub"; zA] 2 30 [9]]));
         (1, (true, Some [mkRR [lbl "sub"; zB] 16 30 [1;100]]))]
        [(0, (0, 1, 0)); (1, (1, 1, 1))]
        [mkRR [lbl "dns"; lbl "test"] 6 1209600 [7]].

Example ex_single_ns_record_not_served :
  model (envY, [Put 0 (Full 0 1 0 40); Resolve 0 [lbl "sub"] 2; Resolve 0 [lbl "SUB"] 16;
                Put 1 (Full 1 1 1 40); Resolve 1 [lbl "SUB"] 16; Resolve 1 [lbl "sub"] 2])
  = Ok [OPut 0; ORes 1 []; ORes 1 []; OPut 0; ORes 0 [mkRR [lbl "sub"] 16 30 [1;100]]; ORes 1 []].
Proof. vm_compute. reflexivity. Qed.

(* ... and the monitor rejects a store that hands the NS record out *)
Example ex_monitor_rejects_served_ns :
  monitor (envY, [Put 0 (Full 0 1 0 40); Resolve 0 [lbl "sub"] 2])
          (Ok [OPut 0; ORes 0 [mkRR [lbl "sub"] 2 30 [9]]]) = false /\
  monitor (envY, [Put 1 (Full 1 1 1 40); Resolve 1 [lbl "sub"] 16])
          (Ok [OPut 0; ORes 0 [mkRR [lbl "sub"] 16 30 [1;100]]]) = true.
Proof. split; vm_compute; reflexivity. Qed.
